#!/usr/bin/env python3
"""Writes MANIFEST.json from props/*.json (run after editing a props file)."""
import json, os, sys
sys.path.insert(0, os.path.dirname(os.path.abspath(__file__)))
import props
VERIF = props.VERIF
ALL = ["C%02d" % i for i in range(1, 21)]
BASELINE = json.load(open("/root/.vp/BASELINE.json"))["cmd"] if os.path.exists("/root/.vp/BASELINE.json") else ""
checks = []
for pid in ALL:
    p = props.PROPS.get(pid)
    if not p or p.get("disabled"):
        continue
    checks.append({
        "property_id": pid,
        "quick_cmd": "./check %s --tier quick" % pid,
        "thorough_cmd": "./check %s --tier thorough" % pid,
        "evidence_file": "/verif/evidence/%s.json" % pid,
        "replay_cmd_template": "./check %s --replay {path}" % pid,
        "engine": "coq-proof+correspondence",
        "level_claimed": {"category": "proof", "text": p.get("level_text", ""), "design_ref": "DESIGN.md section 5, " + pid},
        "level_note": p.get("level_note", ""),
        "technique": p.get("technique", "machine-checked proof in Coq 8.16.1 about an executable Gallina model, tied to the code by a per-run differential correspondence check and regenerated tables"),
    })
na = []
for pid in ALL:
    p = props.PROPS.get(pid)
    if not p or p.get("disabled"):
        na.append({"property_id": pid, "reason": (p or {}).get("disabled", "check not built yet in this commit (see DESIGN.md section 8a for the order of work); the technique applies")})
m = {
    "version": 1,
    "setup_cmd": "./check --setup",
    "hooks": {
        "guard": "verif",
        "enable": "go build -tags verif (the correspondence drivers in /verif/harness are built with it against /repo via a replace directive)",
        "baseline_off_cmd": "cd /repo && GOFLAGS=-mod=mod go test -vet=off -count=1 ./...",
        "source_commits": json.load(open(os.path.join(VERIF, "hooks.json"))) if os.path.exists(os.path.join(VERIF, "hooks.json")) else [],
        "add_only": True,
    },
    "engines": [{"name": "coq-proof+correspondence", "path": "/verif/check",
                 "serves_properties": [c["property_id"] for c in checks],
                 "kind_free_text": "Coq 8.16.1 theorems over executable models (coq/theories), extracted to OCaml (model/), Go correspondence drivers and monitors (harness/), Go translator for tables (gen/), orchestration lib/runner.py"}],
    "checks": checks,
    "not_applicable": na,
    "notes": "All checks: ./check Cxx --tier quick|thorough. Known findings: KNOWN_FINDINGS.txt. Seeded changes used to test the checks: seeded/.",
}
json.dump(m, open(os.path.join(VERIF, "MANIFEST.json"), "w"), indent=1)
print("MANIFEST.json: %d checks, %d not claimed" % (len(checks), len(na)))

"""Property table: one JSON file per property under /verif/props/."""
import glob, json, os

VERIF = os.path.dirname(os.path.dirname(os.path.abspath(__file__)))
PROPS = {}
for f in sorted(glob.glob(os.path.join(VERIF, "props", "C*.json"))):
    d = json.load(open(f))
    PROPS[d["id"]] = d

COMMON_TRUSTED = [
    "Coq 8.16.1 kernel and coqc (vm_compute used in finite-domain lemmas; native_compute not used)",
    "extraction (ExtrOcamlBasic only, no Extract Constant) + OCaml 4.13.1 + model/*.ml glue",
    "Go correspondence drivers, monitors and the line diff (harness/, lib/runner.py)",
    "translator gen/ (Generated/*.v)",
    "Go toolchain and runtime",
]
COMMON_ASSUMPTIONS = [
    "the theorems are about the Gallina models; the tie to /repo is the per-run correspondence run and the regenerated tables",
]

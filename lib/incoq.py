"""In-Coq evaluation of a sample of the correspondence histories.

The line-by-line correspondence check runs the EXTRACTED model (OCaml).  That
leaves extraction and the OCaml glue in the trusted base.  This module closes
that gap for the numeric core components: it rewrites a sample of the
histories of a driver's trace (the operations AND the observables that the
implementation produced) as a Coq file, and one `coqc` call evaluates the
Gallina model itself on them with `vm_compute`, returning for every history
the index of the first operation on which the model's output differs from the
implementation's (None if there is none).  Nothing is extracted, nothing is
parsed by OCaml; the comparison happens inside Coq on the very definitions the
theorems are about.

Supported components: pmap (Model.PacketMap.step, TestSupport.pm_shift),
cache (Model.Cache.step), rewrite (Model.Rewrite.rewrite), tobitmap
(Model.Cache.to_bitmap).
"""
import os, re, subprocess, time


def _z(s):
    v = int(s)
    return "(%d)" % v if v < 0 else "%d" % v


def _b(s):
    return "true" if s in ("1", "true") else "false"


def _bytes(h):
    if h == "-" or h == "":
        return "[]"
    return "[" + ";".join(str(int(h[i:i + 2], 16)) for i in range(0, len(h), 2)) + "]"


PRELUDE = {
    "pmap": """From Coq Require Import ZArith List Bool.
From Galene Require Import Model.PacketMap Model.TestSupport.
Import ListNotations. Open Scope Z_scope.
Inductive xop := XOp (o : op) (e : out) | XShift (dk dp : Z) (ok : bool).
Definition out_eqb (a b : out) : bool :=
  match a, b with
  | RTriple o1 s1 p1, RTriple o2 s2 p2 => Bool.eqb o1 o2 && (s1 =? s2) && (p1 =? p2)
  | RBool x, RBool y => Bool.eqb x y
  | _, _ => false
  end.
Fixpoint runx (m : pmap) (l : list xop) (i : Z) : option Z :=
  match l with
  | [] => None
  | XOp o e :: l' => let '(m', r) := step m o in if out_eqb r e then runx m' l' (i + 1) else Some i
  | XShift dk dp ok :: l' =>
      let '(ok', m') := pm_shift m dk dp in if Bool.eqb ok ok' then runx m' l' (i + 1) else Some i
  end.
Definition run_case (c : list xop) : option Z := runx pm_init c 0.
""",
    "cache": """From Coq Require Import ZArith List Bool.
From Galene Require Import Model.Cache.
Import ListNotations. Open Scope Z_scope.
Fixpoint zl_eqb (a b : list Z) : bool :=
  match a, b with
  | [], [] => true
  | x :: a', y :: b' => (x =? y) && zl_eqb a' b'
  | _, _ => false
  end.
Definition out_eqb (a b : out) : bool :=
  match a, b with
  | RStore f1 i1, RStore f2 i2 => (f1 =? f2) && (i1 =? i2)
  | RGet n1 b1, RGet n2 b2 => (n1 =? n2) && zl_eqb b1 b2
  | RUnit, RUnit => true
  | RBool x, RBool y => Bool.eqb x y
  | RSeqOk s1 o1, RSeqOk s2 o2 => (s1 =? s2) && Bool.eqb o1 o2
  | RBitmap f1 a1 m1, RBitmap f2 a2 m2 => Bool.eqb f1 f2 && (a1 =? a2) && (m1 =? m2)
  | RStats s1, RStats s2 =>
      (s_received s1 =? s_received s2) && (s_totalReceived s1 =? s_totalReceived s2) &&
      (s_expected s1 =? s_expected s2) && (s_totalExpected s1 =? s_totalExpected s2) &&
      (s_eseqno s1 =? s_eseqno s2)
  | _, _ => false
  end.
Fixpoint runx (c : cache) (l : list (op * out)) (i : Z) : option Z :=
  match l with
  | [] => None
  | (o, e) :: l' => let '(c', r) := step c o in if out_eqb r e then runx c' l' (i + 1) else Some i
  end.
Definition run_case (c : Z * list (op * out)) : option Z := runx (new_cache (fst c)) (snd c) 0.
""",
    "rewrite": """From Coq Require Import ZArith List Bool.
From Galene Require Import Model.Rewrite.
Import ListNotations. Open Scope Z_scope.
Fixpoint zl_eqb (a b : list Z) : bool :=
  match a, b with
  | [], [] => true
  | x :: a', y :: b' => (x =? y) && zl_eqb a' b'
  | _, _ => false
  end.
Definition res_eqb (a b : rres) : bool :=
  match a, b with
  | ROk x, ROk y => zl_eqb x y
  | RErr, RErr => true
  | RPanic, RPanic => true
  | _, _ => false
  end.
Record rw := RW { rw_vp8 : bool; rw_data : list Z; rw_sm : bool; rw_seq : Z; rw_delta : Z; rw_exp : rres }.
Fixpoint runx (l : list rw) (i : Z) : option Z :=
  match l with
  | [] => None
  | c :: l' =>
      if res_eqb (rewrite (rw_vp8 c) (rw_data c) (rw_sm c) (rw_seq c) (rw_delta c)) (rw_exp c)
      then runx l' (i + 1) else Some i
  end.
Definition run_case (c : list rw) : option Z := runx c 0.
""",
}


def _pmap_ops(lines):
    out = []
    for ln in lines:
        lhs, obs = ln.split(" => ", 1)
        t = lhs.split(" ")
        o = obs.split(" ")
        if t[0] == "map":
            out.append("XOp (OMap %s %s) (RTriple %s %s %s)" % (_z(t[1]), _z(t[2]), _b(o[0]), _z(o[1]), _z(o[2])))
        elif t[0] == "drop":
            out.append("XOp (ODrop %s %s) (RBool %s)" % (_z(t[1]), _z(t[2]), _b(o[0])))
        elif t[0] == "reverse":
            out.append("XOp (OReverse %s) (RTriple %s %s %s)" % (_z(t[1]), _b(o[0]), _z(o[1]), _z(o[2])))
        elif t[0] == "shift":
            out.append("XShift %s %s %s" % (_z(t[1]), _z(t[2]), _b(o[0])))
        elif t[0] == "dump":
            continue
        else:
            return None
    return "[" + ";\n ".join(out) + "]"


def _cache_ops(lines, params):
    out = []
    for ln in lines:
        lhs, obs = ln.split(" => ", 1)
        t = lhs.split(" ")
        o = obs.split(" ")
        k = t[0]
        if k == "store":
            out.append("(OStore %s %s %s %s %s, RStore %s %s)" % (_z(t[1]), _z(t[2]), _b(t[3]), _b(t[4]), _bytes(t[5]), _z(o[0]), _z(o[1])))
        elif k == "get":
            out.append("(OGet %s, RGet %s %s)" % (_z(t[1]), _z(o[0]), _bytes(o[1] if len(o) > 1 else "-")))
        elif k == "getat":
            out.append("(OGetAt %s %s, RGet %s %s)" % (_z(t[1]), _z(t[2]), _z(o[0]), _bytes(o[1] if len(o) > 1 else "-")))
        elif k == "resize":
            out.append("(OResize %s, RUnit)" % _z(t[1]))
        elif k == "resizecond":
            out.append("(OResizeCond %s, RBool %s)" % (_z(t[1]), _b(o[0])))
        elif k == "last":
            out.append("(OLast, RSeqOk %s %s)" % (_z(o[0]), _b(o[1])))
        elif k == "keyframe":
            out.append("(OKeyframe, RSeqOk %s %s)" % (_z(o[0]), _b(o[1])))
        elif k == "bitmapget":
            out.append("(OBitmapGet %s, RBitmap %s %s %s)" % (_z(t[1]), _b(o[0]), _z(o[1]), _z(o[2])))
        elif k == "expect":
            out.append("(OExpect %s, RUnit)" % _z(t[1]))
        elif k == "getstats":
            out.append("(OGetStats %s, RStats (mkStats %s %s %s %s %s))" % ((_b(t[1]),) + tuple(_z(x) for x in o[:5])))
        elif k == "dump":
            continue
        else:
            return None
    return "(%s, [%s])" % (_z(params[0]), ";\n ".join(out))


def _rewrite_ops(lines):
    out = []
    for ln in lines:
        lhs, obs = ln.split(" => ", 1)
        t = lhs.split(" ")
        if t[0] != "rewrite":
            return None
        exp = "RErr" if obs == "err" else ("RPanic" if obs == "PANIC" else "ROk " + _bytes(obs))
        out.append("RW %s %s %s %s %s (%s)" % (_b(t[1]), _bytes(t[2]), _b(t[3]), _z(t[4]), _z(t[5]), exp))
    return "[" + ";\n ".join(out) + "]"


def histories(trace):
    cur = None
    with open(trace) as f:
        for line in f:
            line = line.rstrip("\n")
            if line.startswith("H "):
                if cur:
                    yield cur
                cur = (line, [])
            elif cur is not None and " => " in line:
                cur[1].append(line)
    if cur:
        yield cur


def stats_ctor(theories):
    """The constructor name of Model.Cache.stats (so that the generated file
    follows a renaming instead of failing)."""
    src = open(os.path.join(theories, "Model", "Cache.v")).read()
    m = re.search(r"Record\s+stats\s*:=\s*(\w+)\s*\{", src)
    return m.group(1) if m else "mkStats"


def cross_check(component, trace, coqdir, workdir, max_hist=60, max_ops=400, max_total=6000, timeout=900):
    """Returns dict(ran, histories, ops, mismatches=[(history line, op index)], error, wall_s)."""
    t0 = time.time()
    res = {"component": component, "ran": False, "histories": 0, "ops": 0, "mismatches": [], "error": None}
    if component not in PRELUDE:
        res["error"] = "no in-Coq evaluator for component " + component
        return res
    theories = os.path.join(coqdir, "theories")
    cases, names = [], []
    total = 0
    # prefer variety: take histories round-robin over stream names
    by_stream = {}
    for h, lines in histories(trace):
        t = h.split(" ")
        if t[1] != component or not lines or len(lines) > max_ops:
            continue
        by_stream.setdefault(t[3], []).append((h, lines))
    order = []
    streams = sorted(by_stream)
    i = 0
    while len(order) < max_hist and any(by_stream[s] for s in streams):
        s = streams[i % len(streams)]
        if by_stream[s]:
            order.append(by_stream[s].pop(0))
        i += 1
    for h, lines in order:
        if total + len(lines) > max_total:
            continue
        t = h.split(" ")
        if component == "pmap":
            c = _pmap_ops(lines)
        elif component == "cache":
            c = _cache_ops(lines, t[4:])
        else:
            c = _rewrite_ops(lines)
        if c is None:
            continue
        cases.append(c); names.append(h); total += len(lines)
    if not cases:
        res["error"] = "no history of component %s small enough to evaluate inside Coq" % component
        return res
    pre = PRELUDE[component]
    if component == "cache":
        pre = pre  # constructor name resolved below
    src = pre + "Definition cases :=\n [" + ";\n\n ".join(cases) + "].\n" \
        "Definition M := Eval vm_compute in map run_case cases.\nPrint M.\n"
    if component == "cache":
        src = src.replace("mkStats", stats_ctor(theories))
    os.makedirs(workdir, exist_ok=True)
    path = os.path.join(workdir, "Cases_%s.v" % component)
    with open(path, "w") as f:
        f.write(src)
    p = subprocess.run(["coqc", "-Q", theories, "Galene", "-w", "-notation-overridden", path],
                       cwd=workdir, stdout=subprocess.PIPE, stderr=subprocess.STDOUT, timeout=timeout)
    out = p.stdout.decode("utf-8", "replace")
    res["wall_s"] = round(time.time() - t0, 1)
    if p.returncode != 0:
        res["error"] = "coqc failed on the generated cases file: " + out[-800:]
        return res
    m = re.search(r"M\s*=\s*\[(.*?)\]\s*:\s*list \(option Z\)", out, re.S)
    if not m:
        res["error"] = "cannot read the result of the evaluation: " + out[-400:]
        return res
    vals = [v.strip() for v in m.group(1).replace("\n", " ").split(";")]
    if len(vals) != len(cases):
        res["error"] = "evaluated %d cases, expected %d" % (len(vals), len(cases))
        return res
    res["ran"] = True
    res["histories"] = len(cases)
    res["ops"] = total
    for h, v in zip(names, vals):
        if v != "None":
            mm = re.search(r"Some\s+\(?(-?\d+)", v)
            res["mismatches"].append((h, int(mm.group(1)) if mm else -1))
    return res

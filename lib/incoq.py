"""In-Coq evaluation of a sample of the correspondence histories.

The line-by-line correspondence check runs the EXTRACTED model (OCaml).  That
leaves extraction and the OCaml glue in the trusted base.  This module closes
that gap for the numeric core components: it rewrites a sample of the
histories of a driver's trace (the operations AND the observables that the
implementation produced) as a Coq file, and one `coqc` call evaluates the
Gallina model itself on them with `vm_compute`, returning for every history
the index of the first operation on which the model's output differs from the
implementation's (None if there is none).  Nothing is extracted, nothing is
parsed by OCaml; the comparison happens inside Coq on the very definitions the
theorems are about.

Supported components: pmap (Model.PacketMap.step, TestSupport.pm_shift),
cache (Model.Cache.step), rewrite (Model.Rewrite.rewrite), and (second part of
this file) keyframe (Model.Keyframe.keyframe / packet_flags_header /
keyframe_dimensions, with the depacketiser oracle of the trace), flags
(Model.Flags.packet_flags), loss (Model.Loss.lstep, nack_writer), lossfn
(Model.Loss.nack_list_to_pairs, rr_stats), etag (Model.Etag.scan_etag,
etag_match, check_preconditions), sdpfrag (Model.SdpFrag.unmarshal), history
(Model.History.step).

For the components of the second part the specification of the trace syntax
and of the projection of the model's result is the OCaml glue
model/comp_<name>.ml; the generated prelude restates that projection in
Gallina (a boolean comparison of the model's result with the observable of
the implementation, field by field).  The observable of the implementation is
parsed STRICTLY: a token that the glue could not have printed (PANIC where
the model has no panic outcome, a malformed number, upper-case hex ...) makes
the operation a mismatch (constructor XBad), never a skip.  Stateless
components may be sampled operation by operation (an operation that is too
large is XSkip, a history may be cut to a prefix); a stateful history is
evaluated from its first operation or not at all.  The index reported for a
mismatch is the 0-based index of the operation line in its history.
"""
import os, re, subprocess, time


def _z(s):
    v = int(s)
    return "(%d)" % v if v < 0 else "%d" % v


def _b(s):
    return "true" if s in ("1", "true") else "false"


def _bytes(h):
    if h == "-" or h == "":
        return "[]"
    return "[" + ";".join(str(int(h[i:i + 2], 16)) for i in range(0, len(h), 2)) + "]"


PRELUDE = {
    "pmap": """From Coq Require Import ZArith List Bool.
From Galene Require Import Model.PacketMap Model.TestSupport.
Import ListNotations. Open Scope Z_scope.
Inductive xop := XOp (o : op) (e : out) | XShift (dk dp : Z) (ok : bool).
Definition out_eqb (a b : out) : bool :=
  match a, b with
  | RTriple o1 s1 p1, RTriple o2 s2 p2 => Bool.eqb o1 o2 && (s1 =? s2) && (p1 =? p2)
  | RBool x, RBool y => Bool.eqb x y
  | _, _ => false
  end.
Fixpoint runx (m : pmap) (l : list xop) (i : Z) : option Z :=
  match l with
  | [] => None
  | XOp o e :: l' => let '(m', r) := step m o in if out_eqb r e then runx m' l' (i + 1) else Some i
  | XShift dk dp ok :: l' =>
      let '(ok', m') := pm_shift m dk dp in if Bool.eqb ok ok' then runx m' l' (i + 1) else Some i
  end.
Definition run_case (c : list xop) : option Z := runx pm_init c 0.
""",
    "cache": """From Coq Require Import ZArith List Bool.
From Galene Require Import Model.Cache.
Import ListNotations. Open Scope Z_scope.
Fixpoint zl_eqb (a b : list Z) : bool :=
  match a, b with
  | [], [] => true
  | x :: a', y :: b' => (x =? y) && zl_eqb a' b'
  | _, _ => false
  end.
Definition out_eqb (a b : out) : bool :=
  match a, b with
  | RStore f1 i1, RStore f2 i2 => (f1 =? f2) && (i1 =? i2)
  | RGet n1 b1, RGet n2 b2 => (n1 =? n2) && zl_eqb b1 b2
  | RUnit, RUnit => true
  | RBool x, RBool y => Bool.eqb x y
  | RSeqOk s1 o1, RSeqOk s2 o2 => (s1 =? s2) && Bool.eqb o1 o2
  | RBitmap f1 a1 m1, RBitmap f2 a2 m2 => Bool.eqb f1 f2 && (a1 =? a2) && (m1 =? m2)
  | RStats s1, RStats s2 =>
      (s_received s1 =? s_received s2) && (s_totalReceived s1 =? s_totalReceived s2) &&
      (s_expected s1 =? s_expected s2) && (s_totalExpected s1 =? s_totalExpected s2) &&
      (s_eseqno s1 =? s_eseqno s2)
  | _, _ => false
  end.
Fixpoint runx (c : cache) (l : list (op * out)) (i : Z) : option Z :=
  match l with
  | [] => None
  | (o, e) :: l' => let '(c', r) := step c o in if out_eqb r e then runx c' l' (i + 1) else Some i
  end.
Definition run_case (c : Z * list (op * out)) : option Z := runx (new_cache (fst c)) (snd c) 0.
""",
    "rewrite": """From Coq Require Import ZArith List Bool.
From Galene Require Import Model.Rewrite.
Import ListNotations. Open Scope Z_scope.
Fixpoint zl_eqb (a b : list Z) : bool :=
  match a, b with
  | [], [] => true
  | x :: a', y :: b' => (x =? y) && zl_eqb a' b'
  | _, _ => false
  end.
Definition res_eqb (a b : rres) : bool :=
  match a, b with
  | ROk x, ROk y => zl_eqb x y
  | RErr, RErr => true
  | RPanic, RPanic => true
  | _, _ => false
  end.
Record rw := RW { rw_vp8 : bool; rw_data : list Z; rw_sm : bool; rw_seq : Z; rw_delta : Z; rw_exp : rres }.
Fixpoint runx (l : list rw) (i : Z) : option Z :=
  match l with
  | [] => None
  | c :: l' =>
      if res_eqb (rewrite (rw_vp8 c) (rw_data c) (rw_sm c) (rw_seq c) (rw_delta c)) (rw_exp c)
      then runx l' (i + 1) else Some i
  end.
Definition run_case (c : list rw) : option Z := runx c 0.
""",
}


def _pmap_ops(lines):
    out = []
    for ln in lines:
        lhs, obs = ln.split(" => ", 1)
        t = lhs.split(" ")
        o = obs.split(" ")
        if t[0] == "map":
            out.append("XOp (OMap %s %s) (RTriple %s %s %s)" % (_z(t[1]), _z(t[2]), _b(o[0]), _z(o[1]), _z(o[2])))
        elif t[0] == "drop":
            out.append("XOp (ODrop %s %s) (RBool %s)" % (_z(t[1]), _z(t[2]), _b(o[0])))
        elif t[0] == "reverse":
            out.append("XOp (OReverse %s) (RTriple %s %s %s)" % (_z(t[1]), _b(o[0]), _z(o[1]), _z(o[2])))
        elif t[0] == "shift":
            out.append("XShift %s %s %s" % (_z(t[1]), _z(t[2]), _b(o[0])))
        elif t[0] == "dump":
            continue
        else:
            return None
    return "[" + ";\n ".join(out) + "]"


def _cache_ops(lines, params):
    out = []
    for ln in lines:
        lhs, obs = ln.split(" => ", 1)
        t = lhs.split(" ")
        o = obs.split(" ")
        k = t[0]
        if k == "store":
            out.append("(OStore %s %s %s %s %s, RStore %s %s)" % (_z(t[1]), _z(t[2]), _b(t[3]), _b(t[4]), _bytes(t[5]), _z(o[0]), _z(o[1])))
        elif k == "get":
            out.append("(OGet %s, RGet %s %s)" % (_z(t[1]), _z(o[0]), _bytes(o[1] if len(o) > 1 else "-")))
        elif k == "getat":
            out.append("(OGetAt %s %s, RGet %s %s)" % (_z(t[1]), _z(t[2]), _z(o[0]), _bytes(o[1] if len(o) > 1 else "-")))
        elif k == "resize":
            out.append("(OResize %s, RUnit)" % _z(t[1]))
        elif k == "resizecond":
            out.append("(OResizeCond %s, RBool %s)" % (_z(t[1]), _b(o[0])))
        elif k == "last":
            out.append("(OLast, RSeqOk %s %s)" % (_z(o[0]), _b(o[1])))
        elif k == "keyframe":
            out.append("(OKeyframe, RSeqOk %s %s)" % (_z(o[0]), _b(o[1])))
        elif k == "bitmapget":
            out.append("(OBitmapGet %s, RBitmap %s %s %s)" % (_z(t[1]), _b(o[0]), _z(o[1]), _z(o[2])))
        elif k == "expect":
            out.append("(OExpect %s, RUnit)" % _z(t[1]))
        elif k == "getstats":
            out.append("(OGetStats %s, RStats (mkStats %s %s %s %s %s))" % ((_b(t[1]),) + tuple(_z(x) for x in o[:5])))
        elif k == "dump":
            continue
        else:
            return None
    return "(%s, [%s])" % (_z(params[0]), ";\n ".join(out))


def _rewrite_ops(lines):
    out = []
    for ln in lines:
        lhs, obs = ln.split(" => ", 1)
        t = lhs.split(" ")
        if t[0] != "rewrite":
            return None
        exp = "RErr" if obs == "err" else ("RPanic" if obs == "PANIC" else "ROk " + _bytes(obs))
        out.append("RW %s %s %s %s %s (%s)" % (_b(t[1]), _bytes(t[2]), _b(t[3]), _z(t[4]), _z(t[5]), exp))
    return "[" + ";\n ".join(out) + "]"


# ======================================================================
# second part: keyframe, flags, loss, lossfn, etag, sdpfrag, history
#
# The trace syntax and the projection of the model's result are those of
# model/comp_<name>.ml.  Every operation becomes one Coq definition (a single
# huge term is slow to parse and to elaborate); byte strings are written as
# chunks `(a::b::..::nil)` of at most 50 elements joined by ++, a run of at
# least 64 equal bytes as `repeat b (Z.to_nat n)`.

class _Bad(Exception):
    """The observable of the implementation is not something the glue prints
    for any result of the model: the operation is a mismatch."""


class _Skip(Exception):
    """The operation line is not something the glue accepts (it would answer
    MODEL-ERROR, which the line-by-line comparison reports)."""


_INT = re.compile(r"-?(0|[1-9][0-9]*)\Z")
_AINT = re.compile(r"-?[0-9]+\Z")
_HEX = re.compile(r"([0-9a-f][0-9a-f])+\Z")
_AHEX = re.compile(r"([0-9a-fA-F][0-9a-fA-F])+\Z")


def _oz(s):
    """a number of an observable, exactly as Util.zs prints it"""
    if not _INT.match(s) or s == "-0":
        raise _Bad(s)
    return _z(s)


def _ob(s):
    """a bool of an observable, exactly as Util.bs prints it"""
    if s == "1":
        return "true"
    if s == "0":
        return "false"
    raise _Bad(s)


def _ohex(s):
    """the bytes of an observable, exactly as Util.hex_of_bytes prints them"""
    if s == "-":
        return b""
    if not _HEX.match(s):
        raise _Bad(s)
    return bytes.fromhex(s)


def _otoks(obs, n):
    o = obs.split(" ")
    if len(o) != n:
        raise _Bad(obs)
    return o


def _az(s, big=False):
    """a number argument (Util.z = int_of_string on decimal digits; big: the
    digit-by-digit conversion of comp_history.ml)"""
    if not _AINT.match(s):
        raise _Skip(s)
    if not big and abs(int(s)) >= 2 ** 62:
        raise _Skip(s)
    return _z(s)


def _ab(s):
    if s == "1":
        return "true"
    if s == "0":
        return "false"
    raise _Skip(s)


def _ahex(s):
    if s == "-":
        return b""
    if not _AHEX.match(s):
        raise _Skip(s)
    return bytes.fromhex(s)


class _Cx:
    """Renders lists and keeps the cost (about one unit per list element
    written out) of what has been rendered."""

    def __init__(self):
        self.cost = 0

    def zl(self, ints):
        """a list of Z given as Python ints"""
        parts, lit = [], []

        def flush():
            for i in range(0, len(lit), 50):
                parts.append("(" + "::".join(lit[i:i + 50]) + "::nil)")
            del lit[:]
        i, n = 0, len(ints)
        while i < n:
            j = i + 1
            while j < n and ints[j] == ints[i]:
                j += 1
            if j - i >= 64:
                flush()
                parts.append("repeat %s (Z.to_nat %d)" % (_z(str(ints[i])), j - i))
                self.cost += 10 + (j - i) // 1000
            else:
                lit.extend(_z(str(x)) for x in ints[i:j])
                self.cost += j - i
            i = j
        flush()
        self.cost += 1
        if not parts:
            return "nil"
        if len(parts) == 1 and parts[0][0] == "(":
            return parts[0]
        return "(" + " ++ ".join(parts) + ")"

    def bl(self, data):
        """a byte string (Python bytes) as a list Z"""
        return self.zl(list(data))

    def obl(self, data):
        return "None" if data is None else "(Some %s)" % self.bl(data)


def _azlist(cx, s):
    """Util.zlist"""
    if s == "-":
        return cx.zl([])
    xs = s.split(",")
    for x in xs:
        _az(x)
    return cx.zl([int(x) for x in xs])


_COMMON = """Fixpoint zl_eqb (a b : list Z) : bool :=
  match a, b with
  | [], [] => true
  | x :: a', y :: b' => (x =? y) && zl_eqb a' b'
  | _, _ => false
  end.
Definition opt_eqb {A} (eq : A -> A -> bool) (a b : option A) : bool :=
  match a, b with
  | Some x, Some y => eq x y
  | None, None => true
  | _, _ => false
  end.
Fixpoint list_eqb {A} (eq : A -> A -> bool) (a b : list A) : bool :=
  match a, b with
  | [], [] => true
  | x :: a', y :: b' => eq x y && list_eqb eq a' b'
  | _, _ => false
  end.
Definition zz_eqb (a b : Z * Z) : bool := (fst a =? fst b) && (snd a =? snd b).
(* the decoder self-test: the two spellings of a byte string used below *)
Definition selftest : bool :=
  zl_eqb ((0::255::nil) ++ repeat 7 (Z.to_nat 3) ++ ((-1)::nil)) [0; 255; 7; 7; 7; -1].
"""

# a stateless component: every operation is checked on its own
_STATELESS_RUN = """Fixpoint runx (l : list xop) (i : Z) : option Z :=
  match l with
  | [] => None
  | o :: l' => if ok1 o then runx l' (i + 1) else Some i
  end.
Definition run_case (c : list xop) : option Z := runx c 0.
"""

_HDR = "From Coq Require Import ZArith List Bool.\n%s\nImport ListNotations. Open Scope Z_scope.\n" + _COMMON

PRELUDE["keyframe"] = _HDR % "From Galene Require Import Model.Keyframe." + """
(* model/comp_keyframe.ml: keyframe => <kf> <known> | PANIC | FUEL; flags => T |
   <seqno> <marker> | PANIC | FUEL; dims => <w> <h> | PANIC | FUEL; the
   expected value [e] is the implementation's observable read back as a value
   of the model's result type; [d] is the depacketiser oracle of the trace *)
Inductive xop :=
| XKf (name data : list Z) (d : depack) (e : outcome (bool * bool))
| XFl (data : list Z) (e : outcome (option (Z * bool)))
| XDm (name : list Z) (d : depack) (e : outcome (Z * Z))
| XSkip | XBad.
Definition oc_eqb {A} (eq : A -> A -> bool) (a b : outcome A) : bool :=
  match a, b with
  | Ok x, Ok y => eq x y
  | Panic, Panic => true
  | OutOfFuel, OutOfFuel => true
  | _, _ => false
  end.
Definition bb_eqb (a b : bool * bool) : bool := Bool.eqb (fst a) (fst b) && Bool.eqb (snd a) (snd b).
Definition zb_eqb (a b : Z * bool) : bool := (fst a =? fst b) && Bool.eqb (snd a) (snd b).
Definition ok1 (o : xop) : bool :=
  match o with
  | XKf n p d e => oc_eqb bb_eqb (keyframe n p d) e
  | XFl p e => oc_eqb (opt_eqb zb_eqb) (packet_flags_header p) e
  | XDm n d e => oc_eqb zz_eqb (keyframe_dimensions n d) e
  | XSkip => true
  | XBad => false
  end.
""" + _STATELESS_RUN

PRELUDE["flags"] = _HDR % "From Galene Require Import Model.Layers Model.Flags." + """
(* model/comp_flags.ml: err | unmodelled | the eleven fields of Flags and
   Discardable, in this order *)
Inductive eobs :=
| EErr | EUnm
| EOk (seqno : Z) (marker start end_ kf : bool) (pid tid sid : Z) (tus sus snr disc : bool).
Inductive xop := XF (c : Flags.codec) (data : list Z) (e : eobs) | XSkip | XBad.
Definition ok1 (o : xop) : bool :=
  match o with
  | XF c p e =>
      match Flags.packet_flags c p, e with
      | FErr, EErr => true
      | FUnmodelled, EUnm => true
      | FOk f d, EOk s m st en kf pid tid sid tus sus snr disc =>
          (f_seqno f =? s) && Bool.eqb (f_marker f) m && Bool.eqb (f_start f) st &&
          Bool.eqb (f_end f) en && Bool.eqb (f_keyframe f) kf && (f_pid f =? pid) &&
          (f_tid f =? tid) && (f_sid f =? sid) && Bool.eqb (f_tidUpSync f) tus &&
          Bool.eqb (f_sidUpSync f) sus && Bool.eqb (f_sidNonReference f) snr && Bool.eqb d disc
      | _, _ => false
      end
  | XSkip => true
  | XBad => false
  end.
""" + _STATELESS_RUN

_LOSS_COMMON = """Definition st_eqb (a b : stats) : bool :=
  (s_received a =? s_received b) && (s_totalReceived a =? s_totalReceived b) &&
  (s_expected a =? s_expected b) && (s_totalExpected a =? s_totalExpected b) &&
  (s_eseqno a =? s_eseqno b).
"""

PRELUDE["loss"] = _HDR % "From Galene Require Import Model.Cache Model.Loss." + _LOSS_COMMON + """
(* model/comp_loss.ml, component loss <capacity>: one cache, Loss.lstep and
   Loss.nack_writer.  "-" is LONack None for readloop and LOUnit for expect. *)
Inductive xop := XStep (o : lop) (e : lout) | XNw (l : list Z) (e : list (Z * Z)) | XBad.
Definition lout_eqb (a b : lout) : bool :=
  match a, b with
  | LOStore x, LOStore y => x =? y
  | LOBitmap f1 a1 m1, LOBitmap f2 a2 m2 => Bool.eqb f1 f2 && (a1 =? a2) && (m1 =? m2)
  | LONack x, LONack y => opt_eqb zz_eqb x y
  | LOUnit, LOUnit => true
  | LOStats s1, LOStats s2 => st_eqb s1 s2
  | _, _ => false
  end.
Fixpoint runx (c : cache) (l : list xop) (i : Z) : option Z :=
  match l with
  | [] => None
  | XStep o e :: l' => let '(c', r) := lstep c o in if lout_eqb r e then runx c' l' (i + 1) else Some i
  | XNw nl e :: l' => if list_eqb zz_eqb (nack_writer c nl) e then runx c l' (i + 1) else Some i
  | XBad :: _ => Some i
  end.
Definition run_case (c : Z * list xop) : option Z := runx (new_cache (fst c)) (snd c) 0.
"""

PRELUDE["lossfn"] = _HDR % "From Galene Require Import Model.Cache Model.Loss." + _LOSS_COMMON + """
(* model/comp_loss.ml, component lossfn: tobitmap => the pairs of
   nack_list_to_pairs; rrstats => <fractionLost> <totalLost> <eseqno> *)
Inductive xop :=
| XTb (l : list Z) (e : list (Z * Z))
| XRr (s : stats) (fl tl es : Z)
| XSkip | XBad.
Definition ok1 (o : xop) : bool :=
  match o with
  | XTb l e => list_eqb zz_eqb (nack_list_to_pairs l) e
  | XRr s fl tl es => let '((fl', tl'), es') := rr_stats s in (fl' =? fl) && (tl' =? tl) && (es' =? es)
  | XSkip => true
  | XBad => false
  end.
""" + _STATELESS_RUN

PRELUDE["etag"] = _HDR % "From Galene Require Import Model.Etag." + """
(* model/comp_etag.ml: scan => <etag> <rest>; match => 0 | 1 | OUT-OF-FUEL;
   cp => the pair of cp_obs *)
Inductive xop :=
| XScan (s e r : list Z)
| XMatch (etag header : list Z) (e : option bool)
| XCp (m etag im inm : list Z) (d s : Z)
| XSkip | XBad.
Definition ok1 (o : xop) : bool :=
  match o with
  | XScan s e r => let '(e', r') := scan_etag s in zl_eqb e' e && zl_eqb r' r
  | XMatch t h e => opt_eqb Bool.eqb (etag_match t h) e
  | XCp m t im inm d s => zz_eqb (cp_obs (check_preconditions m t im inm)) (d, s)
  | XSkip => true
  | XBad => false
  end.
""" + _STATELESS_RUN

PRELUDE["sdpfrag"] = _HDR % "From Galene Require Import Model.SdpFrag." + """
(* model/comp_sdpfrag.ml: ok <ufrag> <pwd> <cands> <mds> | err | PANIC with
   cand = candidate:ufrag:mline index:mid and md = mline|mid|ufrag|pwd|cands *)
Definition xcand := (list Z * option (list Z) * option Z * option (list Z))%type.
Definition xmd := (list Z * list Z * list Z * list Z * list xcand)%type.
Inductive eobs := EOk (ufrag pwd : list Z) (cands : list xcand) (mds : list xmd) | EErr | EPanic.
Inductive xop := XU (data : list Z) (e : eobs) | XSkip | XBad.
Definition cand_eqb (c : cand) (x : xcand) : bool :=
  let '(cd, uf, ml, mid) := x in
  zl_eqb (cd_cand c) cd && opt_eqb zl_eqb (cd_ufrag c) uf &&
  opt_eqb Z.eqb (cd_mline c) ml && opt_eqb zl_eqb (cd_mid c) mid.
Fixpoint cands_eqb (a : list cand) (b : list xcand) : bool :=
  match a, b with
  | [], [] => true
  | c :: a', x :: b' => cand_eqb c x && cands_eqb a' b'
  | _, _ => false
  end.
Definition md_eqb (m : md) (x : xmd) : bool :=
  let '(ml, mid, uf, pw, cs) := x in
  zl_eqb (md_mline m) ml && zl_eqb (md_mid m) mid && zl_eqb (md_ufrag m) uf &&
  zl_eqb (md_pwd m) pw && cands_eqb (md_cands m) cs.
Fixpoint mds_eqb (a : list md) (b : list xmd) : bool :=
  match a, b with
  | [], [] => true
  | m :: a', x :: b' => md_eqb m x && mds_eqb a' b'
  | _, _ => false
  end.
Definition ok1 (o : xop) : bool :=
  match o with
  | XU data e =>
      match unmarshal data, e with
      | ROk f, EOk uf pw cs ms =>
          zl_eqb (f_ufrag f) uf && zl_eqb (f_pwd f) pw && cands_eqb (f_cands f) cs && mds_eqb (f_mds f) ms
      | RErr, EErr => true
      | RPanic, EPanic => true
      | _, _ => false
      end
  | XSkip => true
  | XBad => false
  end.
""" + _STATELESS_RUN

PRELUDE["history"] = _HDR % "From Galene Require Import Model.History." + """
(* model/comp_history.ml, component history <max-history-age>: what the glue
   prints after a step, as a value: PANIC | a number (setage: the effective
   age; add, clear: the length of the history afterwards) | the projection
   id/source/value of the returned entries | msgs.  RUnit and the empty
   projection are both printed "-". *)
Definition trip := (list Z * list Z * list Z)%type.
Inductive eobs := EPanic | ENum (n : Z) | EProj (l : list trip) | EMsgs.
Inductive xop := XOp (o : op) (e : eobs) | XBad.
Definition proj (h : list entry) : list trip := map (fun e => (e_id e, e_source e, e_value e)) h.
Definition obs_of (o : op) (st' : state) (r : out) : eobs :=
  match o, r with
  | _, RPanic => EPanic
  | OSetAge n, _ => ENum (max_history_age n)
  | OAdd _, _ => ENum (Z.of_nat (length (st_hist st')))
  | OClear _ _, _ => ENum (Z.of_nat (length (st_hist st')))
  | _, RHist h => EProj (proj h)
  | _, RMsgs _ => EMsgs
  | _, RUnit => EProj []
  end.
Definition trip_eqb (a b : trip) : bool :=
  let '(a1, a2, a3) := a in let '(b1, b2, b3) := b in zl_eqb a1 b1 && zl_eqb a2 b2 && zl_eqb a3 b3.
Definition eobs_eqb (a b : eobs) : bool :=
  match a, b with
  | EPanic, EPanic => true
  | ENum x, ENum y => x =? y
  | EProj x, EProj y => list_eqb trip_eqb x y
  | EMsgs, EMsgs => true
  | _, _ => false
  end.
Fixpoint runx (s : state) (l : list xop) (i : Z) : option Z :=
  match l with
  | [] => None
  | XOp o e :: l' =>
      let '(s', r) := step s o in
      if eobs_eqb (obs_of o s' r) e then runx s' l' (i + 1) else Some i
  | XBad :: _ => Some i
  end.
Definition run_case (c : Z * list xop) : option Z := runx (init (fst c)) (snd c) 0.
"""


def _name_bytes(tok):
    """comp_keyframe.ml name_of / comp_etag.ml bytes_of_string: the bytes of
    the token (the trace is read as latin-1, one character per byte)"""
    return tok.encode("latin-1")


def _kf_oracle(cx, toks):
    if not toks:
        return "DNone"
    if len(toks) > 1:
        raise _Skip("oracle")
    if toks[0] == "E":
        return "DErr"
    p = toks[0].split(",")
    if len(p) == 3:
        return "(DVP8 %s %s %s)" % (_az(p[0]), _az(p[1]), cx.bl(_ahex(p[2])))
    if len(p) == 2:
        return "(DVP9 %s %s)" % (_ab(p[0]), cx.bl(_ahex(p[1])))
    raise _Skip("oracle")


def _outcome(obs, f):
    if obs == "PANIC":
        return "Panic"
    if obs == "FUEL":
        return "OutOfFuel"
    return "(Ok %s)" % f(obs)


def _op_keyframe(cx, t, obs, params):
    k = t[0]
    if k == "xdims":
        return "XSkip"
    if k == "keyframe" and len(t) >= 3:
        name = cx.bl(b"" if t[1] == "-" else _name_bytes(t[1]))
        data = cx.bl(_ahex(t[2]))
        d = _kf_oracle(cx, t[3:])

        def f(o):
            o = _otoks(o, 2)
            return "(%s, %s)" % (_ob(o[0]), _ob(o[1]))
        return "XKf %s %s %s %s" % (name, data, d, _outcome(obs, f))
    if k == "flags" and len(t) == 3:
        data = cx.bl(_ahex(t[2]))

        def f(o):
            if o == "T":
                return "None"
            o = _otoks(o, 2)
            return "(Some (%s, %s))" % (_oz(o[0]), _ob(o[1]))
        return "XFl %s %s" % (data, _outcome(obs, f))
    if k == "dims" and len(t) >= 3:
        name = cx.bl(b"" if t[1] == "-" else _name_bytes(t[1]))
        _ahex(t[2])
        d = _kf_oracle(cx, t[3:])

        def f(o):
            o = _otoks(o, 2)
            return "(%s, %s)" % (_oz(o[0]), _oz(o[1]))
        return "XDm %s %s %s" % (name, d, _outcome(obs, f))
    raise _Skip(k)


def _op_flags(cx, t, obs, params):
    if len(t) != 3 or t[0] != "flags":
        raise _Skip(t[0])
    c = {"vp8": "Flags.CVP8", "vp9": "Flags.CVP9"}.get(t[1], "Flags.COther")
    data = cx.bl(_ahex(t[2]))
    if obs == "err":
        e = "EErr"
    elif obs == "unmodelled":
        e = "EUnm"
    else:
        o = _otoks(obs, 12)
        kinds = "zbbbbzzzbbbb"
        e = "(EOk %s)" % " ".join(_oz(x) if k == "z" else _ob(x) for k, x in zip(kinds, o))
    return "XF %s %s %s" % (c, data, e)


def _opairs(s):
    """comp_loss.ml pairs_s"""
    if s == "-":
        return "nil"
    out = []
    for p in s.split(","):
        q = p.split(":")
        if len(q) != 2:
            raise _Bad(s)
        out.append("(%s, %s)" % (_oz(q[0]), _oz(q[1])))
    return "(" + "::".join(out) + "::nil)"


def _op_loss(cx, t, obs, params):
    k = t[0]
    if k == "nackwriter" and len(t) == 2:
        l = _azlist(cx, t[1])
        cx.cost += obs.count(",") + 1
        return "XNw %s %s" % (l, _opairs(obs))
    if k == "store" and len(t) == 3:
        op = "LStore %s %s" % (_az(t[1]), _ab(t[2]))
        e = "LOStore %s" % _oz(obs)
    elif k == "bitmapget" and len(t) == 2:
        op = "LBitmapGet %s" % _az(t[1])
        o = _otoks(obs, 3)
        e = "LOBitmap %s %s %s" % (_ob(o[0]), _oz(o[1]), _oz(o[2]))
    elif k == "readloop" and len(t) == 5:
        op = "LRead %s %s %s %s" % (_az(t[1]), _ab(t[2]), _az(t[3]), _ab(t[4]))
        if obs == "-":
            e = "LONack None"
        else:
            q = obs.split(":")
            if len(q) != 2:
                raise _Bad(obs)
            e = "LONack (Some (%s, %s))" % (_oz(q[0]), _oz(q[1]))
    elif k == "expect" and len(t) == 2:
        op = "LExpect %s" % _az(t[1])
        if obs != "-":
            raise _Bad(obs)
        e = "LOUnit"
    elif k == "getstats" and len(t) == 2:
        op = "LGetStats %s" % _ab(t[1])
        e = "LOStats (mkStats %s)" % " ".join(_oz(x) for x in _otoks(obs, 5))
    else:
        raise _Skip(k)
    cx.cost += 1
    return "XStep (%s) (%s)" % (op, e)


def _op_lossfn(cx, t, obs, params):
    if t[0] == "tobitmap" and len(t) == 2:
        l = _azlist(cx, t[1])
        cx.cost += obs.count(",") + 1
        return "XTb %s %s" % (l, _opairs(obs))
    if t[0] == "rrstats" and len(t) == 6:
        s = "(mkStats %s)" % " ".join(_az(x) for x in t[1:6])
        o = _otoks(obs, 3)
        cx.cost += 1
        return "XRr %s %s %s %s" % (s, _oz(o[0]), _oz(o[1]), _oz(o[2]))
    raise _Skip(t[0])


def _op_etag(cx, t, obs, params):
    k = t[0]
    if k == "scan" and len(t) == 2:
        s = cx.bl(_ahex(t[1]))
        o = _otoks(obs, 2)
        return "XScan %s %s %s" % (s, cx.bl(_ohex(o[0])), cx.bl(_ohex(o[1])))
    if k == "match" and len(t) == 3:
        a, h = cx.bl(_ahex(t[1])), cx.bl(_ahex(t[2]))
        e = "None" if obs == "OUT-OF-FUEL" else "(Some %s)" % _ob(obs)
        return "XMatch %s %s %s" % (a, h, e)
    if k == "cp" and len(t) == 5:
        args = [cx.bl(_name_bytes(t[1]))] + [cx.bl(_ahex(x)) for x in t[2:5]]
        o = _otoks(obs, 2)
        return "XCp %s %s %s" % (" ".join(args), _oz(o[0]), _oz(o[1]))
    raise _Skip(k)


def _sdp_opt(s, f):
    return None if s == "~" else f(s)


def _sdp_cands(cx, s):
    if s == "-":
        return "nil"
    out = []
    for c in s.split(","):
        q = c.split(":")
        if len(q) != 4:
            raise _Bad(s)
        ml = _sdp_opt(q[2], _oz)
        out.append("(%s, %s, %s, %s)" % (cx.bl(_ohex(q[0])), cx.obl(_sdp_opt(q[1], _ohex)),
                                         "None" if ml is None else "(Some %s)" % ml,
                                         cx.obl(_sdp_opt(q[3], _ohex))))
    return "(" + "::".join(out) + "::nil)"


def _sdp_mds(cx, s):
    if s == "-":
        return "nil"
    out = []
    for m in s.split(";"):
        q = m.split("|")
        if len(q) != 5:
            raise _Bad(s)
        out.append("(%s, %s, %s, %s, %s)" % (cx.bl(_ohex(q[0])), cx.bl(_ohex(q[1])), cx.bl(_ohex(q[2])),
                                             cx.bl(_ohex(q[3])), _sdp_cands(cx, q[4])))
    return "(" + "::".join(out) + "::nil)"


def _op_sdpfrag(cx, t, obs, params):
    if t[0] != "unmarshal" or len(t) != 2:
        raise _Skip(t[0])
    data = cx.bl(_ahex(t[1]))
    if obs == "err":
        e = "EErr"
    elif obs == "PANIC":
        e = "EPanic"
    else:
        o = _otoks(obs, 5)
        if o[0] != "ok":
            raise _Bad(obs)
        e = "(EOk %s %s %s %s)" % (cx.bl(_ohex(o[1])), cx.bl(_ohex(o[2])), _sdp_cands(cx, o[3]), _sdp_mds(cx, o[4]))
    return "XU %s %s" % (data, e)


def _hist_obs(cx, obs):
    if obs == "PANIC":
        return "EPanic"
    if obs == "msgs":
        return "EMsgs"
    if obs == "-":
        return "(EProj nil)"
    if _AINT.match(obs):
        return "(ENum %s)" % _oz(obs)
    out = []
    for e in obs.split(","):
        q = e.split("/")
        if len(q) != 3:
            raise _Bad(obs)
        out.append("(%s, %s, %s)" % tuple(cx.bl(_ohex(x)) for x in q))
    return "(EProj (%s::nil))" % "::".join(out)


def _op_history(cx, t, obs, params):
    k = t[0]
    if k == "add" and len(t) == 7:
        user = None if t[3] == "~" else _ahex(t[3])
        op = "OAdd (mkEntry %s %s %s %s %s %s)" % (cx.bl(_ahex(t[1])), cx.bl(_ahex(t[2])), cx.obl(user),
                                                   _az(t[4], True), cx.bl(_ahex(t[5])), cx.bl(_ahex(t[6])))
    elif k == "get" and len(t) == 2:
        op = "OGet %s" % _az(t[1], True)
    elif k == "raw" and len(t) == 1:
        op = "ORaw"
    elif k == "clear" and len(t) == 3:
        op = "OClear %s %s" % (cx.bl(_ahex(t[1])), cx.bl(_ahex(t[2])))
    elif k == "setage" and len(t) == 2:
        op = "OSetAge %s" % _az(t[1], True)
    else:
        raise _Skip(k)
    return "XOp (%s) %s" % (op, _hist_obs(cx, obs))


# component -> (operation builder, stateless, how the case is written from the
# H parameters and the name of the list of its operations)
SPEC = {
    "keyframe": (_op_keyframe, True, lambda p, ops: ops),
    "flags": (_op_flags, True, lambda p, ops: ops),
    "loss": (_op_loss, False, lambda p, ops: "(%s, %s)" % (_az(p[0]), ops)),
    "lossfn": (_op_lossfn, True, lambda p, ops: ops),
    "etag": (_op_etag, True, lambda p, ops: ops),
    "sdpfrag": (_op_sdpfrag, True, lambda p, ops: ops),
    "history": (_op_history, False, lambda p, ops: "(%s, %s)" % (_az(p[0], True), ops)),
}


def _build(component, lines, params, room_ops, room_cost, op_cap):
    """The operations of one history as Coq terms: (terms, cost), or None when
    the history cannot be evaluated within the limits.  A stateless history
    may be cut to a prefix and an operation that is too large on its own is
    XSkip; a stateful history is taken whole or not at all."""
    opf, stateless, _ = SPEC[component]
    if not stateless and len(lines) > room_ops:
        return None
    cx = _Cx()
    terms = []
    for ln in lines[:room_ops]:
        lhs, obs = ln.split(" => ", 1)
        toks = [x for x in lhs.split(" ") if x]
        c0 = cx.cost
        try:
            term = opf(cx, toks, obs, params)
        except _Bad:
            term = "XBad"
        except _Skip:
            if not stateless:
                return None
            term = "XSkip"
        if stateless:
            if cx.cost - c0 > op_cap:
                term, cx.cost = "XSkip", c0
            elif cx.cost > room_cost:
                cx.cost = c0
                break
        elif cx.cost > room_cost:
            return None
        terms.append(term)
    if not [x for x in terms if x != "XSkip"]:
        return None
    return terms, cx.cost


def histories(trace):
    cur = None
    # latin-1: one character per byte, as the OCaml glue sees the file
    with open(trace, encoding="latin-1", newline="\n") as f:
        for line in f:
            line = line.rstrip("\n")
            if line.startswith("H "):
                if cur:
                    yield cur
                cur = (line, [])
            elif cur is not None and " => " in line:
                cur[1].append(line)
    if cur:
        yield cur


def stats_ctor(theories):
    """The constructor name of Model.Cache.stats (so that the generated file
    follows a renaming instead of failing)."""
    src = open(os.path.join(theories, "Model", "Cache.v")).read()
    m = re.search(r"Record\s+stats\s*:=\s*(\w+)\s*\{", src)
    return m.group(1) if m else "mkStats"


def cross_check(component, trace, coqdir, workdir, max_hist=60, max_ops=400, max_total=6000, timeout=900,
                max_bytes=None):
    """Returns dict(ran, histories, ops, mismatches=[(history line, op index)], error, wall_s;
    second part also: bytes, sampled=[(history line, operations taken, indices not evaluated)]).
    max_bytes (components of the second part): bound on the number of list
    elements written into the generated file (about 5 000 per second of coqc)."""
    t0 = time.time()
    res = {"component": component, "ran": False, "histories": 0, "ops": 0, "mismatches": [], "error": None}
    if component not in PRELUDE:
        res["error"] = "no in-Coq evaluator for component " + component
        return res
    if max_bytes is None:
        max_bytes = min(10 * max_total, 150000)
    theories = os.path.join(coqdir, "theories")
    cases, names = [], []
    total = 0
    stateless = component in SPEC and SPEC[component][1]
    # prefer variety: take histories round-robin over stream names
    by_stream = {}
    for h, lines in histories(trace):
        t = h.split(" ")
        if len(t) < 4 or t[1] != component or not lines or (len(lines) > max_ops and not stateless):
            continue
        by_stream.setdefault(t[3], []).append((h, lines))
    order = []
    streams = sorted(by_stream)
    i = 0
    while len(order) < max_hist and any(by_stream[s] for s in streams):
        s = streams[i % len(streams)]
        if by_stream[s]:
            order.append(by_stream[s].pop(0))
        i += 1
    defs = []          # second part: one definition per operation
    cost = 0
    skipped = 0        # operations written as XSkip (not evaluated)
    sampled = []       # (history, operations taken, indices of those not evaluated)
    for h, lines in order:
        t = h.split(" ")
        if component in SPEC:
            if total >= max_total or cost >= max_bytes:
                break
            try:
                b = _build(component, lines, t[4:], min(max_ops, max_total - total), max_bytes - cost,
                           max(max_bytes // 4, 1))
                case = None if b is None else SPEC[component][2](t[4:], "c%d" % len(cases))
            except (_Skip, IndexError):
                b = None
            if b is None:
                continue
            n = len(cases)
            for k, term in enumerate(b[0]):
                defs.append("Definition c%d_%d := %s." % (n, k, term))
            for k0 in range(0, len(b[0]), 50):
                defs.append("Definition c%d_p%d : list xop := %s::nil." %
                            (n, k0 // 50, "::".join("c%d_%d" % (n, k) for k in range(k0, min(k0 + 50, len(b[0]))))))
            defs.append("Definition c%d : list xop := %s.\n" %
                        (n, " ++ ".join("c%d_p%d" % (n, k0 // 50) for k0 in range(0, len(b[0]), 50))))
            cases.append(case); names.append(h); total += len(b[0]); cost += b[1]
            skipped += b[0].count("XSkip")
            sampled.append((h, len(b[0]), [k for k, x in enumerate(b[0]) if x == "XSkip"]))
            continue
        if total + len(lines) > max_total:
            continue
        if component == "pmap":
            c = _pmap_ops(lines)
        elif component == "cache":
            c = _cache_ops(lines, t[4:])
        else:
            c = _rewrite_ops(lines)
        if c is None:
            continue
        cases.append(c); names.append(h); total += len(lines)
    if not cases:
        res["error"] = "no history of component %s small enough to evaluate inside Coq" % component
        return res
    pre = PRELUDE[component]
    if component in SPEC:
        src = pre + "\n" + "\n".join(defs) + "\nDefinition cases :=\n (" + "::\n  ".join(cases) + "::nil).\n" \
            "Definition M := Eval vm_compute in (selftest, map run_case cases).\nPrint M.\n"
    else:
        src = pre + "Definition cases :=\n [" + ";\n\n ".join(cases) + "].\n" \
            "Definition M := Eval vm_compute in map run_case cases.\nPrint M.\n"
    if component in ("cache", "loss", "lossfn"):
        src = src.replace("mkStats", stats_ctor(theories))
    os.makedirs(workdir, exist_ok=True)
    path = os.path.join(workdir, "Cases_%s.v" % component)
    with open(path, "w", encoding="latin-1") as f:
        f.write(src)
    if component in SPEC:
        res["bytes"] = cost
        res["sampled"] = sampled
    try:
        p = subprocess.run(["coqc", "-Q", theories, "Galene", "-w", "-notation-overridden", path],
                           cwd=workdir, stdout=subprocess.PIPE, stderr=subprocess.STDOUT, timeout=timeout)
    except subprocess.TimeoutExpired:
        res["wall_s"] = round(time.time() - t0, 1)
        res["error"] = "coqc did not finish the generated cases file within %d s" % timeout
        return res
    out = p.stdout.decode("utf-8", "replace")
    res["wall_s"] = round(time.time() - t0, 1)
    if p.returncode != 0:
        res["error"] = "coqc failed on the generated cases file: " + out[-800:]
        return res
    if component in SPEC:
        m = re.search(r"M\s*=\s*\(\s*(true|false)\s*,\s*\[(.*?)\]\s*\)\s*:\s*bool \* list \(option Z\)", out, re.S)
        if m and m.group(1) != "true":
            res["error"] = "the self-test of the list spellings used in the generated file failed"
            return res
        body = m.group(2) if m else None
    else:
        m = re.search(r"M\s*=\s*\[(.*?)\]\s*:\s*list \(option Z\)", out, re.S)
        body = m.group(1) if m else None
    if body is None:
        res["error"] = "cannot read the result of the evaluation: " + out[-400:]
        return res
    vals = [v.strip() for v in body.replace("\n", " ").split(";")]
    if len(vals) != len(cases):
        res["error"] = "evaluated %d cases, expected %d" % (len(vals), len(cases))
        return res
    res["ran"] = True
    res["histories"] = len(cases)
    res["ops"] = total - skipped
    for h, v in zip(names, vals):
        if v != "None":
            mm = re.search(r"Some\s+\(?(-?\d+)", v)
            res["mismatches"].append((h, int(mm.group(1)) if mm else -1))
    return res

"""Orchestration of one check run.  See DESIGN.md sections 2 and 6.

For a property Cxx:
  1. translator: regenerate coq/theories/Generated/*.v from /repo;
  2. proof: `make theories/Properties/Cxx.vo` (full .vo build of everything the
     property depends on), forbidden-construct scan, `Print Assumptions`
     captured by compiling Properties/Cxx.v once more;
  3. correspondence: build the Go drivers against /repo (tag verif), run them
     (corpus histories first, then seeded ones), run the extracted Coq model
     on the same operations, compare the projected observables line by line;
     the drivers' monitors evaluate the property directly on the
     implementation's behaviour;
  4. when 2 or 3 breaks: search for a failing input with the monitors at the
     thorough budget; report VIOLATION with the replay, or with
     no-failing-input-found;
  5. evidence/Cxx.json.
"""
import fcntl, glob, hashlib, json, os, re, shutil, subprocess, sys, time

VERIF = os.path.dirname(os.path.dirname(os.path.abspath(__file__)))
REPO = os.environ.get("VERIF_REPO", "/repo")
WORK = os.path.join(VERIF, "work")
COQ = os.path.join(VERIF, "coq")
THEORIES = os.path.join(COQ, "theories")
EVID = os.path.join(VERIF, "evidence")
REPLAYS = os.path.join(EVID, "replays")

import props  # noqa: E402  (property table)
import incoq  # noqa: E402  (evaluation of sampled histories inside Coq)


def log(*a):
    print(*a, flush=True)


def goenv():
    e = dict(os.environ)
    e["GOFLAGS"] = "-mod=mod"
    e["GOPROXY"] = "off"
    e.pop("GOTOOLCHAIN", None)
    e.setdefault("GOCACHE", os.path.join(os.path.expanduser("~"), ".cache", "go-build"))
    return e


def sh(cmd, cwd=None, env=None, timeout=3600, quiet=False):
    t0 = time.time()
    p = subprocess.run(cmd, cwd=cwd, env=env, shell=isinstance(cmd, str),
                       stdout=subprocess.PIPE, stderr=subprocess.STDOUT,
                       timeout=timeout)
    out = p.stdout.decode("utf-8", "replace")
    if not quiet and p.returncode != 0:
        log("$ %s   [exit %d, %.1fs]" % (cmd if isinstance(cmd, str) else " ".join(cmd), p.returncode, time.time() - t0))
        log(out[-4000:])
    return p.returncode, out


# ---------------------------------------------------------------- builds

def ensure_dirs():
    for d in (WORK, EVID, REPLAYS):
        os.makedirs(d, exist_ok=True)


def build_gen():
    """Translator: regenerate Generated/*.v from /repo's working tree."""
    rc, out = sh(["go", "build", "-o", os.path.join(WORK, "gen"), "."],
                 cwd=os.path.join(VERIF, "gen"), env=goenv())
    if rc != 0:
        return False, out
    rc, out = sh([os.path.join(WORK, "gen"), "-repo", REPO,
                  "-out", os.path.join(THEORIES, "Generated")], env=goenv())
    return rc == 0, out


def write_if_changed(path, content):
    if os.path.exists(path) and open(path).read() == content:
        return False
    with open(path, "w") as f:
        f.write(content)
    return True


def model_names():
    return sorted(os.path.basename(f)[:-4] for f in
                  glob.glob(os.path.join(VERIF, "model", "roots", "*.txt")))


def extract_source(name):
    """The extraction script of one component, generated from
    model/roots/<name>.txt (one qualified root per line).  One extraction per
    component, so that a component that no longer compiles affects only its
    own properties.  Returns (source, list of .vo targets it needs)."""
    roots, mods = [], set()
    for line in open(os.path.join(VERIF, "model", "roots", name + ".txt")):
        line = line.strip()
        if line and not line.startswith("#"):
            roots.append(line)
            mods.add(line.rsplit(".", 1)[0])
    src = ("(* GENERATED from model/roots/%s.txt by lib/runner.py.  Extraction of the\n"
           "   executable model: ExtrOcamlBasic only; Z, positive, N, nat, ascii and\n"
           "   string stay the extracted inductive types; no Extract Constant. *)\n"
           "Require Extraction.\nRequire Import ExtrOcamlBasic.\n"
           "From Galene Require " % name + " ".join(sorted(mods)) + ".\n"
           "Extraction Blacklist String List Int Char Bool Nat Seq Option Bytes Stack Queue Result Either.\n"
           "Set Extraction Optimize.\n"
           "Separate Extraction\n  " + "\n  ".join(roots) + ".\n")
    targets = ["theories/" + m.replace(".", "/") + ".vo" for m in sorted(mods)]
    return src, targets


def coq_makefile():
    files = sorted(os.path.relpath(f, COQ) for f in
                   glob.glob(os.path.join(THEORIES, "**", "*.v"), recursive=True))
    cp = "-Q theories Galene\n-arg -w -arg -notation-overridden\n" + "\n".join(files) + "\n"
    changed = write_if_changed(os.path.join(COQ, "_CoqProject"), cp)
    mk = os.path.join(COQ, "Makefile")
    if changed or not os.path.exists(mk):
        sh("coq_makefile -f _CoqProject -o Makefile", cwd=COQ)


def coq_make(targets, jobs=16, timeout=3000):
    coq_makefile()
    cmd = ["make", "-j%d" % jobs] + targets
    return sh(cmd, cwd=COQ, timeout=timeout)


FORBIDDEN = re.compile(
    r"\b(Admitted|admit|Axiom|Axioms|Parameter|Parameters|Conjecture|Conjectures|"
    r"Admit\s+Obligations|bypass_check|native_compute)\b|Unset\s+Guard\s+Checking|"
    r"Unset\s+Positivity\s+Checking|Unset\s+Universe\s+Checking|type-in-type|impredicative-set")


def strip_comments(src):
    out, depth, i = [], 0, 0
    while i < len(src):
        if src.startswith("(*", i):
            depth += 1; i += 2
        elif src.startswith("*)", i) and depth > 0:
            depth -= 1; i += 2
        else:
            if depth == 0:
                out.append(src[i])
            i += 1
    return "".join(out)


def forbidden_scan():
    bad = []
    for path in glob.glob(os.path.join(THEORIES, "**", "*.v"), recursive=True):
        src = strip_comments(open(path).read())
        for m in FORBIDDEN.finditer(src):
            bad.append("%s: %s" % (os.path.relpath(path, VERIF), m.group(0)))
        # Variable/Hypothesis outside a section
        depth = 0
        for line in src.splitlines():
            s = line.strip()
            if re.match(r"(Section|Module)\s", s):
                depth += 1 if s.startswith("Section") else 0
            elif re.match(r"End\s", s) and depth > 0:
                depth -= 1
            elif re.match(r"(Variable|Variables|Hypothesis|Hypotheses|Context)\b", s) and depth == 0:
                bad.append("%s: %s outside a section" % (os.path.relpath(path, VERIF), s.split()[0]))
    cp = open(os.path.join(COQ, "_CoqProject")).read()
    for w in ("type-in-type", "impredicative-set", "-vos", "-vok", "-noinit"):
        if w in cp:
            bad.append("_CoqProject: " + w)
    return bad


def print_assumptions(prop_file):
    """Compile Properties/Cxx.v once more (output elsewhere) to capture what
    Print Assumptions reports for every theorem in it."""
    os.makedirs(os.path.join(WORK, "pa"), exist_ok=True)
    tmp = os.path.join(WORK, "pa", os.path.basename(prop_file) + "o")
    rc, out = sh(["coqc", "-Q", "theories", "Galene", "-w", "-notation-overridden",
                  "-o", tmp, prop_file], cwd=COQ, timeout=1200, quiet=True)
    closed = len(re.findall(r"Closed under the global context", out))
    axioms = []
    for m in re.finditer(r"Axioms:\n((?:.+\n?)+?)(?:\n|$)", out):
        for l in m.group(1).splitlines():
            mm = re.match(r"\s*([A-Za-z_][\w.']*)\s*:", l)
            if mm:
                axioms.append(mm.group(1))
    return rc, out, closed, sorted(set(axioms))


def stale(stamp, sources):
    if not os.path.exists(stamp):
        return True
    t = os.path.getmtime(stamp)
    return any(os.path.getmtime(s) > t for s in sources if os.path.exists(s))


def build_model(name):
    """Extracts the Coq model of one component to OCaml and builds its driver
    in work/model_<name>/."""
    esrc, targets = extract_source(name)
    rc, out = coq_make(targets)
    if rc != 0:
        return False, out
    d = os.path.join(WORK, "model_" + name)
    os.makedirs(d, exist_ok=True)
    src = os.path.join(VERIF, "model")
    glue = ["util.ml", "registry.ml", "main.ml", "comp_%s.ml" % name]
    for g in glue:
        c = open(os.path.join(src, g)).read()
        write_if_changed(os.path.join(d, g), c)
    write_if_changed(os.path.join(d, "all_components.ml"),
                     "let init () = Comp_%s.init ()\n" % name)
    write_if_changed(os.path.join(d, "dune-project"), "(lang dune 2.9)\n")
    write_if_changed(os.path.join(d, "dune"),
                     "(executable\n (name main)\n (flags (:standard -w -a)))\n")
    ev = os.path.join(d, "Extract_%s.v" % name)
    changed = write_if_changed(ev, esrc)
    stamp = os.path.join(d, ".stamp")
    vos = glob.glob(os.path.join(THEORIES, "Model", "*.vo")) + \
        glob.glob(os.path.join(THEORIES, "Generated", "*.vo")) + \
        glob.glob(os.path.join(THEORIES, "Lib", "*.vo"))
    if changed or stale(stamp, vos):
        for f in glob.glob(os.path.join(d, "*.ml*")):
            if os.path.basename(f) not in glue + ["all_components.ml"]:
                os.remove(f)
        rc, out = sh(["coqc", "-Q", THEORIES, "Galene", "-w", "-notation-overridden", ev],
                     cwd=d, timeout=1200)
        if rc != 0:
            return False, out
        open(stamp, "w").write("ok")
    rc, out = sh(["dune", "build", "./main.exe"], cwd=d, timeout=1200)
    return rc == 0, out


def model_exe(name):
    return os.path.join(WORK, "model_" + name, "_build", "default", "main.exe")


def build_drv(name, race=False):
    h = os.path.join(VERIF, "harness")
    shutil.copyfile(os.path.join(REPO, "go.sum"), os.path.join(h, "go.sum"))
    write_if_changed(os.path.join(h, "go.mod"),
                     "module verifharness\n\ngo 1.24.0\n\nrequire github.com/jech/galene v0.0.0\n\n"
                     "replace github.com/jech/galene => %s\n" % REPO)
    cmd = ["go", "build", "-tags", "verif"] + (["-race"] if race else []) + \
        ["-o", os.path.join(WORK, "drv_" + name), "./cmd/" + name]
    rc, out = sh(cmd, cwd=h, env=goenv(), timeout=1800)
    return rc == 0, out




# ---------------------------------------------------------------- known findings

def load_known():
    known, fixed = [], []
    p = os.path.join(VERIF, "KNOWN_FINDINGS.txt")
    if not os.path.exists(p):
        return known, fixed
    for line in open(p):
        line = line.strip()
        if not line or line.startswith("#"):
            continue
        if line.startswith("known:"):
            m = re.match(r"known:\s+property=(\S+)\s+id=(\S+)\s+match=/(.*?)/\s+(.*)", line)
            if m:
                known.append({"property": m.group(1), "id": m.group(2),
                              "re": re.compile(m.group(3)), "text": m.group(4)})
        elif line.startswith("fixed:"):
            fixed.append(line)
    return known, fixed


def match_known(known, prop, failure):
    s = "%s %s %s" % (failure.get("monitor", ""), failure.get("history", ""), failure.get("message", ""))
    for k in known:
        if k["property"] == prop and k["re"].search(s):
            return k
    return None


# ---------------------------------------------------------------- drivers

def run_driver(prop, d, tier, seed, budget=None):
    """Runs one driver and the model on its trace.  Returns a dict with the
    summary, monitor failures (for this property) and divergences."""
    name = d["name"]
    n = budget if budget is not None else d.get(tier, d.get("quick", 100))
    trace = os.path.join(WORK, "%s.%s.trace" % (prop, name))
    t0 = time.time()
    env = goenv()
    if d.get("race"):
        env["GORACE"] = "halt_on_error=1 exitcode=66"
    limit = d.get("timeout", 3000)
    if tier == "quick" and budget is None:
        limit = min(limit, d.get("quick_timeout", 600))
    hung = False
    try:
        rc, out = sh([os.path.join(WORK, "drv_" + name), "-seed", str(seed), "-n", str(n), "-out", trace],
                     timeout=limit, env=env)
    except subprocess.TimeoutExpired:
        # a driver that does not finish: some call into the implementation never
        # returned (deadlock, leaked semaphore, endless loop)
        hung = True
        rc, out = 124, "the driver %s (seed %d, n %d) did not finish within %d s: a call into the implementation never returned (deadlock, leaked semaphore, endless loop)" % (name, seed, n, limit)
    res = {"driver": name, "n": n, "seed": seed, "trace": trace, "rc": rc, "out": out[-2000:],
           "failures": [], "divergences": [], "summary": {}, "wall_s": 0}
    if rc != 0:
        res["crashed"] = True
        res["hung"] = hung
        return res
    res["summary"] = json.load(open(trace + ".summary.json"))
    pfx = tuple(d.get("monitors", [prop + "."]))
    for line in open(trace + ".monitor"):
        f = json.loads(line)
        if f["property"] == prop or (f["property"] + "." + f["monitor"]).startswith(pfx):
            if f["property"] == prop:
                res["failures"].append(f)
    # model run + comparison
    compare.last_compared = 0
    if d.get("model", True):
        mout = trace + ".model"
        with open(mout, "w") as fo:
            p = subprocess.run([model_exe(d.get("model_name", name)), trace], stdout=fo, stderr=subprocess.PIPE, timeout=3000)
        if p.returncode != 0:
            res["divergences"].append({"history": "?", "line": 0, "impl": "", "model": "model driver failed: " + p.stderr.decode()[-500:], "ops": []})
        else:
            res["divergences"] = compare(trace, mout, d.get("ops"))
    # a sample of the same histories evaluated by the Gallina model INSIDE Coq
    # (vm_compute), compared there with the implementation's observables: no
    # extraction, no OCaml glue
    res["incoq"] = []
    if d.get("model", True) and d.get("incoq"):
        big = tier == "thorough"
        for comp in d["incoq"]:
            ic = incoq.cross_check(comp, trace, COQ, os.path.join(WORK, "incoq", prop + "_" + name),
                                   max_hist=400 if big else 40, max_ops=1200 if big else 400,
                                   max_total=60000 if big else 4000)
            res["incoq"].append(ic)
            if ic["error"]:
                res["divergences"].append({"history": "?", "line": 0, "impl": "",
                                           "model": "in-Coq evaluation of %s failed: %s" % (comp, ic["error"]), "ops": []})
            for h, idx in ic["mismatches"][:3]:
                res["divergences"].append({"history": h, "line": idx, "impl": "(see trace)",
                                           "model": "the Gallina model evaluated inside Coq differs from the implementation at operation %d of this history" % idx,
                                           "ops": []})
    res["wall_s"] = time.time() - t0
    return res


def compare(impl_path, model_path, relevant_ops, limit=5):
    divs = []
    hist = None
    hist_lines = []
    diverged_hist = set()
    compared = 0
    with open(impl_path) as fi, open(model_path) as fm:
        for ln, (a, b) in enumerate(zip(fi, fm), 1):
            a = a.rstrip("\n"); b = b.rstrip("\n")
            if a.startswith("H "):
                hist = a; hist_lines = [a]
                continue
            hist_lines.append(a)
            op = a.split(" ", 1)[0]
            if relevant_ops is not None and op not in relevant_ops:
                continue
            compared += 1
            if a != b and hist not in diverged_hist:
                diverged_hist.add(hist)
                if len(divs) < limit:
                    divs.append({"history": hist, "line": ln, "impl": a, "model": b,
                                 "ops": list(hist_lines[-400:])})
    if divs:
        divs[0]["total_diverging_histories"] = len(diverged_hist)
    compare.last_compared = compared
    return divs


compare.last_compared = 0


# ---------------------------------------------------------------- reporting

def write_replay(prop, kind, payload):
    ensure_dirs()
    h = hashlib.sha1(json.dumps(payload, sort_keys=True).encode()).hexdigest()[:10]
    path = os.path.join(REPLAYS, "%s-%s-%s.json" % (prop, kind, h))
    payload = dict(payload)
    payload["property"] = prop
    payload["kind"] = kind
    with open(path, "w") as f:
        json.dump(payload, f, indent=1)
    return path


def count_theorems(prop_file):
    src = strip_comments(open(prop_file).read())
    return len(re.findall(r"^\s*(Theorem|Corollary)\s", src, re.M)), \
        len(re.findall(r"^\s*Example\s", src, re.M))


def check_property(prop, tier, seed):
    t0 = time.time()
    cfg = props.PROPS[prop]
    ensure_dirs()
    known, fixed = load_known()
    violations = []      # (replay_path, suffix)
    known_seen = []
    notes = []
    coverage = {}

    # 1. translator
    ok, out = build_gen()
    proof_broken = None
    if not ok:
        proof_broken = "translator gen/ failed on the current tree: " + out[-1500:]

    # 2. proof
    prop_v = os.path.join("theories", "Properties", prop + ".v")
    nthm, nex = count_theorems(os.path.join(COQ, prop_v))
    discharged = 0
    assumptions_out = ""
    axioms = []
    if proof_broken is None:
        rc, out = coq_make([prop_v + "o"])
        if rc != 0:
            m = re.search(r'File "([^"]+)", line (\d+)[^\n]*\n(?:.*\n){0,12}?Error:?(.*(?:\n.*){0,6})', out)
            where = ("%s line %s: %s" % (m.group(1), m.group(2), m.group(3).strip())) if m else out[-1500:]
            proof_broken = "proof obligation no longer checks: " + where
        else:
            bad = forbidden_scan()
            if bad:
                proof_broken = "forbidden construct in the development: " + "; ".join(bad[:5])
            rc2, assumptions_out, closed, axioms = print_assumptions(prop_v)
            discharged = nthm
            allowed = set(cfg.get("allowed_axioms", []))
            extra = [a for a in axioms if a not in allowed]
            if rc2 != 0:
                proof_broken = "Properties/%s.v does not compile" % prop
            elif extra:
                proof_broken = "theorems depend on undeclared axioms: " + ", ".join(extra)

    # 2b. thorough tier: independent re-check of the compiled theorems
    coqchk_report = None
    if tier == "thorough" and proof_broken is None:
        rc3, out3 = sh(["coqchk", "-silent", "-o", "-Q", "theories", "Galene",
                        "Galene.Properties." + prop], cwd=COQ, timeout=5400, quiet=True)
        m3 = re.search(r"CONTEXT SUMMARY(.*)", out3, re.S)
        coqchk_report = (m3.group(1).strip() if m3 else out3[-1500:])[:3000]
        if rc3 != 0:
            proof_broken = "coqchk rejects Properties/%s.vo: %s" % (prop, out3[-800:])

    # 3. correspondence + monitors
    drv_broken = None
    model_broken = None
    for d in cfg["drivers"]:
        ok, out = build_drv(d["name"], d.get("race", False))
        if not ok:
            drv_broken = "the correspondence driver %s no longer builds against /repo: %s" % (d["name"], out[-1500:])
        if d.get("model", True):
            okm, outm = build_model(d.get("model_name", d["name"]))
            if not okm:
                model_broken = "the extracted model %s no longer builds: %s" % (d.get("model_name", d["name"]), outm[-1500:])

    runs = []
    total_eval = 0; total_ops = 0; nontriv = 0; compared = 0
    samples = []
    dist = {}
    monitors = {}
    incoq_ev = []
    hung_drivers = set()
    if drv_broken is None and model_broken is None:
        for d in cfg["drivers"]:
            r = run_driver(prop, d, tier, seed)
            runs.append(r)
            if r.get("crashed"):
                # the driver itself died: for C12-style properties that is the
                # finding; otherwise the harness is broken
                path = write_replay(prop, "driver-hang" if r.get("hung") else "driver-crash",
                                    {"driver": d["name"], "seed": seed, "n": r["n"], "output": r["out"]})
                # a run that never returns is itself the failing schedule (replay = driver, seed, n)
                violations.append((path, "" if (d.get("crash_is_violation") or r.get("hung")) else " no-failing-input-found"))
                if r.get("hung"):
                    hung_drivers.add(d["name"])
                    break   # a definite violation; the other drivers would only wait for the same lock
                continue
            s = r["summary"]
            total_eval += s.get("histories", 0)
            total_ops += s.get("ops", 0)
            nontriv += s.get("distinct_nontrivial", 0)
            compared += compare.last_compared
            samples += s.get("samples", [])[:6]
            dist[d["name"]] = {"streams": s.get("streams"), "op_kinds": s.get("op_kinds"), "notes": s.get("notes")}
            for ic in r.get("incoq", []):
                incoq_ev.append({k: ic.get(k) for k in ("component", "ran", "histories", "ops", "wall_s", "error")} |
                                {"mismatches": len(ic.get("mismatches", []))})
            for k, v in s.get("monitors", {}).items():
                if k.startswith(prop + "."):
                    monitors[k] = monitors.get(k, 0) + v
            seen_keys = set()
            for f in r["failures"]:
                k = match_known(known, prop, f)
                if k:
                    key = k["id"]
                    if key not in seen_keys:
                        seen_keys.add(key)
                        known_seen.append("KNOWN-FINDING: property=%s %s %s" % (prop, k["id"], k["text"]))
                    continue
                key = (f["monitor"], f["history"])
                if key in seen_keys:
                    continue
                seen_keys.add(key)
                if len([v for v in violations if v[1] == ""]) < 3:
                    f2 = dict(f); f2.update({"driver": d["name"], "seed": seed, "n": r["n"]})
                    violations.append((write_replay(prop, "monitor", f2), ""))
            if r["divergences"]:
                dv = r["divergences"][0]
                # the model and the implementation disagree: the theorem no
                # longer speaks about this code.  A monitor failure above is
                # the concrete failing input; otherwise search.
                if not any(v[1] == "" for v in violations):
                    found = search(prop, cfg, seed, known)
                    if found:
                        violations.append((found, ""))
                    else:
                        path = write_replay(prop, "correspondence", {
                            "driver": d["name"], "seed": seed, "n": r["n"], "history": dv["history"],
                            "impl": dv["impl"], "model": dv["model"], "ops": dv["ops"],
                            "broken": "correspondence %s: implementation and Coq model (%s) differ" % (d["name"], cfg.get("model_files", ""))})
                        violations.append((path, " no-failing-input-found"))
    else:
        why = drv_broken or model_broken
        path = write_replay(prop, "harness", {"broken": why})
        violations.append((path, " no-failing-input-found"))

    if proof_broken is not None and not any(v[1] == "" for v in violations):
        found = None
        if drv_broken is None and model_broken is None:
            found = search(prop, cfg, seed, known)
        if found:
            violations.append((found, ""))
        else:
            path = write_replay(prop, "proof", {"broken": proof_broken, "theorem_file": prop_v})
            violations.append((path, " no-failing-input-found"))

    for sid in cfg.get("static_known", []):
        for k in known:
            if k["property"] == prop and k["id"] == sid and not any((" %s " % sid) in x for x in known_seen):
                known_seen.append("KNOWN-FINDING: property=%s %s %s" % (prop, k["id"], k["text"]))
    wall = time.time() - t0
    ev = {
        "property_id": prop, "tier": tier, "seed": seed, "level": "proof",
        "coverage": {
            "obligations": max(nthm, 1), "discharged": discharged,
            "checker_cmd": "make -C coq %so  (coqc 8.16.1, full .vo build) && coqc %s  # Print Assumptions" % (prop_v, prop_v),
            "trusted_base": cfg.get("trusted", []) + props.COMMON_TRUSTED,
            "theorems": nthm, "nonvacuity_examples": nex,
            "theorem_names": re.findall(r"^\s*(?:Theorem|Corollary)\s+([A-Za-z0-9_']+)", strip_comments(open(os.path.join(COQ, prop_v)).read()), re.M),
            "axioms_reported_by_Print_Assumptions": axioms,
            "print_assumptions_closed": len(re.findall(r"Closed under the global context", assumptions_out)),
            "evaluations": total_eval, "distinct_nontrivial": nontriv,
            "ops_executed_on_implementation": total_ops,
            "lines_compared_model_vs_impl": compared,
            "traces_validated_against_impl": total_eval,
            "monitor_evaluations": monitors,
            "rule": cfg.get("rule", "seeded histories from the driver generators (corpus first); a history is non-trivial if it reaches the driver's non-trivial state; distinct by its parameter/length key"),
            "samples": samples[:12] if samples else ["(no driver ran)"],
            "input_distribution": dist,
            "known_findings_seen": known_seen,
            "coqchk": coqchk_report,
            "evaluated_inside_coq": incoq_ev,
            "explanation": cfg.get("explanation", ""),
        },
        "assumptions": cfg.get("assumptions", []) + props.COMMON_ASSUMPTIONS,
        "wall_s": round(wall, 2),
        "violations": len(violations),
    }
    with open(os.path.join(EVID, prop + ".json"), "w") as f:
        json.dump(ev, f, indent=1)

    for k in known_seen:
        log(k)
    if violations:
        seen = set()
        for path, suffix in violations:
            if path in seen:
                continue
            seen.add(path)
            log("VIOLATION property=%s replay=%s%s" % (prop, path, suffix))
        return 1
    log("OK property=%s tier=%s theorems=%d histories=%d ops=%d compared=%d wall=%.1fs" %
        (prop, tier, nthm, total_eval, total_ops, compared, wall))
    return 0


def search(prop, cfg, seed, known):
    """Searches for a concrete failing input with the monitors, at the thorough
    budget and with fresh seeds.  Returns a replay path or None."""
    for k, d in enumerate(cfg["drivers"]):
        for extra in (0, 1):
            s2 = seed * 1000003 + 17 * (k + 1) + extra
            r = run_driver(prop, dict(d, model=False), "thorough", s2,
                           budget=d.get("search", d.get("thorough", d.get("quick", 100))))
            if r.get("crashed"):
                continue
            for f in r["failures"]:
                if match_known(known, prop, f):
                    continue
                f2 = dict(f); f2.update({"driver": d["name"], "seed": s2, "n": r["n"]})
                return write_replay(prop, "monitor", f2)
    return None


def replay(prop, path):
    cfg = props.PROPS[prop]
    rp = json.load(open(path))
    ensure_dirs()
    for d in cfg["drivers"]:
        ok, out = build_drv(d["name"], d.get("race", False))
        if not ok:
            log("harness does not build"); return 1
        if d.get("model", True):
            build_model(d.get("model_name", d["name"]))
    if "driver" not in rp:
        log("replay names no input: %s" % rp.get("broken", ""))
        # re-run the quick check instead
        return check_property(prop, "quick", int(os.environ.get("VERIF_SEED", "1")))
    d = [x for x in cfg["drivers"] if x["name"] == rp["driver"]][0]
    r = run_driver(prop, d, "quick", rp["seed"], budget=rp["n"])
    known, _ = load_known()
    bad = 0
    for f in r["failures"]:
        if rp.get("history") and f["history"] != rp["history"]:
            continue
        if match_known(known, prop, f):
            continue
        log("replay: %s %s: %s" % (f["history"], f["monitor"], f["message"]))
        bad += 1
    for dv in r["divergences"]:
        log("replay: divergence in %s\n  impl : %s\n  model: %s" % (dv["history"], dv["impl"], dv["model"]))
        bad += 1
    if bad:
        log("VIOLATION property=%s replay=%s" % (prop, path))
        return 1
    log("replay passes")
    return 0


def setup():
    ensure_dirs()
    ok, out = build_gen()
    if not ok:
        log("gen failed"); return 1
    mf = os.path.join(VERIF, "MANIFEST.json")
    targets = []
    if os.path.exists(mf):
        targets = ["theories/Properties/%s.vo" % c["property_id"] for c in json.load(open(mf))["checks"]]
    rc, out = coq_make(targets, timeout=3400)
    if rc != 0:
        log("coq build failed"); return 1
    bad = 0
    done = set()
    claimed = set(props.PROPS)
    mf = os.path.join(VERIF, "MANIFEST.json")
    if os.path.exists(mf):
        claimed = set(c["property_id"] for c in json.load(open(mf))["checks"])
    for pid, cfg in sorted(props.PROPS.items()):
        if pid not in claimed:
            continue
        for d in cfg["drivers"]:
            if d["name"] not in done:
                done.add(d["name"])
                ok, out = build_drv(d["name"], d.get("race", False))
                if not ok:
                    log("driver %s failed to build" % d["name"]); bad += 1
            mn = d.get("model_name", d["name"])
            if d.get("model", True) and ("m:" + mn) not in done:
                done.add("m:" + mn)
                ok, out = build_model(mn)
                if not ok:
                    log("model %s failed to build" % mn); bad += 1
    if bad:
        return 1
    log("setup ok")
    return 0


def main(argv):
    ensure_dirs()
    lock = open(os.path.join(WORK, ".lock"), "w")
    fcntl.flock(lock, fcntl.LOCK_EX)
    if argv and argv[0] == "--setup":
        return setup()
    if not argv or argv[0] not in props.PROPS:
        log(__doc__)
        return 2
    prop = argv[0]
    tier = os.environ.get("VERIF_TIER", "quick")
    seed = int(os.environ.get("VERIF_SEED", "1"))
    if "--tier" in argv:
        tier = argv[argv.index("--tier") + 1]
    if "--replay" in argv:
        return replay(prop, argv[argv.index("--replay") + 1])
    return check_property(prop, tier, seed)

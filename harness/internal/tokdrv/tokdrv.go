// Package tokdrv: the generators, runners and monitors of the C16 drivers
// `tokstore` (library level, crash points) and `tokapi` (HTTP API level).
//
// Driver tokstore: correspondence and monitors for C16 (stateful token store,
// token/stateful.go).  The real `token` package API runs on a file in a
// temporary directory; every operation is also run through the extracted Coq
// model (Model/TokenStore.v) by the model driver.
//
// Components (H lines):
//
//	tokstore  histories compared with the model (ops get/list/upd/del/expire/
//	          ext/restart/repoint/view)
//	tokrace   real goroutines racing conditional writes (monitors only)
//	tokcrash  one rewrite/append in a child process killed by strace at the
//	          n-th system call (monitors only)
//	tokfail   one Expire/Delete in a child whose rename is made to fail by
//	          strace (monitors only; observation about I/O errors)
package tokdrv

import (
	"bytes"
	"encoding/json"
	"errors"
	"fmt"
	"io"
	"os"
	"os/exec"
	"os/signal"
	"path/filepath"
	"runtime"
	"sort"
	"strconv"
	"strings"
	"sync"
	"syscall"
	"time"

	"github.com/jech/galene/token"

	"verifharness/internal/tr"
)

// ------------------------------------------------------------ vocabulary

var t0 time.Time // all token times are offsets in seconds from t0

var baseNames = []string{"", "tokA", "tokB", "tokC", "tokD", "tokE"}

// tokNames: the names of the current history (id = index); POST through the
// HTTP API appends the random names the server makes up
var tokNames = append([]string{}, baseNames...)
var grpNames = []string{"", "g1", "g2"}

const week = 7 * 24 * 3600

// rec is a token at the level of the model.
type rec struct {
	name, group int
	exp, nbf    *int
	data        int
}

func ip(i int) *int { return &i }

func optS(p *int) string {
	if p == nil {
		return "n"
	}
	return strconv.Itoa(*p)
}

func (r rec) String() string {
	return fmt.Sprintf("%d/%d/%s/%s/%d", r.name, r.group, optS(r.exp), optS(r.nbf), r.data)
}

func offTime(p *int) *time.Time {
	if p == nil {
		return nil
	}
	t := t0.Add(time.Duration(*p) * time.Second)
	return &t
}

func timeOff(t *time.Time) *int {
	if t == nil {
		return nil
	}
	d := t.Sub(t0)
	s := int(d / time.Second)
	if time.Duration(s)*time.Second != d {
		s = 999999999 // not a whole second: never generated
	}
	return &s
}

var longPad = strings.Repeat("_", 70000)

var perms = [][]string{{"present"}, {"present", "message"}}

func (r rec) stateful() *token.Stateful {
	u := fmt.Sprintf("u%d", r.data)
	if r.data == 7 {
		// a token whose line in the file is longer than 64 KiB (a username of that
		// size is accepted by the API, whose body limit is 1 MiB): the reader of
		// the file must take it whole, like every other line
		u += longPad
	}
	return &token.Stateful{
		Token:       tokNames[r.name],
		Group:       grpNames[r.group],
		Username:    &u,
		Permissions: append([]string{}, perms[r.data%2]...),
		Expires:     offTime(r.exp),
		NotBefore:   offTime(r.nbf),
	}
}

func idx(l []string, s string) int {
	for i, x := range l {
		if x == s {
			return i
		}
	}
	return -1
}

func toRec(s *token.Stateful) rec {
	r := rec{name: idx(tokNames, s.Token), group: idx(grpNames, s.Group),
		exp: timeOff(s.Expires), nbf: timeOff(s.NotBefore), data: -1}
	if s.Username != nil && (len(*s.Username) == 2 || *s.Username == "u7"+longPad) && (*s.Username)[0] == 'u' {
		d := int((*s.Username)[1] - '0')
		if d >= 0 && d <= 9 && fmt.Sprint(s.Permissions) == fmt.Sprint(perms[d%2]) &&
			!s.IncludeSubgroups {
			r.data = d
		}
	}
	return r
}

func encodeLines(rs []rec, junkAt int) []byte {
	var b bytes.Buffer
	e := json.NewEncoder(&b)
	for i, r := range rs {
		if i == junkAt {
			b.WriteString("{\"token\":\"x\",\"gro\n")
		}
		e.Encode(r.stateful())
	}
	if junkAt >= len(rs) {
		b.WriteString("{\"token\":\"tokA\",\"group\":\"g1\",\"userna")
	}
	return b.Bytes()
}

// parseFile is the driver's own reader of the JSON-lines file: the records in
// order, and whether something does not decode.
func parseFile(path string) (recs []rec, exists bool, junk bool, raw []byte) {
	raw, err := os.ReadFile(path)
	if err != nil {
		return nil, false, false, nil
	}
	d := json.NewDecoder(bytes.NewReader(raw))
	for {
		var s token.Stateful
		err := d.Decode(&s)
		if err == io.EOF {
			break
		}
		if err != nil {
			return recs, true, true, raw
		}
		recs = append(recs, toRec(&s))
	}
	return recs, true, false, raw
}

// lastWins is what a reader that keeps the last record of each name sees.
func lastWins(recs []rec) map[int]rec {
	m := map[int]rec{}
	for _, r := range recs {
		m[r.name] = r
	}
	return m
}

func classify(err error) string {
	switch {
	case err == nil:
		return "ok"
	case errors.Is(err, token.ErrTagMismatch):
		return "mismatch"
	case errors.Is(err, os.ErrNotExist):
		return "notexist"
	}
	return "other"
}

func idsS(ids []int) string {
	if len(ids) == 0 {
		return "-"
	}
	sort.Ints(ids)
	s := make([]string, len(ids))
	for i, x := range ids {
		s[i] = strconv.Itoa(x)
	}
	return strings.Join(s, ",")
}

// ------------------------------------------------------------ one history

type hist struct {
	t    *tr.Trace
	r    *tr.Rand
	dir  string
	path string

	mt      map[int64]int // mtime (ns) -> id, by first appearance
	maxMt   int64
	synth   int // counter of synthetic (past) mtimes
	stamps  map[string]bool
	broken  bool // a stamp was reused: the property's hypothesis does not hold in this history
	held    []string
	heldVer map[string]int
	ver     int
	lastSig string
	revoked map[int]bool
	writes  int
	tagID   map[string]int
	// faultNext arms the I/O fault for the next write of the store
	faultNext bool
	faultKind int
}

var histCount int

func newHist(t *tr.Trace, r *tr.Rand, base, comp, stream string) *hist {
	histCount++
	dir := filepath.Join(base, fmt.Sprintf("h%d", histCount))
	os.MkdirAll(dir, 0700)
	h := &hist{t: t, r: r, dir: dir, path: filepath.Join(dir, "tokens.jsonl"),
		mt: map[int64]int{}, stamps: map[string]bool{}, heldVer: map[string]int{},
		revoked: map[int]bool{}, tagID: map[string]int{}}
	t.History(comp, stream)
	tokNames = append([]string{}, baseNames...)
	token.SetStatefulFilename(h.path)
	token.VerifResetStateful()
	return h
}

func (h *hist) done() { os.RemoveAll(h.dir) }

func (h *hist) mtid(ns int64) int {
	if id, ok := h.mt[ns]; ok {
		return id
	}
	id := len(h.mt) + 1
	h.mt[ns] = id
	return id
}

// stamp of the file now: "size:mtid", "0:0" when there is no file
func (h *hist) stamp() string {
	fi, err := os.Stat(h.path)
	if err != nil {
		return "0:0"
	}
	ns := fi.ModTime().UnixNano()
	if ns > h.maxMt {
		h.maxMt = ns
	}
	return fmt.Sprintf("%d:%d", fi.Size(), h.mtid(ns))
}

// etagS names an etag string of the implementation: "-" when empty, else
// t<k> where k numbers the distinct tags in the order the store returned them
// (the format of the tag is not part of the property)
func (h *hist) etagS(e string) string {
	if e == "" {
		return "-"
	}
	id, ok := h.tagID[e]
	if !ok {
		id = len(h.tagID) + 1
		h.tagID[e] = id
	}
	return fmt.Sprintf("t%d", id)
}

// currentEtag is the driver's own signature of the file's stamp (size and
// mtime from stat), used to tell versions apart.
func (h *hist) currentEtag() string {
	fi, err := os.Stat(h.path)
	if err != nil {
		return ""
	}
	return fmt.Sprintf("\"%v-%v\"", fi.Size(), fi.ModTime().UnixNano())
}

// waitTick returns when the clock that stamps new files has passed every
// modification time used so far, so that the next version gets a new stamp.
func (h *hist) waitTick() {
	p := filepath.Join(h.dir, "probe")
	for i := 0; i < 200000; i++ {
		os.Remove(p)
		os.WriteFile(p, []byte("x"), 0600)
		fi, err := os.Stat(p)
		if err == nil && fi.ModTime().UnixNano() > h.maxMt {
			os.Remove(p)
			return
		}
		time.Sleep(100 * time.Microsecond)
	}
	os.Remove(p)
}

// noteVersion is called after every operation: tracks file versions and
// whether the freshness hypothesis still holds.
func (h *hist) noteVersion() {
	raw, err := os.ReadFile(h.path)
	sig := "-"
	st := ""
	if err == nil {
		st = h.currentEtag()
		sig = st + string(raw)
	}
	if sig != h.lastSig {
		h.ver++
		h.lastSig = sig
		if st != "" {
			if h.stamps[st] {
				h.broken = true
				h.t.Note("stamp-reused")
			}
			h.stamps[st] = true
		}
	}
}

func (h *hist) hold(e string) {
	if e == "" {
		return
	}
	h.heldVer[e] = h.ver
	for _, x := range h.held {
		if x == e {
			return
		}
	}
	h.held = append(h.held, e)
}

func (h *hist) checkRevoked(name int, honoured bool, where string) {
	h.t.Checked("C16.revocation_final")
	if honoured && h.revoked[name] {
		h.t.Fail("C16", "revocation_final", fmt.Sprintf("%s: token %d (%q) was deleted or swept and not re-created, but is honoured again", where, name, tokNames[name]))
	}
}

func (h *hist) get(name int) string {
	s, e, err := token.Get(tokNames[name])
	c := classify(err)
	obs := c + " - -"
	if err == nil {
		h.hold(e)
		obs = fmt.Sprintf("ok %s %s", h.etagS(e), toRec(s))
	}
	h.t.Op(obs, "get", name)
	h.checkRevoked(name, err == nil, "get")
	h.noteVersion()
	if err == nil {
		return e
	}
	return ""
}

func (h *hist) list(group int) {
	l, e, err := token.List(grpNames[group])
	c := classify(err)
	obs := c + " - -"
	if err == nil {
		h.hold(e)
		var ids []int
		for _, s := range l {
			id := idx(tokNames, s.Token)
			ids = append(ids, id)
			h.checkRevoked(id, true, "list")
		}
		obs = fmt.Sprintf("ok %s %s", h.etagS(e), idsS(ids))
	}
	h.t.Op(obs, "list", group)
	h.noteVersion()
}

// condCheck is the monitor of the conditional-write clause: a write of an
// existing token succeeds only with a tag that the store returned, and (when
// every version had a new stamp) only if the file has not changed since the
// store returned it; a creation succeeds only without a tag.
func (h *hist) condCheck(what string, e string, verBefore int, existed bool, c string) {
	if h.broken {
		// a stamp was reused: the store may legitimately be out of date
		// (the model predicts what it does)
		return
	}
	h.t.Checked("C16.conditional")
	if c != "ok" {
		return
	}
	if existed {
		v, handedOut := h.heldVer[e]
		if e == "" || !handedOut {
			h.t.Fail("C16", "conditional", fmt.Sprintf("%s of an existing token succeeded with the tag %q, which is not a tag of the current version", what, e))
			return
		}
		if v != verBefore {
			h.t.Fail("C16", "conditional", fmt.Sprintf("%s with tag %s succeeded although the file changed since that tag was read", what, e))
		}
	} else if e != "" {
		h.t.Fail("C16", "conditional", fmt.Sprintf("%s created a token although a tag %s was given", what, e))
	}
}

// withFault runs one call into the server.  When the fault is armed the
// process cannot allocate a file descriptor during the call (RLIMIT_NOFILE
// 0: every open fails with EMFILE; stat, unlink and rename still work), so
// the CreateTemp of a rewrite and the OpenFile of an append fail.  The store
// is made to load the file first (a Get), so that the fault hits the write.
func (h *hist) withFault(f func()) {
	if !h.faultNext {
		f()
		return
	}
	h.faultNext = false
	h.get(0) // traced, so that the model loads too
	h.t.Op("-", "fault")
	h.t.Note("io-fault")
	// two kinds of fault, in turn: no file can be OPENED (RLIMIT_NOFILE 0), and
	// no file can GROW (RLIMIT_FSIZE 0 with SIGXFSZ ignored: the temporary file
	// of a rewrite is created, every write to it fails with EFBIG and writes
	// nothing; an append to the token file fails the same way).  Either way the
	// update must be refused and the file left as it was.
	resource := syscall.RLIMIT_NOFILE
	h.faultKind++
	// (only when the token file exists and is not empty: a failed FIRST append
	// leaves an empty file behind - the same set of tokens, but another file
	// state than the model's, which keeps "absent" and "empty" apart)
	if fi, err := os.Stat(h.path); h.faultKind%2 == 0 && err == nil && fi.Size() > 0 {
		resource = 1 // RLIMIT_FSIZE on linux
		h.t.Note("io-fault-write")
	}
	var old syscall.Rlimit
	if err := syscall.Getrlimit(resource, &old); err != nil {
		panic(err)
	}
	if err := syscall.Setrlimit(resource, &syscall.Rlimit{Cur: 0, Max: old.Max}); err != nil {
		panic(err)
	}
	defer syscall.Setrlimit(resource, &old)
	f()
}

func init() { signal.Ignore(syscall.SIGXFSZ) }

// afterRefused: the monitor of every refused update, whatever the path
// (library, HTTP, signalling) and the reason (stale tag, missing token, I/O
// fault): the file is untouched, and what the running server honours is what
// the file holds and what a freshly started server reads (checked by view,
// field by field) -- i.e. the last accepted version.
func (h *hist) afterRefused(what string, rawBefore []byte, existedFile bool) {
	_, existsNow, _, rawNow := parseFile(h.path)
	h.t.Checked("C16.refused_unchanged")
	if !existedFile && existsNow && len(rawNow) == 0 {
		// a failed append to a token file that did not exist leaves an EMPTY
		// file behind (open with O_CREATE succeeded, the write did not): the
		// stored set of tokens is the same, none
		h.t.Note("empty-file-left-by-failed-first-append")
	} else if existsNow != existedFile || !bytes.Equal(rawNow, rawBefore) {
		h.t.Fail("C16", "refused_unchanged", fmt.Sprintf("%s was refused but the token file changed", what))
	}
	h.view()
}

func (h *hist) upd(rc rec, e string) string {
	h.waitTickMaybe()
	recs, existedFile, _, rawBefore := parseFile(h.path)
	_, existed := lastWins(recs)[rc.name]
	verBefore := h.ver
	faulted := h.faultNext
	var err error
	h.withFault(func() { _, err = token.Update(rc.stateful(), e) })
	c := classify(err)
	st := h.stamp()
	h.t.Op(c, "upd", rc.String(), h.etagArg(e), "0:0", st)
	h.condCheck("Update", e, verBefore, existed, c)
	if c == "ok" {
		delete(h.revoked, rc.name)
		h.writes++
	} else if faulted || h.r.Chance(1, 4) {
		h.afterRefused("Update", rawBefore, existedFile)
	}
	h.noteVersion()
	return c
}

func (h *hist) del(name int, e string) string {
	h.waitTickMaybe()
	recs, existedFile, _, rawBefore := parseFile(h.path)
	_, existed := lastWins(recs)[name]
	verBefore := h.ver
	faulted := h.faultNext
	var err error
	h.withFault(func() { err = token.Delete(tokNames[name], e) })
	c := classify(err)
	st := h.stamp()
	h.t.Op(c, "del", name, h.etagArg(e), st)
	h.condCheck("Delete", e, verBefore, existed, c)
	if c == "ok" {
		if !existed && !h.broken {
			h.t.Fail("C16", "conditional", fmt.Sprintf("Delete of %d succeeded although the file has no such token", name))
		}
		h.revoked[name] = true
		h.writes++
	} else if faulted || h.r.Chance(1, 4) {
		h.afterRefused("Delete", rawBefore, existedFile)
	}
	h.noteVersion()
	return c
}

func (h *hist) expire() {
	h.waitTickMaybe()
	recs, _, junk, _ := parseFile(h.path)
	now := int(time.Since(t0) / time.Second)
	err := token.Expire()
	c := classify(err)
	st := h.stamp()
	h.t.Op(c, "expire", now, st)
	if c == "ok" && !junk && !h.broken {
		for _, r := range lastWins(recs) {
			if r.exp != nil && *r.exp < now-week {
				h.revoked[r.name] = true
			}
		}
	}
	h.noteVersion()
}

// etagArg: the tag as the model sees it: "-", a tag the store has returned
// (t<k>), or "bad" for a string the store never returned
func (h *hist) etagArg(e string) string {
	if e == "" {
		return "-"
	}
	if id, ok := h.tagID[e]; ok {
		return fmt.Sprintf("t%d", id)
	}
	return "bad"
}

var tickWait = true

func (h *hist) waitTickMaybe() {
	if tickWait {
		h.waitTick()
	}
}

// ext replaces the file behind the store's back.  mode: 0 = fresh real time,
// 1 = fresh synthetic time (in the past), 2 = the mtime the file had before
func (h *hist) ext(content []rec, junkAt int, remove bool, mode int) {
	fi, errOld := os.Stat(h.path)
	arg := "-"
	if remove {
		os.Remove(h.path)
	} else {
		if mode == 0 {
			h.waitTick()
		}
		data := encodeLines(content, junkAt)
		tmp := h.path + ".ext"
		os.WriteFile(tmp, data, 0600)
		os.Rename(tmp, h.path)
		switch {
		case mode == 1:
			h.synth++
			mt := t0.Add(-400*24*time.Hour + time.Duration(h.synth)*time.Second)
			os.Chtimes(h.path, mt, mt)
		case mode == 2 && errOld == nil:
			os.Chtimes(h.path, fi.ModTime(), fi.ModTime())
		}
		var parts []string
		for i, r := range content {
			if i == junkAt {
				parts = append(parts, "!")
			}
			parts = append(parts, r.String())
		}
		if junkAt >= len(content) {
			parts = append(parts, "!")
		}
		arg = "e"
		if len(parts) > 0 {
			arg = strings.Join(parts, ";")
		}
	}
	st := h.stamp()
	h.t.Op("-", "ext", arg, st)
	// an external edit may re-create any name it contains
	for _, r := range content {
		delete(h.revoked, r.name)
	}
	h.noteVersion()
}

func (h *hist) restart() {
	token.VerifResetStateful()
	h.t.Op("-", "restart")
}

func (h *hist) repoint() {
	token.SetStatefulFilename(h.path)
	h.t.Op("-", "repoint")
}

// view: which names the server honours (Get on every name), what the file
// holds, and the mirror monitor.
func (h *hist) view() {
	recs, exists, junk, _ := parseFile(h.path)
	var srv []int
	got := map[int]rec{}
	srvErr := false
	for id, n := range tokNames {
		s, _, err := token.Get(n)
		if err == nil {
			srv = append(srv, id)
			got[id] = toRec(s)
		} else if !errors.Is(err, os.ErrNotExist) {
			srvErr = true
		}
		h.checkRevoked(id, err == nil, "view")
	}
	fileS := "-"
	if exists {
		var ids []int
		for _, r := range recs {
			ids = append(ids, r.name)
		}
		fileS = idsS(ids)
		if len(ids) == 0 {
			fileS = "e"
		}
		if junk {
			fileS = "!"
		}
	}
	h.t.Op(fmt.Sprintf("srv=%s file=%s", idsS(srv), fileS), "view", len(tokNames))

	// mirror: honoured == what a fresh server reads == what the file says
	fresh, _, ferr := token.VerifFreshLoad(h.path)
	h.t.Checked("C16.mirror_fresh_server")
	if !h.broken {
		fm := map[int]rec{}
		for _, s := range fresh {
			fm[idx(tokNames, s.Token)] = toRec(s)
		}
		if (ferr != nil) != srvErr {
			h.t.Fail("C16", "mirror_fresh_server", fmt.Sprintf("running server error=%v, freshly started server error=%v", srvErr, ferr))
		} else if ferr == nil && !sameMap(fm, got) {
			h.t.Fail("C16", "mirror_fresh_server", fmt.Sprintf("running server honours %v, a freshly started server reads %v", mapS(got), mapS(fm)))
		}
	}
	h.t.Checked("C16.mirror_file")
	if !h.broken {
		want := lastWins(recs)
		if junk {
			want = map[int]rec{}
		}
		if !sameMap(want, got) {
			h.t.Fail("C16", "mirror_file", fmt.Sprintf("running server honours %v, the file holds %v (junk=%v)", mapS(got), mapS(want), junk))
		}
		if junk != srvErr {
			h.t.Fail("C16", "mirror_file", fmt.Sprintf("file undecodable=%v but server error=%v", junk, srvErr))
		}
	}
	h.noteVersion()
}

func sameMap(a, b map[int]rec) bool {
	if len(a) != len(b) {
		return false
	}
	for k, v := range a {
		w, ok := b[k]
		if !ok || v.String() != w.String() {
			return false
		}
	}
	return true
}

func mapS(m map[int]rec) string {
	var s []string
	for _, v := range m {
		s = append(s, v.String())
	}
	sort.Strings(s)
	return "{" + strings.Join(s, " ") + "}"
}

// ------------------------------------------------------------ generators

var expChoices = []*int{nil, ip(-700000), ip(-650000), ip(-600000), ip(-3600), ip(3600), ip(7200), ip(86400)}
var nbfChoices = []*int{nil, nil, ip(-3600), ip(1800)}

func genRec(r *tr.Rand, name int) rec {
	return rec{name: name, group: r.Intn(len(grpNames)),
		exp: expChoices[r.Intn(len(expChoices))], nbf: nbfChoices[r.Intn(len(nbfChoices))],
		data: r.Intn(10)}
}

// pickTag chooses the tag an editor presents.
func (h *hist) pickTag(name int) string {
	switch h.r.Pick(55, 30, 8, 7) {
	case 0:
		return h.get(name) // read it now
	case 1:
		if len(h.held) > 0 {
			h.t.Note("tag-held")
			return h.held[h.r.Intn(len(h.held))]
		}
		return h.get(name)
	case 2:
		return ""
	}
	return "\"bad\""
}

func (h *hist) randomOp(stale bool) {
	r := h.r
	name := r.Intn(len(baseNames))
	switch r.Pick(24, 18, 12, 6, 8, 6, 9, 4, 2) {
	case 0: // create (or an unconditional overwrite attempt)
		h.faultNext = r.Chance(1, 12)
		h.upd(genRec(r, name), "")
	case 1: // edit
		e := h.pickTag(name)
		h.faultNext = r.Chance(1, 8)
		h.upd(genRec(r, name), e)
	case 2:
		e := h.pickTag(name)
		h.faultNext = r.Chance(1, 8)
		h.del(name, e)
	case 3:
		h.expire()
	case 4:
		h.get(name)
	case 5:
		h.list(r.Intn(len(grpNames)))
	case 6:
		h.randomExt(stale)
	case 7:
		h.restart()
	case 8:
		h.repoint()
	}
	if r.Chance(1, 2) {
		h.view()
	}
}

func (h *hist) randomExt(stale bool) {
	r := h.r
	recs, _, _, _ := parseFile(h.path)
	mode := r.Intn(2)
	if stale && r.Chance(2, 3) {
		mode = 2
	}
	kind := r.Pick(2, 4, 5, 2, 3, 1)
	if stale {
		kind = r.Pick(1, 2, 9, 1, 3, 1)
	}
	switch kind {
	case 0:
		h.ext(nil, -1, true, 0)
		h.t.Note("ext-remove")
	case 1: // arbitrary new content, possibly with a duplicate name
		n := r.Intn(5)
		var c []rec
		for i := 0; i < n; i++ {
			c = append(c, genRec(r, r.Intn(len(baseNames))))
		}
		h.ext(c, -1, false, mode)
		h.t.Note("ext-replace")
	case 2: // same size: one datum changed
		if len(recs) == 0 {
			h.ext([]rec{genRec(r, r.Intn(len(baseNames)))}, -1, false, mode)
			return
		}
		c := append([]rec{}, recs...)
		i := r.Intn(len(c))
		if r.Bool() && c[i].name >= 1 {
			// another name of the same length
			c[i].name = 1 + (c[i].name+r.Intn(4))%5
		} else if c[i].data >= 0 {
			c[i].data = (c[i].data + 2) % 10
		}
		h.ext(c, -1, false, mode)
		h.t.Note(fmt.Sprintf("ext-same-size-mode%d", mode))
	case 3: // a line that does not decode
		h.ext(recs, r.Intn(len(recs)+1), false, mode)
		h.t.Note("ext-junk")
	case 4: // one record dropped
		if len(recs) == 0 {
			h.ext(nil, -1, false, mode)
			return
		}
		i := r.Intn(len(recs))
		c := append(append([]rec{}, recs[:i]...), recs[i+1:]...)
		h.ext(c, -1, false, mode)
		h.t.Note(fmt.Sprintf("ext-drop-mode%d", mode))
	case 5:
		h.ext(nil, -1, false, mode)
		h.t.Note("ext-empty")
	}
}

func (h *hist) finish() {
	h.view()
	if h.writes >= 3 {
		h.t.Nontrivial(fmt.Sprintf("w%d-v%d-b%v", h.writes, h.ver, h.broken))
	}
	h.done()
}

// corpus: fixed histories that are always run first
func corpus(t *tr.Trace, r *tr.Rand, base string) {
	// 1. the life of a token: create, edit with the tag, stale edit, delete, restart
	h := newHist(t, r, base, "tokstore", "corpus")
	h.upd(rec{1, 1, ip(3600), nil, 1}, "")
	h.upd(rec{2, 1, ip(7200), ip(-3600), 2}, "")
	h.upd(rec{3, 2, ip(-700000), nil, 3}, "")
	e := h.get(2)
	h.upd(rec{2, 1, ip(86400), nil, 4}, "")        // no tag: refused
	h.upd(rec{2, 1, ip(86400), nil, 4}, "\"bad\"") // wrong tag: refused
	h.upd(rec{2, 1, ip(86400), nil, 4}, e)
	h.upd(rec{2, 1, ip(3600), nil, 5}, e) // stale now
	h.view()
	h.del(1, e) // stale
	e = h.get(1)
	h.del(1, e)
	h.view()
	h.restart()
	h.view()
	h.expire() // sweeps 3
	h.restart()
	h.view()
	h.list(1)
	h.finish()

	// 2. deleting the last token removes the file; re-creation
	h = newHist(t, r, base, "tokstore", "corpus")
	h.upd(rec{1, 1, ip(3600), nil, 1}, "")
	e = h.get(1)
	h.del(1, e)
	h.view()
	h.upd(rec{1, 1, ip(3600), nil, 1}, e) // old tag, token gone
	h.upd(rec{1, 1, ip(3600), nil, 2}, "")
	h.view()
	h.finish()

	// 3. external edits: noticed when the stamp differs, not when it is the same
	h = newHist(t, r, base, "tokstore", "corpus")
	h.upd(rec{1, 1, ip(3600), nil, 1}, "")
	h.upd(rec{2, 2, ip(3600), nil, 2}, "")
	h.view()
	h.ext([]rec{{1, 1, ip(3600), nil, 3}, {2, 2, ip(3600), nil, 2}}, -1, false, 0) // same size, new mtime
	h.view()
	h.ext([]rec{{1, 1, ip(3600), nil, 5}, {2, 2, ip(3600), nil, 2}}, -1, false, 2) // same size, same mtime
	h.view()
	h.ext([]rec{{2, 2, ip(3600), nil, 2}}, -1, false, 2) // other size, same mtime
	h.view()
	h.ext([]rec{{2, 2, ip(3600), nil, 2}}, 1, false, 0) // torn last line
	h.view()
	h.upd(rec{4, 1, ip(3600), nil, 1}, "")
	h.ext(nil, -1, true, 0)
	h.view()
	h.finish()

	// 4. Expire persists the sweep; a restart does not bring the token back
	h = newHist(t, r, base, "tokstore", "corpus")
	h.upd(rec{1, 1, ip(-700000), nil, 1}, "")
	h.upd(rec{2, 1, ip(-600000), nil, 1}, "")
	h.upd(rec{3, 1, nil, nil, 1}, "")
	h.expire()
	h.view()
	h.restart()
	h.view()
	h.repoint()
	h.view()
	h.finish()
}

// editors: two editors, each [read the tag][write with it], in all six orders
func editors(t *tr.Trace, r *tr.Rand, base string, k int) {
	scheds := [][]int{{0, 0, 1, 1}, {0, 1, 0, 1}, {0, 1, 1, 0}, {1, 0, 0, 1}, {1, 0, 1, 0}, {1, 1, 0, 0}}
	sc := scheds[k%len(scheds)]
	h := newHist(t, r, base, "tokstore", "editors")
	h.upd(genRec(r, 1), "")
	h.upd(genRec(r, 2), "")
	if r.Bool() {
		h.upd(genRec(r, 3), "")
	}
	target := [2]int{1, 1 + r.Intn(2)} // same token or two different tokens: the tag is per file
	kindDel := [2]bool{r.Chance(1, 3), r.Chance(1, 3)}
	var tag [2]string
	var pc [2]int
	var okc [2]bool
	for _, ed := range sc {
		if pc[ed] == 0 {
			tag[ed] = h.get(target[ed])
		} else {
			var c string
			if kindDel[ed] {
				c = h.del(target[ed], tag[ed])
			} else {
				c = h.upd(genRec(r, target[ed]), tag[ed])
			}
			okc[ed] = c == "ok"
		}
		pc[ed]++
	}
	h.t.Checked("C16.two_editors")
	if tag[0] == tag[1] && tag[0] != "" && okc[0] && okc[1] && !h.broken {
		h.t.Fail("C16", "two_editors", fmt.Sprintf("schedule %v: both editors hold tag %s and both writes succeeded", sc, tag[0]))
	}
	h.t.Note(fmt.Sprintf("editors-sched-%d", k%len(scheds)))
	h.finish()
}

// race: n goroutines present the same tag at the same time
func race(t *tr.Trace, r *tr.Rand, base string) {
	h := newHist(t, r, base, "tokrace", "race")
	defer h.done()
	token.Update(rec{1, 1, ip(3600), nil, 0}.stateful(), "")
	token.Update(rec{2, 1, ip(3600), nil, 0}.stateful(), "")
	h.stamp()
	h.waitTick()
	_, e, err := token.Get(tokNames[1])
	if err != nil {
		h.t.Fail("C16", "exclusive_race", "setup failed: "+err.Error())
		return
	}
	n := 2 + r.Intn(7)
	res := make([]string, n)
	kinds := make([]int, n)
	for i := range kinds {
		kinds[i] = r.Intn(3)
	}
	start := make(chan struct{})
	var wg sync.WaitGroup
	for i := 0; i < n; i++ {
		wg.Add(1)
		go func(i int) {
			defer wg.Done()
			<-start
			var err error
			switch kinds[i] {
			case 0:
				_, err = token.Update(rec{1, 1, ip(7200), nil, i % 10}.stateful(), e)
			case 1:
				_, err = token.Update(rec{2, 1, ip(7200), nil, i % 10}.stateful(), e)
			default:
				err = token.Delete(tokNames[1+i%2], e)
			}
			res[i] = classify(err)
		}(i)
	}
	close(start)
	wg.Wait()
	oks := 0
	winner := -1
	for i, c := range res {
		if c == "ok" {
			oks++
			winner = i
		}
	}
	h.t.Op(fmt.Sprintf("ok=%d", oks), "race", n)
	h.t.Checked("C16.exclusive_race")
	if oks > 1 {
		h.t.Fail("C16", "exclusive_race", fmt.Sprintf("%d goroutines presented the same tag and %d succeeded: %v", n, oks, res))
	}
	if oks == 0 {
		h.t.Fail("C16", "exclusive_race", fmt.Sprintf("no writer with the current tag succeeded: %v", res))
	}
	// the file holds the winner's version
	recs, _, junk, _ := parseFile(h.path)
	m := lastWins(recs)
	h.t.Checked("C16.race_result")
	if winner >= 0 && !junk {
		okw := false
		is := func(r rec, ok bool, exp, data int) bool {
			return ok && r.exp != nil && *r.exp == exp && r.data == data
		}
		r1, ok1 := m[1]
		r2, ok2 := m[2]
		switch kinds[winner] {
		case 0:
			okw = is(r1, ok1, 7200, winner%10) && is(r2, ok2, 3600, 0)
		case 1:
			okw = is(r2, ok2, 7200, winner%10) && is(r1, ok1, 3600, 0)
		default:
			_, present := m[1+winner%2]
			okw = !present && len(m) == 1
		}
		if !okw {
			h.t.Fail("C16", "race_result", fmt.Sprintf("after the race the file holds %v, winner %d kind %d", mapS(m), winner, kinds[winner]))
		}
	}
	h.t.Nontrivial(fmt.Sprintf("race-%d-%v", n, kinds))
}

// ------------------------------------------------------------ crash points

func snapshot(path string) string {
	recs, exists, junk, raw := parseFile(path)
	if !exists {
		return "absent"
	}
	if junk {
		return "JUNK:" + string(raw)
	}
	var s []string
	for _, r := range recs {
		s = append(s, r.String())
	}
	sort.Strings(s)
	return "{" + strings.Join(s, " ") + "}"
}

// what a freshly started server makes of the file
func freshSnapshot(path string) string {
	l, _, err := token.VerifFreshLoad(path)
	if err != nil {
		return "ERR"
	}
	var s []string
	for _, x := range l {
		s = append(s, toRec(x).String())
	}
	sort.Strings(s)
	return "{" + strings.Join(s, " ") + "}"
}

type crashCase struct {
	kind  string
	setup []rec
}

var crashCases = []crashCase{
	{"edit", []rec{{1, 1, ip(3600), nil, 1}, {2, 1, ip(7200), nil, 2}, {3, 2, ip(86400), nil, 3}}},
	{"delete", []rec{{1, 1, ip(3600), nil, 1}, {2, 1, ip(7200), nil, 2}, {3, 2, ip(86400), nil, 3}}},
	{"deletelast", []rec{{1, 1, ip(3600), nil, 1}}},
	{"expire", []rec{{1, 1, ip(-700000), nil, 1}, {2, 1, ip(7200), nil, 2}}},
	{"create", []rec{{2, 1, ip(7200), nil, 2}}},
	{"createfirst", nil},
}

// child: one operation on the store in this (traced) process
func childMain(args []string) {
	kind, path := args[0], args[1]
	sec, _ := strconv.ParseInt(args[2], 10, 64)
	t0 = time.Unix(sec, 0).UTC()
	token.SetStatefulFilename(path)
	var err error
	switch kind {
	case "edit":
		var e string
		_, e, err = token.Get(tokNames[1])
		if err == nil {
			_, err = token.Update(rec{1, 1, ip(7200), ip(-3600), 7}.stateful(), e)
		}
	case "delete", "deletelast":
		var e string
		_, e, err = token.Get(tokNames[1])
		if err == nil {
			err = token.Delete(tokNames[1], e)
		}
	case "expire":
		err = token.Expire()
	case "create", "createfirst":
		_, err = token.Update(rec{4, 2, ip(3600), nil, 4}.stateful(), "")
	case "expirefail", "deletefail":
		// the rename inside the operation fails (injected); afterwards the
		// same process is asked what it honours
		if kind == "expirefail" {
			err = token.Expire()
		} else {
			var e string
			_, e, err = token.Get(tokNames[1])
			if err == nil {
				err = token.Delete(tokNames[1], e)
			}
		}
		var ids []string
		for id, n := range tokNames {
			if _, _, e := token.Get(n); e == nil {
				ids = append(ids, strconv.Itoa(id))
			}
		}
		fmt.Printf("RESULT err=%v honoured=%s\n", err != nil, strings.Join(ids, ","))
		os.Exit(0)
	}
	if err != nil {
		fmt.Println("child error:", err)
		os.Exit(3)
	}
	os.Exit(0)
}

func init() {
	if len(os.Args) > 1 && os.Args[1] == "child" {
		// every system call of the operation is made by the traced thread
		runtime.LockOSThread()
	}
}

func prepare(dir string, setup []rec) string {
	os.RemoveAll(dir)
	os.MkdirAll(dir, 0700)
	p := filepath.Join(dir, "tokens.jsonl")
	if setup != nil {
		os.WriteFile(p, encodeLines(setup, -1), 0600)
	}
	return p
}

var quickSyscalls = map[string]bool{"openat": true, "write": true, "close": true, "renameat": true, "unlinkat": true}

var killSyscalls = []string{"openat", "write", "close", "renameat", "unlinkat", "newfstatat", "fstat", "fsync", "fdatasync", "read"}

// crashPoints runs one case: the operation in a child under strace, killed at
// the n-th occurrence of one system call, for the chosen occurrences.
func crashPoints(t *tr.Trace, base string, cc crashCase, full bool) {
	exe, err := os.Executable()
	if err != nil {
		return
	}
	if _, err := exec.LookPath("strace"); err != nil {
		t.Note("strace-missing")
		return
	}
	dir := filepath.Join(base, "crash")
	t0s := strconv.FormatInt(t0.Unix(), 10)

	// reference run, traced but not killed: the new set, and where in the
	// process the operation's own system calls are
	p := prepare(dir, cc.setup)
	old := snapshot(p)
	logf := filepath.Join(base, "strace.log")
	os.Remove(logf)
	cmd := exec.Command("strace", "-o", logf, "-e", "trace="+strings.Join(killSyscalls, ","),
		exe, "child", cc.kind, p, t0s)
	out, err := cmd.CombinedOutput()
	if err != nil {
		t.History("tokcrash", "crash")
		t.Fail("C16", "atomic", fmt.Sprintf("reference run of %s failed: %v %s", cc.kind, err, out))
		return
	}
	newS := snapshot(p)
	logb, _ := os.ReadFile(logf)
	startup := map[string]int{}
	total := map[string]int{}
	seenDir := false
	for _, line := range strings.Split(string(logb), "\n") {
		i := strings.IndexByte(line, '(')
		if i <= 0 {
			continue
		}
		sc := line[:i]
		if strings.Contains(line, dir) {
			seenDir = true
		}
		total[sc]++
		if !seenDir {
			startup[sc]++
		}
	}
	if total["fsync"]+total["fdatasync"] == 0 {
		t.Note("no-fsync-in-" + cc.kind)
	}
	t.History("tokcrash", "crash")
	t.Op(fmt.Sprintf("old=%s new=%s", old, newS), "crashref", cc.kind)
	if old == newS {
		t.Fail("C16", "atomic", "reference run of "+cc.kind+" changed nothing")
		return
	}
	points := 0
	for _, sc := range killSyscalls {
		if total[sc] == 0 {
			continue
		}
		// one point inside start-up (before the operation), then every
		// occurrence from the first that belongs to the operation
		first := startup[sc]
		if first < 1 {
			first = 1
		}
		for n := first; n <= total[sc]+1; n++ {
			if !full && !quickSyscalls[sc] {
				// quick: every occurrence of the calls that change the
				// directory or the files; thorough: also stat and read
				continue
			}
			p := prepare(dir, cc.setup)
			cmd := exec.Command("strace", "-o", "/dev/null", "-e", "trace="+sc,
				"-e", fmt.Sprintf("inject=%s:signal=SIGKILL:when=%d", sc, n),
				exe, "child", cc.kind, p, t0s)
			err := cmd.Run()
			killed := err != nil
			got := snapshot(p)
			fr := freshSnapshot(p)
			cls := "other"
			switch got {
			case old:
				cls = "old"
			case newS:
				cls = "new"
			}
			// an empty file is the empty set
			if cls == "other" && got == "{}" && old == "absent" {
				cls = "old-empty"
			}
			t.Op(fmt.Sprintf("killed=%v %s", killed, cls), "crash", cc.kind, sc, n)
			t.Checked("C16.atomic")
			points++
			if cls == "other" {
				t.Fail("C16", "atomic", fmt.Sprintf("%s killed at %s #%d: the file holds %s, neither the old set %s nor the new set %s", cc.kind, sc, n, got, old, newS))
			}
			t.Checked("C16.atomic_fresh_server")
			wantFresh := got
			if got == "absent" {
				wantFresh = "{}"
			}
			if fr != wantFresh {
				t.Fail("C16", "atomic_fresh_server", fmt.Sprintf("%s killed at %s #%d: the file holds %s but a freshly started server reads %s", cc.kind, sc, n, got, fr))
			}
			if !killed && cls != "new" {
				t.Fail("C16", "atomic", fmt.Sprintf("%s completed (not killed at %s #%d) but the file holds %s", cc.kind, sc, n, got))
			}
			t.Note("crash-" + cc.kind + "-" + cls)
		}
	}
	t.Nontrivial(fmt.Sprintf("crash-%s-%d", cc.kind, points))
}

// ioFailure: observation about I/O errors (outside the property's
// quantifier): the rename of the rewrite fails.
func ioFailure(t *tr.Trace, base string) {
	exe, err := os.Executable()
	if err != nil {
		return
	}
	if _, err := exec.LookPath("strace"); err != nil {
		return
	}
	dir := filepath.Join(base, "fail")
	t0s := strconv.FormatInt(t0.Unix(), 10)
	for _, kind := range []string{"expirefail", "deletefail"} {
		p := prepare(dir, []rec{{1, 1, ip(-700000), nil, 1}, {2, 1, ip(7200), nil, 2}})
		cmd := exec.Command("strace", "-o", "/dev/null", "-e", "trace=renameat",
			"-e", "inject=renameat:error=EIO:when=1", exe, "child", kind, p, t0s)
		out, _ := cmd.Output()
		t.History("tokfail", "iofail")
		line := strings.TrimSpace(string(out))
		t.Op(line+" file="+snapshot(p), "iofail", kind)
		// memory and file agree after a failed Delete (rolled back); after a
		// failed Expire the memory has lost the swept token that the file
		// still holds
		recs, _, _, _ := parseFile(p)
		var ids []int
		for _, r := range recs {
			ids = append(ids, r.name)
		}
		want := "RESULT err=true honoured=" + strings.ReplaceAll(idsS(ids), "-", "")
		if line == want {
			t.Note("iofail-" + kind + "-memory-equals-file")
		} else {
			t.Note("iofail-" + kind + "-memory-differs-from-file")
		}
	}
}

// ------------------------------------------------------------ main

// RunStore: the library-level streams and the crash points (driver tokstore)
func RunStore(t *tr.Trace, r *tr.Rand, n int) {
	t0 = time.Now().UTC().Truncate(time.Second)
	base, err := os.MkdirTemp("", "tokstore")
	if err != nil {
		panic(err)
	}
	defer os.RemoveAll(base)

	corpus(t, r, base)
	for i := 0; i < n; i++ {
		switch {
		case i%10 == 7:
			editors(t, r, base, i/10)
		case i%10 == 8:
			race(t, r, base)
		case i%10 == 9:
			// the hypothesis is deliberately broken: external edits that keep
			// the stamp, writes without waiting for the clock
			h := newHist(t, r, base, "tokstore", "stale")
			tickWait = r.Bool()
			for k := r.Range(8, 30); k > 0; k-- {
				h.randomOp(true)
			}
			tickWait = true
			h.finish()
		case i%10 == 6:
			// malformed: mostly external edits
			h := newHist(t, r, base, "tokstore", "malformed")
			for k := r.Range(6, 20); k > 0; k-- {
				if r.Chance(1, 2) {
					h.randomExt(false)
					h.view()
				} else {
					h.randomOp(false)
				}
			}
			h.finish()
		default:
			h := newHist(t, r, base, "tokstore", "main")
			for k := r.Range(5, 40); k > 0; k-- {
				h.randomOp(false)
			}
			h.finish()
		}
	}
	// crash points: every occurrence in the thorough tier, a few in quick
	full := n >= 1000
	for _, cc := range crashCases {
		crashPoints(t, base, cc, full)
	}
	ioFailure(t, base)
}

// RunAPI: the HTTP streams (driver tokapi).  APISetup must be set.
func RunAPI(t *tr.Trace, r *tr.Rand, n int) {
	t0 = time.Now().UTC().Truncate(time.Second)
	base, err := os.MkdirTemp("", "tokapi")
	if err != nil {
		panic(err)
	}
	defer os.RemoveAll(base)
	h, err := APISetup(base, grpNames[1:])
	if err != nil {
		panic(err)
	}
	apiH = h
	apiCorpus(t, r, base)
	if SigNew != nil {
		sigSeq(t, r, base, true)
	}
	repoint := func() {
		// a signalling world points the group package at its own directories
		if _, err := APISetup(base, grpNames[1:]); err != nil {
			panic(err)
		}
	}
	repoint()
	for i := 0; i < n; i++ {
		switch {
		case i%8 == 7:
			apiRace(t, r, base)
		case i%8 == 1 && SigNew != nil:
			sigSeq(t, r, base, false)
			repoint()
		case i%8 == 4 && SigNew != nil:
			sigRace(t, r, base)
			repoint()
		case i%8 == 2 || i%8 == 5 || i%8 == 6:
			apiEditors(t, r, base, i/8*3+i%8/3)
		default:
			// the HTTP API, mixed with the library and external edits
			h := newAPIHist(t, r, base, "apiseq")
			h.aput(1, 1, "", "", genRec(r, 1))
			h.aput(1, 2, "", "", genRec(r, 2))
			for k := r.Range(8, 30); k > 0; k-- {
				h.apiRandomOp()
			}
			h.finish()
		}
	}
}

// IsChild: the process was started as the traced child of a crash point
func IsChild() bool { return len(os.Args) > 1 && os.Args[1] == "child" }

// Child runs the child and does not return.
func Child() { childMain(os.Args[2:]) }

// Signalling streams of driver tokapi: the token commands of the websocket
// protocol (groupaction maketoken / edittoken / listtokens) handled by the
// REAL handleClientMessage, compared with sig_step of Model/TokenStore.v.
package tokdrv

import (
	"fmt"
	"path/filepath"
	"sync"
	"time"

	"github.com/jech/galene/token"

	"verifharness/internal/tr"
)

// SigWorld is provided by cmd/tokapi (which links rtpconn): a group whose
// operators (op + token permissions) are connected.
type SigWorld interface {
	TokenFile() string
	Request(client int, kind string, value map[string]interface{}) (errKind string, val interface{}, ok bool)
	Close()
}

var SigNew func(group string, operators int) (SigWorld, error)

func fmtTime(p *int) string { return offTime(p).Format(time.RFC3339) }

// smake: maketoken; the server makes up the name
func (h *hist) smake(w SigWorld, client, g int, rc rec) string {
	h.waitTickMaybe()
	_, existedFile, _, rawBefore := parseFile(h.path)
	s := rc.stateful()
	val := map[string]interface{}{
		"group": grpNames[g], "username": *s.Username,
		"permissions": toIfaces(s.Permissions), "expires": fmtTime(rc.exp),
	}
	if rc.nbf != nil {
		val["not-before"] = fmtTime(rc.nbf)
	}
	var ek string
	var v interface{}
	var ok bool
	h.withFault(func() { ek, v, ok = w.Request(client, "maketoken", val) })
	st := h.stamp()
	n := len(tokNames)
	c := "error"
	name := fmt.Sprintf("unused%d", n)
	if ok && ek == "" {
		c = "ok"
		if m, isMap := v.(map[string]interface{}); isMap {
			name, _ = m["token"].(string)
		}
	}
	if !ok {
		c = "broken:" + ek
	}
	tokNames = append(tokNames, name)
	rc.name, rc.group = n, g
	h.t.Op(c, "smake", rc.String(), st)
	if c == "ok" {
		h.writes++
	} else {
		h.afterRefused("maketoken", rawBefore, existedFile)
	}
	h.noteVersion()
	return c
}

func toIfaces(l []string) []interface{} {
	out := make([]interface{}, len(l))
	for i, x := range l {
		out[i] = x
	}
	return out
}

// sedit: edittoken (new expiry and/or not-before)
func (h *hist) sedit(w SigWorld, client, g, n int, exp, nbf *int) string {
	h.waitTickMaybe()
	_, existedFile, _, rawBefore := parseFile(h.path)
	val := map[string]interface{}{"token": tokNames[n]}
	if exp != nil {
		val["expires"] = fmtTime(exp)
	}
	if nbf != nil {
		val["not-before"] = fmtTime(nbf)
	}
	var ek string
	var ok bool
	h.withFault(func() { ek, _, ok = w.Request(client, "edittoken", val) })
	st := h.stamp()
	c := "error"
	if ok && ek == "" {
		c = "ok"
	}
	if !ok {
		c = "broken:" + ek
	}
	h.t.Op(c, "sedit", g, n, optS(exp), optS(nbf), st)
	if c == "ok" {
		h.writes++
	} else {
		h.afterRefused("edittoken", rawBefore, existedFile)
	}
	h.noteVersion()
	return c
}

func (h *hist) slist(w SigWorld, client, g int) {
	ek, v, ok := w.Request(client, "listtokens", nil)
	obs := "error -"
	if ok && ek == "" {
		var ids []int
		if l, isList := v.([]interface{}); isList {
			for _, x := range l {
				if m, isMap := x.(map[string]interface{}); isMap {
					name, _ := m["token"].(string)
					id := idx(tokNames, name)
					ids = append(ids, id)
					if id >= 0 {
						h.checkRevoked(id, true, "listtokens")
					}
				}
			}
		}
		obs = "ok " + idsS(ids)
	}
	h.t.Op(obs, "slist", g)
	h.noteVersion()
}

var liveExp = []*int{ip(-3600), ip(3600), ip(7200), ip(86400), ip(-700000)}

func newSigHist(t *tr.Trace, r *tr.Rand, base, comp, stream string, operators int) (*hist, SigWorld) {
	h := newHist(t, r, filepath.Join(base, "data"), comp, stream)
	w, err := SigNew(grpNames[1], operators)
	if err != nil {
		panic(err)
	}
	h.path = w.TokenFile()
	token.SetStatefulFilename(h.path)
	token.VerifResetStateful()
	return h, w
}

// sigSeq: operators making, editing and listing tokens, mixed with the
// library, the sweep, external edits, restarts, and I/O faults
func sigSeq(t *tr.Trace, r *tr.Rand, base string, corpus bool) {
	h, w := newSigHist(t, r, base, "tokstore", "sigseq", 2)
	defer w.Close()
	mk := func() rec {
		rc := genRec(r, 0)
		rc.exp = liveExp[r.Intn(len(liveExp))]
		return rc
	}
	if corpus {
		// an edit that is refused must change nothing: revoke a token by
		// moving its expiry into the past, then an edit that would revive it
		// fails because the file cannot be rewritten
		h.smake(w, 0, 1, rec{0, 1, ip(3600), nil, 1})
		h.smake(w, 1, 1, rec{0, 1, ip(7200), nil, 2})
		h.sedit(w, 0, 1, 6, ip(-3600), nil)
		h.view()
		h.faultNext = true
		h.sedit(w, 1, 1, 6, ip(86400), nil)
		h.get(6)
		h.restart()
		h.get(6)
		h.faultNext = true
		h.smake(w, 0, 1, rec{0, 1, ip(3600), nil, 3})
		h.sedit(w, 0, 1, 7, nil, ip(1800))
		h.slist(w, 1, 1)
		h.finish()
		return
	}
	h.smake(w, 0, 1, mk())
	h.smake(w, 1, 1, mk())
	for k := r.Range(8, 25); k > 0; k-- {
		cl := r.Intn(2)
		n := 1 + r.Intn(len(tokNames)-1)
		if r.Chance(1, 4) {
			h.faultNext = true
		}
		switch r.Pick(12, 30, 8, 8, 4, 4, 4, 4) {
		case 0:
			if len(tokNames) < 14 {
				h.smake(w, cl, 1, mk())
			}
		case 1:
			var exp, nbf *int
			if r.Chance(3, 4) {
				exp = liveExp[r.Intn(len(liveExp))]
			}
			if r.Chance(1, 3) {
				nbf = nbfChoices[2+r.Intn(2)]
			}
			h.sedit(w, cl, 1, n, exp, nbf)
		case 2:
			h.faultNext = false
			h.slist(w, cl, 1)
		case 3:
			h.faultNext = false
			h.get(n)
		case 4: // the library, behind the operators' back
			e := h.pickTag(n)
			h.del(n, e)
		case 5:
			h.upd(genRec(r, 1+r.Intn(len(baseNames)-1)), "")
		case 6:
			h.faultNext = false
			h.expire()
		case 7:
			h.faultNext = false
			if r.Bool() {
				h.restart()
			} else {
				h.randomExt(false)
			}
		}
		h.faultNext = false
		if r.Chance(1, 3) {
			h.view()
		}
	}
	h.finish()
}

// sigRace: operators edit and make tokens from their own goroutines (as the
// per-connection goroutines of the server do); some edits are refused with a
// stale tag.  Whatever the schedule: afterwards the running server honours
// exactly what the file holds.
func sigRace(t *tr.Trace, r *tr.Rand, base string) {
	const ops = 3
	h, w := newSigHist(t, r, base, "tokrace", "sigrace", ops)
	defer w.Close()
	defer h.done()
	val := func(exp int) map[string]interface{} {
		return map[string]interface{}{"group": grpNames[1], "username": "u1",
			"permissions": []interface{}{"present"}, "expires": fmtTime(&exp)}
	}
	var names []string
	for i := 0; i < 3; i++ {
		_, v, _ := w.Request(0, "maketoken", val(3600))
		if m, ok := v.(map[string]interface{}); ok {
			s, _ := m["token"].(string)
			names = append(names, s)
		}
	}
	if len(names) != 3 {
		h.t.Fail("C16", "refused_unchanged", "sigrace setup failed")
		return
	}
	tokNames = append(tokNames, names...)
	rounds := 6 + r.Intn(10)
	plans := make([][]int, ops)
	for i := range plans {
		for k := 0; k < rounds; k++ {
			plans[i] = append(plans[i], r.Intn(1000))
		}
	}
	refused := make([]int, ops)
	start := make(chan struct{})
	var wg sync.WaitGroup
	for i := 0; i < ops; i++ {
		wg.Add(1)
		go func(i int) {
			defer wg.Done()
			<-start
			for _, x := range plans[i] {
				var ek string
				if x%4 == 3 {
					ek, _, _ = w.Request(i, "maketoken", val(7200))
				} else {
					e := 3600 * (1 + x%20)
					ek, _, _ = w.Request(i, "edittoken", map[string]interface{}{
						"token": names[x%3], "expires": fmtTime(&e)})
				}
				if ek != "" {
					refused[i]++
				}
			}
		}(i)
	}
	close(start)
	wg.Wait()
	nref := refused[0] + refused[1] + refused[2]
	h.t.Op(fmt.Sprintf("refused=%v", nref > 0), "sigrace", ops, rounds)
	if nref > 0 {
		h.t.Note("sigrace-some-edit-refused")
	}
	// honoured == file == fresh server, with every field
	recs, _, junk, _ := parseFile(h.path)
	want := map[string]string{}
	for _, x := range recs {
		if x.name >= 0 {
			want[tokNames[x.name]] = x.String()
		}
	}
	h.t.Checked("C16.refused_unchanged")
	if junk {
		h.t.Fail("C16", "refused_unchanged", "after racing operators the token file does not decode")
		return
	}
	for _, n := range names {
		s, _, err := token.Get(n)
		got := "absent"
		if err == nil {
			got = toRec(s).String()
		}
		w2, inFile := want[n]
		if !inFile {
			w2 = "absent"
		}
		if got != w2 {
			h.t.Fail("C16", "refused_unchanged", fmt.Sprintf("after racing operators (%d edits refused) the running server honours %s but the file holds %s", nref, got, w2))
			break
		}
	}
	h.t.Nontrivial(fmt.Sprintf("sigrace-%d-%v", rounds, nref > 0))
}

// HTTP streams of the tokstore driver: the REAL webserver token handlers
// (apiHandler -> tokensHandler, through webserver.VerifAPIHandler) on top of
// the real token store, compared with the handler model of
// Model/TokenStore.v (api_step) and checked by monitors that state C16 at the
// level of HTTP: a conditional write whose tag is not the current one
// (including "the token does not exist any more") is refused and changes
// nothing; a deleted token is not honoured again unless somebody re-creates
// it unconditionally; of two editors holding one tag at most one gets 2xx.
package tokdrv

import (
	"bytes"
	"encoding/json"
	"fmt"
	"io"
	"net/http"
	"net/http/httptest"
	"path/filepath"
	"strings"
	"sync"

	"github.com/jech/galene/token"

	"verifharness/internal/tr"
)

var apiH http.Handler

// APISetup is provided by cmd/tokapi (which links the web server): it
// prepares the groups, data and static directories under base for the given
// group names, with a server administrator root:pw, and returns the real
// handler of /galene-api/.
var APISetup func(base string, groups []string) (http.Handler, error)

// serve runs one request through the real handler.
func serve(method, path, im, inm, body string) (status int, hdr http.Header, out string) {
	req := httptest.NewRequest(method, "http://localhost"+path, strings.NewReader(body))
	req.SetBasicAuth("root", "pw")
	if body != "" {
		req.Header.Set("Content-Type", "application/json")
	}
	if im != "" {
		req.Header.Set("If-Match", im)
	}
	if inm != "" {
		req.Header.Set("If-None-Match", inm)
	}
	rec := httptest.NewRecorder()
	func() {
		defer func() {
			if r := recover(); r != nil {
				rec.Code = 599
			}
		}()
		apiH.ServeHTTP(rec, req)
	}()
	res := rec.Result()
	b, _ := io.ReadAll(res.Body)
	return rec.Code, res.Header, string(b)
}

func tokPath(g, n int) string {
	p := "/galene-api/v0/.groups/" + grpNames[g] + "/.tokens/"
	if n >= 0 {
		p += tokNames[n]
	}
	return p
}

func (r rec) body() string {
	s := r.stateful()
	s.Token = ""
	s.Group = ""
	b, _ := json.Marshal(s)
	return string(b)
}

// hvalArg: a header value as the model sees it
func (h *hist) hvalArg(v string) string {
	switch v {
	case "":
		return "-"
	case "*":
		return "*"
	}
	return h.etagArg(v)
}

func is2xx(c int) bool { return c >= 200 && c < 300 }

func (h *hist) aget(g, n int, im, inm string) string {
	status, hdr, body := serve("GET", tokPath(g, n), im, inm, "")
	obs := fmt.Sprintf("%d - -", status)
	etag := ""
	if status == 200 {
		etag = hdr.Get("ETag")
		h.hold(etag)
		var s token.Stateful
		json.Unmarshal([]byte(body), &s)
		s.Token = tokNames[n]
		s.Group = grpNames[g]
		obs = fmt.Sprintf("200 %s %s", h.etagS(etag), toRec(&s))
	}
	h.t.Op(obs, "aget", g, n, h.hvalArg(im), h.hvalArg(inm))
	h.checkRevoked(n, status == 200 || status == 304, "HTTP GET")
	h.noteVersion()
	return etag
}

func (h *hist) alist(g int) {
	status, hdr, body := serve("GET", tokPath(g, -1), "", "", "")
	obs := fmt.Sprintf("%d - -", status)
	if status == 200 {
		etag := hdr.Get("ETag")
		h.hold(etag)
		var names []string
		json.Unmarshal([]byte(body), &names)
		var ids []int
		for _, x := range names {
			id := idx(tokNames, x)
			ids = append(ids, id)
			if id >= 0 {
				h.checkRevoked(id, true, "HTTP list")
			}
		}
		obs = fmt.Sprintf("200 %s %s", h.etagS(etag), idsS(ids))
	}
	h.t.Op(obs, "alist", g)
	h.noteVersion()
}

// apiWriteCheck: the monitors of a PUT / DELETE / POST.
func (h *hist) apiWriteCheck(what string, n int, im, inm string, status int, existed bool, verBefore int, rawBefore []byte, existedFile bool) {
	_, existsNow, _, rawNow := parseFile(h.path)
	h.t.Checked("C16.api_refused_unchanged")
	if !is2xx(status) && (existsNow != existedFile || !bytes.Equal(rawNow, rawBefore)) {
		h.t.Fail("C16", "api_refused_unchanged", fmt.Sprintf("%s answered %d but the token file changed", what, status))
	}
	if h.broken {
		return
	}
	h.t.Checked("C16.api_conditional")
	if !is2xx(status) {
		return
	}
	switch {
	case im == "*":
		if !existed {
			h.t.Fail("C16", "api_conditional", fmt.Sprintf("%s with If-Match: * got %d although the token does not exist", what, status))
		}
	case im != "":
		v, handedOut := h.heldVer[im]
		if !existed {
			h.t.Fail("C16", "api_conditional", fmt.Sprintf("%s with If-Match: %s got %d although the token does not exist any more (deleted since the tag was read)", what, im, status))
		} else if !handedOut {
			h.t.Fail("C16", "api_conditional", fmt.Sprintf("%s with If-Match: %s got %d although the server never returned that tag", what, im, status))
		} else if v != verBefore {
			h.t.Fail("C16", "api_conditional", fmt.Sprintf("%s with If-Match: %s got %d although the token file changed since that tag was read", what, im, status))
		}
	}
	if inm == "*" && existed {
		h.t.Fail("C16", "api_conditional", fmt.Sprintf("%s with If-None-Match: * got %d although the token exists", what, status))
	}
	if v, ok := h.heldVer[inm]; ok && inm != "" && existed && v == verBefore {
		h.t.Fail("C16", "api_conditional", fmt.Sprintf("%s with If-None-Match: %s (the current tag) got %d", what, inm, status))
	}
}

func (h *hist) aput(g, n int, im, inm string, rc rec) int {
	h.waitTickMaybe()
	recs, existedFile, _, rawBefore := parseFile(h.path)
	_, existed := lastWins(recs)[n]
	verBefore := h.ver
	status, _, _ := serve("PUT", tokPath(g, n), im, inm, rc.body())
	st := h.stamp()
	rc.name, rc.group = n, g
	h.t.Op(fmt.Sprint(status), "aput", g, n, h.hvalArg(im), h.hvalArg(inm), rc.String(), st)
	h.apiWriteCheck("PUT", n, im, inm, status, existed, verBefore, rawBefore, existedFile)
	if !is2xx(status) && h.r.Chance(1, 2) {
		h.afterRefused("PUT", rawBefore, existedFile)
	}
	if is2xx(status) {
		h.writes++
		if im == "" {
			// an explicit creation or overwrite, not conditioned on the
			// existence of the token
			delete(h.revoked, n)
		}
	}
	h.noteVersion()
	return status
}

func (h *hist) adel(g, n int, im, inm string) int {
	h.waitTickMaybe()
	recs, existedFile, _, rawBefore := parseFile(h.path)
	_, existed := lastWins(recs)[n]
	verBefore := h.ver
	status, _, _ := serve("DELETE", tokPath(g, n), im, inm, "")
	st := h.stamp()
	h.t.Op(fmt.Sprint(status), "adel", g, n, h.hvalArg(im), h.hvalArg(inm), st)
	h.apiWriteCheck("DELETE", n, im, inm, status, existed, verBefore, rawBefore, existedFile)
	if !is2xx(status) && h.r.Chance(1, 2) {
		h.afterRefused("DELETE", rawBefore, existedFile)
	}
	if is2xx(status) {
		h.writes++
		h.revoked[n] = true
		if !existed && !h.broken {
			h.t.Fail("C16", "api_conditional", fmt.Sprintf("DELETE of %d got %d although the file has no such token", n, status))
		}
	}
	h.noteVersion()
	return status
}

// apost: the server makes up the name; it becomes the next name id
func (h *hist) apost(g int, rc rec) int {
	h.waitTickMaybe()
	_, existedFile, _, rawBefore := parseFile(h.path)
	verBefore := h.ver
	status, hdr, _ := serve("POST", tokPath(g, -1), "", "", rc.body())
	st := h.stamp()
	n := len(tokNames)
	if status == 201 {
		tokNames = append(tokNames, hdr.Get("Location"))
	} else {
		tokNames = append(tokNames, fmt.Sprintf("unused%d", n))
	}
	rc.name, rc.group = n, g
	h.t.Op(fmt.Sprint(status), "apost", g, rc.String(), st)
	h.apiWriteCheck("POST", n, "", "", status, false, verBefore, rawBefore, existedFile)
	if is2xx(status) {
		h.writes++
	}
	h.noteVersion()
	return status
}

// pickCond chooses the precondition headers of a write
func (h *hist) pickCond(g, n int) (im, inm string) {
	switch h.r.Pick(22, 30, 22, 8, 8, 5, 5) {
	case 0:
		return "", ""
	case 1:
		return h.aget(g, n, "", ""), "" // read the tag now ("" when the token is gone)
	case 2:
		if len(h.held) > 0 {
			h.t.Note("api-tag-held")
			return h.held[h.r.Intn(len(h.held))], ""
		}
		return h.aget(g, n, "", ""), ""
	case 3:
		return "*", ""
	case 4:
		return "", "*"
	case 5:
		return "\"bad\"", ""
	}
	if len(h.held) > 0 {
		return "", h.held[h.r.Intn(len(h.held))]
	}
	return "", "*"
}

func (h *hist) apiName() int { return 1 + h.r.Intn(len(tokNames)-1) }

func (h *hist) apiGroup() int {
	if h.r.Chance(1, 6) {
		return 2
	}
	return 1
}

func (h *hist) apiRandomOp() {
	r := h.r
	g, n := h.apiGroup(), h.apiName()
	switch r.Pick(20, 8, 8, 26, 16, 5, 3, 3, 3) {
	case 0:
		inm := ""
		if len(h.held) > 0 && r.Chance(1, 3) {
			inm = h.held[r.Intn(len(h.held))]
		}
		h.aget(g, n, "", inm)
	case 1:
		h.alist(g)
	case 2:
		if len(tokNames) < 12 {
			h.apost(g, genRec(r, 0))
		}
	case 3:
		im, inm := h.pickCond(g, n)
		h.aput(g, n, im, inm, genRec(r, n))
	case 4:
		im, inm := h.pickCond(g, n)
		h.adel(g, n, im, inm)
	case 5:
		h.randomExt(false)
	case 6:
		h.restart()
	case 7:
		h.expire()
	case 8: // the library, behind the API's back
		h.upd(genRec(r, 1+r.Intn(len(baseNames)-1)), "")
	}
	if r.Chance(1, 3) {
		h.view()
	}
}

func newAPIHist(t *tr.Trace, r *tr.Rand, base, stream string) *hist {
	return newHist(t, r, filepath.Join(base, "data"), "tokstore", stream)
}

func apiCorpus(t *tr.Trace, r *tr.Rand, base string) {
	live := func(d int) rec { return rec{0, 0, ip(3600), nil, d} }
	// 1. the token is deleted between the read of the tag and the
	// conditional write
	h := newAPIHist(t, r, base, "apicorpus")
	h.aput(1, 1, "", "", live(1))
	h.aput(1, 2, "", "", live(2))
	e := h.aget(1, 1, "", "")   // A reads tag E
	h.adel(1, 1, "", "")        // B revokes the token
	h.aput(1, 1, e, "", live(3)) // A: If-Match E -> refused, stays revoked
	h.aget(1, 1, "", "")
	h.view()
	h.adel(1, 1, e, "")
	h.aput(1, 1, "*", "", live(3)) // If-Match: * on a missing token
	h.aget(1, 1, "", "")
	h.restart()
	h.aget(1, 1, "", "")
	h.aput(1, 1, "", "", live(4)) // an explicit re-creation
	h.aget(1, 1, "", "")
	h.finish()

	// 2. one tag, two writers; preconditions of every kind
	h = newAPIHist(t, r, base, "apicorpus")
	h.aput(1, 1, "", "", live(1))
	h.aput(1, 2, "", "", live(2))
	e = h.aget(1, 1, "", "")
	h.aput(1, 2, e, "", live(5)) // B edits another token with E
	h.aput(1, 1, e, "", live(6)) // A's E is stale now
	h.adel(1, 1, e, "")
	h.aget(1, 1, "", e) // not the current tag: 200
	e = h.aget(1, 1, "", "")
	h.aget(1, 1, "", e)            // current: 304
	h.aput(1, 1, "", "*", live(7)) // exists: refused
	h.aput(1, 3, "", "*", live(7)) // missing: created
	h.aput(2, 1, "", "", live(8))  // other group: conflict
	h.adel(2, 1, "", "")
	h.aget(2, 1, "", "")
	h.apost(1, live(9))
	h.alist(1)
	h.alist(2)
	h.adel(1, 1, "\"bad\"", "")
	e = h.aget(1, 1, "", "")
	h.adel(1, 1, e, "")
	h.view()
	h.finish()
}

// apiEditors: two administrators, each [GET the tag][PUT or DELETE with
// If-Match], all six schedules; somebody else may delete, re-create or edit
// in between
func apiEditors(t *tr.Trace, r *tr.Rand, base string, k int) {
	scheds := [][]int{{0, 0, 1, 1}, {0, 1, 0, 1}, {0, 1, 1, 0}, {1, 0, 0, 1}, {1, 0, 1, 0}, {1, 1, 0, 0}}
	sc := scheds[k%len(scheds)]
	h := newAPIHist(t, r, base, "apieditors")
	h.aput(1, 1, "", "", genRec(r, 1))
	h.aput(1, 2, "", "", genRec(r, 2))
	if r.Bool() {
		h.apost(1, genRec(r, 0))
	}
	target := [2]int{1, 1 + r.Intn(2)}
	kindDel := [2]bool{r.Chance(1, 3), r.Chance(1, 3)}
	third := -1
	if r.Chance(1, 2) {
		third = r.Intn(5) // before which step somebody else acts
	}
	var tag [2]string
	var pc [2]int
	var okc [2]bool
	intrude := func() {
		n := 1 + r.Intn(2)
		switch r.Intn(3) {
		case 0:
			h.adel(1, n, "", "")
			h.t.Note("apieditors-third-delete")
		case 1:
			h.aput(1, n, "", "", genRec(r, n))
		default:
			h.apost(1, genRec(r, 0))
		}
	}
	for i, ed := range sc {
		if i == third {
			intrude()
		}
		if pc[ed] == 0 {
			tag[ed] = h.aget(1, target[ed], "", "")
		} else {
			var c int
			if kindDel[ed] {
				c = h.adel(1, target[ed], tag[ed], "")
			} else {
				c = h.aput(1, target[ed], tag[ed], "", genRec(r, target[ed]))
			}
			okc[ed] = is2xx(c)
		}
		pc[ed]++
	}
	if third == 4 {
		intrude()
	}
	h.t.Checked("C16.api_two_editors")
	if tag[0] == tag[1] && tag[0] != "" && okc[0] && okc[1] && !h.broken {
		h.t.Fail("C16", "api_two_editors", fmt.Sprintf("schedule %v: both editors sent If-Match: %s and both got 2xx", sc, tag[0]))
	}
	h.t.Note(fmt.Sprintf("apieditors-sched-%d", k%len(scheds)))
	h.finish()
}

// apiRace: n goroutines send the same If-Match at the same time
func apiRace(t *tr.Trace, r *tr.Rand, base string) {
	h := newHist(t, r, filepath.Join(base, "data"), "tokrace", "apirace")
	defer h.done()
	live := func(d int) rec { return rec{0, 0, ip(3600), nil, d} }
	serve("PUT", tokPath(1, 1), "", "", live(0).body())
	serve("PUT", tokPath(1, 2), "", "", live(0).body())
	h.stamp()
	h.waitTick()
	_, hdr, _ := serve("GET", tokPath(1, 1), "", "", "")
	e := hdr.Get("ETag")
	n := 2 + r.Intn(7)
	res := make([]int, n)
	kinds := make([]int, n)
	for i := range kinds {
		kinds[i] = r.Intn(3)
	}
	start := make(chan struct{})
	var wg sync.WaitGroup
	for i := 0; i < n; i++ {
		wg.Add(1)
		go func(i int) {
			defer wg.Done()
			<-start
			switch kinds[i] {
			case 0:
				res[i], _, _ = serve("PUT", tokPath(1, 1), e, "", rec{0, 0, ip(7200), nil, i % 10}.body())
			case 1:
				res[i], _, _ = serve("PUT", tokPath(1, 2), e, "", rec{0, 0, ip(7200), nil, i % 10}.body())
			default:
				res[i], _, _ = serve("DELETE", tokPath(1, 1+i%2), e, "", "")
			}
		}(i)
	}
	close(start)
	wg.Wait()
	oks := 0
	for _, c := range res {
		if is2xx(c) {
			oks++
		}
	}
	h.t.Op(fmt.Sprintf("ok=%d", oks), "apirace", n)
	h.t.Checked("C16.api_exclusive_race")
	if e == "" || oks != 1 {
		h.t.Fail("C16", "api_exclusive_race", fmt.Sprintf("%d requests sent If-Match: %s at once, %d got 2xx: %v", n, e, oks, res))
	}
	// the store and the file agree afterwards
	recs, _, junk, _ := parseFile(h.path)
	fresh, _, ferr := token.VerifFreshLoad(h.path)
	h.t.Checked("C16.mirror_fresh_server")
	if junk || ferr != nil || len(fresh) != len(lastWins(recs)) {
		h.t.Fail("C16", "mirror_fresh_server", fmt.Sprintf("after the HTTP race: file %v junk=%v, fresh load %d tokens err=%v", mapS(lastWins(recs)), junk, len(fresh), ferr))
	}
	h.t.Nontrivial(fmt.Sprintf("apirace-%d-%v", n, kinds))
}

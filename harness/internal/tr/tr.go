// Package tr: seeded PRNG, trace writer and monitor reporting shared by all
// correspondence drivers.  Every random choice of a driver derives from one
// Rand so that a disagreement replays exactly.
package tr

import (
	"bufio"
	"encoding/hex"
	"encoding/json"
	"flag"
	"fmt"
	"os"
	"sort"
	"strings"
)

// Rand is splitmix64.
type Rand struct{ s uint64 }

// NewRand hashes the seed, so that the streams of consecutive seeds are
// unrelated (seed*gamma alone would make them shifted copies of one stream).
func NewRand(seed uint64) *Rand {
	z := seed + 0x1234567
	z = (z ^ (z >> 30)) * 0xBF58476D1CE4E5B9
	z = (z ^ (z >> 27)) * 0x94D049BB133111EB
	z ^= z >> 31
	return &Rand{s: z*0x9E3779B97F4A7C15 + 0x1234567}
}

func (r *Rand) U64() uint64 {
	r.s += 0x9E3779B97F4A7C15
	z := r.s
	z = (z ^ (z >> 30)) * 0xBF58476D1CE4E5B9
	z = (z ^ (z >> 27)) * 0x94D049BB133111EB
	return z ^ (z >> 31)
}

// Intn returns a value in [0,n).
func (r *Rand) Intn(n int) int {
	if n <= 0 {
		return 0
	}
	return int(r.U64() % uint64(n))
}

// Range returns a value in [lo,hi].
func (r *Rand) Range(lo, hi int) int { return lo + r.Intn(hi-lo+1) }

func (r *Rand) Bool() bool { return r.U64()&1 == 1 }

// Chance returns true with probability num/den.
func (r *Rand) Chance(num, den int) bool { return r.Intn(den) < num }

func (r *Rand) Bytes(n int) []byte {
	b := make([]byte, n)
	for i := range b {
		b[i] = byte(r.U64())
	}
	return b
}

// Pick returns one of the weighted alternatives: Pick(3,1,1) returns 0 with
// probability 3/5.
func (r *Rand) Pick(weights ...int) int {
	t := 0
	for _, w := range weights {
		t += w
	}
	x := r.Intn(t)
	for i, w := range weights {
		if x < w {
			return i
		}
		x -= w
	}
	return len(weights) - 1
}

func Hex(b []byte) string {
	if len(b) == 0 {
		return "-"
	}
	return hex.EncodeToString(b)
}

func B(b bool) string {
	if b {
		return "1"
	}
	return "0"
}

// Trace collects the lines of one driver run.
type Trace struct {
	w          *bufio.Writer
	f          *os.File
	mon        *os.File
	Histories  int
	Ops        int
	OpKinds    map[string]int
	Streams    map[string]int
	Monitors   map[string]int // monitor name -> number of evaluations
	Violations int
	Known      map[string]int
	curHist    string
	curLines   []string
	Samples    []string
	nontrivial map[string]bool
	Notes      map[string]int
	failRecs   map[string]int
}

func NewTrace(path string) (*Trace, error) {
	f, err := os.Create(path)
	if err != nil {
		return nil, err
	}
	m, err := os.Create(path + ".monitor")
	if err != nil {
		return nil, err
	}
	return &Trace{w: bufio.NewWriterSize(f, 1<<20), f: f, mon: m,
		OpKinds: map[string]int{}, Streams: map[string]int{},
		Monitors: map[string]int{}, Known: map[string]int{},
		nontrivial: map[string]bool{}, Notes: map[string]int{}}, nil
}

// History starts a new history.  component selects the model; stream names
// the generator stream (for the distribution in the evidence); params are
// the model's initial parameters.
func (t *Trace) History(component, stream string, params ...interface{}) {
	t.Histories++
	t.Streams[stream]++
	t.curHist = fmt.Sprintf("%s#%d/%s", component, t.Histories, stream)
	line := "H " + component + " " + fmt.Sprint(t.Histories) + " " + stream
	for _, p := range params {
		line += " " + fmt.Sprint(p)
	}
	t.curLines = t.curLines[:0]
	t.curLines = append(t.curLines, line)
	fmt.Fprintln(t.w, line)
	if len(t.Samples) < 3 {
		t.Samples = append(t.Samples, line)
	}
}

// Op records one operation and the implementation's projected observable.
func (t *Trace) Op(obs string, op string, args ...interface{}) {
	t.Ops++
	t.OpKinds[op]++
	var sb strings.Builder
	sb.WriteString(op)
	for _, a := range args {
		sb.WriteByte(' ')
		switch v := a.(type) {
		case []byte:
			sb.WriteString(Hex(v))
		case bool:
			sb.WriteString(B(v))
		default:
			fmt.Fprint(&sb, v)
		}
	}
	sb.WriteString(" => ")
	sb.WriteString(obs)
	line := sb.String()
	t.curLines = append(t.curLines, line)
	fmt.Fprintln(t.w, line)
	if t.Histories <= 3 && len(t.curLines) <= 6 && len(line) < 200 {
		t.Samples = append(t.Samples, line)
	}
}

// Checked counts one evaluation of a monitor.
func (t *Trace) Checked(monitor string) { t.Monitors[monitor]++ }

// Note counts a distribution fact (e.g. "wrap", "cap=1").
func (t *Trace) Note(k string) { t.Notes[k]++ }

// Nontrivial marks the current history as non-trivial under key (distinct
// keys are counted).
func (t *Trace) Nontrivial(key string) { t.nontrivial[key] = true }

// Fail reports a monitor failure on the current history: the property is
// violated by the implementation itself.  The history so far is the replay.
func (t *Trace) Fail(property, monitor, msg string) {
	t.Violations++
	// a change that breaks a monitor on every input must not fill the disk:
	// at most 3 records per monitor and history and 1000 per monitor, each
	// with at most the last 60 operations of its history and a message of at
	// most 4000 bytes; further failures are only counted (summary:
	// monitor_failures).  The limit is per HISTORY so that the records of a
	// known finding (which recur in their own histories) cannot use up the
	// room of a new failure of the same monitor elsewhere.
	if t.failRecs == nil {
		t.failRecs = map[string]int{}
	}
	key := property + "." + monitor
	hkey := key + "@" + t.curHist
	t.failRecs[key]++
	t.failRecs[hkey]++
	if t.failRecs[hkey] > 3 || t.failRecs[key] > 1000 {
		return
	}
	ops := t.curLines
	truncated := 0
	if len(ops) > 60 {
		truncated = len(ops) - 60
		ops = ops[len(ops)-60:]
	}
	if len(msg) > 4000 {
		msg = msg[:4000] + "...(truncated)"
	}
	rec := map[string]interface{}{
		"property": property, "monitor": monitor, "message": msg,
		"history": t.curHist, "ops": append([]string{}, ops...),
	}
	if truncated > 0 {
		rec["ops_omitted_before"] = truncated
	}
	b, _ := json.Marshal(rec)
	fmt.Fprintln(t.mon, string(b))
}

// Abort ends the driver run at once (a call into the implementation never
// returned, so the history cannot be continued): what was recorded so far,
// monitor failures included, is kept and the process exits normally.
func (t *Trace) Abort(reason string) {
	t.Notes["aborted: "+reason]++
	t.Close(summaryPathOf)
	os.Exit(0)
}

var summaryPathOf string

func (t *Trace) Close(summaryPath string) error {
	if err := t.w.Flush(); err != nil {
		return err
	}
	t.f.Close()
	t.mon.Close()
	keys := make([]string, 0, len(t.nontrivial))
	for k := range t.nontrivial {
		keys = append(keys, k)
	}
	sort.Strings(keys)
	s := map[string]interface{}{
		"histories": t.Histories, "ops": t.Ops, "op_kinds": t.OpKinds,
		"streams": t.Streams, "monitors": t.Monitors,
		"monitor_failures": t.Violations, "samples": t.Samples,
		"distinct_nontrivial": len(keys), "notes": t.Notes,
	}
	b, _ := json.MarshalIndent(s, "", " ")
	return os.WriteFile(summaryPath, b, 0644)
}

// Main is the entry point shared by all drivers (one binary per driver, so
// that a driver that no longer builds affects only its own properties):
//
//	<driver> -seed S -n N -out trace.txt
func Main(run func(t *Trace, r *Rand, n int)) {
	seed := flag.Uint64("seed", 1, "PRNG seed")
	n := flag.Int("n", 100, "number of histories")
	out := flag.String("out", "trace.txt", "trace file")
	flag.Parse()
	t, err := NewTrace(*out)
	if err != nil {
		fmt.Fprintln(os.Stderr, err)
		os.Exit(2)
	}
	summaryPathOf = *out + ".summary.json"
	run(t, NewRand(*seed), *n)
	if err := t.Close(*out + ".summary.json"); err != nil {
		fmt.Fprintln(os.Stderr, err)
		os.Exit(2)
	}
}

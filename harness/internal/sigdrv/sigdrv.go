// Package sigdrv drives galene's REAL signalling code (handleClientMessage,
// handleAction, leaveGroup and the connection-end code of StartClient)
// without a websocket and without media, through the add-only hook
// /repo/rtpconn/verif_export_sig.go (type rtpconn.VerifClient).
//
// A World owns a temporary groups directory, a temporary data directory and
// a token file; it creates group description files, constructs clients and
// is the SCHEDULER of their event loops: nothing runs unless the harness
// calls Send (the loop reads one message) or Pump (the loop serves its action
// queue once).  Everything a client is "sent" accumulates in its outbox
// until Out/OutRaw is called.  Group state of galene is process-global:
// World.Close disconnects every client and deletes every group it created,
// so that the next World may reuse the same group names.
//
// Typical use:
//
//	w, _ := sigdrv.NewWorld()
//	defer w.Close()
//	w.AddGroup(sigdrv.GroupSpec{Name: "g", Users: []sigdrv.User{
//		{Name: "alice", Password: "pw", Permissions: []string{"op", "present"}}}})
//	a := w.NewClient("id-a")
//	res := a.Send(sigdrv.M{"type": "join", "kind": "join", "group": "g",
//		"username": "alice", "password": "pw"})
//	w.Quiesce(r)            // r *tr.Rand: seeded choice of who is pumped next
//	for _, m := range a.Out() { ... m.Type, m.Kind, m.Permissions ... }
package sigdrv

import (
	"encoding/json"
	"fmt"
	"io"
	"log"
	"os"
	"path/filepath"
	"sort"
	"strings"

	"github.com/jech/galene/diskwriter"
	"github.com/jech/galene/group"
	"github.com/jech/galene/rtpconn"
	"github.com/jech/galene/token"

	"verifharness/internal/tr"
)

// M is a client-to-server message written as a Go map.
type M = map[string]interface{}

// User is one entry of the "users" map of a group description.  Permissions
// is written as a raw JSON array unless Role is set (then the role name,
// e.g. "op", "present", "observe", is written instead).
type User struct {
	Name        string
	Password    string // plain-text password
	Wildcard    bool   // password {"type":"wildcard"}: any password matches
	Permissions []string
	Role        string
}

// GroupSpec describes a group description file.
type GroupSpec struct {
	Name           string
	Users          []User
	WildcardUser   *User // "wildcard-user" (Name ignored)
	Redirect       string
	AllowRecording bool
	MaxClients     int
	Autolock       bool
	Autokick       bool
	Public         bool
	Extra          map[string]interface{} // further top-level fields, verbatim
}

// World is one isolated signalling universe (one history).
type World struct {
	Dir       string // group.Directory
	DataDir   string // group.DataDirectory
	TokenFile string
	Groups    []string
	Clients   []*Client
	// AutoClose makes Send/Pump run the connection-end code
	// (VerifClient.ErrorClose) when the real code returns an error, as
	// clientLoop/StartClient do.  Default true.
	AutoClose bool
	root      string
}

var quiet = false

// Quiet discards galene's log output (the signalling code logs every refused
// operation); call it once at the start of a driver.
func Quiet() {
	if !quiet {
		log.SetOutput(io.Discard)
		quiet = true
	}
}

// NewWorld creates the temporary directories and points galene's globals
// (group.Directory, group.DataDirectory, the stateful token file) at them.
func NewWorld() (*World, error) {
	root, err := os.MkdirTemp("", "sigdrv")
	if err != nil {
		return nil, err
	}
	w := &World{root: root, Dir: filepath.Join(root, "groups"),
		DataDir: filepath.Join(root, "data"), AutoClose: true}
	for _, d := range []string{w.Dir, w.DataDir} {
		if err := os.MkdirAll(d, 0700); err != nil {
			return nil, err
		}
	}
	w.TokenFile = filepath.Join(w.DataDir, "var", "tokens.jsonl")
	group.Directory = w.Dir
	group.DataDirectory = w.DataDir
	diskwriter.Directory = filepath.Join(root, "recordings")
	token.SetStatefulFilename(w.TokenFile)
	return w, nil
}

func userJSON(u User) map[string]interface{} {
	m := map[string]interface{}{}
	if u.Wildcard {
		m["password"] = map[string]interface{}{"type": "wildcard"}
	} else {
		m["password"] = u.Password
	}
	if u.Role != "" {
		m["permissions"] = u.Role
	} else {
		p := u.Permissions
		if p == nil {
			p = []string{}
		}
		m["permissions"] = p
	}
	return m
}

// AddGroup writes <Dir>/<name>.json.  The group object itself is created by
// galene on first use (group.Add reads the file).
func (w *World) AddGroup(s GroupSpec) error {
	d := map[string]interface{}{}
	for k, v := range s.Extra {
		d[k] = v
	}
	if len(s.Users) > 0 {
		us := map[string]interface{}{}
		for _, u := range s.Users {
			us[u.Name] = userJSON(u)
		}
		d["users"] = us
	}
	if s.WildcardUser != nil {
		d["wildcard-user"] = userJSON(*s.WildcardUser)
	}
	if s.Redirect != "" {
		d["redirect"] = s.Redirect
	}
	if s.AllowRecording {
		d["allow-recording"] = true
	}
	if s.MaxClients > 0 {
		d["max-clients"] = s.MaxClients
	}
	if s.Autolock {
		d["autolock"] = true
	}
	if s.Autokick {
		d["autokick"] = true
	}
	if s.Public {
		d["public"] = true
	}
	b, err := json.Marshal(d)
	if err != nil {
		return err
	}
	p := filepath.Join(w.Dir, filepath.FromSlash(s.Name)+".json")
	if err := os.MkdirAll(filepath.Dir(p), 0700); err != nil {
		return err
	}
	if err := os.WriteFile(p, b, 0600); err != nil {
		return err
	}
	w.Groups = append(w.Groups, s.Name)
	return nil
}

// Group returns galene's group object (nil before its first use).
func (w *World) Group(name string) *group.Group { return group.Get(name) }

// Locked reports the lock flag of a group (false if it does not exist yet).
func (w *World) Locked(name string) bool {
	g := group.Get(name)
	if g == nil {
		return false
	}
	l, _ := g.Locked()
	return l
}

// Members returns the sorted ids of the clients galene holds for the group.
func (w *World) Members(name string) []string {
	g := group.Get(name)
	if g == nil {
		return nil
	}
	var out []string
	for _, c := range g.GetClients(nil) {
		out = append(out, c.Id())
	}
	sort.Strings(out)
	return out
}

// Tokens returns the stateful tokens stored for a group, in galene's order.
func (w *World) Tokens(groupname string) []*token.Stateful {
	ts, _, err := token.List(groupname)
	if err != nil {
		return nil
	}
	return ts
}

// Client is one connection.
type Client struct {
	*rtpconn.VerifClient
	W  *World
	ID string
	// Dead is set once the connection-end code has run (after an error
	// with AutoClose, or after Disconnect).  Further Send/Pump calls are
	// ignored, as the server no longer reads from a closed connection.
	Dead bool
	// Panics collects every recovered panic (each would have killed the
	// server process).
	Panics []string
}

// Result of one Send or Pump.
type Result struct {
	Err   error
	Class string      // rtpconn.VerifErrorClass(Err): ok, protocol, user, kick, wsclose, decode, internal
	Panic interface{} // recovered panic, nil if none
	N     int         // Pump: number of actions that ran
	Ran   bool        // false if the client was already dead
}

// NewClient creates a connection whose handshake carried id.
func (w *World) NewClient(id string) *Client {
	c := &Client{VerifClient: rtpconn.NewVerifClient(id, nil), W: w, ID: id}
	w.Clients = append(w.Clients, c)
	return c
}

func (c *Client) finish(res *Result) {
	if res.Panic != nil {
		c.Panics = append(c.Panics, fmt.Sprint(res.Panic))
	}
	if res.Err != nil && c.W.AutoClose && !c.Dead {
		_, p := c.ErrorClose(res.Err)
		if p != nil {
			c.Panics = append(c.Panics, fmt.Sprint(p))
			if res.Panic == nil {
				res.Panic = p
			}
		}
		c.Dead = true
	}
}

// SendRaw hands one text frame to the real clientReader/handleClientMessage
// code path.
func (c *Client) SendRaw(js []byte) Result {
	if c.Dead {
		return Result{Class: "dead"}
	}
	err, p := c.Message(js)
	res := Result{Err: err, Class: rtpconn.VerifErrorClass(err), Panic: p, Ran: true}
	c.finish(&res)
	return res
}

// Send marshals m and calls SendRaw.
func (c *Client) Send(m M) Result {
	b, err := json.Marshal(m)
	if err != nil {
		panic(err)
	}
	return c.SendRaw(b)
}

// Pump serves the client's action queue once (one iteration of clientLoop's
// `case <-c.actions.Ch`).
func (c *Client) Pump() Result {
	if c.Dead {
		return Result{Class: "dead"}
	}
	n, err, p := c.PumpActions()
	res := Result{Err: err, Class: rtpconn.VerifErrorClass(err), Panic: p, N: n, Ran: true}
	c.finish(&res)
	return res
}

// Disconnect ends the connection as if the peer had closed it: clientLoop's
// deferred leaveGroup and StartClient's deferred close run.
func (c *Client) Disconnect() {
	if c.Dead {
		return
	}
	if p := c.Leave(); p != nil {
		c.Panics = append(c.Panics, fmt.Sprint(p))
	}
	c.Dead = true
}

// Runnable reports whether Pump would do something.
func (c *Client) Runnable() bool { return !c.Dead && c.Pending() }

// Msg is the decoded form of one server-to-client message.
type Msg struct {
	Type        string
	Kind        string
	Id          string
	Source      string
	Dest        string
	Username    *string
	Privileged  bool
	Permissions []string
	Value       interface{}
	Group       string
	Error       string
	Replace     string
	NoEcho      bool
	HasStatus   bool
	Locked      bool // status.locked of a `joined` message
	Data        map[string]interface{}
	Raw         []byte
}

// User returns the username or "" if absent.
func (m Msg) User() string {
	if m.Username == nil {
		return ""
	}
	return *m.Username
}

// ValueString returns the value if it is a string, else its JSON text.
func (m Msg) ValueString() string {
	if s, ok := m.Value.(string); ok {
		return s
	}
	if m.Value == nil {
		return ""
	}
	b, _ := json.Marshal(m.Value)
	return string(b)
}

// Decode decodes one outbox entry.
func Decode(raw []byte) Msg {
	var x struct {
		Type        string                 `json:"type"`
		Kind        string                 `json:"kind"`
		Id          string                 `json:"id"`
		Source      string                 `json:"source"`
		Dest        string                 `json:"dest"`
		Username    *string                `json:"username"`
		Privileged  bool                   `json:"privileged"`
		Permissions []string               `json:"permissions"`
		Value       interface{}            `json:"value"`
		Group       string                 `json:"group"`
		Error       string                 `json:"error"`
		Replace     string                 `json:"replace"`
		NoEcho      bool                   `json:"noecho"`
		Data        map[string]interface{} `json:"data"`
		Status      *struct {
			Locked bool `json:"locked"`
		} `json:"status"`
	}
	m := Msg{Raw: raw}
	if err := json.Unmarshal(raw, &x); err != nil {
		m.Type = "__undecodable__"
		return m
	}
	m.Type, m.Kind, m.Id, m.Source, m.Dest = x.Type, x.Kind, x.Id, x.Source, x.Dest
	m.Username, m.Privileged, m.Permissions = x.Username, x.Privileged, x.Permissions
	m.Value, m.Group, m.Error, m.Replace, m.NoEcho, m.Data = x.Value, x.Group, x.Error, x.Replace, x.NoEcho, x.Data
	if x.Status != nil {
		m.HasStatus = true
		m.Locked = x.Status.Locked
	}
	return m
}

// OutRaw drains the outbox (everything the server has sent to this client
// since the last call), undecoded.
func (c *Client) OutRaw() [][]byte { return c.Drain() }

// Out drains and decodes the outbox.  Messages of type "ice" (trickled
// candidates of pion's gathering goroutines, timing dependent) are dropped.
func (c *Client) Out() []Msg {
	var out []Msg
	for _, raw := range c.Drain() {
		m := Decode(raw)
		if m.Type == "ice" {
			continue
		}
		out = append(out, m)
	}
	return out
}

// ---- scheduler

// Runnable returns the clients whose action queue is ready, in creation order.
func (w *World) Runnable() []*Client {
	var out []*Client
	for _, c := range w.Clients {
		if c.Runnable() {
			out = append(out, c)
		}
	}
	return out
}

// PumpOne pumps one runnable client chosen by r (the first one if r is nil)
// and returns it with the result; nil if nobody is runnable.
func (w *World) PumpOne(r *tr.Rand) (*Client, Result) {
	rs := w.Runnable()
	if len(rs) == 0 {
		return nil, Result{}
	}
	c := rs[0]
	if r != nil {
		c = rs[r.Intn(len(rs))]
	}
	return c, c.Pump()
}

// Quiesce pumps until no client is runnable (at most 10000 steps) and
// returns the number of Pump calls.  The order is decided by r.
func (w *World) Quiesce(r *tr.Rand) int {
	n := 0
	for n < 10000 {
		c, _ := w.PumpOne(r)
		if c == nil {
			break
		}
		n++
	}
	return n
}

// Panics returns every panic recovered so far, prefixed by the client id.
func (w *World) Panics() []string {
	var out []string
	for _, c := range w.Clients {
		for _, p := range c.Panics {
			out = append(out, c.ID+": "+p)
		}
	}
	return out
}

// Close disconnects every client (through the real connection-end code),
// deletes the groups of this world from galene's global table and removes
// the temporary files.  It returns an error if a group could not be deleted
// (a member was left behind: a ghost, as in F18).
func (w *World) Close() error {
	for _, c := range w.Clients {
		c.Disconnect()
	}
	var left []string
	// delete every group galene knows that belongs to this world (its
	// description file lives in our directory), including subgroups
	for _, name := range group.GetNames() {
		g := group.Get(name)
		if g == nil {
			continue
		}
		// recording / whip clients: remove whatever is left
		for _, cc := range g.GetClients(nil) {
			if k, ok := cc.(interface{ Close() error }); ok {
				k.Close()
			}
			group.DelClient(cc)
		}
		if !group.Delete(name) {
			left = append(left, name)
		}
	}
	token.SetStatefulFilename("")
	os.RemoveAll(w.root)
	if len(left) > 0 {
		return fmt.Errorf("groups with members left behind: %s", strings.Join(left, ","))
	}
	return nil
}

// Sanitise makes a string safe for a trace token: no spaces, never empty.
func Sanitise(s string) string {
	if s == "" {
		return "-"
	}
	var sb strings.Builder
	for _, r := range s {
		switch {
		case r == ' ' || r == '\t' || r == '\n' || r == '\r':
			sb.WriteByte('_')
		case r < 0x20 || r > 0x7e:
			sb.WriteByte('?')
		default:
			sb.WriteRune(r)
		}
	}
	return sb.String()
}

package sigdrv

import (
	"sync"

	"github.com/pion/webrtc/v4"
)

var offerOnce sync.Once
var goodOffer string

// MinimalSDP parses as a session description but has no media section and
// no ICE credentials.
const MinimalSDP = "v=0\r\no=- 0 0 IN IP4 0.0.0.0\r\ns=-\r\nt=0 0\r\n"

// GoodOffer returns a real SDP offer (one audio and one video transceiver)
// produced once by an in-process pion PeerConnection.  Galene's gotOffer
// accepts it (SetRemoteDescription, CreateAnswer and SetLocalDescription all
// succeed); no media ever flows.
func GoodOffer() string {
	offerOnce.Do(func() {
		pc, err := webrtc.NewPeerConnection(webrtc.Configuration{})
		if err != nil {
			panic(err)
		}
		defer pc.Close()
		for _, k := range []webrtc.RTPCodecType{webrtc.RTPCodecTypeAudio, webrtc.RTPCodecTypeVideo} {
			_, err := pc.AddTransceiverFromKind(k, webrtc.RTPTransceiverInit{
				Direction: webrtc.RTPTransceiverDirectionSendonly})
			if err != nil {
				panic(err)
			}
		}
		o, err := pc.CreateOffer(nil)
		if err != nil {
			panic(err)
		}
		goodOffer = o.SDP
	})
	return goodOffer
}

// SDP returns the session description named by kind: "good" (GoodOffer),
// "min" (MinimalSDP), "bad" (does not parse), anything else the empty string.
func SDP(kind string) string {
	switch kind {
	case "good":
		return GoodOffer()
	case "min":
		return MinimalSDP
	case "bad":
		return "this is not a session description"
	}
	return ""
}

module verifharness

go 1.24.0

require github.com/jech/galene v0.0.0

replace github.com/jech/galene => /repo

module verifharness

go 1.24.0

require github.com/jech/galene v0.0.0

require (
	github.com/golang-jwt/jwt/v5 v5.3.1 // indirect
	github.com/google/uuid v1.6.0 // indirect
	github.com/pion/datachannel v1.6.2 // indirect
	github.com/pion/dtls/v3 v3.1.5 // indirect
	github.com/pion/ice/v4 v4.3.0 // indirect
	github.com/pion/interceptor v0.1.45 // indirect
	github.com/pion/logging v0.2.4 // indirect
	github.com/pion/mdns/v2 v2.1.0 // indirect
	github.com/pion/randutil v0.1.0 // indirect
	github.com/pion/rtcp v1.2.17 // indirect
	github.com/pion/rtp v1.10.4 // indirect
	github.com/pion/sctp v1.11.0 // indirect
	github.com/pion/sdp/v3 v3.0.19 // indirect
	github.com/pion/srtp/v3 v3.0.12 // indirect
	github.com/pion/stun/v3 v3.1.6 // indirect
	github.com/pion/transport/v4 v4.0.2 // indirect
	github.com/pion/turn/v5 v5.0.12 // indirect
	github.com/pion/webrtc/v4 v4.2.17 // indirect
	github.com/wlynxg/anet v0.0.5 // indirect
	golang.org/x/crypto v0.48.0 // indirect
	golang.org/x/net v0.50.0 // indirect
	golang.org/x/sys v0.41.0 // indirect
	golang.org/x/time v0.14.0 // indirect
)

replace github.com/jech/galene => /repo

module verifharness

go 1.24.0

require (
	github.com/jech/galene v0.0.0
	github.com/pion/rtp v1.10.4
)

require github.com/pion/randutil v0.1.0 // indirect

replace github.com/jech/galene => /repo

// Driver `users` (property C14): every member's view of the user list
// converges to the true membership.
//
// The REAL handleClientMessage / handleAction / leaveGroup of rtpconn and
// the real group table are driven through internal/sigdrv (no websocket, no
// media); the harness is the scheduler of every client's event loop.  The
// trace is a trace of the `sig` component (replayed through Model/Signal.v);
// the C14 monitors of monitors.go judge the implementation alone.
//
//  1. regression corpus (F15 shapes, F18, group switches with queued events,
//     shared role slices, locked group, wrong password, kick, disconnection
//     with a non-empty queue);
//  2. fault stream: the description file of a populated group becomes
//     unreadable (garbage / removed) while an untraced probe tries to join,
//     then is restored byte for byte with its modification time;
//  3. n seeded random histories.
package main

import (
	"fmt"
	"os"
	"path/filepath"
	"runtime"
	"runtime/pprof"

	"github.com/jech/galene/rtpconn"

	"verifharness/internal/sigdrv"
	"verifharness/internal/tr"
)

// ---------------------------------------------------------------- users

type udef struct {
	name, pw, role string
	perms          []string
}

// role users resolve their permissions through group.permissionsMap (two
// different users per shared role), raw users carry their own array
var udefs = []udef{
	{"opr1", "po1", "op", nil},
	{"opr2", "po2", "op", nil},
	{"pre1", "pp1", "present", nil},
	{"pre2", "pp2", "present", nil},
	{"msg1", "pm1", "message", nil},
	{"obs1", "pb1", "observe", nil},
	{"rawm", "pr1", "", []string{"message"}},
	{"rawp", "pr2", "", []string{"present", "message"}},
	{"rawo", "pr3", "", []string{"op", "present", "message"}},
}

func udefOf(name string) udef {
	for _, u := range udefs {
		if u.name == name {
			return u
		}
	}
	panic("no such user " + name)
}

func allUsers() []sigdrv.User {
	var us []sigdrv.User
	for _, u := range udefs {
		us = append(us, sigdrv.User{Name: u.name, Password: u.pw, Role: u.role, Permissions: u.perms})
	}
	return us
}

func spec(name string) sigdrv.GroupSpec { return sigdrv.GroupSpec{Name: name, Users: allUsers()} }

const redirectURL = "https://example.org/group/elsewhere/"

func join(g, user string) *smsg {
	return &smsg{Type: "join", Kind: "join", Group: g, User: sp(user), Pw: udefOf(user).pw}
}
func leave(g string) *smsg { return &smsg{Type: "join", Kind: "leave", Group: g} }
func ua(kind, dest string) *smsg {
	return &smsg{Type: "useraction", Kind: kind, Dest: dest}
}
func setdata(self string, kv ...[2]string) *smsg {
	return &smsg{Type: "useraction", Kind: "setdata", Dest: self, Value: val{Kind: "m", M: kv}}
}

// joinAll: each (client id, user) joins g; returns the clients.
func (h *hist) joinAll(g string, who ...[2]string) []*cl {
	var out []*cl
	for _, w := range who {
		c := h.client(w[0])
		h.send(c, join(g, w[1]))
		out = append(out, c)
	}
	return out
}

// pumpSome pumps up to n random runnable clients.
func (h *hist) pumpSome(n int) {
	for i := 0; i < n; i++ {
		rs := h.runnable()
		if len(rs) == 0 {
			return
		}
		h.pump(rs[h.r.Intn(len(rs))])
	}
}

// ---------------------------------------------------------------- corpus

func corpus(t *tr.Trace, r *tr.Rand) {
	// F15: setdata immediately followed by leave; the others pump only then
	for v := 0; v < 4; v++ {
		h := newHist(t, r, "corpus-F15-setdata-leave")
		h.mkgroup(spec("g"))
		cs := h.joinAll("g", [2]string{"c0", "opr1"}, [2]string{"c1", "rawp"}, [2]string{"c2", "msg1"})
		b := cs[1]
		if v%2 == 0 {
			h.settle()
		} else {
			h.pumpSome(r.Intn(4)) // the adds are still queued somewhere
		}
		h.send(b, setdata("c1", [2]string{"hand", "up"}))
		if v == 3 {
			h.settle() // announced to everybody, then a second change and the leave
			h.send(b, setdata("c1", [2]string{"hand", "~"}, [2]string{"mood", "ok"}))
		}
		h.send(b, leave("g"))
		h.finish(fmt.Sprintf("corpus-F15-setdata-leave/%d", v))
	}
	// F15: op applied, permissionsChanged queued; the target serves it or
	// leaves first
	for v := 0; v < 4; v++ {
		h := newHist(t, r, "corpus-F15-op-leave")
		h.mkgroup(spec("g"))
		cs := h.joinAll("g", [2]string{"c0", "opr1"}, [2]string{"c1", "rawm"}, [2]string{"c2", "msg1"}, [2]string{"c3", "obs1"})
		a, b := cs[0], cs[1]
		h.settle()
		h.send(a, ua("op", "c1"))
		h.pump(b) // changePermissions applied, permissionsChanged queued
		switch v {
		case 0:
			h.pump(b)
			h.send(b, leave("g"))
		case 1:
			h.send(b, leave("g"))
			h.pump(b) // "Permissions changed in no group": the connection ends
		case 2:
			h.send(b, leave("g"))
			h.send(b, join("g", "rawm"))
			h.pump(b)
		case 3:
			h.pump(b)
			h.pumpSome(2)
			h.disc(b)
		}
		h.finish(fmt.Sprintf("corpus-F15-op-leave/%d", v))
	}
	// two or three changes in a row; a bystander serves its queued `add`
	// (which carries the LIVE permission slice) only at the end
	for v := 0; v < 4; v++ {
		h := newHist(t, r, "corpus-F15-two-changes")
		sg := spec("g")
		sg.AllowRecording = v == 3
		h.mkgroup(sg)
		cs := h.joinAll("g", [2]string{"c0", "opr1"}, [2]string{"c2", "msg1"})
		a := cs[0]
		h.settle()
		b := h.client("c1")
		h.send(b, join("g", []string{"rawm", "rawp", "pre1", "rawo"}[v]))
		h.pump(b)
		h.pump(a) // a knows b; the bystander c2 has `add c1` queued
		for i, k := range []string{"present", "unpresent", "shutup"} {
			if v == 3 {
				k = []string{"unop", "op", "unpresent"}[i]
			}
			h.send(a, ua(k, "c1"))
			if v != 1 || i == 2 {
				h.pump(b)
			}
			if v == 2 {
				h.pump(b)
			}
		}
		for b.c.Runnable() {
			h.pump(b)
		}
		h.finish(fmt.Sprintf("corpus-F15-two-changes/%d", v))
	}
	// F18: joining a redirecting group must not leave a ghost member
	{
		h := newHist(t, r, "corpus-F18-redirect")
		sr := spec("gr")
		sr.Redirect = redirectURL
		h.mkgroup(sr)
		h.mkgroup(spec("g"))
		a, b := h.client("c0"), h.client("c1")
		h.send(a, join("gr", "opr1"))
		h.send(b, join("g", "rawp"))
		h.pumpSome(2)
		h.send(a, join("g", "opr1")) // it is free to join elsewhere
		h.settle()
		h.send(b, leave("g"))
		h.send(b, join("gr", "rawp"))
		h.send(b, join("gr", "rawp"))
		h.finish("corpus-F18-redirect")
	}
	// X2: permission changes issued in g1, the target moves to g2 before
	// serving its queue
	for v := 0; v < 2; v++ {
		h := newHist(t, r, "corpus-X2-group-switch")
		h.mkgroup(spec("g1"))
		h.mkgroup(spec("g2"))
		cs := h.joinAll("g1", [2]string{"c0", "opr1"}, [2]string{"c1", "rawm"})
		a, b := cs[0], cs[1]
		c := h.joinAll("g2", [2]string{"c2", "pre1"})[0]
		h.settle()
		h.send(a, ua("op", "c1"))
		h.send(a, ua("present", "c1"))
		h.send(b, leave("g1"))
		h.send(b, join("g2", "rawm"))
		if v == 0 {
			h.pump(c)
			h.pump(b)
		} else {
			h.pump(b)
			h.pump(c)
		}
		h.pump(b)
		h.finish(fmt.Sprintf("corpus-X2-group-switch/%d", v))
	}
	// a client with g1 user events queued moves to g2 without pumping
	for v := 0; v < 3; v++ {
		h := newHist(t, r, "corpus-switch-with-queued-events")
		h.mkgroup(spec("g1"))
		h.mkgroup(spec("g2"))
		cs := h.joinAll("g1", [2]string{"c0", "rawp"}, [2]string{"c1", "msg1"}, [2]string{"c2", "pre2"})
		b, x, y := cs[0], cs[1], cs[2]
		c := h.joinAll("g2", [2]string{"c3", "opr2"})[0]
		h.settle()
		h.send(x, leave("g1"))
		h.send(y, setdata("c2", [2]string{"k", "v"}))
		z := h.joinAll("g1", [2]string{"c4", "obs1"})[0]
		// b has `delete c1`, `change c2`, `add c4` queued
		h.send(b, leave("g1"))
		h.send(b, join("g2", "rawp"))
		switch v {
		case 1:
			// ... and comes back: the g1 events of its first stay are
			// delivered (same group name), then leave/join/leave/join
			h.send(b, leave("g2"))
			h.send(b, join("g1", "rawp"))
		case 2:
			h.send(z, leave("g1")) // c4 is gone before b comes back
			h.send(b, leave("g2"))
			h.send(b, join("g1", "rawp"))
		}
		h.pump(b)
		h.pump(c)
		h.finish(fmt.Sprintf("corpus-switch-with-queued-events/%d", v))
	}
	// two different users with the same named role, in the same and in
	// different groups: a change of one must not touch the others
	for v := 0; v < 2; v++ {
		h := newHist(t, r, "corpus-shared-role")
		h.mkgroup(spec("g1"))
		h.mkgroup(spec("g2"))
		cs := h.joinAll("g1", [2]string{"c0", "opr1"}, [2]string{"c1", "opr2"}, [2]string{"c2", "pre1"}, [2]string{"c3", "pre2"})
		o1 := cs[0]
		cs2 := h.joinAll("g2", [2]string{"c4", "pre1"}, [2]string{"c5", "opr1"})
		o3 := cs2[1]
		if v == 0 {
			h.settle()
		}
		h.send(o1, ua("unpresent", "c2"))
		h.settle()
		h.send(o1, ua("shutup", "c3"))
		h.settle()
		h.send(o1, ua("unop", "c1"))
		h.settle()
		h.send(o3, ua("shutup", "c4"))
		// fresh logins of the same users
		h.joinAll("g2", [2]string{"c6", "pre2"}, [2]string{"c7", "opr2"})
		h.finish(fmt.Sprintf("corpus-shared-role/%d", v))
	}
	// locked group: a non-operator is refused, an operator is admitted
	{
		h := newHist(t, r, "corpus-locked")
		h.mkgroup(spec("g"))
		cs := h.joinAll("g", [2]string{"c0", "opr1"}, [2]string{"c1", "rawm"})
		o := cs[0]
		h.pumpSome(3)
		h.send(o, &smsg{Type: "groupaction", Kind: "lock", Value: val{Kind: "s", S: "closed_for_lunch"}})
		y := h.client("c2")
		h.send(y, join("g", "msg1")) // refused
		h.joinAll("g", [2]string{"c3", "opr2"})
		h.settle()
		h.send(o, &smsg{Type: "groupaction", Kind: "unlock"})
		h.send(y, join("g", "msg1"))
		h.finish("corpus-locked")
	}
	// ONE wrong password (200 ms)
	{
		h := newHist(t, r, "corpus-wrong-password")
		h.mkgroup(spec("g"))
		h.joinAll("g", [2]string{"c0", "rawo"})
		x := h.client("c1")
		m := join("g", "pre1")
		m.Pw = "wrong"
		h.send(x, m)
		h.settle()
		h.send(x, join("g", "pre1"))
		h.finish("corpus-wrong-password")
	}
	// kick served late; kick of a client whose `add` nobody has served yet
	for v := 0; v < 3; v++ {
		h := newHist(t, r, "corpus-kick")
		h.mkgroup(spec("g"))
		cs := h.joinAll("g", [2]string{"c0", "opr1"}, [2]string{"c1", "rawp"}, [2]string{"c2", "msg1"})
		o, x, m := cs[0], cs[1], cs[2]
		switch v {
		case 0:
			h.settle()
			h.send(o, &smsg{Type: "useraction", Kind: "kick", Dest: "c1", Value: val{Kind: "s", S: "bye"}})
			h.pump(m)
			h.pump(o)
			h.pump(x) // served late
		case 1:
			h.settle()
			z := h.joinAll("g", [2]string{"c3", "obs1"})[0]
			h.send(o, ua("kick", "c3")) // nobody has served `add c3` yet
			h.pump(z)
		case 2:
			// the kick overtakes everything: nobody has pumped at all
			h.send(o, ua("kick", "c1"))
			h.send(o, ua("kick", "c2"))
			h.pump(x)
		}
		h.finish(fmt.Sprintf("corpus-kick/%d", v))
	}
	// disconnection with a non-empty queue
	for v := 0; v < 2; v++ {
		h := newHist(t, r, "corpus-disconnect-with-queue")
		h.mkgroup(spec("g"))
		cs := h.joinAll("g", [2]string{"c0", "rawo"}, [2]string{"c1", "pre1"})
		x := cs[1]
		if v == 0 {
			h.settle()
		}
		h.joinAll("g", [2]string{"c2", "msg1"}, [2]string{"c3", "pre2"})
		h.send(cs[0], ua("unpresent", "c1"))
		if v == 1 {
			h.pump(x)
		}
		h.disc(x) // its queue holds adds (and a permission change)
		h.finish(fmt.Sprintf("corpus-disconnect-with-queue/%d", v))
	}
}

// ---------------------------------------------------------------- fault stream

// faultHistory: the description file of the populated group g becomes
// unreadable while an UNTRACED probe tries to join (it must be refused, and
// the group must survive with its members), then the file is restored byte
// for byte with its modification time, so that galene sees no change.
func faultHistory(t *tr.Trace, r *tr.Rand, idx int, remove bool) {
	h := newHist(t, r, "fault-unreadable-description")
	defer h.close()
	h.noJoinedChange = true
	h.mkgroup(spec("g"))
	h.mkgroup(spec("go"))
	us := []string{"opr1", "rawp", "pre1", "msg1", "pre2", "rawm", "opr2"}
	pick := func() string { return us[r.Intn(len(us))] }
	a, b := h.client("c0"), h.client("c1")
	h.send(a, join("g", pick()))
	h.send(b, join("g", pick()))
	if r.Bool() {
		o := h.client("c4")
		h.send(o, join("go", pick()))
	}
	h.settle()

	path := filepath.Join(h.w.Dir, "g.json")
	orig, err := os.ReadFile(path)
	if err != nil {
		panic(err)
	}
	fi, err := os.Stat(path)
	if err != nil {
		panic(err)
	}
	if remove {
		if err := os.Remove(path); err != nil {
			panic(err)
		}
		t.Note("fault-removed")
	} else {
		garbage := []byte("{ this is not a group description")
		for len(garbage) == len(orig) || r.Chance(1, 3) {
			garbage = append(garbage, '#')
		}
		if err := os.WriteFile(path, garbage, 0600); err != nil {
			panic(err)
		}
		t.Note("fault-garbage")
	}
	probe := h.w.NewClient("probe") // no handle, in no trace line
	for i, n := 0, 1+r.Intn(2); i < n; i++ {
		u := udefOf(pick())
		probe.Send(sigdrv.M{"type": "join", "kind": "join", "group": "g", "username": u.name, "password": u.pw})
		refused := false
		for _, m := range probe.Out() {
			if m.Type == "joined" && m.Kind == "fail" {
				refused = true
			}
		}
		t.Checked("C14.fault_probe_refused")
		if !refused || probe.HasGroup() || probe.Dead {
			t.Fail("C14", "fault_probe_refused", fmt.Sprintf("a join of a group whose description is unreadable was not refused (group %q, dead %v)",
				probe.GroupName(), probe.Dead))
		}
	}
	if err := os.WriteFile(path, orig, 0600); err != nil {
		panic(err)
	}
	if err := os.Chtimes(path, fi.ModTime(), fi.ModTime()); err != nil {
		panic(err)
	}
	if fi2, err := os.Stat(path); err != nil || !fi2.ModTime().Equal(fi.ModTime()) || fi2.Size() != fi.Size() {
		panic("the description file could not be restored exactly")
	}
	// the group still exists and still holds a and b
	h.check()

	c, d := h.client("c2"), h.client("c3")
	h.send(c, join("g", pick()))
	if r.Bool() {
		h.pumpSome(r.Intn(4))
	}
	h.send(d, join("g", pick()))
	h.pumpSome(r.Intn(5))
	ms := h.members("g")
	if len(ms) > 0 {
		x := ms[r.Intn(len(ms))]
		if r.Chance(1, 4) {
			h.disc(x)
		} else {
			h.send(x, leave("g"))
		}
	}
	if r.Bool() {
		h.send(a, setdata("c0", [2]string{"hand", "up"}))
	}
	h.settle()
	t.Nontrivial(fmt.Sprintf("fault/%d/%v", idx, remove))
}

// ---------------------------------------------------------------- random histories

var words = []string{"hello", "bye", "x", "lunch", "later", "ok"}
var dataKeys = []string{"hand", "mood", "k"}
var modKinds = []string{"op", "unop", "present", "unpresent", "shutup", "unshutup"}

func randomHistory(t *tr.Trace, r *tr.Rand, idx int) {
	h := newHist(t, r, "random")
	defer h.close()
	normal := []string{"ga", "gb", "gc"}[:r.Range(2, 3)]
	for _, g := range normal {
		s := spec(g)
		s.AllowRecording = r.Chance(1, 3)
		if r.Chance(1, 5) {
			s.MaxClients = r.Range(3, 5)
		}
		h.mkgroup(s)
	}
	redirect := ""
	if r.Chance(1, 3) {
		s := spec("gr")
		s.Redirect = redirectURL
		h.mkgroup(s)
		redirect = "gr"
	}
	nclients := r.Range(2, 8)
	for i := 0; i < nclients; i++ {
		h.client(fmt.Sprintf("c%d", i))
	}
	slow := h.cs[r.Intn(len(h.cs))]
	slow.slow = true

	pickID := func() string {
		if r.Chance(1, 15) {
			return "nobody"
		}
		return fmt.Sprintf("c%d", r.Intn(nclients))
	}
	randUser := func() udef { return udefs[r.Intn(len(udefs))] }
	pickGroup := func() string {
		if redirect != "" && r.Chance(1, 8) {
			t.Note("join-redirect")
			return redirect
		}
		return normal[r.Intn(len(normal))]
	}
	joinMsg := func(g string) *smsg {
		u := randUser()
		m := join(g, u.name)
		if r.Chance(1, 2000) {
			m.Pw = "wrong"
			t.Note("join-wrong-password")
		}
		return m
	}
	doJoin := func(c *cl, g string) {
		before := c.grp
		h.send(c, joinMsg(g))
		switch {
		case before != "":
			t.Note("join-while-member")
		case c.grp != "":
			t.Note("join-ok")
		default:
			t.Note("join-refused")
		}
	}
	// an operator if there is one (most moderation comes from operators)
	actor := func(ls []*cl) *cl {
		if r.Chance(2, 3) {
			var ops []*cl
			for _, c := range ls {
				for _, p := range c.perms {
					if p == "op" {
						ops = append(ops, c)
						break
					}
				}
			}
			if len(ops) > 0 {
				return ops[r.Intn(len(ops))]
			}
		}
		return ls[r.Intn(len(ls))]
	}
	dataValue := func() val {
		v := val{Kind: "m"}
		first := r.Intn(len(dataKeys))
		ks := []int{first}
		if r.Bool() {
			ks = append(ks, (first+1+r.Intn(len(dataKeys)-1))%len(dataKeys)) // a different key
		}
		for _, i := range ks {
			x := words[r.Intn(len(words))]
			if r.Chance(1, 4) {
				x = "~" // null: the key is deleted
			}
			v.M = append(v.M, [2]string{dataKeys[i], x})
		}
		return v
	}

	nsteps := r.Range(40, 160)
	for s := 0; s < nsteps; s++ {
		ls := h.live()
		if len(ls) == 0 {
			break
		}
		c := ls[r.Intn(len(ls))]
		switch r.Pick(30, 12, 5, 1, 10, 2, 6, 2, 4, 3, 1) {
		case 0: // serve somebody's action queue
			rs := h.runnable()
			if len(rs) == 0 {
				continue
			}
			x := rs[r.Intn(len(rs))]
			if x.slow && !r.Chance(1, 8) {
				t.Note("slow-client-delayed")
				continue
			}
			h.pump(x)
			t.Note("pump")
		case 1: // join
			if c.grp != "" && !r.Chance(1, 40) {
				continue
			}
			doJoin(c, pickGroup())
		case 2: // leave
			if c.grp == "" {
				continue
			}
			g := c.grp
			if r.Chance(1, 30) {
				g = normal[r.Intn(len(normal))]
				t.Note("leave-maybe-wrong-group")
			}
			h.send(c, leave(g))
			t.Note("leave")
		case 3:
			h.disc(c)
			t.Note("disconnect")
		case 4: // moderation
			a := actor(ls)
			h.send(a, ua(modKinds[r.Intn(len(modKinds))], pickID()))
			t.Note("moderation")
		case 5: // kick
			a := actor(ls)
			m := ua("kick", pickID())
			if r.Bool() {
				m.Value = val{Kind: "s", S: words[r.Intn(len(words))]}
			}
			h.send(a, m)
			t.Note("kick")
		case 6: // setdata on self
			m := &smsg{Type: "useraction", Kind: "setdata", Dest: c.id, Value: dataValue()}
			if r.Chance(1, 20) {
				m.Dest = pickID()
			}
			h.send(c, m)
			t.Note("setdata")
		case 7: // lock / unlock
			a := actor(ls)
			k := "lock"
			if r.Bool() {
				k = "unlock"
			}
			m := &smsg{Type: "groupaction", Kind: k}
			if r.Chance(1, 3) {
				m.Value = val{Kind: "s", S: words[r.Intn(len(words))]}
			}
			h.send(a, m)
			t.Note("lock-unlock")
		case 8: // leave and immediately join another group without pumping
			if c.grp == "" {
				continue
			}
			h.send(c, leave(c.grp))
			doJoin(c, pickGroup())
			if r.Chance(1, 4) && c.grp != "" {
				// ... and straight back
				h.send(c, leave(c.grp))
				doJoin(c, pickGroup())
			}
			t.Note("leave-join-without-pumping")
		case 9: // quiescence point
			h.settle()
			t.Note("quiescence-point")
		case 10: // setdata immediately followed by leave (F15 shape)
			if c.grp == "" {
				continue
			}
			h.send(c, &smsg{Type: "useraction", Kind: "setdata", Dest: c.id, Value: dataValue()})
			h.send(c, leave(c.grp))
			t.Note("setdata-then-leave")
		}
	}
	h.settle()
	if h.joins >= 2 && h.bigChecks >= 1 {
		t.Nontrivial(fmt.Sprintf("random/%d/%d/%d/%d", idx, h.joins, h.step, h.bigChecks))
	}
	if h.transients > 0 {
		t.Note("history-with-aliasing-transient")
	}
	switch {
	case h.maxOut <= 16:
		t.Note("largest-outbox<=16")
	case h.maxOut <= 64:
		t.Note("largest-outbox<=64")
	case h.maxOut <= 256:
		t.Note("largest-outbox<=256")
	default:
		t.Note("largest-outbox>256")
	}
}

// ---------------------------------------------------------------- main

func runUsers(t *tr.Trace, r *tr.Rand, n int) {
	// one P: a goroutine started by the code under test runs only when the
	// harness yields (settle), which keeps every history reproducible
	runtime.GOMAXPROCS(1)
	// tr.Rand streams of consecutive seeds are shifted copies of each other
	// (state = (seed+k)*gamma + c): continue from a hashed state instead
	r = tr.NewRand(r.U64())
	sigdrv.Quiet()
	// a client is sent at most a few hundred messages between two steps
	// (see the largest-outbox notes); 1024 slots = a 16 KB allocation, not a large object
	rtpconn.VerifWriteBuffer = 1 << 10
	corpus(t, r)
	for i := 0; i < 6; i++ {
		faultHistory(t, r, i, i%2 == 1)
	}
	for i := 0; i < n; i++ {
		randomHistory(t, r, i)
	}
}

func main() {
	if f := os.Getenv("USERS_PROF"); f != "" {
		fh, _ := os.Create(f)
		pprof.StartCPUProfile(fh)
		defer pprof.StopCPUProfile()
	}
	tr.Main(runUsers)
}

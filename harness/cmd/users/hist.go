package main

// hist.go: one history of the `users` driver = one sigdrv.World driven
// operation by operation.  Every operation on a traced client is written in
// the trace protocol of the `sig` component (model/comp_sig.ml replays it
// through Model/Signal.v); the helpers below are copies of the ones of
// cmd/sig/hist.go restricted to what user-list histories need (no tokens,
// no offers), with two differences:
//
//   - mkgroup expands role users ("permissions":"present" in the description
//     file) to the permission list galene derives from group.permissionsMap,
//     because the model only knows explicit lists;
//   - the harness is the scheduler: settle() pumps runnable clients one at a
//     time in a seeded random order and writes the `quiesce` op only when
//     nobody is runnable any more (it is then a no-op in the model too).
//
// After every operation the outbox of every client is decoded and fed to the
// client-side fold and the per-message monitors of monitors.go.

import (
	"fmt"
	"runtime"
	"sort"
	"strings"

	"github.com/jech/galene/group"

	"verifharness/internal/sigdrv"
	"verifharness/internal/tr"
)

// val is a message value: Kind n(one), s(tring) or m(ap).
type val struct {
	Kind string
	S    string
	M    [][2]string // value "~" = null
}

// smsg is a structured client-to-server message.
type smsg struct {
	Type, Kind string
	Dest       string
	User       *string
	Pw, Group  string
	Value      val
}

func sp(s string) *string { return &s }

// uent is one entry of the user list a client maintains (protocol.js,
// sc.users).
type uent struct {
	username string
	perms    []string
	data     map[string]interface{}
}

// rec is one received server-to-client message.
type rec struct {
	step int // global step at which it was received
	pidx int // membership interval the receiver had been told of (-1 = none)
	m    sigdrv.Msg
}

// interval is one membership of a client in a group, in global steps.
type interval struct {
	g           string
	from, to    int // to == -1 while the membership lasts
	username    string
	init        []string        // permissions right after the join
	permChanges []int           // steps at which the permissions changed
	seen        map[string]bool // every permission list observed between steps
}

type cl struct {
	c    *sigdrv.Client
	h    int
	id   string
	buf  []string // projected, not yet written by a drain op
	slow bool

	// client side: what protocol.js would hold
	users  map[string]*uent
	log    []rec
	pjoin  int // `joined join` messages received
	pleave int // `joined leave` messages received
	// failStale: a `joined fail` cleared the list while events of the last
	// stay (and its `joined leave`) were still queued
	failStale bool

	// server side, tracked between steps
	ivs   []*interval
	grp   string   // group after the last step ("" = none or dead)
	perms []string // permissions after the last step
}

// cur is the open membership interval, nil if none.
func (c *cl) cur() *interval {
	if n := len(c.ivs); n > 0 && c.ivs[n-1].to == -1 {
		return c.ivs[n-1]
	}
	return nil
}

// pidx is the index of the membership interval the client has been told of
// by `joined` messages (the k-th `joined join` announces the k-th
// successful join, the k-th `joined leave` its end), -1 if none.
func (c *cl) pidx() int {
	if c.pjoin > c.pleave {
		return c.pjoin - 1
	}
	return -1
}

// obligation: a change of permissions or data that must be announced.
type obligation struct {
	x    *cl
	iv   *interval
	step int
	what string
}

type hist struct {
	t        *tr.Trace
	r        *tr.Rand
	w        *sigdrv.World
	cs       []*cl
	groups   []string
	knownIDs map[string]bool
	texts    map[string]bool // user supplied texts (lock messages, ...)
	stream   string
	step     int
	obs      []obligation
	// noJoinedChange: no operation of this history may cause a `joined
	// change` (fault stream: the description file is restored exactly)
	noJoinedChange bool
	// statistics for Nontrivial
	joins      int
	bigChecks  int // quiescence checks with >= 2 members in some group
	checks     int
	closed     bool
	transients int
	maxOut     int // most messages found in one outbox
}

var galeneTexts = map[string]bool{
	"not authorised": true, "join a group first": true, "permission denied": true,
	"user unknown": true, "no suck user": true, "client not found": true, "no such user": true,
	"already recording": true, "bad value in clearchat": true, "Bad value in setdata": true,
	"this user doesn't chat": true, "this is not a real user": true,
	"adding duplicate connection": true, "you are not joined": true, "unknown kind": true,
	"cannot join multiple groups": true, "spoofed client id": true, "spoofed username": true,
	"empty id": true, "null candidate": true, "unexpected message": true,
	"unknown group action": true, "unknown user action": true, "unknown permission": true,
	"client specified token": true, "wrong group in token": true,
	"hierarchical token not allowed": true, "token doesn't expire": true,
	"that username is taken": true, "this field cannot be edited": true,
	"username required": true, "not authorised: this username is taken": true,
	"group does not exist": true, "internal server error": true, "this group is locked": true,
	"too many users": true, "you have been kicked out": true,
}

func newHist(t *tr.Trace, r *tr.Rand, stream string) *hist {
	w, err := sigdrv.NewWorld()
	if err != nil {
		panic(err)
	}
	t.History("sig", stream)
	return &hist{t: t, r: r, w: w, knownIDs: map[string]bool{}, texts: map[string]bool{}, stream: stream}
}

func (h *hist) close() {
	if h.closed {
		return
	}
	h.closed = true
	h.t.Checked("C14.cleanup")
	if err := h.w.Close(); err != nil {
		h.t.Fail("C14", "cleanup", err.Error())
	}
}

func plus(l []string) string {
	if len(l) == 0 {
		return "-"
	}
	return strings.Join(l, "+")
}

func dash(s string) string {
	if s == "" {
		return "-"
	}
	return s
}

// ---- group descriptions

// rolePerms is the list galene gives a user whose description says
// "permissions":"<role>": group.permissionsMap[role], with "record"
// PREPENDED for an operator of a group that allows recording
// (Permissions.Permissions in group/description.go).
func rolePerms(role string, allowRecording bool) []string {
	var p []string
	switch role {
	case "op":
		p = []string{"op", "present", "message", "caption", "token"}
		if allowRecording {
			p = append([]string{"record"}, p...)
		}
	case "present":
		p = []string{"present", "message"}
	case "message":
		p = []string{"message"}
	case "observe":
		p = []string{}
	default:
		panic("unknown role " + role)
	}
	return p
}

// userPerms is what a successful login of u into a group yields.
func userPerms(u sigdrv.User, allowRecording bool) []string {
	if u.Role != "" {
		return rolePerms(u.Role, allowRecording)
	}
	return append([]string{}, u.Permissions...)
}

func (h *hist) mkgroup(s sigdrv.GroupSpec) {
	if err := h.w.AddGroup(s); err != nil {
		panic(err)
	}
	h.groups = append(h.groups, s.Name)
	h.texts[s.Redirect] = true
	args := []interface{}{s.Name, dash(s.Redirect), s.AllowRecording, s.MaxClients}
	for _, u := range s.Users {
		args = append(args, fmt.Sprintf("%s:%s:%s:%s", u.Name, dash(u.Password), tr.B(u.Wildcard),
			plus(userPerms(u, s.AllowRecording))))
	}
	h.t.Op("-", "mkgroup", args...)
}

func (h *hist) client(id string) *cl {
	c := &cl{c: h.w.NewClient(id), h: len(h.cs), id: id, users: map[string]*uent{}}
	h.cs = append(h.cs, c)
	h.knownIDs[id] = true
	h.t.Op("-", "client", c.h, dash(id))
	return c
}

func (h *hist) live() []*cl {
	var out []*cl
	for _, c := range h.cs {
		if !c.c.Dead {
			out = append(out, c)
		}
	}
	return out
}

func (h *hist) runnable() []*cl {
	var out []*cl
	for _, c := range h.cs {
		if c.c.Runnable() {
			out = append(out, c)
		}
	}
	return out
}

// byID returns the harness client with that id (ids are distinct).
func (h *hist) byID(id string) *cl {
	for _, c := range h.cs {
		if c.id == id {
			return c
		}
	}
	return nil
}

// ---- messages

func (m *smsg) traceArgs() []interface{} {
	var a []interface{}
	add := func(k, v string) { a = append(a, k+"="+v) }
	if m.Dest != "" {
		add("dest", m.Dest)
	}
	if m.User != nil {
		add("user", *m.User)
	}
	if m.Pw != "" {
		add("pw", m.Pw)
	}
	if m.Group != "" {
		add("group", m.Group)
	}
	switch m.Value.Kind {
	case "s":
		add("value", "s:"+dash(m.Value.S))
	case "m":
		var es []string
		for _, kv := range m.Value.M {
			v := kv[1]
			if v != "~" {
				v = dash(v)
			}
			es = append(es, kv[0]+"="+v)
		}
		add("value", "m:"+strings.Join(es, ";"))
	}
	return a
}

func (h *hist) json(m *smsg) sigdrv.M {
	j := sigdrv.M{"type": m.Type}
	set := func(k, v string) {
		if v != "" {
			j[k] = v
		}
	}
	set("kind", m.Kind)
	set("dest", m.Dest)
	if m.User != nil {
		j["username"] = *m.User
	}
	set("password", m.Pw)
	set("group", m.Group)
	switch m.Value.Kind {
	case "s":
		j["value"] = m.Value.S
	case "m":
		mm := map[string]interface{}{}
		for _, kv := range m.Value.M {
			if kv[1] == "~" {
				mm[kv[0]] = nil
			} else {
				mm[kv[0]] = kv[1]
			}
		}
		j["value"] = mm
	}
	return j
}

func (h *hist) text(s string) string {
	if galeneTexts[s] || h.texts[s] || s == "" {
		return s
	}
	return "?"
}

// project maps a server-to-client message to the compared token, or "".
// Same projection as cmd/sig (and proj of model/comp_sig.ml) for the message
// types that occur here.
func (h *hist) project(m sigdrv.Msg) string {
	if m.Type == "close" || m.Type == "ice" {
		return ""
	}
	id, source, dest, user, perms, grp, errs, value := m.Id, m.Source, m.Dest, "~", plus(m.Permissions), m.Group, m.Error, ""
	if m.Username != nil {
		user = sigdrv.Sanitise(*m.Username)
	}
	locked := m.Locked
	switch m.Type {
	case "joined":
		value = h.text(m.ValueString())
	case "user":
		perms = "-"
		if !h.knownIDs[id] {
			id = "?"
		}
	case "chat", "usermessage", "chathistory":
		value = m.ValueString()
		switch {
		case m.Type == "usermessage" && (m.Kind == "error" || m.Kind == "kicked"):
			value = h.text(value)
			if m.Kind == "error" {
				id = ""
			}
		case m.Type == "usermessage" && m.Kind == "warning":
			value = "?"
		default:
			if (m.Type == "chat" || m.Type == "chathistory") && id != "" && !h.knownIDs[id] {
				id = "?"
			}
		}
	case "__close__":
		value = ""
	case "answer", "offer":
		user = "~"
		source = ""
		value = ""
	}
	d := sigdrv.Sanitise
	return strings.Join([]string{m.Type + "/" + d(m.Kind), d(id), d(source), d(dest), user,
		tr.B(m.Privileged), perms, d(grp), d(errs), tr.B(locked), d(value)}, "|")
}

// take moves the client's outbox into its drain buffer, feeds every message
// to the client-side fold and its monitors, and returns the messages.
func (h *hist) take(c *cl) []sigdrv.Msg {
	ms := c.c.Out()
	if len(ms) > h.maxOut {
		h.maxOut = len(ms)
	}
	for _, m := range ms {
		if p := h.project(m); p != "" {
			c.buf = append(c.buf, p)
		}
		h.receive(c, m)
	}
	return ms
}

func (h *hist) stateOf(c *cl) string {
	return fmt.Sprintf("g=%s u=%s p=%s", dash(c.c.GroupName()), sigdrv.Sanitise(c.c.Username()), plus(c.c.Permissions()))
}

func (h *hist) panicked(what string, p interface{}) {
	h.t.Fail("C14", "no_panic", fmt.Sprintf("%s: recovered panic (the server process would have exited): %v", what, p))
}

// authClass derives the class of the response from what the sender was sent.
func authClass(res sigdrv.Result, ms []sigdrv.Msg) string {
	if res.Class == "protocol" || res.Class == "user" {
		return "invalid"
	}
	for _, m := range ms {
		if m.Type == "usermessage" && m.Kind == "error" && m.ValueString() == "join a group first" {
			return "joinfirst"
		}
	}
	for _, m := range ms {
		if m.Type == "usermessage" && m.Kind == "error" && m.ValueString() == "not authorised" {
			return "notauth"
		}
	}
	return "passed"
}

type sendResult struct {
	res  sigdrv.Result
	auth string
	msgs []sigdrv.Msg
	grp  string // sender's group when the message was sent
}

// send: the loop of c reads one message.
func (h *hist) send(c *cl, m *smsg) sendResult {
	if m.Value.Kind == "s" {
		h.texts[m.Value.S] = true
	}
	h.step++
	grp := c.c.GroupName()
	dataBefore := dataText(c.c.Data())
	res := c.c.Send(h.json(m))
	ms := h.take(c)
	args := append([]interface{}{c.h, m.Type, dash(m.Kind)}, m.traceArgs()...)
	sr := sendResult{res: res, msgs: ms, grp: grp}
	switch {
	case res.Panic != nil:
		h.t.Op("PANIC", "msg", args...)
		h.panicked(fmt.Sprintf("message %s/%s by client %d", m.Type, m.Kind, c.h), res.Panic)
		sr.auth = "panic"
	case !res.Ran:
		h.t.Op("dead", "msg", args...)
		sr.auth = "dead"
	default:
		sr.auth = authClass(res, ms)
		h.t.Op(sr.auth+" "+res.Class+" "+h.stateOf(c), "msg", args...)
	}
	h.afterStep(c, "msg "+m.Type+"/"+m.Kind)
	if m.Type == "useraction" && m.Kind == "setdata" && c.c.HasGroup() && c.cur() != nil &&
		dataText(c.c.Data()) != dataBefore {
		h.obs = append(h.obs, obligation{x: c, iv: c.cur(), step: h.step, what: "data"})
	}
	return sr
}

// pump: the loop of c serves its action queue once.
func (h *hist) pump(c *cl) sigdrv.Result {
	h.step++
	res := c.c.Pump()
	h.take(c)
	switch {
	case res.Panic != nil:
		h.t.Op("PANIC", "pump", c.h)
		h.panicked(fmt.Sprintf("action queue of client %d", c.h), res.Panic)
	case !res.Ran:
		h.t.Op("dead", "pump", c.h)
	default:
		h.t.Op(res.Class+" "+h.stateOf(c), "pump", c.h)
	}
	h.afterStep(c, "pump")
	return res
}

// disc: the peer closes the connection.
func (h *hist) disc(c *cl) {
	h.step++
	c.c.Disconnect()
	h.take(c)
	h.t.Op("-", "disc", c.h)
	h.afterStep(c, "disc")
}

// settle is a quiescence point: runnable clients are pumped one at a time in
// a seeded random order, each as its own `pump` op; when nobody is runnable
// the `quiesce` op is written (a no-op for implementation and model), the
// quiescence monitors run, every client is drained and every group's state
// is compared.
//
// runtime.Gosched() (the driver runs with GOMAXPROCS(1)) lets a goroutine
// that the code under test may have started finish before the harness
// concludes that nothing is pending; the unchanged code starts none on
// these paths.
func (h *hist) settle() {
	for i := 0; i < 100000; i++ {
		rs := h.runnable()
		if len(rs) == 0 {
			runtime.Gosched()
			rs = h.runnable()
			if len(rs) == 0 {
				break
			}
		}
		h.pump(rs[h.r.Intn(len(rs))])
	}
	h.t.Op("-", "quiesce")
	h.check()
	h.drainAll()
	for _, g := range h.groups {
		h.state(g)
	}
}

func (h *hist) drain(c *cl) {
	h.take(c)
	sort.Strings(c.buf)
	obs := "-"
	if len(c.buf) > 0 {
		obs = strings.Join(c.buf, " ")
	}
	c.buf = nil
	h.t.Op(obs, "drain", c.h)
}

func (h *hist) drainAll() {
	for _, c := range h.cs {
		h.drain(c)
	}
}

func (h *hist) state(g string) {
	gr := group.Get(g)
	if gr == nil {
		// the group object is created on first use; the model has it from
		// mkgroup on
		h.t.Op("locked=0 members=- rec=0 tokens=-", "state", g)
		return
	}
	var ms []int
	rec := false
	for _, cc := range gr.GetClients(nil) {
		found := false
		for _, c := range h.cs {
			if c.c.Client() == cc {
				ms = append(ms, c.h)
				found = true
			}
		}
		if !found {
			rec = true
		}
	}
	sort.Ints(ms)
	msS := "-"
	if len(ms) > 0 {
		var ss []string
		for _, x := range ms {
			ss = append(ss, fmt.Sprint(x))
		}
		msS = strings.Join(ss, ",")
	}
	h.t.Op(fmt.Sprintf("locked=%s members=%s rec=%s tokens=-", tr.B(h.w.Locked(g)), msS, tr.B(rec)), "state", g)
}

// finish ends a history: quiescence point, then the world is closed.
func (h *hist) finish(key string) {
	h.settle()
	if key != "" {
		h.t.Nontrivial(key)
	}
	h.close()
}

package main

// monitors.go: the client-side fold of protocol.js (sc.users maintained from
// `joined` and `user` messages) and the C14 monitors.  Everything here looks
// at the implementation only (what the real webClient code sent and what
// galene's group table holds); nothing depends on the Coq model.
//
// Time is the global step counter of the history (one step = one message
// read, one service of an action queue, or one disconnection).  For every
// client the harness keeps its membership intervals (server side, from
// GroupName() compared before/after every step) and, client side, the index
// of the interval the client has been TOLD of: the k-th `joined join` it
// receives announces its k-th successful join, the k-th `joined leave` the
// end of it.  Events queued during one membership are always delivered
// before the `joined leave` that ends it, so an event received while the
// client has been told of interval J is an event of J.

import (
	"encoding/json"
	"fmt"
	"sort"
	"strings"

	"verifharness/internal/sigdrv"
)

func eqList(a, b []string) bool {
	if len(a) != len(b) {
		return false
	}
	for i := range a {
		if a[i] != b[i] {
			return false
		}
	}
	return true
}

// dataText is the JSON text of a data map with sorted keys; nil and empty
// maps are equal.
func dataText(d map[string]interface{}) string {
	if len(d) == 0 {
		return "{}"
	}
	b, err := json.Marshal(d) // encoding/json sorts map keys
	if err != nil {
		return "!" + err.Error()
	}
	return string(b)
}

func hasDuplicate(l []string) bool {
	for i := range l {
		for j := i + 1; j < len(l); j++ {
			if l[i] == l[j] {
				return true
			}
		}
	}
	return false
}

// ---- the client-side fold, one message at a time

func (h *hist) receive(c *cl, m sigdrv.Msg) {
	switch m.Type {
	case "joined":
		switch m.Kind {
		case "join":
			c.pjoin++
		case "leave":
			c.pleave++
			c.users = map[string]*uent{}
			c.failStale = false
		case "fail":
			// `joined fail` is written directly, not queued: if the client
			// has not yet been told of the end of its last stay, the
			// events of that stay that are still queued will reach a
			// list this message has cleared (until the `joined leave`)
			if c.pidx() >= 0 {
				c.failStale = true
			}
			c.users = map[string]*uent{}
		case "change":
			if h.noJoinedChange {
				h.t.Fail("C14", "fault_restore_exact", fmt.Sprintf(
					"client %d (%s) received `joined change` although the description file was restored with the same bytes and modification time",
					c.h, c.id))
			}
		}
	case "user":
		h.userEvent(c, m)
	}
	c.log = append(c.log, rec{step: h.step, pidx: c.pidx(), m: m})
}

// overlaps: the memberships of x in g that share a step with [from, to]
// (to == -1: until now).
func overlaps(x *cl, g string, from, to int) []*interval {
	var out []*interval
	for _, k := range x.ivs {
		if k.g != g {
			continue
		}
		if to != -1 && k.from > to {
			continue
		}
		if k.to != -1 && k.to < from {
			continue
		}
		out = append(out, k)
	}
	return out
}

func (h *hist) userEvent(c *cl, m sigdrv.Msg) {
	t := h.t
	who := fmt.Sprintf("client %d (%s)", c.h, c.id)
	what := fmt.Sprintf("`user %s %s` (username %q, permissions %v)", m.Kind, m.Id, m.User(), m.Permissions)

	// C14.no_cross_group.  c.grp is the receiver's group before this step:
	// a `user` message is only written while an action queue is served, and
	// the group of a client changes during that only when the batch ends in
	// an error (kick), after the message was written.
	t.Checked("C14.no_cross_group")
	var subjIvs []*interval
	p := c.pidx()
	x := h.byID(m.Id)
	switch {
	case c.grp == "":
		t.Fail("C14", "no_cross_group", fmt.Sprintf("%s is in no group and received %s", who, what))
	case p < 0 || p >= len(c.ivs):
		t.Fail("C14", "no_cross_group", fmt.Sprintf("%s received %s outside of any membership it has been told of", who, what))
	case c.ivs[p].g != c.grp:
		t.Fail("C14", "no_cross_group", fmt.Sprintf("%s is a member of %q and received %s, an event of its earlier membership of %q",
			who, c.grp, what, c.ivs[p].g))
	case x == nil:
		t.Fail("C14", "no_cross_group", fmt.Sprintf("%s in %q received %s about an id no client has", who, c.grp, what))
	default:
		j := c.ivs[p]
		subjIvs = overlaps(x, j.g, j.from, j.to)
		if len(subjIvs) == 0 {
			t.Fail("C14", "no_cross_group", fmt.Sprintf(
				"%s in %q (member since step %d) received %s at step %d, but client %d was never a member of %q during that membership",
				who, c.grp, j.from, what, h.step, x.h, j.g))
		}
	}

	// the aliasing transient: a permission list the subject never had
	// between two steps of any of those memberships
	if (m.Kind == "add" || m.Kind == "change") && len(subjIvs) > 0 {
		seen := false
		for _, k := range subjIvs {
			if k.seen[plus(m.Permissions)] {
				seen = true
			}
		}
		if !seen || hasDuplicate(m.Permissions) {
			t.Note("aliasing-transient-seen")
			h.transients++
		}
	}

	// C14.event_consistent + the fold of protocol.js
	t.Checked("C14.event_consistent")
	_, present := c.users[m.Id]
	ent := &uent{username: m.User(), perms: append([]string{}, m.Permissions...), data: m.Data}
	switch m.Kind {
	case "add":
		if present {
			t.Fail("C14", "event_consistent", fmt.Sprintf("%s received %s for a user already in its list (protocol.js: Duplicate user)", who, what))
		}
		c.users[m.Id] = ent
	case "change":
		if !present && c.failStale {
			t.Note("stale-event-after-joined-fail")
		} else if !present {
			t.Fail("C14", "event_consistent", fmt.Sprintf("%s received %s for a user not in its list (protocol.js: Unknown user; the user is re-added)", who, what))
		}
		c.users[m.Id] = ent
	case "delete":
		if !present && c.failStale {
			t.Note("stale-event-after-joined-fail")
		} else if !present {
			t.Fail("C14", "event_consistent", fmt.Sprintf("%s received %s for a user not in its list (protocol.js: Unknown user)", who, what))
		}
		delete(c.users, m.Id)
	default:
		t.Fail("C14", "event_consistent", fmt.Sprintf("%s received %s: unknown kind", who, what))
	}
}

// ---- after every step: membership intervals, permission tracking

func (h *hist) groupOf(c *cl) string {
	if c.c.Dead || !c.c.HasGroup() {
		return ""
	}
	return c.c.GroupName()
}

// afterStep runs after every operation; actor is the client whose loop ran.
func (h *hist) afterStep(actor *cl, what string) {
	// messages written to other clients directly (none on these paths, but
	// the fold must not miss any)
	for _, c := range h.cs {
		if c != actor {
			h.take(c)
		}
	}
	for _, c := range h.cs {
		g := h.groupOf(c)
		p := c.c.Permissions()
		if c.c.Dead {
			p = nil
		}
		sameIv := g == c.grp
		if !sameIv {
			if k := c.cur(); k != nil {
				k.to = h.step
				if what == "pump" {
					// the batch ended in an error (kick, ...): actions
					// served before it may have modified the permissions
					// in place before leaveGroup dropped them
					k.permChanges = append(k.permChanges, h.step)
				}
			}
			if g != "" {
				c.ivs = append(c.ivs, &interval{g: g, from: h.step, to: -1, username: c.c.Username(),
					init: append([]string{}, p...), seen: map[string]bool{}})
				if c.grp == "" {
					h.joins++
				}
			}
			c.grp = g
		}
		if !eqList(p, c.perms) {
			if c != actor {
				// nobody's permissions change because of what somebody
				// else's loop did (shared slices)
				h.t.Fail("C14", "permissions_isolated", fmt.Sprintf(
					"after %s by client %d (%s): the permissions of client %d (%s, user %q in %q) changed from %v to %v",
					what, actor.h, actor.id, c.h, c.id, c.c.Username(), g, c.perms, p))
			} else if sameIv && g != "" {
				k := c.cur()
				k.permChanges = append(k.permChanges, h.step)
				h.obs = append(h.obs, obligation{x: c, iv: k, step: h.step, what: "permissions"})
			}
			c.perms = p
		}
		if k := c.cur(); k != nil {
			k.seen[plus(p)] = true
		}
	}
	h.t.Checked("C14.permissions_isolated")
}

// ---- quiescence monitors

func (h *hist) members(g string) []*cl {
	var out []*cl
	for _, c := range h.cs {
		if c.grp == g && g != "" {
			out = append(out, c)
		}
	}
	return out
}

func ids(cs []*cl) []string {
	var out []string
	for _, c := range cs {
		out = append(out, c.id)
	}
	sort.Strings(out)
	return out
}

// count of `user <kind> <id>` messages c received during the membership
// interval with index j, and those messages.
func (c *cl) events(j int, kind, id string) []rec {
	var out []rec
	for _, r := range c.log {
		if r.pidx == j && r.m.Type == "user" && r.m.Kind == kind && r.m.Id == id {
			out = append(out, r)
		}
	}
	return out
}

// check evaluates the monitors of a quiescence point (no live client is
// runnable).
func (h *hist) check() {
	t := h.t
	if rs := h.runnable(); len(rs) > 0 {
		t.Note("quiescence-check-skipped-somebody-runnable")
		return
	}
	h.checks++
	big := false

	// C14.membership_consistent
	for _, g := range h.groups {
		t.Checked("C14.membership_consistent")
		mine := ids(h.members(g))
		theirs := h.w.Members(g)
		if !eqList(mine, theirs) {
			t.Fail("C14", "membership_consistent", fmt.Sprintf(
				"group %q: the clients that are members of it are %v, but the group table holds %v (group object present: %v)",
				g, mine, theirs, h.w.Group(g) != nil))
		}
		if len(theirs) >= 2 {
			big = true
		}
	}
	if big {
		h.bigChecks++
	}

	for _, c := range h.live() {
		who := fmt.Sprintf("client %d (%s)", c.h, c.id)
		// C14.convergence
		t.Checked("C14.convergence")
		t.Checked("C14.convergence_data")
		if c.grp == "" {
			if len(c.users) != 0 {
				t.Fail("C14", "convergence", fmt.Sprintf("%s is in no group but its user list still holds %v", who, keys(c.users)))
			}
			continue
		}
		g := c.grp
		j := len(c.ivs) - 1
		if c.pidx() != j {
			t.Fail("C14", "convergence", fmt.Sprintf("%s is a member of %q (membership #%d) but the `joined` messages it received tell it of membership #%d",
				who, g, j, c.pidx()))
		}
		truth := h.w.Members(g)
		if got := keys(c.users); !eqList(got, truth) {
			t.Fail("C14", "convergence", fmt.Sprintf("%s in %q: its user list holds %v, the group holds %v", who, g, got, truth))
		}
		for _, id := range truth {
			x := h.byID(id)
			if x == nil || x.grp != g {
				t.Fail("C14", "convergence", fmt.Sprintf("group %q holds id %s, which is not a live client that joined it", g, id))
				continue
			}
			e := c.users[id]
			if e == nil {
				continue // reported above
			}
			if e.username != x.c.Username() || !eqList(e.perms, x.c.Permissions()) {
				t.Fail("C14", "convergence", fmt.Sprintf("%s in %q: its entry for %s is %q %v, the member is %q %v",
					who, g, id, e.username, e.perms, x.c.Username(), x.c.Permissions()))
			}
			if dataText(e.data) != dataText(x.c.Data()) {
				t.Fail("C14", "convergence_data", fmt.Sprintf("%s in %q: its entry for %s has data %s, the member has %s",
					who, g, id, dataText(e.data), dataText(x.c.Data())))
			}
		}

		// C14.join_symmetry and C14.delete_once, over the whole current
		// membership J of c: the `add` events c received for X are one
		// for X being a member when c joined (or X == c) plus one per
		// later join of X; the `delete` events one per departure of X.
		J := c.ivs[j]
		for _, x := range h.cs {
			t.Checked("C14.join_symmetry")
			t.Checked("C14.delete_once")
			var addIvs []*interval
			dels := 0
			for _, k := range x.ivs {
				if k.g != g {
					continue
				}
				if x == c {
					if k == J {
						addIvs = append(addIvs, k)
					}
					continue
				}
				if k.from > J.from || (k.from < J.from && (k.to == -1 || k.to > J.from)) {
					addIvs = append(addIvs, k)
				}
				if k.to != -1 && k.to > J.from {
					dels++
				}
			}
			adds := c.events(j, "add", x.id)
			if len(adds) != len(addIvs) {
				t.Fail("C14", "join_symmetry", fmt.Sprintf(
					"%s, member of %q since step %d, received %d `user add %s` (steps %v); client %d was a member then or joined later %d time(s)",
					who, g, J.from, len(adds), x.id, steps(adds), x.h, len(addIvs)))
			} else {
				for i, a := range adds {
					k := addIvs[i]
					if a.m.User() != k.username {
						t.Fail("C14", "join_symmetry", fmt.Sprintf("%s in %q received `user add %s` with username %q, client %d joined as %q",
							who, g, x.id, a.m.User(), x.h, k.username))
					}
					// the permission list is compared when it cannot have
					// been modified in place in the meantime (the queued
					// `add` carries the live slice; even the joiner's own
					// `add` can be preceded in its queue by a permission
					// change issued during an earlier stay in the group)
					if len(k.permChanges) == 0 && !eqList(a.m.Permissions, k.init) {
						t.Fail("C14", "join_symmetry", fmt.Sprintf("%s in %q received `user add %s` with permissions %v, client %d joined with %v and they never changed",
							who, g, x.id, a.m.Permissions, x.h, k.init))
					}
				}
			}
			if got := c.events(j, "delete", x.id); len(got) != dels {
				t.Fail("C14", "delete_once", fmt.Sprintf(
					"%s, member of %q since step %d, received %d `user delete %s` (steps %v); client %d stopped being a member %d time(s) since",
					who, g, J.from, len(got), x.id, steps(got), x.h, dels))
			}
		}
	}

	// C14.changes_announced
	for _, ob := range h.obs {
		if ob.iv.to != -1 {
			t.Note("change-then-left-before-quiescence")
			continue
		}
		for _, c := range h.live() {
			J := c.cur()
			if J == nil || J.g != ob.iv.g || J.from > ob.step {
				continue
			}
			t.Checked("C14.changes_announced")
			ok := false
			for _, r := range c.events(len(c.ivs)-1, "change", ob.x.id) {
				if r.step > ob.step {
					ok = true
				}
			}
			if !ok {
				t.Fail("C14", "changes_announced", fmt.Sprintf(
					"the %s of client %d (%s) changed at step %d in %q; client %d (%s), a member since step %d, has received no `user change %s` since (now step %d, nobody runnable)",
					ob.what, ob.x.h, ob.x.id, ob.step, ob.iv.g, c.h, c.id, J.from, ob.x.id, h.step))
			}
		}
	}
	h.obs = nil
}

func keys(m map[string]*uent) []string {
	var out []string
	for k := range m {
		out = append(out, k)
	}
	sort.Strings(out)
	return out
}

func steps(rs []rec) string {
	var ss []string
	for _, r := range rs {
		ss = append(ss, fmt.Sprint(r.step))
	}
	return "[" + strings.Join(ss, " ") + "]"
}

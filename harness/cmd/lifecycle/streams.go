// streams.go: media streams for the lifecycle driver -- fake up connections
// and up tracks (conn.Up / conn.UpTrack, the public interfaces) that record
// which down connections and down tracks are attached to them, pushed to the
// REAL recording clients (diskwriter.Client) of a group while those are torn
// down.
//
// Post-condition monitor C13.no_orphan_attachment (implementation only):
// once every operation has returned, a stream has exactly as many down
// connections attached as there are recording clients that are still members
// of the group and accepted it -- a client that has been removed from its
// group (Kick, Close + DelClient, Shutdown) is attached to no stream, and a
// push that raced with the teardown was either torn down with the client or
// refused.
//
// Two kinds of schedules:
//
//	teardown   controlled: the fakes are the scheduler.  Every callback the
//	           code under test makes into a stream (AddLocal/DelLocal of a
//	           connection or of a track) is a schedule point at which an
//	           armed concurrent operation (a PushConn of a new stream, a
//	           replacement, a removal, a second Close, a Kick) is started
//	           and given a few milliseconds; if it blocks on a lock held by
//	           the interrupted operation it simply finishes afterwards.
//	           This reaches every window in which a teardown has released
//	           its lock while it calls out.
//	pushchurn  the Go scheduler: presenters push, replace and remove streams
//	           to all members (as rtpconn's pushConn does) while recording
//	           clients join, are kicked and closed.
package main

import (
	"fmt"
	"sync"
	"time"

	"github.com/pion/webrtc/v4"

	"github.com/jech/galene/conn"
	"github.com/jech/galene/diskwriter"
	"github.com/jech/galene/group"

	"verifharness/internal/tr"
)

// sched holds the operation to run at the next schedule point.
type sched struct {
	mu      sync.Mutex
	armed   func()
	at      int // fire at the at-th schedule point from now (0 = next)
	fired   bool
	pending sync.WaitGroup
}

func (s *sched) arm(at int, f func()) {
	s.mu.Lock()
	s.armed, s.at, s.fired = f, at, false
	s.mu.Unlock()
}

// point is called by the fakes from inside callbacks of the code under test.
func (s *sched) point() {
	if s == nil {
		return
	}
	s.mu.Lock()
	f := s.armed
	if f == nil {
		s.mu.Unlock()
		return
	}
	if s.at > 0 {
		s.at--
		s.mu.Unlock()
		return
	}
	s.armed = nil
	s.fired = true
	s.pending.Add(1)
	s.mu.Unlock()
	done := make(chan struct{})
	go func() { defer s.pending.Done(); f(); close(done) }()
	select {
	case <-done:
	case <-time.After(15 * time.Millisecond):
	}
}

type fakeTrack struct {
	video  bool
	s      *sched
	mu     sync.Mutex
	locals []conn.DownTrack
}

func (t *fakeTrack) AddLocal(d conn.DownTrack) error {
	t.s.point()
	t.mu.Lock()
	defer t.mu.Unlock()
	for _, l := range t.locals {
		if l == d {
			return nil
		}
	}
	t.locals = append(t.locals, d)
	return nil
}

func (t *fakeTrack) DelLocal(d conn.DownTrack) bool {
	t.s.point()
	t.mu.Lock()
	defer t.mu.Unlock()
	for i, l := range t.locals {
		if l == d {
			t.locals = append(t.locals[:i], t.locals[i+1:]...)
			return true
		}
	}
	return false
}

func (t *fakeTrack) count() int {
	t.mu.Lock()
	defer t.mu.Unlock()
	return len(t.locals)
}
func (t *fakeTrack) Kind() webrtc.RTPCodecType {
	if t.video {
		return webrtc.RTPCodecTypeVideo
	}
	return webrtc.RTPCodecTypeAudio
}
func (t *fakeTrack) Label() string { return "" }
func (t *fakeTrack) Codec() webrtc.RTPCodecCapability {
	if t.video {
		return webrtc.RTPCodecCapability{MimeType: "video/VP8", ClockRate: 90000}
	}
	return webrtc.RTPCodecCapability{MimeType: "audio/opus", ClockRate: 48000, Channels: 2}
}
func (t *fakeTrack) GetPacket(seqno uint16, result []byte, nack bool) uint16 { return 0 }
func (t *fakeTrack) RequestKeyframe() error                                  { return nil }

type fakeUp struct {
	id     string
	s      *sched
	tracks []*fakeTrack
	mu     sync.Mutex
	locals []conn.Down
}

func newStream(id string, s *sched, ntracks int) *fakeUp {
	u := &fakeUp{id: id, s: s}
	for i := 0; i < ntracks; i++ {
		// the recorder takes one audio and one video track of a stream
		u.tracks = append(u.tracks, &fakeTrack{s: s, video: i == 1})
	}
	return u
}

func (u *fakeUp) AddLocal(d conn.Down) error {
	u.s.point()
	u.mu.Lock()
	defer u.mu.Unlock()
	for _, l := range u.locals {
		if l == d {
			return nil
		}
	}
	u.locals = append(u.locals, d)
	return nil
}

func (u *fakeUp) DelLocal(d conn.Down) bool {
	u.s.point()
	u.mu.Lock()
	defer u.mu.Unlock()
	for i, l := range u.locals {
		if l == d {
			u.locals = append(u.locals[:i], u.locals[i+1:]...)
			return true
		}
	}
	return false
}

func (u *fakeUp) count() int {
	u.mu.Lock()
	defer u.mu.Unlock()
	return len(u.locals)
}
func (u *fakeUp) Id() string             { return u.id }
func (u *fakeUp) Label() string          { return "" }
func (u *fakeUp) User() (string, string) { return "presenter", "presenter" }

func (u *fakeUp) upTracks() []conn.UpTrack {
	ts := make([]conn.UpTrack, len(u.tracks))
	for i, t := range u.tracks {
		ts[i] = t
	}
	return ts
}

// recorder is a real recording client with the driver's account of which
// streams it accepted.
type recorder struct {
	c        *diskwriter.Client
	mu       sync.Mutex
	accepted map[string]bool // stream id -> the last PushConn for it attached it
	gone     bool            // removed from the group (Kick / Close+DelClient returned)
	closed   bool            // Close has returned: whatever it recorded has been detached
}

// push does what rtpconn's pushConn does for one member.
func (rc *recorder) push(g *group.Group, u *fakeUp, replace string) {
	err := rc.c.PushConn(g, u.id, u, u.upTracks(), replace)
	rc.mu.Lock()
	if replace != "" {
		delete(rc.accepted, replace)
	}
	if err == nil {
		rc.accepted[u.id] = true
	} else {
		delete(rc.accepted, u.id)
	}
	rc.mu.Unlock()
}

// unpush tells the recorder that the stream has ended.
func (rc *recorder) unpush(g *group.Group, id string) {
	rc.c.PushConn(g, id, nil, nil, "")
	rc.mu.Lock()
	delete(rc.accepted, id)
	rc.mu.Unlock()
}

func (rc *recorder) left() {
	rc.mu.Lock()
	rc.gone = true
	rc.mu.Unlock()
}

func (rc *recorder) close() {
	rc.c.Close()
	rc.mu.Lock()
	rc.closed = true
	rc.mu.Unlock()
}

func (h *hist) newRecorder(g *group.Group, name string) *recorder {
	var rc *recorder
	h.op("join disk", func() {
		dc, err := diskwriter.New(g)
		if err != nil {
			return
		}
		if _, err := group.AddClient(name, dc, group.ClientCredentials{System: true}); err != nil {
			dc.Close()
			return
		}
		rc = &recorder{c: dc, accepted: map[string]bool{}}
	})
	return rc
}

// checkAttachments is the post-condition; call it only at quiescence.
func (h *hist) checkAttachments(g *group.Group, streams []*fakeUp, recs []*recorder, when string) bool {
	if h.dead {
		return false
	}
	h.t.Checked("C13.no_orphan_attachment")
	member := map[string]bool{}
	for _, c := range g.GetClients(nil) {
		member[c.Id()] = true
	}
	ok := true
	for _, u := range streams {
		want := 0
		for _, rc := range recs {
			rc.mu.Lock()
			if !rc.gone && !rc.closed && member[rc.c.Id()] && rc.accepted[u.id] {
				want++
			}
			rc.mu.Unlock()
		}
		got := u.count()
		if got != want {
			ok = false
			h.t.Fail("C13", "no_orphan_attachment", fmt.Sprintf(
				"%s: stream %s has %d down connection(s) attached, but %d recording client(s) that are still members accepted it: a client that was removed from its group is still attached to the stream (nothing will ever detach it)",
				when, u.id, got, want))
		}
		for ti, t := range u.tracks {
			if tg := t.count(); tg != want {
				ok = false
				h.t.Fail("C13", "no_orphan_attachment", fmt.Sprintf(
					"%s: track %d of stream %s has %d down track(s) attached, expected %d", when, ti, u.id, tg, want))
			}
		}
	}
	return ok
}

// teardown: one recorder that records k streams; a concurrent operation is
// started at the at-th callback that the teardown makes into the streams.
//
//	how:    0 Kick, 1 Close then DelClient, 2 group.Shutdown, 3 removal of one stream (PushConn nil), 4 replacement
//	racer:  0 push of a new stream, 1 push replacing a recorded stream, 2 removal of a recorded stream,
//	        3 a second Close, 4 push of a new stream to ALL members (pushConn), 5 Kick
func (h *hist) teardown(w *world, k, how, racer, at int) bool {
	name := w.newGroup(false, false, "teardown")
	h.t.History("lifecycle", "teardown", k, how, racer, at)
	var g *group.Group
	if !h.op("add", func() { g, _ = group.Add(name, nil) }) || g == nil {
		return true
	}
	s := &sched{}
	rc := h.newRecorder(g, name)
	if rc == nil {
		return true
	}
	var streams []*fakeUp
	for i := 0; i < k; i++ {
		u := newStream(fmt.Sprintf("s%d", i), s, 1+i%2)
		streams = append(streams, u)
		h.op("push", func() { rc.push(g, u, "") })
	}
	ok := h.checkAttachments(g, streams, []*recorder{rc}, "after the pushes")
	extra := newStream("new", s, 1)
	streams = append(streams, extra)
	repl := newStream("repl", s, 2)
	streams = append(streams, repl)
	s.arm(at, func() {
		switch racer {
		case 0:
			rc.push(g, extra, "")
		case 1:
			rc.push(g, extra, "s0")
		case 2:
			rc.unpush(g, "s0")
		case 3:
			rc.close()
		case 4:
			for _, c := range g.GetClients(nil) {
				if c.Id() == rc.c.Id() {
					rc.push(g, extra, "")
				} else {
					c.PushConn(g, extra.id, extra, extra.upTracks(), "")
				}
			}
		case 5:
			rc.c.Kick("", nil, "racing kick")
			rc.left()
		}
	})
	what := []string{"kick", "close+delclient", "shutdown", "remove stream", "replace stream"}[how]
	h.op(what, func() {
		switch how {
		case 0:
			rc.c.Kick("", nil, "bye")
			rc.left()
		case 1:
			rc.close()
			group.DelClient(rc.c)
			rc.left()
		case 2:
			group.Shutdown("bye")
			rc.left()
		case 3:
			rc.unpush(g, fmt.Sprintf("s%d", k-1))
		case 4:
			rc.push(g, repl, fmt.Sprintf("s%d", k-1))
		}
	})
	h.op("racer returns", func() { s.pending.Wait() })
	s.mu.Lock()
	fired := s.fired
	s.mu.Unlock()
	if fired {
		h.t.Note("schedule-point-fired")
	}
	if !h.checkAttachments(g, streams, []*recorder{rc}, "after "+what+" raced by racer "+fmt.Sprint(racer)) {
		ok = false
	}
	// final teardown of whatever is left: afterwards nothing may be attached
	h.op("final kick", func() {
		rc.c.Kick("", nil, "end")
		rc.left()
		g.SetLocked(false, "")
	})
	if !h.checkAttachments(g, streams, []*recorder{rc}, "after the final kick") {
		ok = false
	}
	if ok && !h.dead && fired {
		h.t.Nontrivial(fmt.Sprintf("teardown/%d/%d/%d/%d", k, how, racer, at))
	}
	return ok
}

// pushchurn: presenters and recorders under the Go scheduler.
func (h *hist) pushchurn(w *world, r *tr.Rand, presenters, recorders, steps int) bool {
	name := w.newGroup(false, false, "pushchurn")
	h.t.History("lifecycle", "pushchurn", presenters, recorders, steps)
	var g *group.Group
	if !h.op("add", func() { g, _ = group.Add(name, nil) }) || g == nil {
		return true
	}
	var mu sync.Mutex
	var recs []*recorder
	var streams []*fakeUp
	byId := map[string]*recorder{}
	seeds := make([]uint64, presenters+recorders)
	for i := range seeds {
		seeds[i] = r.U64()
	}
	pushAll := func(u *fakeUp, replace string) {
		for _, c := range g.GetClients(nil) {
			mu.Lock()
			rc := byId[c.Id()]
			mu.Unlock()
			if rc != nil {
				rc.push(g, u, replace)
			}
		}
	}
	ok := h.op(fmt.Sprintf("pushchurn %d+%d x %d", presenters, recorders, steps), func() {
		var wg sync.WaitGroup
		for p := 0; p < presenters; p++ {
			wg.Add(1)
			go func(p int) {
				defer wg.Done()
				rr := tr.NewRand(seeds[p])
				var mine []*fakeUp
				for i := 0; i < steps; i++ {
					switch {
					case len(mine) == 0 || rr.Chance(2, 5):
						u := newStream(fmt.Sprintf("p%d-%d", p, i), nil, 1+rr.Intn(2))
						mu.Lock()
						streams = append(streams, u)
						mu.Unlock()
						mine = append(mine, u)
						pushAll(u, "")
					case rr.Chance(1, 2):
						old := mine[len(mine)-1]
						u := newStream(fmt.Sprintf("p%d-%d", p, i), nil, 1)
						mu.Lock()
						streams = append(streams, u)
						mu.Unlock()
						mine[len(mine)-1] = u
						pushAll(u, old.id)
					default:
						old := mine[0]
						mine = mine[1:]
						for _, c := range g.GetClients(nil) {
							mu.Lock()
							rc := byId[c.Id()]
							mu.Unlock()
							if rc != nil {
								rc.unpush(g, old.id)
							}
						}
					}
				}
			}(p)
		}
		for q := 0; q < recorders; q++ {
			wg.Add(1)
			go func(q int) {
				defer wg.Done()
				rr := tr.NewRand(seeds[presenters+q])
				for i := 0; i < steps/2+1; i++ {
					dc, err := diskwriter.New(g)
					if err != nil {
						continue
					}
					rc := &recorder{c: dc, accepted: map[string]bool{}}
					mu.Lock()
					recs = append(recs, rc)
					byId[dc.Id()] = rc
					mu.Unlock()
					if _, err := group.AddClient(name, dc, group.ClientCredentials{System: true}); err != nil {
						dc.Close()
						rc.left()
						continue
					}
					for j := rr.Intn(4); j > 0; j-- {
						time.Sleep(time.Duration(rr.Intn(300)) * time.Microsecond)
					}
					if rr.Bool() {
						dc.Kick("", nil, "bye")
					} else {
						dc.Close()
						group.DelClient(dc)
					}
					rc.left()
				}
			}(q)
		}
		wg.Wait()
	})
	if !ok {
		return true
	}
	// a stream that was replaced or removed while a recorder was joining may
	// legitimately never have reached that recorder; what may not happen is
	// an attachment that belongs to a recorder that has left: they all have
	res := h.checkAttachments(g, streams, recs, "after all recording clients have left")
	if res {
		h.t.Nontrivial(fmt.Sprintf("pushchurn/%d/%d/%d/%d", presenters, recorders, steps, len(streams)))
	}
	return res
}

// Driver lifecycle (C13, part C, supporting run): the group/client lifecycle
// of the REAL code under real concurrency, with real rtpconn.WhipClient and
// diskwriter.Client objects (public constructors; no media, no connection)
// next to fake web clients, and a watchdog on every operation.  It turns the
// lock-order cycles that the translator reports into concrete schedules:
//
//	shutdown   group.Shutdown with a WHIP client and a recording client
//	           present (a lock-order self-edge Group.mu -> Group.mu through
//	           Kick is a deterministic hang here: DESIGN.md F8)
//	whipclose  rounds of WhipClient.Close racing with group.AddClient of
//	           another client (Close holds WhipClient.mu and enters the
//	           group; AddClient holds Group.mu and asks the members for
//	           their permissions: DESIGN.md F5)
//	churn      joins, leaves, lock changes, description reloads through
//	           group.Add, GetClients/Range/ClientCount/stats.GetGroups readers,
//	           kicks, chat-history traffic (AddToChatHistory on a full
//	           history, ClearChatHistory in its three modes, consumers that
//	           iterate over the slice returned by GetChatHistory as a joining
//	           client's loop does) and producers/consumer of an
//	           unbounded.Channel, all at once on one group
//	teardown   a recording client that records streams (fake conn.Up /
//	pushchurn  conn.UpTrack, see streams.go) is torn down while streams are
//	           pushed, replaced and removed; monitor C13.no_orphan_attachment
//	snapshot   deterministic: the slice returned by GetChatHistory is a
//	           snapshot; it must not change when the history is modified
//	           afterwards
//
// Monitors (implementation only; there is no model correspondence):
//
//	C13.no_deadlock   every operation returns within the watchdog time
//	C13.membership    at quiescence the members of the group are exactly the
//	                  clients that joined and did not leave
//	C13.history_snapshot  what GetChatHistory returned does not change when
//	                  the group's history is appended to while full, cleared
//	                  by id / by user / completely, or read again
//
// The runner builds this driver with the Go race detector (props: race=true)
// and runs it with GORACE=halt_on_error=1: an unsynchronised access anywhere
// in the exercised code ends the run and is reported as the violation.
//
// After the first deadlock the driver stops (the stuck goroutines hold the
// group's locks, nothing else can be learnt in this process); after a failure
// of the deterministic snapshot monitor the concurrent part is skipped, so
// that the monitor's replay is reported rather than the race report.
package main

import (
	"encoding/json"
	"fmt"
	"io"
	"log"
	"net"
	"os"
	"path/filepath"
	"sort"
	"sync"
	"sync/atomic"
	"time"

	"github.com/jech/galene/conn"
	"github.com/jech/galene/diskwriter"
	"github.com/jech/galene/group"
	"github.com/jech/galene/rtpconn"
	"github.com/jech/galene/stats"
	"github.com/jech/galene/unbounded"

	"verifharness/internal/tr"
)

const watchdog = 3 * time.Second

// fake is a minimal web client: callbacks are non-blocking, as webClient's
// are (they enqueue on the unbounded action queue).
type fake struct {
	id    string
	mu    sync.Mutex
	g     *group.Group
	user  string
	perms []string
	kicks int
}

func (c *fake) Group() *group.Group { c.mu.Lock(); defer c.mu.Unlock(); return c.g }
func (c *fake) Addr() net.Addr      { return nil }
func (c *fake) Id() string          { return c.id }
func (c *fake) Username() string    { c.mu.Lock(); defer c.mu.Unlock(); return c.user }
func (c *fake) Init(u string, p []string) {
	c.mu.Lock()
	c.user, c.perms = u, append([]string{}, p...)
	c.mu.Unlock()
}
func (c *fake) Permissions() []string {
	c.mu.Lock()
	defer c.mu.Unlock()
	return append([]string{}, c.perms...)
}
func (c *fake) Data() map[string]interface{} { return nil }
func (c *fake) PushConn(g *group.Group, id string, up conn.Up, tracks []conn.UpTrack, replace string) error {
	return nil
}
func (c *fake) RequestConns(target group.Client, g *group.Group, id string) error { return nil }
func (c *fake) Joined(group, kind string) error                                   { return nil }
func (c *fake) PushClient(group, kind, id, username string, perms []string, data map[string]interface{}) error {
	return nil
}
func (c *fake) Kick(id string, user *string, message string) error {
	c.mu.Lock()
	c.kicks++
	c.mu.Unlock()
	return nil
}

var tmpCounter atomic.Int64

type world struct {
	root string
	n    int
}

func newWorld() *world {
	root, err := os.MkdirTemp("", "lifecycle")
	if err != nil {
		panic(err)
	}
	for _, d := range []string{"groups", "data", "recordings"} {
		os.MkdirAll(filepath.Join(root, d), 0700)
	}
	group.Directory = filepath.Join(root, "groups")
	group.DataDirectory = filepath.Join(root, "data")
	diskwriter.Directory = filepath.Join(root, "recordings")
	return &world{root: root}
}

func (w *world) close() { os.RemoveAll(w.root) }

// newGroup writes a description and returns a fresh group name.
func (w *world) newGroup(autolock, autokick bool, comment string) string {
	w.n++
	name := fmt.Sprintf("g%d", w.n)
	w.write(name, autolock, autokick, comment)
	return name
}

func (w *world) write(name string, autolock, autokick bool, comment string) {
	desc := map[string]interface{}{
		"users": map[string]interface{}{
			"op":   map[string]interface{}{"password": "pw", "permissions": "op"},
			"user": map[string]interface{}{"password": "pw", "permissions": "present"},
		},
		"comment": comment,
	}
	if autolock {
		desc["autolock"] = true
	}
	if autokick {
		desc["autokick"] = true
	}
	b, _ := json.Marshal(desc)
	tmp := filepath.Join(group.Directory, fmt.Sprintf(".%s.%d.tmp", name, tmpCounter.Add(1)))
	os.WriteFile(tmp, b, 0600)
	os.Rename(tmp, filepath.Join(group.Directory, name+".json"))
}

func creds(user string) group.ClientCredentials {
	u := user
	return group.ClientCredentials{Username: &u, Password: "pw"}
}

// within runs f under the watchdog; false = f has not returned in time.
func within(f func()) bool {
	done := make(chan struct{})
	go func() { f(); close(done) }()
	select {
	case <-done:
		return true
	case <-time.After(watchdog):
		return false
	}
}

type hist struct {
	t    *tr.Trace
	dead bool
}

func (h *hist) op(what string, f func()) bool {
	if h.dead {
		return false
	}
	h.t.Checked("C13.no_deadlock")
	ok := within(f)
	h.t.Op(tr.B(ok), what)
	if !ok {
		h.dead = true
		h.t.Fail("C13", "no_deadlock", fmt.Sprintf("%s did not return within %v: the operation is blocked for ever (deadlock)", what, watchdog))
	}
	return ok
}

func members(g *group.Group) []string {
	var ids []string
	for _, c := range g.GetClients(nil) {
		ids = append(ids, c.Id())
	}
	sort.Strings(ids)
	return ids
}

func (h *hist) checkMembers(g *group.Group, want []string) {
	if h.dead {
		return
	}
	h.t.Checked("C13.membership")
	var got []string
	if !h.op("members", func() { got = members(g) }) {
		return
	}
	sort.Strings(want)
	if fmt.Sprint(got) != fmt.Sprint(want) {
		h.t.Fail("C13", "membership", fmt.Sprintf("members at quiescence are %v, expected %v", got, want))
	}
}

// shutdown: Shutdown with a WHIP client, a recording client and web clients.
func (h *hist) shutdown(w *world, r *tr.Rand, whip, disk bool, nfake int) {
	name := w.newGroup(false, false, "shutdown")
	h.t.History("lifecycle", "shutdown", tr.B(whip), tr.B(disk), nfake)
	var g *group.Group
	if !h.op("add", func() { g, _ = group.Add(name, nil) }) || g == nil {
		return
	}
	var fakes []*fake
	for i := 0; i < nfake; i++ {
		c := &fake{id: fmt.Sprintf("web%d", i)}
		fakes = append(fakes, c)
		h.op("join web", func() {
			gg, err := group.AddClient(name, c, creds("op"))
			if err == nil {
				c.mu.Lock()
				c.g = gg
				c.mu.Unlock()
			}
		})
	}
	want := []string{}
	for _, c := range fakes {
		want = append(want, c.id)
	}
	if whip {
		wc := rtpconn.NewWhipClient(g, "whip0", "", nil)
		h.op("join whip", func() { group.AddClient(name, wc, creds("user")) })
	}
	if disk {
		var dc *diskwriter.Client
		h.op("join disk", func() {
			var err error
			dc, err = diskwriter.New(g)
			if err == nil {
				group.AddClient(name, dc, group.ClientCredentials{System: true})
			}
		})
	}
	// Shutdown locks every group and kicks every client: the WHIP client and
	// the recording client leave by themselves (Kick -> Close -> DelClient),
	// web clients are only asked to
	h.op("shutdown", func() { group.Shutdown("bye") })
	h.checkMembers(g, want)
	if !h.dead {
		h.t.Checked("C13.membership")
		for _, c := range fakes {
			c.mu.Lock()
			k := c.kicks
			c.mu.Unlock()
			if k != 1 {
				h.t.Fail("C13", "membership", fmt.Sprintf("web client %s was kicked %d times by Shutdown", c.id, k))
			}
		}
		for _, c := range fakes {
			c := c
			h.op("leave web", func() { group.DelClient(c) })
		}
		h.op("unlock", func() { g.SetLocked(false, "") })
		h.t.Nontrivial(fmt.Sprintf("shutdown/%v/%v/%d", whip, disk, nfake))
	}
}

// whipclose: Close of a WHIP client racing with the join of another client.
func (h *hist) whipclose(w *world, r *tr.Rand, rounds int, autokick bool) {
	name := w.newGroup(false, autokick, "whipclose")
	h.t.History("lifecycle", "whipclose", rounds, tr.B(autokick))
	var g *group.Group
	if !h.op("add", func() { g, _ = group.Add(name, nil) }) || g == nil {
		return
	}
	op := &fake{id: "op"}
	h.op("join op", func() {
		gg, err := group.AddClient(name, op, creds("op"))
		if err == nil {
			op.mu.Lock()
			op.g = gg
			op.mu.Unlock()
		}
	})
	ok := h.op(fmt.Sprintf("rounds %d", rounds), func() {
		for i := 0; i < rounds; i++ {
			wc := rtpconn.NewWhipClient(g, fmt.Sprintf("whip%d", i), "", nil)
			if _, err := group.AddClient(name, wc, creds("user")); err != nil {
				continue
			}
			joiner := &fake{id: fmt.Sprintf("j%d", i)}
			var wg sync.WaitGroup
			wg.Add(3)
			go func() { defer wg.Done(); wc.Close() }()
			go func() {
				defer wg.Done()
				gg, err := group.AddClient(name, joiner, creds("user"))
				if err == nil {
					joiner.mu.Lock()
					joiner.g = gg
					joiner.mu.Unlock()
					group.DelClient(joiner)
				}
			}()
			go func() { defer wg.Done(); _ = len(g.GetClients(nil)); wc.Close() }()
			wg.Wait()
		}
	})
	if ok {
		h.checkMembers(g, []string{"op"})
		h.op("leave op", func() { group.DelClient(op) })
		h.t.Nontrivial(fmt.Sprintf("whipclose/%d/%v", rounds, autokick))
	}
}

// churn: everything at once on one group.
func (h *hist) churn(w *world, r *tr.Rand, workers, steps int, autolock bool) {
	name := w.newGroup(autolock, false, "churn")
	h.t.History("lifecycle", "churn", workers, steps, tr.B(autolock))
	var g *group.Group
	if !h.op("add", func() { g, _ = group.Add(name, nil) }) || g == nil {
		return
	}
	op := &fake{id: "op"}
	h.op("join op", func() {
		gg, err := group.AddClient(name, op, creds("op"))
		if err == nil {
			op.mu.Lock()
			op.g = gg
			op.mu.Unlock()
		}
	})
	seeds := make([]uint64, workers)
	for i := range seeds {
		seeds[i] = r.U64()
	}
	ok := h.op(fmt.Sprintf("churn %d x %d", workers, steps), func() {
		var wg sync.WaitGroup
		for k := 0; k < workers; k++ {
			wg.Add(1)
			go func(k int) {
				defer wg.Done()
				rr := tr.NewRand(seeds[k])
				for i := 0; i < steps; i++ {
					switch rr.Pick(4, 2, 2, 2, 1, 1, 1, 3, 3, 1, 1, 3) {
					case 11: // short-lived EMPTY groups appear and are dropped (expiry, deletion) while statistics are read
						tmp := fmt.Sprintf("%s-tmp%d", name, k)
						w.write(tmp, false, false, "tmp")
						group.Add(tmp, nil)
						_ = stats.GetGroups()
						group.Delete(tmp)
						_ = stats.GetGroups()
					case 0: // a web client joins and leaves
						c := &fake{id: fmt.Sprintf("w%d-%d", k, i)}
						if gg, err := group.AddClient(name, c, creds("op")); err == nil {
							c.mu.Lock()
							c.g = gg
							c.mu.Unlock()
							_ = g.GetClient(c.id)
							group.DelClient(c)
						}
					case 1: // a WHIP session comes and goes
						wc := rtpconn.NewWhipClient(g, fmt.Sprintf("h%d-%d", k, i), "", nil)
						if _, err := group.AddClient(name, wc, creds("op")); err == nil {
							if rr.Bool() {
								wc.Kick("", nil, "bye")
							} else {
								wc.Close()
							}
						}
					case 2: // readers (statistics, user lists)
						n := 0
						g.Range(func(c group.Client) bool { n++; return true })
						_ = g.ClientCount()
						_, _ = g.Locked()
						_ = g.Description()
						_, _ = group.GetDescription(name)
						_ = group.GetSubGroups("")
						_ = stats.GetGroups()
					case 3: // lock changes
						g.SetLocked(rr.Bool(), "m")
					case 4: // description reload
						w.write(name, autolock, false, fmt.Sprintf("c%d-%d", k, i))
						group.Add(name, nil)
					case 5: // chat history and data
						g.AddToChatHistory("i", "s", nil, time.Now(), "", "v")
						_ = g.GetChatHistory()
						g.UpdateData(map[string]interface{}{"k": i})
					case 7: // chat: keep the history full, then one more
						u := fmt.Sprintf("u%d", k)
						for j := 0; j < 3; j++ {
							g.AddToChatHistory(fmt.Sprintf("m%d-%d-%d", k, i, j), u, &u, time.Now(), "", fmt.Sprintf("text %d", j))
						}
					case 8: // a joining client replays the history: iterate over the returned slice, outside the lock
						hh := g.GetChatHistory()
						n := 0
						for idx := range hh {
							e := &hh[idx]
							n += len(e.Id) + len(e.Source) + len(e.Kind)
							if e.User != nil {
								n += len(*e.User)
							}
							if v, ok := e.Value.(string); ok {
								n += len(v)
							}
							if !e.Time.IsZero() {
								n++
							}
						}
						_ = n
					case 9: // clearchat in its three modes
						u := fmt.Sprintf("u%d", rr.Intn(workers))
						switch rr.Intn(4) {
						case 0:
							g.ClearChatHistory("", "")
						case 1:
							g.ClearChatHistory("", u)
						default:
							g.ClearChatHistory(fmt.Sprintf("m%d-%d-0", k, i-1), u)
						}
					case 10: // an action queue with its producers and its consumer
						ch := unbounded.New[int]()
						const per = 40
						var pw sync.WaitGroup
						for p := 0; p < 3; p++ {
							pw.Add(1)
							go func(p int) {
								defer pw.Done()
								for j := 0; j < per; j++ {
									ch.Put(p*1000 + j)
								}
							}(p)
						}
						got := 0
						for got < 3*per {
							<-ch.Ch
							got += len(ch.Get())
						}
						pw.Wait()
					case 6: // a recording client comes and goes
						if dc, err := diskwriter.New(g); err == nil {
							if _, err := group.AddClient(name, dc, group.ClientCredentials{System: true}); err == nil {
								dc.Kick("", nil, "bye")
							} else {
								dc.Close()
							}
						}
					}
				}
			}(k)
		}
		wg.Wait()
	})
	if ok {
		h.checkMembers(g, []string{"op"})
		h.op("leave op", func() { group.DelClient(op) })
		h.t.Nontrivial(fmt.Sprintf("churn/%d/%d/%v", workers, steps, autolock))
	}
}

type histEntry struct {
	id, source, user, kind, value string
	hasUser                       bool
}

func flatten(h []group.ChatHistoryEntry) []histEntry {
	out := make([]histEntry, len(h))
	for i, e := range h {
		out[i] = histEntry{id: e.Id, source: e.Source, kind: e.Kind, value: fmt.Sprint(e.Value)}
		if e.User != nil {
			out[i].user, out[i].hasUser = *e.User, true
		}
	}
	return out
}

// snapshot: GetChatHistory returns a snapshot.  A joining client iterates
// over it with the group unlocked (rtpconn joinedAction), so later changes of
// the group's history must not show through.
func (h *hist) snapshot(w *world, r *tr.Rand, fill int) bool {
	name := w.newGroup(false, false, "snapshot")
	h.t.History("lifecycle", "snapshot", fill)
	var g *group.Group
	if !h.op("add", func() { g, _ = group.Add(name, nil) }) || g == nil {
		return false
	}
	ok := true
	users := []string{"alice", "bob", "carol"}
	for i := 0; i < fill; i++ {
		u := users[i%len(users)]
		g.AddToChatHistory(fmt.Sprintf("id-%d", i), u, &u, time.Now(), "", fmt.Sprintf("message %d", i))
	}
	h.t.Op(fmt.Sprint(fill), "fill")
	check := func(after string, mutate func()) {
		if h.dead {
			return
		}
		var snap []group.ChatHistoryEntry
		if !h.op("gethistory", func() { snap = g.GetChatHistory() }) {
			return
		}
		saved := flatten(snap)
		if !h.op(after, mutate) {
			return
		}
		h.t.Checked("C13.history_snapshot")
		now := flatten(snap)
		if len(now) != len(saved) {
			ok = false
			h.t.Fail("C13", "history_snapshot", fmt.Sprintf("after %s the slice returned earlier by GetChatHistory has %d entries, it had %d", after, len(now), len(saved)))
			return
		}
		for i := range saved {
			if now[i] != saved[i] {
				ok = false
				h.t.Fail("C13", "history_snapshot", fmt.Sprintf(
					"after %s entry %d of the slice returned earlier by GetChatHistory changed from %v to %v: the joiner's replay aliases the group's live history (unsynchronised read of chat-history state)",
					after, i, saved[i], now[i]))
				return
			}
		}
	}
	u := "dave"
	check("addtochathistory", func() { g.AddToChatHistory("id-new1", u, &u, time.Now(), "", "one more") })
	check("addtochathistory x3", func() {
		for j := 0; j < 3; j++ {
			g.AddToChatHistory(fmt.Sprintf("id-new2-%d", j), u, &u, time.Now(), "", "more")
		}
	})
	check("gethistory again", func() { _ = g.GetChatHistory() })
	check("clearchat id", func() {
		cur := g.GetChatHistory()
		if len(cur) > 2 {
			g.ClearChatHistory(cur[1].Id, cur[1].Source)
		}
	})
	check("clearchat user", func() { g.ClearChatHistory("", "bob") })
	check("addtochathistory after clear", func() { g.AddToChatHistory("id-new3", u, &u, time.Now(), "", "again") })
	check("clearchat all", func() { g.ClearChatHistory("", "") })
	check("addtochathistory on empty", func() { g.AddToChatHistory("id-new4", u, &u, time.Now(), "", "fresh") })
	if ok && !h.dead {
		h.t.Nontrivial(fmt.Sprintf("snapshot/%d", fill))
	}
	return ok
}

func runLifecycle(t *tr.Trace, r *tr.Rand, n int) {
	log.SetOutput(io.Discard)
	w := newWorld()
	defer w.close()
	h := &hist{t: t}
	// regression histories first: the deterministic ones
	snapOK := true
	for _, fill := range []int{50, 60, 49, 7} {
		if !h.snapshot(w, r, fill) {
			snapOK = false
		}
	}
	if !snapOK {
		return
	}
	// teardown of a recording client (or removal / replacement of one of
	// its streams) interrupted at its first and second call-out by each kind
	// of concurrent operation
	for how := 0; how < 5; how++ {
		for racer := 0; racer < 6; racer++ {
			for at := 0; at < 2; at++ {
				if !h.dead {
					h.teardown(w, 2, how, racer, at)
				}
			}
		}
	}
	h.shutdown(w, r, true, false, 1)
	h.shutdown(w, r, false, true, 1)
	h.shutdown(w, r, true, true, 2)
	h.whipclose(w, r, 300, true)
	for i := 0; i < n && !h.dead; i++ {
		switch i % 7 {
		case 5:
			h.teardown(w, r.Range(1, 4), r.Intn(5), r.Intn(6), r.Intn(6))
		case 6:
			h.pushchurn(w, r, r.Range(1, 3), r.Range(1, 3), r.Range(10, 40))
		case 0:
			h.shutdown(w, r, r.Bool(), r.Bool(), r.Range(0, 3))
		case 1:
			h.whipclose(w, r, r.Range(50, 400), r.Bool())
		case 2:
			if !h.snapshot(w, r, r.Range(1, 120)) {
				return
			}
		default:
			h.churn(w, r, r.Range(2, 8), r.Range(20, 80), r.Bool())
		}
	}
}

func main() { tr.Main(runLifecycle) }

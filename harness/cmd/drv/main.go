// drv runs one correspondence driver against the implementation built from
// /repo's working tree and writes the trace (ops and the implementation's
// projected observables), the monitor failures and a summary.
package main

import (
	"flag"
	"fmt"
	"os"

	"verifharness/internal/tr"
)

type driver func(t *tr.Trace, r *tr.Rand, n int)

var drivers = map[string]driver{}

// register is called from the init function of each driver file.
func register(name string, d driver) { drivers[name] = d }

func main() {
	seed := flag.Uint64("seed", 1, "PRNG seed")
	n := flag.Int("n", 100, "number of histories")
	out := flag.String("out", "trace.txt", "trace file")
	flag.Parse()
	if flag.NArg() != 1 {
		fmt.Fprintln(os.Stderr, "usage: drv [flags] <driver>")
		os.Exit(2)
	}
	d, ok := drivers[flag.Arg(0)]
	if !ok {
		fmt.Fprintln(os.Stderr, "unknown driver", flag.Arg(0))
		os.Exit(2)
	}
	t, err := tr.NewTrace(*out)
	if err != nil {
		fmt.Fprintln(os.Stderr, err)
		os.Exit(2)
	}
	d(t, tr.NewRand(*seed), *n)
	if err := t.Close(*out + ".summary.json"); err != nil {
		fmt.Fprintln(os.Stderr, err)
		os.Exit(2)
	}
}

// writerrace: the real writer pool of an up track (rtpWriterPool,
// rtpWriterLoop, sendSequence) over a real packet cache, with down tracks
// joining while packets flow (C05: what a receiver is handed is byte-exactly
// a packet stored under that number, for every interleaving of the writer
// loop with the replay of the last keyframe to a new receiver).  Monitors
// only; built with the race detector, so that an unsynchronised use of a
// buffer is reported even when no mixture happens in this run.
package main

import (
	"bytes"
	"fmt"
	"sync"
	"time"

	"github.com/jech/galene/rtpconn"

	"verifharness/internal/tr"
)

// a packet is a function of its sequence number: RTP header, then a payload
// of seqno-dependent length filled with a seqno-dependent pattern
func mkPacket(seq uint16, kf bool) []byte {
	n := 12 + 40 + int(seq%61)*20
	b := make([]byte, n)
	b[0] = 0x80
	b[1] = 96
	b[2] = byte(seq >> 8)
	b[3] = byte(seq)
	for i := 12; i < n; i++ {
		b[i] = byte(seq) ^ byte(seq>>8) ^ byte(i*13)
	}
	if kf {
		b[1] |= 0x80
	}
	return b
}

type sink struct {
	mu   sync.Mutex
	got  [][]byte
	slow bool
}

func (s *sink) Write(buf []byte) (int, error) {
	c := append([]byte(nil), buf...)
	if s.slow {
		time.Sleep(20 * time.Microsecond)
		if !bytes.Equal(c, buf) {
			// the buffer changed while this track was looking at it
			c = append(c[:0], buf...)
			c = append(c, 0xEE) // poison: reported below as a mixture
		}
	}
	s.mu.Lock()
	s.got = append(s.got, c)
	s.mu.Unlock()
	return len(buf), nil
}
func (s *sink) SetTimeOffset(ntp uint64, rtp uint32) {}
func (s *sink) SetCname(string)                       {}
func (s *sink) GetMaxBitrate() (uint64, int, int)     { return ^uint64(0), 0, 0 }

// gateSink blocks in Write while its gate is closed: a receiver whose
// transport stalls, so that the writer loop lags behind the receive loop.
type gateSink struct {
	sink
	gate chan struct{}
}

func (g *gateSink) Write(buf []byte) (int, error) {
	<-g.gate
	return g.sink.Write(buf)
}

// lagging: the writer loop is stalled while the receive loop stores more
// packets and the cache is resized (updateUpTrack does that when the bitrate
// changes), so that the queued (seqno, index) requests go stale; then the
// writer is released.  Whatever it delivers must still be a stored packet.
func lagging(t *tr.Trace, r *tr.Rand, k int) {
	capacity := []int{16, 24, 32}[k%3]
	t.History("writerrace", "resize-while-lagging", capacity)
	w := rtpconn.NewVerifWriter(capacity)
	g := &gateSink{gate: make(chan struct{})}
	start := uint16(65536 - r.Range(1, 30))
	stored := map[uint16][]byte{}
	put := func(i int) {
		seq := start + uint16(i)
		p := mkPacket(seq, i == 0)
		stored[seq] = p
		_, index := w.Store(seq, uint32(i)*3000, i == 0, false, p)
		w.Write(seq, index, 0, true, false)
	}
	put(0)
	if err := w.Add(g); err != nil {
		panic(err)
	}
	time.Sleep(2 * time.Millisecond) // sendSequence replays packet 0 and blocks in the gate
	more := capacity + r.Range(2, 8)
	for i := 1; i <= more; i++ {
		put(i)
	}
	w.Resize(capacity * 2)
	for i := more + 1; i <= more+r.Range(1, 5); i++ {
		put(i)
	}
	close(g.gate)
	time.Sleep(5 * time.Millisecond)
	w.Close()
	time.Sleep(2 * time.Millisecond)
	bad := 0
	g.mu.Lock()
	for _, p := range g.got {
		t.Checked("C05.delivered_is_stored")
		seq := uint16(0)
		if len(p) >= 4 {
			seq = uint16(p[2])<<8 | uint16(p[3])
		}
		want, ok := stored[seq]
		if !ok || !bytes.Equal(want, p) {
			bad++
			if bad <= 2 {
				t.Fail("C05", "delivered_is_stored", fmt.Sprintf("after the cache was resized while the writer lagged, the receiver was handed %d bytes numbered %d that are not the packet stored under that number (%d bytes): truncated, padded or another packet", len(p), seq, len(want)))
			}
		}
	}
	n := len(g.got)
	g.mu.Unlock()
	t.Op(fmt.Sprint(bad), "deliveries", 1)
	if n > 0 {
		t.Nontrivial(fmt.Sprintf("writerrace/lagging/%d/%d", capacity, start))
	}
}

func runWriterRace(t *tr.Trace, r *tr.Rand, n int) {
	for k := 0; k < 6; k++ {
		lagging(t, r, k)
	}
	for hi := 0; hi < n; hi++ {
		capacity := []int{64, 128, 256}[r.Intn(3)]
		t.History("writerrace", fmt.Sprintf("cap%d", capacity), capacity)
		w := rtpconn.NewVerifWriter(capacity)
		start := uint16(65536 - r.Range(1, 400))
		if r.Bool() {
			start = uint16(r.U64())
		}
		stored := map[uint16][]byte{}
		var sinks []*sink
		total := r.Range(300, 900)
		kfEvery := r.Range(15, 35)
		for i := 0; i < total; i++ {
			seq := start + uint16(i)
			kf := i%kfEvery == 0
			p := mkPacket(seq, kf)
			stored[seq] = p
			_, index := w.Store(seq, uint32(i)*3000, kf, i%5 == 4, p)
			w.Write(seq, index, 0, true, i%5 == 4)
			if i > 3 && len(sinks) < 9 && r.Chance(1, 20) {
				s := &sink{slow: r.Bool()}
				if err := w.Add(s); err == nil {
					sinks = append(sinks, s)
				}
			}
			if r.Chance(1, 8) {
				time.Sleep(time.Duration(r.Range(1, 40)) * time.Microsecond)
			}
		}
		time.Sleep(5 * time.Millisecond)
		w.Close()
		time.Sleep(2 * time.Millisecond)
		bad := 0
		delivered := 0
		for si, s := range sinks {
			s.mu.Lock()
			for _, p := range s.got {
				delivered++
				t.Checked("C05.delivered_is_stored")
				if len(p) < 4 {
					t.Fail("C05", "delivered_is_stored", fmt.Sprintf("receiver %d was handed %d bytes", si, len(p)))
					bad++
					continue
				}
				seq := uint16(p[2])<<8 | uint16(p[3])
				want, ok := stored[seq]
				if !ok || !bytes.Equal(want, p) {
					bad++
					if bad <= 2 {
						t.Fail("C05", "delivered_is_stored", fmt.Sprintf("receiver %d was handed %d bytes numbered %d that are not the packet stored under that number (%d bytes): mixture or wrong packet", si, len(p), seq, len(want)))
					}
				}
			}
			s.mu.Unlock()
		}
		t.Op(fmt.Sprintf("%d", bad), "deliveries", len(sinks))
		t.Note(fmt.Sprintf("receivers=%d", len(sinks)))
		if delivered > 0 {
			t.Nontrivial(fmt.Sprintf("writerrace/%d/%d/%d", capacity, start, total))
		}
	}
}

func main() { tr.Main(runWriterRace) }

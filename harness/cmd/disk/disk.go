// Driver `disk` (property C20): the REAL recorder (diskwriter.New /
// Client.PushConn / diskTrack.Write / SetTimeOffset / Close) fed through fake
// conn.Up / conn.UpTrack implementations backed by a real packetcache.Cache,
// with VP8 and Opus streams packetised here; every recording is parsed back
// with ebml-go and compared frame by frame with what was sent.
//
// Components in the trace:
//   disk      one recording (ops s, sw, w, sr, age, close/closex)
//   disktime  setOrigin/setTimeOffset/adjustOrigin and rtptime on a bare conn
//   sanitise  file name sanitising
package main

import (
	"bytes"
	"fmt"
	"io"
	"log"
	"os"
	"path/filepath"
	"sort"
	"strings"
	"time"

	"github.com/at-wat/ebml-go"
	"github.com/at-wat/ebml-go/webm"
	"github.com/pion/rtp"
	"github.com/pion/webrtc/v4"

	"github.com/jech/galene/conn"
	"github.com/jech/galene/diskwriter"
	"github.com/jech/galene/group"
	"github.com/jech/galene/packetcache"
	"github.com/jech/galene/rtptime"

	"verifharness/internal/tr"
)

// ------------------------------------------------------------------ fakes

type fakeUp struct {
	id, user string
	locals   []conn.Down
	dels     int
}

func (u *fakeUp) AddLocal(d conn.Down) error { u.locals = append(u.locals, d); return nil }
func (u *fakeUp) DelLocal(d conn.Down) bool  { u.dels++; return true }
func (u *fakeUp) Id() string                 { return u.id }
func (u *fakeUp) Label() string              { return "camera" }
func (u *fakeUp) User() (string, string)     { return "uid-" + u.id, u.user }

type fetchRec struct {
	seq uint16
	n   uint16
}

type fakeTrack struct {
	kind    webrtc.RTPCodecType
	codec   webrtc.RTPCodecCapability
	cache   *packetcache.Cache
	local   conn.DownTrack
	fetches []fetchRec
	kfreq   int
	dels    int
}

func (t *fakeTrack) AddLocal(d conn.DownTrack) error  { t.local = d; return nil }
func (t *fakeTrack) DelLocal(d conn.DownTrack) bool   { t.dels++; return true }
func (t *fakeTrack) Kind() webrtc.RTPCodecType        { return t.kind }
func (t *fakeTrack) Label() string                    { return "" }
func (t *fakeTrack) Codec() webrtc.RTPCodecCapability { return t.codec }
func (t *fakeTrack) GetPacket(seqno uint16, result []byte, nack bool) uint16 {
	n := t.cache.Get(seqno, result)
	t.fetches = append(t.fetches, fetchRec{seqno, n})
	return n
}
func (t *fakeTrack) RequestKeyframe() error { t.kfreq++; return nil }

// ------------------------------------------------------------------ streams

type pktInfo struct {
	raw   []byte
	seq   uint16
	ts    uint32
	frame int
	pos   int // position in its frame
	last  bool
}

type frameInfo struct {
	ts    uint32
	uts   int64 // unwrapped
	kf    bool
	data  []byte
	first int // index of its first packet
	n     int
}

type trackStream struct {
	codec  byte // 'a' Opus, 'v' VP8, 'h' H.264, '9' VP9
	video  bool
	rate   uint32
	frames []frameInfo
	pkts   []pktInfo
}

type streamOpts struct {
	codec     byte // 'h' H.264, '9' VP9; otherwise VP8 (video) or Opus
	split     bool // H.264: access units spread over several non-FU packets (N5)
	audFirst  bool // H.264: every keyframe aggregate starts with an AUD or SEI
	video     bool
	nframes   int
	startSeq  uint16
	startTs   uint32
	mtu       int
	desc      int // VP8 descriptor style
	kfEvery   int // a keyframe every kfEvery frames (0: only where forced)
	firstKf   int // index of the first keyframe
	w, h      int
	dimsAt    int // frame index from which keyframes carry other dimensions (0: never)
	big       bool
	minPkts   int // at least this many packets per video frame
	adjacent  bool
	tsStep    uint32
	forceKfAt map[int]bool
}

func fnv(data []byte) uint32 {
	h := uint32(2166136261)
	for _, b := range data {
		h = (h ^ uint32(b)) * 16777619
	}
	return h
}

func vp8Descriptor(style int, first bool, pid uint16) []byte {
	b0 := byte(0)
	if first {
		b0 = 0x10
	}
	switch style {
	case 1: // 7-bit picture id
		return []byte{b0 | 0x80, 0x80, byte(pid & 0x7f)}
	case 2: // 15-bit picture id
		return []byte{b0 | 0x80, 0x80, 0x80 | byte((pid>>8)&0x7f), byte(pid)}
	case 3: // 15-bit picture id, TL0PICIDX, TID/KEYIDX
		return []byte{b0 | 0x80, 0xf0, 0x80 | byte((pid>>8)&0x7f), byte(pid), byte(pid), 0x25}
	default:
		return []byte{b0}
	}
}

func genStream(r *tr.Rand, o streamOpts) *trackStream {
	if o.codec == 'h' || o.codec == '9' {
		return genStreamOther(r, o)
	}
	s := &trackStream{video: o.video, rate: 48000, codec: 'a'}
	if o.video {
		s.rate = 90000
		s.codec = 'v'
	}
	seq := o.startSeq
	uts := int64(o.startTs)
	for i := 0; i < o.nframes; i++ {
		var f frameInfo
		f.uts = uts
		f.ts = uint32(uts)
		f.first = len(s.pkts)
		size := 0
		if o.video {
			f.kf = i == o.firstKf || (o.kfEvery > 0 && i > o.firstKf && (i-o.firstKf)%o.kfEvery == 0) || o.forceKfAt[i]
			switch r.Pick(5, 4, 2, 1) {
			case 0:
				size = r.Range(1, 40)
			case 1:
				size = r.Range(41, 400)
			case 2:
				size = r.Range(401, 2500)
			default:
				size = r.Range(2501, 9000)
			}
			if o.big {
				size = r.Range(o.mtu*2+1, o.mtu*6)
			}
			if o.minPkts > 0 && size < (o.minPkts-1)*o.mtu+1 {
				size = (o.minPkts-1)*o.mtu + r.Range(1, o.mtu)
			}
			if f.kf && size < 10 {
				size = r.Range(10, 60)
			}
			f.data = r.Bytes(size)
			if f.kf {
				f.data[0] &^= 1
				w, h := o.w, o.h
				if o.dimsAt > 0 && i >= o.dimsAt {
					w, h = o.w+16, o.h+8
				}
				f.data[3], f.data[4], f.data[5] = 0x9d, 0x01, 0x2a
				f.data[6], f.data[7] = byte(w), byte(w>>8)
				f.data[8], f.data[9] = byte(h), byte(h>>8)
			} else {
				f.data[0] |= 1
			}
			if size >= 14 {
				f.data[10], f.data[11], f.data[12], f.data[13] = byte(i>>8), byte(i), 0xA5, byte(i*7)
			}
		} else {
			switch r.Pick(6, 3, 1) {
			case 0:
				size = r.Range(1, 60)
			case 1:
				size = r.Range(61, 300)
			default:
				size = r.Range(301, 1200)
			}
			f.data = r.Bytes(size)
			if size >= 4 {
				f.data[0], f.data[1], f.data[2] = byte(i>>8), byte(i), 0x5A
			}
		}
		// packetise
		rest := f.data
		pos := 0
		for {
			n := len(rest)
			if o.video && n > o.mtu {
				n = o.mtu
			}
			var payload []byte
			if o.video {
				payload = append(vp8Descriptor(o.desc, pos == 0, uint16(i+77)), rest[:n]...)
			} else {
				payload = append([]byte{}, rest[:n]...)
			}
			rest = rest[n:]
			pt := uint8(111)
			if o.video {
				pt = 96
			}
			p := rtp.Packet{Header: rtp.Header{Version: 2, PayloadType: pt,
				SequenceNumber: seq, Timestamp: f.ts, SSRC: 0x1234abcd,
				Marker: len(rest) == 0}, Payload: payload}
			raw, err := p.Marshal()
			if err != nil {
				panic(err)
			}
			s.pkts = append(s.pkts, pktInfo{raw: raw, seq: seq, ts: f.ts,
				frame: i, pos: pos, last: len(rest) == 0})
			seq++
			pos++
			if len(rest) == 0 {
				break
			}
		}
		f.n = pos
		s.frames = append(s.frames, f)
		step := o.tsStep
		if step == 0 {
			if o.video {
				step = uint32(r.Pick(1, 6, 2)+1) * 1500 // 16.7, 33.3 or 50 ms
			} else {
				step = uint32(r.Pick(1, 8, 1)+1) * 480 // 10, 20 or 30 ms
			}
		}
		uts += int64(step)
	}
	return s
}

// ---- H.264 and VP9 publishers

func annexb(nals [][]byte) []byte {
	var out []byte
	for _, n := range nals {
		out = append(out, 0, 0, 0, 1)
		out = append(out, n...)
	}
	return out
}

func stapA(nals [][]byte) []byte {
	out := []byte{0x78}
	for _, n := range nals {
		out = append(out, byte(len(n)>>8), byte(len(n)))
		out = append(out, n...)
	}
	return out
}

// fuA fragments one NAL unit into FU-A packets of at most mtu payload bytes
// (at least two fragments).
func fuA(nal []byte, mtu int) [][]byte {
	ind := (nal[0] & 0x60) | 28
	typ := nal[0] & 0x1f
	body := nal[1:]
	if mtu > (len(body)+1)/2 {
		mtu = (len(body) + 1) / 2
	}
	if mtu < 1 {
		mtu = 1
	}
	var out [][]byte
	for off := 0; off < len(body); off += mtu {
		end := off + mtu
		if end > len(body) {
			end = len(body)
		}
		hdr := typ
		if off == 0 {
			hdr |= 0x80
		}
		if end == len(body) {
			hdr |= 0x40
		}
		out = append(out, append([]byte{ind, hdr}, body[off:end]...))
	}
	return out
}

func nalOf(r *tr.Rand, hdr byte, lo, hi int, tag int) []byte {
	b := append([]byte{hdr}, r.Bytes(r.Range(lo, hi))...)
	if len(b) >= 5 {
		b[1], b[2], b[3] = byte(tag>>8), byte(tag), 0xC3
	}
	return b
}

// h264Frame returns the NAL units of access unit i and its RTP payloads.
// The keyframe shapes are those that occur in practice:
//   one packet:  STAP-A [SPS PPS IDR], STAP-A [AUD SPS PPS IDR], STAP-A [SEI SPS PPS IDR]
//   split (N5):  SPS, PPS, IDR as single NAL unit packets (IDR possibly FU-A);
//                STAP-A [SPS PPS] then FU-A IDR; AUD, then one of these
func h264Frame(r *tr.Rand, o streamOpts, i int, kf bool) ([][]byte, [][]byte) {
	var nals, payloads [][]byte
	aud := []byte{0x09, 0xf0}
	sei := append([]byte{0x06, 0x05}, r.Bytes(r.Range(2, 12))...)
	if kf {
		sps := nalOf(r, 0x67, 3, 24, i)
		pps := nalOf(r, 0x68, 2, 6, i)
		if !o.split {
			idr := nalOf(r, 0x65, 1, 900, i)
			shape := r.Pick(3, 3, 1)
			if o.audFirst && shape == 0 {
				shape = 1 + r.Intn(2)
			}
			switch shape {
			case 0:
				nals = [][]byte{sps, pps, idr}
			case 1:
				nals = [][]byte{aud, sps, pps, idr}
			default:
				nals = [][]byte{sei, sps, pps, idr}
			}
			return nals, [][]byte{stapA(nals)}
		}
		idr := nalOf(r, 0x65, 4, 4000, i)
		if r.Chance(1, 3) {
			nals = append(nals, aud)
			payloads = append(payloads, aud)
		}
		nals = append(nals, sps, pps, idr)
		if r.Bool() {
			payloads = append(payloads, sps, pps)
		} else {
			payloads = append(payloads, stapA([][]byte{sps, pps}))
		}
		if len(idr) <= o.mtu && r.Bool() {
			payloads = append(payloads, idr)
		} else {
			payloads = append(payloads, fuA(idr, o.mtu)...)
		}
		return nals, payloads
	}
	hdr := byte(0x41)
	if r.Bool() {
		hdr = 0x61
	}
	var slice []byte
	switch r.Pick(4, 4, 2) {
	case 0:
		slice = nalOf(r, hdr, 1, 60, i)
	case 1:
		slice = nalOf(r, hdr, 61, 900, i)
	default:
		slice = nalOf(r, hdr, 901, 6000, i)
	}
	switch {
	case o.split && r.Chance(1, 3):
		nals = [][]byte{aud, slice}
		payloads = [][]byte{aud}
		if len(slice) <= o.mtu {
			payloads = append(payloads, slice)
		} else {
			payloads = append(payloads, fuA(slice, o.mtu)...)
		}
	case len(slice) < 1000 && r.Chance(1, 4):
		nals = [][]byte{aud, slice}
		payloads = [][]byte{stapA(nals)}
	case len(slice) <= o.mtu && len(slice) < 1300 && r.Chance(2, 3):
		nals = [][]byte{slice}
		payloads = [][]byte{slice}
	default:
		nals = [][]byte{slice}
		if len(slice) < 3 {
			payloads = [][]byte{slice}
		} else {
			payloads = fuA(slice, o.mtu)
		}
	}
	return nals, payloads
}

// vp9Frame: non-flexible mode, one-byte payload descriptor (optionally with
// a picture id), B on the first and E on the last packet, P on inter frames
func vp9Frame(r *tr.Rand, o streamOpts, i int, kf bool) ([]byte, [][]byte) {
	var size int
	switch r.Pick(5, 4, 2) {
	case 0:
		size = r.Range(1, 40)
	case 1:
		size = r.Range(41, 400)
	default:
		size = r.Range(401, 5000)
	}
	data := r.Bytes(size)
	if kf {
		data[0] = 0x80 | (data[0] & 0x03)
	} else {
		data[0] = 0x84 | (data[0] & 0x03)
	}
	if size >= 6 {
		data[1], data[2], data[3] = byte(i>>8), byte(i), 0x99
	}
	var payloads [][]byte
	for off := 0; off < size; off += o.mtu {
		end := off + o.mtu
		if end > size {
			end = size
		}
		d := byte(0)
		if !kf {
			d |= 0x40
		}
		if off == 0 {
			d |= 0x08
		}
		if end == size {
			d |= 0x04
		}
		var desc []byte
		switch o.desc {
		case 1:
			desc = []byte{d | 0x80, byte(i & 0x7f)}
		case 2:
			desc = []byte{d | 0x80, 0x80 | byte((i>>8)&0x7f), byte(i)}
		default:
			desc = []byte{d}
		}
		payloads = append(payloads, append(desc, data[off:end]...))
	}
	return data, payloads
}

func genStreamOther(r *tr.Rand, o streamOpts) *trackStream {
	s := &trackStream{video: true, rate: 90000, codec: o.codec}
	seq := o.startSeq
	uts := int64(o.startTs)
	for i := 0; i < o.nframes; i++ {
		var f frameInfo
		f.uts = uts
		f.ts = uint32(uts)
		f.first = len(s.pkts)
		f.kf = i == o.firstKf || (o.kfEvery > 0 && i > o.firstKf && (i-o.firstKf)%o.kfEvery == 0) || o.forceKfAt[i]
		var payloads [][]byte
		if o.codec == 'h' {
			var nals [][]byte
			nals, payloads = h264Frame(r, o, i, f.kf)
			f.data = annexb(nals)
		} else {
			f.data, payloads = vp9Frame(r, o, i, f.kf)
		}
		for pos, pl := range payloads {
			p := rtp.Packet{Header: rtp.Header{Version: 2, PayloadType: 102,
				SequenceNumber: seq, Timestamp: f.ts, SSRC: 0x1234abcd,
				Marker: pos == len(payloads)-1}, Payload: pl}
			raw, err := p.Marshal()
			if err != nil {
				panic(err)
			}
			s.pkts = append(s.pkts, pktInfo{raw: raw, seq: seq, ts: f.ts,
				frame: i, pos: pos, last: pos == len(payloads)-1})
			seq++
		}
		f.n = len(payloads)
		s.frames = append(s.frames, f)
		step := o.tsStep
		if step == 0 {
			step = uint32(r.Pick(1, 6, 2)+1) * 1500
		}
		uts += int64(step)
	}
	return s
}

// ------------------------------------------------------------------ plans

const (
	aStore = iota // into the cache only (lost on the way to the recorder)
	aStoreWrite
	aWrite
	aSR
	aAge
)

type act struct {
	kind  int
	track int
	pkt   int
	ntp   uint64
	rtp   uint32
	ageMs int
	tag   string
}

type planOpts struct {
	reorder  int // per mille, per packet
	dup      int
	fill     int
	unfill   int
	fillRun  int
	maxAge   int
	maxMove  int
	segPkts  int
	anyFirst bool // the rule "the first packet of a frame is never overtaken by a later packet of the same frame" is lifted (single-packet frames)
}

// planTrack orders the packets of one stream.  Clean perturbations only:
//   - a packet is moved later only if it is not the first packet of a
//     multi-packet frame (avoids K1 start-late-into-empty-builder),
//   - every segment (a few frames, starting anew at every keyframe) ends with
//     everything delivered (the builder is empty again: avoids K1 ring-wrap
//     and N2),
//   - duplicates are never of the newest number (avoids K2) nor older than
//     maxAge (avoids N1).
func planTrack(r *tr.Rand, s *trackStream, ti int, o planOpts) []act {
	var out []act
	np := len(s.pkts)
	maxDelivered := -1
	i := 0
	for i < np {
		// segment [i, j)
		j := i
		for j < np {
			f := s.pkts[j].frame
			end := s.frames[f].first + s.frames[f].n
			if j > i && s.frames[f].kf {
				break
			}
			j = end
			if j-i >= o.segPkts {
				break
			}
		}
		type item struct {
			pkt  int
			kind int
		}
		var items []item
		run := 0
		for k := i; k < j; k++ {
			kind := aStoreWrite
			if k != 0 && k != np-1 {
				if run > 0 {
					kind = aStore
					run--
				} else if r.Intn(1000) < o.fill {
					kind = aStore
					run = r.Intn(o.fillRun)
				} else if r.Intn(1000) < o.unfill {
					kind = -1
				}
			} else {
				run = 0
			}
			if kind >= 0 {
				items = append(items, item{k, kind})
			}
		}
		// moves
		for k := 0; k < len(items); k++ {
			p := s.pkts[items[k].pkt]
			if items[k].kind != aStoreWrite || items[k].pkt == 0 {
				continue
			}
			if !o.anyFirst && p.pos == 0 && s.frames[p.frame].n > 1 {
				continue
			}
			if !o.anyFirst && p.pos == 0 && s.video {
				// a single-packet video frame may move, but keep keyframe
				// starts in place (N2)
				if s.frames[p.frame].kf {
					continue
				}
			}
			if r.Intn(1000) < o.reorder {
				d := r.Range(1, o.maxMove)
				to := k + d
				if to >= len(items) {
					to = len(items) - 1
				}
				it := items[k]
				copy(items[k:to], items[k+1:to+1])
				items[to] = it
			}
		}
		for _, it := range items {
			out = append(out, act{kind: it.kind, track: ti, pkt: it.pkt})
			if it.kind == aStoreWrite && it.pkt > maxDelivered {
				maxDelivered = it.pkt
			}
			if it.kind == aStoreWrite && r.Intn(1000) < o.dup && maxDelivered > 0 {
				lo := maxDelivered - o.maxAge
				if lo < 0 {
					lo = 0
				}
				q := r.Range(lo, maxDelivered-1)
				// a duplicate of the first packet of a keyframe would become
				// savedKf again (N2 family): not in clean streams
				if !(s.video && s.pkts[q].pos == 0 && s.frames[s.pkts[q].frame].kf) {
					out = append(out, act{kind: aStoreWrite, track: ti, pkt: q, tag: "dup"})
				}
			}
		}
		i = j
	}
	return out
}

// merge interleaves the per-track plans at random, keeping each one's order.
func merge(r *tr.Rand, plans ...[]act) []act {
	var out []act
	idx := make([]int, len(plans))
	for {
		rem := 0
		for i, p := range plans {
			rem += len(p) - idx[i]
		}
		if rem == 0 {
			return out
		}
		x := r.Intn(rem)
		for i, p := range plans {
			left := len(p) - idx[i]
			if x < left {
				// deliver a short burst of the same track
				n := r.Range(1, 4)
				for k := 0; k < n && idx[i] < len(p); k++ {
					out = append(out, p[idx[i]])
					idx[i]++
				}
				break
			}
			x -= left
		}
	}
}

// ------------------------------------------------------------------ one recording

const baseNow = int64(3900000000) * 1000000000 // virtual clock: ns since 1900

type block struct {
	track uint64
	tm    int64
	kf    bool
	data  []byte
}

type fileInfo struct {
	name    string
	doctype string
	entries []webm.TrackEntry
	blocks  []block
	err     error
}

type hist struct {
	t       *tr.Trace
	r       *tr.Rand
	name    string
	kinds   string
	exact   string
	client  *diskwriter.Client
	up      *fakeUp
	tracks  []*fakeTrack
	streams []*trackStream
	dir     string
	now     int64
	opIdx   int
	// bookkeeping for the monitors
	pushedAt [][]int // per track, per packet: op index of the first push (0: never)
	openAt   int
	origins  [][]uint32 // origins observed per track since the file was opened
	files    []string   // in creation order
	seen     map[string]bool
	shadow   []struct {
		valid bool
		last  uint16
	}
	closeCmp bool
	joinSplit bool // H.264 access units sent as several non-FU packets: blocks of equal timestamp are joined before comparing (N5)
	noCmp    bool // the history leaves the domain of the model (conn.close() from inside the loop): ops are named swx/wx
}

var theGroup *group.Group
var theDir string

func setup() {
	if theGroup != nil {
		return
	}
	log.SetOutput(io.Discard)
	dir, err := os.MkdirTemp("", "verif-disk")
	if err != nil {
		panic(err)
	}
	theDir = dir
	diskwriter.Directory = dir
	g, err := group.Add("rec", &group.Description{})
	if err != nil {
		panic(err)
	}
	theGroup = g
}

func newHist(t *tr.Trace, r *tr.Rand, name, kinds, exact, user string, streams []*trackStream) *hist {
	setup()
	h := &hist{t: t, r: r, name: name, kinds: kinds, exact: exact, streams: streams,
		now: baseNow, seen: map[string]bool{}, closeCmp: true}
	h.dir = filepath.Join(theDir, "rec")
	os.RemoveAll(h.dir)
	t.History("disk", name, kinds, exact)
	c, err := diskwriter.New(theGroup)
	if err != nil {
		panic(err)
	}
	h.client = c
	h.up = &fakeUp{id: fmt.Sprintf("up%d", t.Histories), user: user}
	var ut []conn.UpTrack
	for i, k := range kinds {
		ft := &fakeTrack{cache: packetcache.New(4096)}
		if k == 'a' {
			ft.kind = webrtc.RTPCodecTypeAudio
			ft.codec = webrtc.RTPCodecCapability{MimeType: "audio/opus", ClockRate: 48000, Channels: 2}
		} else {
			ft.kind = webrtc.RTPCodecTypeVideo
			mime := "video/VP8"
			switch k {
			case 'v':
				t.Note("codec-vp8")
			case 'h':
				t.Note("codec-h264")
				mime = "video/H264"
				h.closeCmp = false // the model does not depacketise H.264
			case '9':
				t.Note("codec-vp9")
				mime = "video/VP9"
				h.closeCmp = false
				h.noCmp = true // VP9 is not modelled: monitors only
			}
			ft.codec = webrtc.RTPCodecCapability{MimeType: mime, ClockRate: 90000}
		}
		h.tracks = append(h.tracks, ft)
		ut = append(ut, ft)
		h.pushedAt = append(h.pushedAt, make([]int, len(streams[i].pkts)))
	}
	h.origins = make([][]uint32, len(kinds))
	h.shadow = make([]struct {
		valid bool
		last  uint16
	}, len(kinds))
	if err := c.PushConn(theGroup, h.up.id, h.up, ut, ""); err != nil {
		panic(err)
	}
	for _, ft := range h.tracks {
		if ft.local == nil {
			panic("track not added")
		}
	}
	return h
}

func (h *hist) isExact(j int) bool { return j < len(h.exact) && h.exact[j] == '1' }

func (h *hist) originsStr() string {
	var parts []string
	for j, ft := range h.tracks {
		st, _ := diskwriter.VerifState(ft.local)
		if !h.isExact(j) {
			parts = append(parts, "~")
		} else if st.OriginValid {
			parts = append(parts, fmt.Sprint(st.Origin))
		} else {
			parts = append(parts, "-")
		}
	}
	return strings.Join(parts, "/")
}

func (h *hist) observe() {
	_, _, open := diskwriter.VerifConnState(h.tracks[0].local)
	if open && h.openAt == 0 {
		h.openAt = h.opIdx
	}
	if open {
		for j, ft := range h.tracks {
			st, _ := diskwriter.VerifState(ft.local)
			if st.OriginValid {
				o := h.origins[j]
				if len(o) == 0 || o[len(o)-1] != st.Origin {
					h.origins[j] = append(o, st.Origin)
				}
			}
		}
	}
	ents, _ := os.ReadDir(h.dir)
	var fresh []string
	for _, e := range ents {
		if !h.seen[e.Name()] {
			fresh = append(fresh, e.Name())
		}
	}
	sort.Strings(fresh)
	for _, n := range fresh {
		h.seen[n] = true
		h.files = append(h.files, n)
	}
}

func (h *hist) store(ti, pi int) {
	p := h.streams[ti].pkts[pi]
	var pk rtp.Packet
	if pk.Unmarshal(p.raw) == nil {
		h.tracks[ti].cache.Store(pk.SequenceNumber, pk.Timestamp, false, pk.Marker, p.raw)
	}
}

// writeRaw delivers raw bytes to track ti and records the observable.
func (h *hist) writeRaw(op string, ti int, raw []byte, pi int) {
	h.opIdx++
	ft := h.tracks[ti]
	ft.fetches = nil
	k0 := ft.kfreq
	before, _ := diskwriter.VerifState(ft.local)
	n, err := ft.local.Write(raw)
	_ = n
	if err != nil {
		h.t.Fail("C20", "write_error", fmt.Sprintf("Write returned %v", err))
	}
	st, _ := diskwriter.VerifState(ft.local)
	var fs []string
	for _, f := range ft.fetches {
		fs = append(fs, fmt.Sprintf("%d:%d", f.seq, f.n))
	}
	fstr := "-"
	if len(fs) > 0 {
		fstr = strings.Join(fs, ",")
	}
	last := "-"
	if st.LastValid {
		last = fmt.Sprint(st.LastSeqno)
	}
	if h.noCmp {
		op += "x"
	}
	h.t.Op(fmt.Sprintf("f=%s k=%d l=%s o=%s fl=C", fstr, ft.kfreq-k0, last, h.originsStr()),
		op, ti, h.now, raw)
	// monitor: the fetched numbers are exactly the numbers strictly between
	// the previous and the new number when the jump is below 256
	var pk rtp.Packet
	if pk.Unmarshal(raw) == nil {
		h.t.Checked("C20.fetch_range")
		if before.LastValid {
			d := pk.SequenceNumber - before.LastSeqno
			want := 0
			if d&0x8000 == 0 && d < 256 && d > 0 {
				want = int(d) - 1
			}
			if len(ft.fetches) != want {
				h.t.Fail("C20", "fetch_range", fmt.Sprintf("last=%d seq=%d: %d numbers fetched, want %d",
					before.LastSeqno, pk.SequenceNumber, len(ft.fetches), want))
			}
			for i, f := range ft.fetches {
				if f.seq != before.LastSeqno+uint16(i)+1 {
					h.t.Fail("C20", "fetch_range", fmt.Sprintf("last=%d seq=%d: fetch %d is number %d",
						before.LastSeqno, pk.SequenceNumber, i, f.seq))
					break
				}
			}
		} else if len(ft.fetches) != 0 {
			h.t.Fail("C20", "fetch_range", "fetch without a previous number")
		}
		// monitor: lastSeqno follows the newest number; it is forgotten
		// exactly when a packet is 512 or more behind it
		h.t.Checked("C20.last_seqno")
		switch {
		case !before.LastValid:
			if !st.LastValid || st.LastSeqno != pk.SequenceNumber {
				h.t.Fail("C20", "last_seqno", "first packet does not set lastSeqno")
			}
		case (pk.SequenceNumber-before.LastSeqno)&0x8000 == 0:
			if !st.LastValid || st.LastSeqno != pk.SequenceNumber {
				h.t.Fail("C20", "last_seqno", fmt.Sprintf("last=%d seq=%d (ahead): lastSeqno is %d valid %v", before.LastSeqno, pk.SequenceNumber, st.LastSeqno, st.LastValid))
			}
		default:
			back := before.LastSeqno - pk.SequenceNumber
			if back >= 512 && st.LastValid {
				h.t.Fail("C20", "last_seqno", fmt.Sprintf("last=%d seq=%d: %d behind but the state was kept", before.LastSeqno, pk.SequenceNumber, back))
			}
			if back < 512 && (!st.LastValid || st.LastSeqno != before.LastSeqno) {
				h.t.Fail("C20", "last_seqno", fmt.Sprintf("last=%d seq=%d: %d behind but the state changed", before.LastSeqno, pk.SequenceNumber, back))
			}
		}
		// bookkeeping: which packets of the stream have been pushed
		s := h.streams[ti]
		mark := func(seq uint16) {
			for qi := range s.pkts {
				if s.pkts[qi].seq == seq && h.pushedAt[ti][qi] == 0 {
					h.pushedAt[ti][qi] = h.opIdx
				}
			}
		}
		for _, f := range ft.fetches {
			if f.n > 0 {
				mark(f.seq)
			}
		}
		if pi >= 0 {
			if h.pushedAt[ti][pi] == 0 {
				h.pushedAt[ti][pi] = h.opIdx
			}
		}
	}
	h.observe()
}

func (h *hist) sr(ti int, ntp uint64, rtpTs uint32) {
	h.opIdx++
	h.tracks[ti].local.SetTimeOffset(ntp, rtpTs)
	h.t.Op("o="+h.originsStr(), "sr", ti, ntp>>32, ntp&0xffffffff, rtpTs)
	h.observe()
}

func (h *hist) age(msec int) {
	h.opIdx++
	diskwriter.VerifAge(h.tracks[0].local, time.Duration(msec)*time.Millisecond)
	h.now += int64(msec) * 1000000
	h.t.Op("-", "age", msec)
}

func (h *hist) run(plan []act) {
	for _, a := range plan {
		switch a.kind {
		case aStore:
			h.opIdx++
			h.store(a.track, a.pkt)
			h.t.Op("-", "s", a.track, h.streams[a.track].pkts[a.pkt].raw)
		case aStoreWrite:
			h.store(a.track, a.pkt)
			h.writeRaw("sw", a.track, h.streams[a.track].pkts[a.pkt].raw, a.pkt)
		case aWrite:
			h.writeRaw("w", a.track, h.streams[a.track].pkts[a.pkt].raw, a.pkt)
		case aSR:
			h.sr(a.track, a.ntp, a.rtp)
		case aAge:
			h.age(a.ageMs)
		}
	}
}

func parseFile(path string) fileInfo {
	fi := fileInfo{name: filepath.Base(path)}
	f, err := os.Open(path)
	if err != nil {
		fi.err = err
		return fi
	}
	defer f.Close()
	var doc struct {
		Header  webm.EBMLHeader `ebml:"EBML"`
		Segment webm.Segment    `ebml:"Segment"`
	}
	if err := ebml.Unmarshal(f, &doc); err != nil {
		fi.err = err
		return fi
	}
	fi.doctype = doc.Header.DocType
	fi.entries = doc.Segment.Tracks.TrackEntry
	for _, c := range doc.Segment.Cluster {
		for _, b := range c.SimpleBlock {
			fi.blocks = append(fi.blocks, block{b.TrackNumber,
				int64(c.Timecode) + int64(b.Timecode), b.Keyframe, bytes.Join(b.Data, nil)})
		}
		for _, bg := range c.BlockGroup {
			b := bg.Block
			fi.blocks = append(fi.blocks, block{b.TrackNumber,
				int64(c.Timecode) + int64(b.Timecode), b.Keyframe, bytes.Join(b.Data, nil)})
		}
	}
	return fi
}

// closeAndCheck closes the recording in one of three ways, parses the files
// and runs the monitors.  kind names what the generator promises about the
// history:
//   "complete"  every packet delivered or recoverable, triggers avoided
//   "sound"     losses the cache cannot fill / jumps: soundness only
//   "K1a" "K1b" "K2" "N1" "N2" "N3"  trigger streams
func (h *hist) closeAndCheck(kind string) {
	h.opIdx++
	how := h.r.Intn(4)
	var up2 *fakeUp
	var files []fileInfo
	read := func() {
		h.observe()
		for _, n := range h.files {
			files = append(files, parseFile(filepath.Join(h.dir, n)))
		}
	}
	switch how {
	case 0:
		h.client.Close()
		read()
	case 1: // departure of the publisher
		h.client.PushConn(theGroup, h.up.id, nil, nil, "")
		read()
		h.client.Close()
	default: // replaced by a new connection
		up2 = &fakeUp{id: h.up.id + "r", user: h.up.user}
		ft := &fakeTrack{cache: packetcache.New(16), kind: webrtc.RTPCodecTypeAudio,
			codec: webrtc.RTPCodecCapability{MimeType: "audio/opus", ClockRate: 48000, Channels: 2}}
		h.client.PushConn(theGroup, up2.id, up2, []conn.UpTrack{ft}, h.up.id)
		if how == 3 {
			// the replacing connection is pushed a second time while it still names
			// what it replaces (the recorder asked for the connections again right
			// after the replacement): the first incarnation must be closed
			h.t.Note("replacement-pushed-twice")
			h.client.PushConn(theGroup, up2.id, up2, []conn.UpTrack{ft}, h.up.id)
		}
		read()
		h.client.Close()
	}
	// every attachment of the recorder to a publisher's connection is undone:
	// nothing stays attached (and no file stays open) once the recorder is closed
	h.t.Checked("C20.close_detaches")
	for _, u := range []*fakeUp{h.up, up2} {
		if u != nil && u.dels < len(u.locals) {
			h.t.Fail("C20", "close_detaches", fmt.Sprintf("connection %s: the recorder attached %d times and detached %d times: a recording of it is still attached after the recorder was closed (its file is never finished)", u.id, len(u.locals), u.dels))
		}
	}
	h.t.Checked("C20.close_detaches")
	if h.up.dels == 0 {
		h.t.Fail("C20", "close_detaches", "closing did not remove the recorder from the publisher's connection")
	}
	for _, ft := range h.tracks {
		if ft.dels == 0 {
			h.t.Fail("C20", "close_detaches", "closing did not remove the disk track from the publisher's track")
		}
	}

	// observable for the model: W<w>H<h>;T0=kf.tm.len.hash,...;T1=...|...
	var fparts []string
	for _, fi := range files {
		w, hh := uint64(0), uint64(0)
		for _, e := range fi.entries {
			if e.Video != nil {
				w, hh = e.Video.PixelWidth, e.Video.PixelHeight
			}
		}
		s := fmt.Sprintf("W%dH%d", w, hh)
		for j := range h.tracks {
			var bl []string
			for _, b := range fi.blocks {
				if int(b.track) != j+1 {
					continue
				}
				tm := "~"
				if h.isExact(j) {
					tm = fmt.Sprint(b.tm)
				}
				bl = append(bl, fmt.Sprintf("%s.%s.%d.%d", tr.B(b.kf), tm, len(b.data), fnv(b.data)))
			}
			x := "-"
			if len(bl) > 0 {
				x = strings.Join(bl, ",")
			}
			s += fmt.Sprintf(";T%d=%s", j, x)
		}
		fparts = append(fparts, s)
	}
	obs := "-"
	if len(fparts) > 0 {
		obs = strings.Join(fparts, "|")
	}
	op := "closex"
	if kind == "complete" && h.closeCmp {
		op = "close"
	}
	h.t.Op(obs+" fl=C", op)

	h.check(kind, files)
	os.RemoveAll(h.dir)
}

// failK reports a frame-level failure: in a trigger stream, under the name
// of the known finding; anywhere else as a violation of C20.
func (h *hist) failFrame(kind, monitor, what, msg string) {
	switch {
	case kind == "K1a" && (what == "truncated" || what == "missing"):
		h.t.Note("K1 start-late reproduced")
		h.t.Fail("C20", "builder_K1", "K1 start-late-into-empty-builder: "+msg)
	case kind == "K1b" && (what == "truncated" || what == "missing"):
		h.t.Note("K1 ring-wrap reproduced")
		h.t.Fail("C20", "builder_K1", "K1 ring-wrap: "+msg)
	case kind == "K2" && what == "missing":
		h.t.Note("K2 reproduced")
		h.t.Fail("C20", "builder_K2", "K2 immediate-duplicate: "+msg)
	case kind == "N1" && (what == "twice" || what == "order" || what == "ts"):
		h.t.Note("N1 reproduced")
		h.t.Fail("C20", "window_N1", "N1 old-duplicate-beyond-maxlate: "+msg)
	case kind == "N2" && (what == "missing" || what == "kfflag"):
		h.t.Note("N2 reproduced")
		h.t.Fail("C20", "keyframe_N2", "N2 keyframe-overtaken-by-next-keyframe: "+msg)
	case kind == "N4" && what == "missing":
		h.t.Note("N4 reproduced")
		h.t.Fail("C20", "resize_N4", "N4 resize-invalid-origin: "+msg)
	case (kind == "sound" || kind == "K1b") && what == "kfflag-cleared":
		h.t.Note("N2 flag reproduced")
		h.t.Fail("C20", "keyframe_N2", "N2 keyframe-overtaken-by-next-keyframe (backlog): "+msg)
	case kind == "kfstart" && what == "missing":
		h.t.Fail("C20", "recorded_from_first_keyframe", "the stream starts with a keyframe but the recording does not start there: "+msg)
	case kind == "flush" && what == "missing":
		h.t.Fail("C20", "flushed_on_close", "a complete frame that was waiting in the builder is not in the file after Close: "+msg)
	case kind == "N3" && what == "ts":
		h.t.Note("N3 reproduced")
		h.t.Fail("C20", "origin_N3", "N3 sender-report-origin-shift: "+msg)
	default:
		h.t.Fail("C20", monitor, msg)
	}
}

func (h *hist) check(kind string, files []fileInfo) {
	t := h.t
	san := diskwriter.VerifSanitise(h.up.user)
	for _, fi := range files {
		t.Checked("C20.container")
		if fi.err != nil {
			t.Fail("C20", "container", fmt.Sprintf("%s does not parse as EBML: %v", fi.name, fi.err))
			continue
		}
		wantDoc, ext := "webm", ".webm"
		if strings.Contains(h.kinds, "h") {
			wantDoc, ext = "matroska", ".mkv"
		}
		if fi.doctype != wantDoc {
			t.Fail("C20", "container", "DocType "+fi.doctype+" for tracks "+h.kinds)
		}
		if len(fi.entries) != len(h.tracks) {
			t.Fail("C20", "container", fmt.Sprintf("%d track entries for %d tracks", len(fi.entries), len(h.tracks)))
		}
		for j, e := range fi.entries {
			if j >= len(h.kinds) {
				break
			}
			want, typ := "V_VP8", uint64(1)
			switch h.kinds[j] {
			case 'a':
				want, typ = "A_OPUS", 2
			case 'h':
				want = "V_MPEG4/ISO/AVC"
			case '9':
				want = "V_VP9"
			}
			if e.CodecID != want || e.TrackType != typ || e.TrackNumber != uint64(j+1) {
				t.Fail("C20", "container", fmt.Sprintf("track %d declared as %s type %d number %d", j, e.CodecID, e.TrackType, e.TrackNumber))
			}
			if h.kinds[j] == 'a' && (e.Audio == nil || e.Audio.SamplingFrequency != 48000 || e.Audio.Channels != 2) {
				t.Fail("C20", "container", "audio parameters")
			}
		}
		t.Checked("C20.filename")
		base := strings.TrimSuffix(fi.name, ext)
		okName := strings.HasSuffix(fi.name, ext) && !strings.ContainsAny(fi.name, "/\\")
		if san != "" {
			i := strings.Index(base, "-"+san)
			okName = okName && i > 0
			if i > 0 {
				rest := base[i+len(san)+1:]
				okName = okName && (rest == "" || (len(rest) == 3 && rest[0] == '-'))
			}
		}
		if !okName {
			t.Fail("C20", "filename", fmt.Sprintf("file name %q for user %q", fi.name, h.up.user))
		}
	}
	ents, _ := os.ReadDir(h.dir)
	for _, e := range ents {
		t.Checked("C20.filename")
		if e.IsDir() {
			t.Fail("C20", "filename", "a directory was created for user "+h.up.user)
		}
	}

	for j, s := range h.streams {
		rate := int64(s.rate)
		byHash := map[uint32][]int{}
		for i, f := range s.frames {
			hsh := fnv(f.data)
			byHash[hsh] = append(byHash[hsh], i)
		}
		written := map[int]int{}
		prev := -1
		firstWritten := -1
		nsplit, splitMsg := 0, ""
		for fidx, fi := range files {
			if fi.err != nil {
				continue
			}
			prevTm := int64(-1)
			firstInFile := true
			blocks := fi.blocks
			if h.joinSplit && s.codec == 'h' {
				// N5: the parts of one access unit are written as separate
				// blocks with the same timestamp; compare the joined blocks
				blocks = nil
				for _, b := range fi.blocks {
					if int(b.track) != j+1 {
						continue
					}
					if n := len(blocks); n > 0 && blocks[n-1].tm == b.tm && blocks[n-1].kf == b.kf {
						blocks[n-1].data = append(append([]byte{}, blocks[n-1].data...), b.data...)
						nsplit++
						if splitMsg == "" {
							splitMsg = fmt.Sprintf("timestamp %d: a block of %d bytes followed by a block of %d bytes", b.tm, len(blocks[n-1].data)-len(b.data), len(b.data))
						}
					} else {
						blocks = append(blocks, b)
					}
				}
			}
			for _, b := range blocks {
				if int(b.track) != j+1 {
					continue
				}
				// which frame is it?
				t.Checked("C20.sample_identical")
				which := -1
				for _, c := range byHash[fnv(b.data)] {
					if bytes.Equal(s.frames[c].data, b.data) {
						if which < 0 || (which <= prev && c > prev) {
							which = c
						}
					}
				}
				if which < 0 {
					// a proper prefix of a frame lacking whole packets?
					what := "corrupt"
					desc := fmt.Sprintf("track %d: a written sample of %d bytes (tm %d) is no frame that was sent", j, len(b.data), b.tm)
					for c, f := range s.frames {
						if len(b.data) < len(f.data) && len(b.data) > 0 && bytes.Equal(f.data[:len(b.data)], b.data) {
							what = "truncated"
							desc = fmt.Sprintf("track %d: frame %d (%d bytes, %d packets) written with only its first %d bytes", j, c, len(f.data), f.n, len(b.data))
							break
						}
					}
					h.failFrame(kind, "sample_identical", what, desc)
					continue
				}
				f := s.frames[which]
				t.Checked("C20.no_duplicate")
				if written[which] > 0 {
					h.failFrame(kind, "no_duplicate", "twice", fmt.Sprintf("track %d: frame %d written twice", j, which))
				}
				written[which]++
				t.Checked("C20.order")
				if which < prev && written[which] == 1 {
					h.failFrame(kind, "order", "order", fmt.Sprintf("track %d: frame %d written after frame %d", j, which, prev))
				}
				if which > prev {
					prev = which
				}
				if firstWritten < 0 {
					firstWritten = which
				}
				t.Checked("C20.ts_monotone")
				if b.tm < prevTm {
					h.failFrame(kind, "ts_monotone", "ts", fmt.Sprintf("track %d file %d: container timestamp %d after %d", j, fidx, b.tm, prevTm))
				}
				prevTm = b.tm
				if s.video {
					t.Checked("C20.first_is_keyframe")
					if firstInFile && !(f.kf && b.kf) {
						h.failFrame(kind, "first_is_keyframe", "kfflag", fmt.Sprintf("track %d file %d starts with frame %d (keyframe %v, flag %v)", j, fidx, which, f.kf, b.kf))
					}
					t.Checked("C20.keyframe_flag")
					if b.kf != f.kf && !firstInFile {
						what := "kfflag"
						if f.kf && !b.kf {
							what = "kfflag-cleared"
						}
						if kind == "N2" {
							what = "kfflag"
						}
						h.failFrame(kind, "keyframe_flag", what, fmt.Sprintf("track %d: frame %d keyframe %v written with flag %v", j, which, f.kf, b.kf))
					}
				}
				firstInFile = false
				// the container timestamp is (ts - origin)/(rate/1000) for an
				// origin the track had while the file was open
				if len(h.origins[j]) > 0 {
					t.Checked("C20.tm_value")
					ok := false
					for _, o := range h.origins[j] {
						if int64(uint32(f.ts-o))/(rate/1000) == b.tm {
							ok = true
						}
					}
					if !ok && kind != "N3" {
						t.Fail("C20", "tm_value", fmt.Sprintf("track %d frame %d ts %d: container timestamp %d is (ts-origin)/%d for none of the origins %v",
							j, which, f.ts, b.tm, rate/1000, h.origins[j]))
					}
				}
			}
		}
		if h.joinSplit && s.codec == 'h' {
			t.Checked("C20.h264_split_N5")
			if nsplit > 0 {
				t.Note("N5 reproduced")
				shape := ""
				for _, f := range s.frames {
					if f.n > 1 {
						var ts []string
						for q := f.first; q < f.first+f.n && q < f.first+6; q++ {
							pl := s.pkts[q].raw[12:]
							typ := pl[0] & 0x1f
							switch {
							case typ == 24:
								ts = append(ts, "STAP-A")
							case typ == 28:
								ts = append(ts, fmt.Sprintf("FU-A(%d)", pl[1]&0x1f))
							default:
								ts = append(ts, fmt.Sprintf("NAL(%d)", typ))
							}
						}
						shape = strings.Join(ts, ",")
						break
					}
				}
				t.Fail("C20", "h264_split_N5", fmt.Sprintf("h264-access-unit-split: %d times an H.264 access unit sent as several packets (e.g. %s) is written as several blocks, each a part of the frame; %s", nsplit, shape, splitMsg))
			}
		}
		if kind == "sound" || kind == "N1" || kind == "N3" {
			continue
		}
		// none missing: video from the first keyframe on; audio from the
		// moment the file is open and not before the track's origin
		t.Checked("C20.none_missing")
		complete := func(i int) (bool, int) {
			f := s.frames[i]
			at := 0
			for q := f.first; q < f.first+f.n; q++ {
				if h.pushedAt[j][q] == 0 {
					return false, 0
				}
				if h.pushedAt[j][q] > at {
					at = h.pushedAt[j][q]
				}
			}
			return true, at
		}
		if s.video {
			k0 := -1
			for i, f := range s.frames {
				if ok, _ := complete(i); f.kf && ok {
					k0 = i
					break
				}
			}
			if k0 >= 0 {
				for i := k0; i < len(s.frames); i++ {
					ok, _ := complete(i)
					if ok && written[i] == 0 {
						h.failFrame(kind, "none_missing", "missing", fmt.Sprintf("track %d: frame %d (keyframe %v, first keyframe is frame %d) was delivered completely but is not in the recording", j, i, s.frames[i].kf, k0))
						break
					}
				}
			}
		} else if h.openAt > 0 {
			for i := range s.frames {
				ok, at := complete(i)
				if !ok || at <= h.openAt {
					continue
				}
				after := true
				for _, o := range h.origins[j] {
					if int32(s.frames[i].ts-o) < 0 {
						after = false
					}
				}
				if len(h.origins[j]) == 0 {
					after = false
				}
				if after && written[i] == 0 {
					h.failFrame(kind, "none_missing", "missing", fmt.Sprintf("track %d: audio frame %d was delivered after the file was opened and is not in the recording", j, i))
					break
				}
			}
		}
	}
}

// ------------------------------------------------------------------ generators

func startSeq(r *tr.Rand) uint16 {
	switch r.Pick(3, 3, 1, 3) {
	case 0:
		return uint16(r.Intn(100))
	case 1:
		return uint16(65536 - r.Range(1, 120))
	case 2:
		return uint16(32768 - r.Range(0, 60))
	default:
		return uint16(r.U64())
	}
}

func startTs(r *tr.Rand, t *tr.Trace) uint32 {
	switch r.Pick(3, 3, 3) {
	case 0:
		return uint32(r.Intn(100000))
	case 1:
		t.Note("ts-wrap")
		return uint32(0x100000000 - int64(r.Range(1, 400000)))
	default:
		return uint32(r.U64())
	}
}

var users = []string{"alice", "", "al/ice", "a\\b", "../../etc/passwd", "x/../y", "Zoë", "a b", "//", "\\\\srv\\share", "."}

func vopts(r *tr.Rand, t *tr.Trace, nframes int) streamOpts {
	o := streamOpts{video: true, nframes: nframes, startSeq: startSeq(r), startTs: startTs(r, t),
		desc: r.Intn(4), firstKf: r.Pick(3, 1, 1), kfEvery: r.Pick(0, 1, 1, 1) * 7,
		w: r.Range(16, 1920), h: r.Range(16, 1080)}
	switch r.Pick(3, 3, 2, 1) {
	case 0:
		o.mtu = r.Range(20, 120)
	case 1:
		o.mtu = r.Range(121, 600)
	case 2:
		o.mtu = r.Range(601, 1200)
	default:
		o.mtu = 1400
	}
	if o.firstKf == 2 {
		o.firstKf = r.Range(1, 5)
	}
	return o
}

func aopts(r *tr.Rand, t *tr.Trace, nframes int) streamOpts {
	return streamOpts{video: false, nframes: nframes, startSeq: startSeq(r), startTs: startTs(r, t)}
}

// makeStreams builds the streams of a recording of the given kinds.
func makeStreams(r *tr.Rand, t *tr.Trace, kinds string, vf, af int) []*trackStream {
	var out []*trackStream
	for _, k := range kinds {
		if k == 'a' {
			out = append(out, genStream(r, aopts(r, t, af)))
		} else {
			o := vopts(r, t, vf)
			if k == 'h' || k == '9' {
				o.codec = byte(k)
				o.desc = r.Intn(3)
				if o.mtu < 40 {
					o.mtu = 40
				}
			}
			out = append(out, genStream(r, o))
		}
	}
	return out
}

// pickKinds: audio+video, video only, audio only; the video codec is VP8,
// H.264 or VP9
func pickKinds(r *tr.Rand) string {
	k := []string{"av", "v", "a"}[r.Pick(5, 3, 2)]
	v := []string{"v", "h", "9"}[r.Pick(11, 6, 3)]
	return strings.Replace(k, "v", v, 1)
}

// ntpOf: the sender's clock: NTP time n0 at RTP time ts0 of a track
func ntpOf(n0 uint64, ts0 uint32, rate uint32, ts uint32) uint64 {
	d := int64(int32(ts - ts0)) // ticks
	// n0 + d/rate seconds in 32.32 fixed point
	return uint64(int64(n0) + (d<<32)/int64(rate))
}

func cleanHistory(t *tr.Trace, r *tr.Rand, name string) {
	kinds := pickKinds(r)
	if name == "sr-first" || name == "sr-mid" {
		kinds = "av"
	}
	if name == "sr-single" {
		kinds = []string{"v", "a"}[r.Intn(2)]
	}
	vf, af := r.Range(4, 36), r.Range(8, 70)
	streams := makeStreams(r, t, kinds, vf, af)
	exact := ""
	for j := range kinds {
		switch {
		case len(kinds) == 1, name == "sr-first":
			exact += "1"
		case name == "sr-mid":
			exact += "0"
		case kinds[j] != 'a':
			exact += "1"
		default:
			exact += "0"
		}
	}
	h := newHist(t, r, name, kinds, exact, users[r.Intn(len(users))], streams)
	var plans [][]act
	for j, s := range streams {
		o := planOpts{segPkts: r.Range(6, 40), maxMove: r.Range(1, 8), fillRun: 3, maxAge: 180}
		if !s.video {
			o.maxAge = 28
			o.anyFirst = true
		}
		switch name {
		case "inorder", "sr-first", "sr-mid", "sr-single":
		case "reorder":
			o.reorder = r.Range(30, 250)
		case "dup":
			o.dup = r.Range(30, 300)
		case "fill":
			o.fill = r.Range(30, 300)
			if r.Chance(1, 6) {
				o.fillRun = r.Range(4, 40)
			}
		default: // mixed
			o.reorder = r.Range(0, 150)
			o.dup = r.Range(0, 150)
			o.fill = r.Range(0, 200)
		}
		if !s.video && len(kinds) == 2 && name != "sr-first" {
			// the audio origin depends on the real clock: no audio
			// reordering around it (see the comment on exactness)
			o.reorder = 0
		}
		if name == "sr-first" && r.Bool() {
			o.reorder = r.Range(0, 150)
			o.dup = r.Range(0, 100)
			o.fill = r.Range(0, 150)
		}
		plans = append(plans, planTrack(r, s, j, o))
	}
	plan := merge(r, plans...)
	// sender reports
	n0 := uint64(3900000000+r.Intn(1000)) << 32
	switch name {
	case "sr-first":
		// both tracks report before any media: the audio origin is derived
		// from the sender's clock alone
		var pre []act
		off := uint32(r.Intn(48000))
		for j, s := range streams {
			ts0 := s.frames[0].ts
			if !s.video {
				ts0 += off
			}
			back := uint32(r.Intn(int(s.rate)))
			pre = append(pre, act{kind: aSR, track: j, ntp: ntpOf(n0, ts0, s.rate, ts0-back), rtp: ts0 - back})
		}
		plan = append(pre, plan...)
		// consistent reports later on
		for k := 0; k < r.Intn(4); k++ {
			j := r.Intn(len(streams))
			s := streams[j]
			ts0 := s.frames[0].ts
			if !s.video {
				ts0 += off
			}
			ts := s.frames[r.Intn(len(s.frames))].ts
			at := r.Range(2, len(plan))
			plan = append(plan[:at], append([]act{{kind: aSR, track: j, ntp: ntpOf(n0, ts0, s.rate, ts), rtp: ts}}, plan[at:]...)...)
		}
	case "sr-single":
		s := streams[0]
		for k := 0; k < r.Range(1, 5); k++ {
			ts := s.frames[r.Intn(len(s.frames))].ts
			at := r.Intn(len(plan) + 1)
			plan = append(plan[:at], append([]act{{kind: aSR, track: 0, ntp: ntpOf(n0, s.frames[0].ts, s.rate, ts), rtp: ts}}, plan[at:]...)...)
		}
	case "sr-mid":
		// in-order media; the sender's clock agrees with the arrival times:
		// the audio packet that sets the audio origin was captured at the
		// same instant as the first video keyframe packet
		vi, ai := 1, 0
		kfPkt := -1
		for _, f := range streams[vi].frames {
			if f.kf {
				kfPkt = f.first
				break
			}
		}
		seenKf := false
		x := -1
		for _, a := range plan {
			if a.track == vi && a.pkt == kfPkt {
				seenKf = true
			} else if seenKf && a.track == ai {
				x = a.pkt
				break
			}
		}
		if x >= 0 {
			tsK := streams[vi].pkts[kfPkt].ts
			tsX := streams[ai].pkts[x].ts
			for k := 0; k < r.Range(1, 5); k++ {
				j := r.Intn(2)
				s := streams[j]
				ts0 := tsK
				if j == ai {
					ts0 = tsX
				}
				ts := s.frames[r.Intn(len(s.frames))].ts
				at := r.Range(1, len(plan))
				plan = append(plan[:at], append([]act{{kind: aSR, track: j, ntp: ntpOf(n0, ts0, s.rate, ts), rtp: ts}}, plan[at:]...)...)
			}
		}
	}
	// the clock advances now and then (keyframe request timers); not in
	// histories whose audio origin is compared with the sender's clock
	if name != "sr-mid" {
		for k := 0; k < r.Intn(4); k++ {
			at := r.Intn(len(plan) + 1)
			plan = append(plan[:at], append([]act{{kind: aAge, ageMs: 700 * r.Range(1, 7)}}, plan[at:]...)...)
		}
	}
	h.run(plan)
	h.closeAndCheck("complete")
	nontrivial(h)
}

func nontrivial(h *hist) {
	np := 0
	for _, s := range h.streams {
		np += len(s.pkts)
	}
	if np > 10 {
		h.t.Nontrivial(fmt.Sprintf("disk/%s/%s/%d/%d", h.name, h.kinds, np, h.opIdx))
	}
}

// losses the cache cannot fill, forward jumps >= 256, backward jumps >= 512:
// soundness only (identical, once, in order, timestamps)
func soundHistory(t *tr.Trace, r *tr.Rand, name string) {
	kinds := pickKinds(r)
	streams := makeStreams(r, t, kinds, r.Range(4, 30), r.Range(8, 60))
	exact := strings.Repeat("0", len(kinds))
	h := newHist(t, r, name, kinds, exact, users[r.Intn(len(users))], streams)
	var plans [][]act
	for j, s := range streams {
		o := planOpts{segPkts: r.Range(6, 40), maxMove: r.Range(1, 6), fillRun: 3, maxAge: 150,
			reorder: r.Range(0, 80), fill: r.Range(0, 100)}
		if !s.video {
			o.maxAge = 28
			o.anyFirst = true
			if len(kinds) == 2 {
				o.reorder = 0
			}
		}
		if name == "unfill" {
			o.unfill = r.Range(10, 120)
		}
		p := planTrack(r, s, j, o)
		plans = append(plans, p)
	}
	h.run(merge(r, plans...))
	h.closeAndCheck("sound")
	nontrivial(h)
}

// h264SplitHistory: the H.264 packetisations of browsers: parameter sets and
// slices as separate single NAL unit packets, STAP-A [SPS PPS] followed by a
// fragmented IDR, access unit delimiters.  In order (audio, if any, in
// between).  N5: every such access unit is written as several blocks; all
// other monitors run on the blocks joined by timestamp.
func h264SplitHistory(t *tr.Trace, r *tr.Rand) {
	kinds := []string{"h", "ah"}[r.Intn(2)]
	var streams []*trackStream
	if kinds == "ah" {
		streams = append(streams, genStream(r, aopts(r, t, r.Range(8, 40))))
	}
	o := vopts(r, t, r.Range(4, 24))
	o.codec = 'h'
	o.split = true
	if o.mtu < 40 {
		o.mtu = 40
	}
	streams = append(streams, genStream(r, o))
	exact := "1"
	if kinds == "ah" {
		exact = "01"
	}
	h := newHist(t, r, "h264-split", kinds, exact, users[r.Intn(len(users))], streams)
	h.joinSplit = true
	var plans [][]act
	for j, s := range streams {
		var p []act
		for i := range s.pkts {
			p = append(p, act{kind: aStoreWrite, track: j, pkt: i})
		}
		plans = append(plans, p)
	}
	h.run(merge(r, plans...))
	h.closeCmp = false
	h.closeAndCheck("complete")
	nontrivial(h)
}

// h264AggHistory: an H.264 publisher whose keyframes are single aggregation
// packets that start with an access unit delimiter or SEI before the SPS
// (encoders that emit AUDs); in order.  The recording must start at the
// first keyframe.
func h264AggHistory(t *tr.Trace, r *tr.Rand) {
	o := vopts(r, t, r.Range(4, 20))
	o.codec = 'h'
	o.audFirst = true
	o.firstKf = 0
	if o.mtu < 40 {
		o.mtu = 40
	}
	s := genStream(r, o)
	h := newHist(t, r, "h264-aud-first", "h", "1", users[r.Intn(len(users))], []*trackStream{s})
	var plan []act
	for i := range s.pkts {
		plan = append(plan, act{kind: aStoreWrite, track: 0, pkt: i})
	}
	h.run(plan)
	t.Checked("C20.recorded_from_first_keyframe")
	h.closeAndCheck("kfstart")
	nontrivial(h)
}

// flushHistory: in order; one packet of a late delta frame is lost for good
// and fewer packets follow than the builder's window: the frames after the
// loss sit in the builder until Close, which must flush them
func flushHistory(t *tr.Trace, r *tr.Rand) {
	kinds := []string{"v", "a"}[r.Pick(3, 1)]
	var s *trackStream
	if kinds == "v" {
		o := vopts(r, t, r.Range(8, 24))
		o.firstKf = 0
		o.kfEvery = 0
		o.mtu = r.Range(100, 1200)
		s = genStream(r, o)
	} else {
		s = genStream(r, aopts(r, t, r.Range(12, 40)))
	}
	h := newHist(t, r, "flush", kinds, "0", "flusher", []*trackStream{s})
	// the victim: a packet of a frame in the second half, such that at most
	// 25 packets follow it (audio window 32, video 256)
	victim := -1
	for i := len(s.pkts) - 2; i > 0; i-- {
		if len(s.pkts)-i > 25 {
			break
		}
		if s.pkts[i].frame >= len(s.frames)/2 && s.pkts[i].frame < len(s.frames)-1 {
			victim = i
			if r.Chance(1, 3) {
				break
			}
		}
	}
	var plan []act
	for i := range s.pkts {
		if i != victim {
			plan = append(plan, act{kind: aStoreWrite, track: 0, pkt: i})
		}
	}
	h.run(plan)
	h.closeCmp = false
	t.Checked("C20.flushed_on_close")
	h.closeAndCheck("flush")
	nontrivial(h)
}

// jumpHistory: a stream that restarts far ahead (>= 256: keyframe request, no
// fetch) or far behind (>= 512: state reset)
func jumpHistory(t *tr.Trace, r *tr.Rand) {
	kinds := "v"
	if r.Chance(1, 3) {
		kinds = "a"
	}
	o1 := vopts(r, t, r.Range(3, 12))
	o1.firstKf = 0
	var s1, s2 *trackStream
	if kinds == "a" {
		s1 = genStream(r, aopts(r, t, r.Range(5, 30)))
	} else {
		s1 = genStream(r, o1)
	}
	// the second part continues the first with a jump in the numbers
	last := s1.pkts[len(s1.pkts)-1]
	var jump int
	switch r.Pick(3, 2, 2, 2, 3, 3) {
	case 0:
		jump = r.Range(256, 400)
	case 1:
		jump = r.Range(2, 255) // below the threshold: the cache is asked
	case 2:
		jump = -r.Range(512+len(s1.pkts), 2000)
	case 3:
		jump = r.Range(20000, 40000)
	case 4: // at the thresholds: 256 ahead, 512 behind
		jump = []int{255, 256, 257, 258}[r.Intn(4)]
	default:
		// the first packet of the second part is 511, 512 or 513 behind
		// the newest number
		jump = -([]int{511, 512, 512, 513}[r.Intn(4)])
	}
	lastF := s1.frames[len(s1.frames)-1]
	if kinds == "a" {
		o := aopts(r, t, r.Range(5, 30))
		o.startSeq = last.seq + uint16(jump)
		o.startTs = uint32(lastF.uts + 48000)
		s2 = genStream(r, o)
	} else {
		o := o1
		o.nframes = r.Range(3, 12)
		o.startSeq = last.seq + uint16(jump)
		o.startTs = uint32(lastF.uts + 90000)
		s2 = genStream(r, o)
	}
	// one stream for the monitors: frames of both parts
	s := &trackStream{video: s1.video, rate: s1.rate}
	s.frames = append(s.frames, s1.frames...)
	s.pkts = append(s.pkts, s1.pkts...)
	for _, f := range s2.frames {
		f.first += len(s1.pkts)
		s.frames = append(s.frames, f)
	}
	for _, p := range s2.pkts {
		p.frame += len(s1.frames)
		s.pkts = append(s.pkts, p)
	}
	h := newHist(t, r, "jump", kinds, "0", "jumper", []*trackStream{s})
	var plan []act
	for i := range s.pkts {
		plan = append(plan, act{kind: aStoreWrite, track: 0, pkt: i})
	}
	if r.Bool() {
		at := r.Intn(len(plan))
		plan = append(plan[:at], append([]act{{kind: aAge, ageMs: 700 * r.Range(1, 7)}}, plan[at:]...)...)
	}
	h.run(plan)
	h.closeAndCheck("sound")
	nontrivial(h)
}

// dimsHistory: the keyframe dimensions change: a new file is started (N4: and
// everything up to the next keyframe is lost)
func dimsHistory(t *tr.Trace, r *tr.Rand) {
	o := vopts(r, t, r.Range(10, 30))
	o.firstKf = 0
	o.kfEvery = r.Range(3, 6)
	if o.nframes < 2*o.kfEvery+2 {
		o.nframes = 2*o.kfEvery + 2
	}
	o.dimsAt = o.kfEvery * r.Range(1, (o.nframes-1)/o.kfEvery)
	s := genStream(r, o)
	h := newHist(t, r, "dims", "v", "0", "dims", []*trackStream{s})
	h.noCmp = true
	var plan []act
	for i := range s.pkts {
		plan = append(plan, act{kind: aStoreWrite, track: 0, pkt: i})
	}
	h.run(plan)
	t.Checked("C20.new_file_on_resize")
	h.closeCmp = false
	h.closeAndCheck("N4")
	if len(h.files) < 2 {
		t.Fail("C20", "new_file_on_resize", "the keyframe dimensions changed but no new file was started")
	}
	nontrivial(h)
}

// malformed packets are ignored by Write
func malformedHistory(t *tr.Trace, r *tr.Rand) {
	kinds := []string{"v", "a"}[r.Intn(2)]
	streams := makeStreams(r, t, kinds, r.Range(4, 12), r.Range(6, 20))
	h := newHist(t, r, "malformed", kinds, "1", "mal", streams)
	s := streams[0]
	for i := range s.pkts {
		h.opIdx++
		h.store(0, i)
		h.t.Op("-", "s", 0, s.pkts[i].raw)
		if r.Chance(1, 3) {
			var raw []byte
			switch r.Pick(2, 2, 2, 1, 1) {
			case 0: // truncated header
				raw = append([]byte{}, s.pkts[i].raw[:r.Intn(12)]...)
			case 1: // padding bit with a bad count
				raw = append([]byte{}, s.pkts[i].raw...)
				raw[0] |= 0x20
				raw[len(raw)-1] = byte(r.Pick(1, 1, 1) * 127)
			case 2: // CSRC count beyond the packet
				raw = append([]byte{}, s.pkts[i].raw[:r.Range(12, min(len(s.pkts[i].raw), 30))]...)
				raw[0] |= 0x0f
			case 3: // valid padding: delivered instead of the original
				raw = append([]byte{}, s.pkts[i].raw...)
				n := r.Range(1, 9)
				raw[0] |= 0x20
				raw = append(raw, make([]byte, n)...)
				raw[len(raw)-1] = byte(n)
				h.writeRaw("w", 0, raw, i)
				continue
			default: // empty
				raw = []byte{}
			}
			var pk rtp.Packet
			if pk.Unmarshal(raw) == nil {
				// happens to be a well-formed packet: would be a duplicate
				continue
			}
			h.writeRaw("w", 0, raw, -1)
		}
		h.writeRaw("w", 0, s.pkts[i].raw, i)
	}
	h.closeCmp = false
	h.closeAndCheck("sound")
	nontrivial(h)
}

// ---- the known triggers of the pinned sample builder, and N1..N3

func bigVideo(r *tr.Rand, t *tr.Trace, nframes, minPkts int) *trackStream {
	o := vopts(r, t, nframes)
	o.firstKf = 0
	o.mtu = r.Range(40, 300)
	o.minPkts = minPkts
	return genStream(r, o)
}

// K1, trigger 1: the builder is empty and the first packet of a frame
// arrives after a later packet of that frame (and is not in the cache yet)
func k1StartLate(t *tr.Trace, r *tr.Rand, corpus bool) {
	s := bigVideo(r, t, r.Range(4, 12), 3)
	h := newHist(t, r, "k1-start-late", "v", "1", "k1", []*trackStream{s})
	victim := r.Range(1, len(s.frames)-1)
	if corpus {
		victim = 1
	}
	var plan []act
	for i := 0; i < len(s.pkts); i++ {
		p := s.pkts[i]
		if p.frame == victim && p.pos == 0 {
			plan = append(plan, act{kind: aStoreWrite, track: 0, pkt: i + 1}, act{kind: aStoreWrite, track: 0, pkt: i})
			i++
			continue
		}
		plan = append(plan, act{kind: aStoreWrite, track: 0, pkt: i})
	}
	h.run(plan)
	h.closeCmp = false
	h.closeAndCheck("K1a")
	nontrivial(h)
}

// K1, trigger 2: a sustained backlog (one loss the cache cannot fill every
// ~150 packets) lets the ring indices walk around
func k1RingWrap(t *tr.Trace, r *tr.Rand) {
	s := bigVideo(r, t, r.Range(120, 160), 5)
	h := newHist(t, r, "k1-ring-wrap", "v", "0", "k1", []*trackStream{s})
	var plan []act
	next := r.Range(100, 180)
	for i := range s.pkts {
		if i == next && i < len(s.pkts)-1 {
			next += r.Range(120, 200)
			continue
		}
		plan = append(plan, act{kind: aStoreWrite, track: 0, pkt: i})
	}
	h.run(plan)
	h.closeCmp = false
	h.closeAndCheck("K1b")
	nontrivial(h)
}

// K2: an exact duplicate of the newest buffered packet while its frame is
// incomplete
func k2ImmediateDup(t *tr.Trace, r *tr.Rand, corpus bool) {
	s := bigVideo(r, t, r.Range(4, 12), 3)
	h := newHist(t, r, "k2-immediate-dup", "v", "1", "k2", []*trackStream{s})
	victim := r.Range(1, len(s.frames)-1)
	if corpus {
		victim = 1
	}
	var plan []act
	for i, p := range s.pkts {
		plan = append(plan, act{kind: aStoreWrite, track: 0, pkt: i})
		if p.frame == victim && p.pos == 0 {
			plan = append(plan, act{kind: aStoreWrite, track: 0, pkt: i})
		}
	}
	h.run(plan)
	h.closeCmp = false
	h.closeAndCheck("K2")
	nontrivial(h)
}

// N1: a duplicate older than the builder's window (32 audio, 256 video) but
// less than 512 numbers old
func n1OldDup(t *tr.Trace, r *tr.Rand, corpus bool) {
	s := genStream(r, aopts(r, t, r.Range(70, 140)))
	h := newHist(t, r, "n1-old-dup", "a", "1", "n1", []*trackStream{s})
	at := r.Range(50, len(s.pkts)-5)
	old := at - r.Range(34, 48)
	if corpus {
		at, old = 59, 10
	}
	var plan []act
	for i := range s.pkts {
		plan = append(plan, act{kind: aStoreWrite, track: 0, pkt: i})
		if i == at {
			plan = append(plan, act{kind: aStoreWrite, track: 0, pkt: old})
		}
	}
	h.run(plan)
	h.closeCmp = false
	h.closeAndCheck("N1")
	nontrivial(h)
}

// N2: the last packet of the first keyframe arrives after the first packet
// of the next keyframe
func n2KfOvertaken(t *tr.Trace, r *tr.Rand, variantB bool) {
	o := vopts(r, t, r.Range(4, 10))
	o.firstKf = 0
	o.kfEvery = 0
	o.forceKfAt = map[int]bool{1: true}
	o.mtu = r.Range(40, 300)
	o.minPkts = 2
	s := genStream(r, o)
	h := newHist(t, r, "n2-kf-overtaken", "v", "1", "n2", []*trackStream{s})
	var plan []act
	l0 := s.frames[0].first + s.frames[0].n - 1
	if variantB {
		// in order, but the first packet of keyframe 0 is delivered again
		// right after the first packet of keyframe 1: savedKf goes back
		l0 = -1
	}
	for i := 0; i < len(s.pkts); i++ {
		if variantB && i == s.frames[1].first {
			plan = append(plan, act{kind: aStoreWrite, track: 0, pkt: i}, act{kind: aStoreWrite, track: 0, pkt: 0})
			continue
		}
		if i == l0 {
			plan = append(plan, act{kind: aStoreWrite, track: 0, pkt: i + 1}, act{kind: aStoreWrite, track: 0, pkt: i})
			i++
			continue
		}
		plan = append(plan, act{kind: aStoreWrite, track: 0, pkt: i})
	}
	h.run(plan)
	h.closeCmp = false
	h.closeAndCheck("N2")
	nontrivial(h)
}

// N3: the first sender report of the audio track arrives after audio samples
// were written and says that the audio started 100..300 ms later than the
// arrival times suggested
func n3SRShift(t *tr.Trace, r *tr.Rand) {
	vo := vopts(r, t, r.Range(6, 12))
	vo.firstKf = 0
	vs := genStream(r, vo)
	ao := aopts(r, t, r.Range(30, 50))
	ao.tsStep = 960
	as := genStream(r, ao)
	h := newHist(t, r, "n3-sr-shift", "av", "00", "n3", []*trackStream{as, vs})
	var plan []act
	nk := vs.frames[0].n
	for i := 0; i < nk; i++ {
		plan = append(plan, act{kind: aStoreWrite, track: 1, pkt: i})
	}
	for i := 0; i < 12; i++ {
		plan = append(plan, act{kind: aStoreWrite, track: 0, pkt: i})
	}
	n0 := uint64(3900000123) << 32
	shift := uint32(r.Range(4800, 14400))
	plan = append(plan, act{kind: aSR, track: 1, ntp: n0, rtp: vs.frames[0].ts})
	plan = append(plan, act{kind: aSR, track: 0, ntp: n0, rtp: as.frames[0].ts + shift})
	for i := 12; i < len(as.pkts); i++ {
		plan = append(plan, act{kind: aStoreWrite, track: 0, pkt: i})
	}
	for i := nk; i < len(vs.pkts); i++ {
		plan = append(plan, act{kind: aStoreWrite, track: 1, pkt: i})
	}
	h.run(plan)
	h.closeCmp = false
	h.closeAndCheck("N3")
	nontrivial(h)
}

// ------------------------------------------------------------------ disktime, sanitise

func timeHistory(t *tr.Trace, r *tr.Rand) {
	rates := [][]uint32{{48000, 90000}, {90000}, {48000}, {8000, 90000}, {44100, 90000}, {1000, 90000}}[r.Pick(5, 2, 2, 1, 1, 1)]
	var rs []string
	var remotes []conn.UpTrack
	for _, x := range rates {
		rs = append(rs, fmt.Sprint(x))
		remotes = append(remotes, &fakeTrack{codec: webrtc.RTPCodecCapability{ClockRate: x}})
	}
	t.History("disktime", "time", strings.Join(rs, ","))
	vc := diskwriter.VerifNewConn(remotes)
	show := func() string {
		l, set, rem := vc.Conn()
		s := "L=-"
		if set {
			s = fmt.Sprintf("L=%d", l)
		}
		s += fmt.Sprintf(" R=%d:%d ", rem>>32, rem&0xffffffff)
		var parts []string
		for i := range rates {
			st := vc.Track(i)
			o := "-"
			if st.OriginValid {
				o = fmt.Sprint(st.Origin)
			}
			parts = append(parts, fmt.Sprintf("o=%s,n=%d:%d,r=%d", o, st.RemoteNTP>>32, st.RemoteNTP&0xffffffff, st.RemoteRTP))
		}
		return s + strings.Join(parts, ";")
	}
	now := baseNow + int64(r.Intn(1000000000))
	ts := make([]uint32, len(rates))
	for i := range ts {
		ts[i] = startTs(r, t)
	}
	n0 := uint64(3900000000+r.Intn(100000))<<32 | uint64(uint32(r.U64()))
	randNTP := func(i int, x uint32) uint64 {
		switch r.Pick(6, 2, 1) {
		case 0:
			return ntpOf(n0, ts[i], rates[i], x) + uint64(r.Intn(1<<22))
		case 1:
			return ntpOf(n0, ts[i], rates[i], x) + uint64(r.Intn(1<<30))<<4
		default:
			return r.U64()
		}
	}
	nops := r.Range(5, 40)
	for k := 0; k < nops; k++ {
		i := r.Intn(len(rates))
		switch r.Pick(4, 4, 2, 2, 2, 1, 1, 2) {
		case 0:
			now += int64(r.Pick(1, 1, 1)) * int64(r.Intn(2000000000))
			x := ts[i] + uint32(r.Intn(200000))
			if r.Chance(1, 8) {
				x = ts[i] - uint32(r.Intn(200000))
			}
			vc.SetOrigin(i, x, now, rates[i])
			t.Op(show(), "so", i, x, now, rates[i])
		case 1:
			x := ts[i] + uint32(r.Intn(400000))
			if r.Chance(1, 8) {
				x = uint32(r.U64())
			}
			ntp := randNTP(i, x)
			vc.SetTimeOffset(i, ntp, x, rates[i])
			t.Op(show(), "sto", i, ntp>>32, ntp&0xffffffff, x, rates[i])
		case 2:
			x := ts[i] + uint32(r.Intn(400000))
			if r.Chance(1, 6) {
				x = ts[i] - uint32(r.Intn(100000))
			}
			if r.Chance(1, 10) {
				x = uint32(r.U64())
			}
			vc.AdjustOrigin(i, x)
			t.Op(show(), "ao", i, x)
		case 3:
			d := int64(r.U64()>>uint(r.Range(2, 50))) * int64(r.Pick(1, 0, 3)-1)
			if d == 0 {
				d = int64(r.Intn(1000)) - 500
			}
			hz := rates[i]
			if r.Chance(1, 5) {
				hz = uint32(r.Range(1, 1000000))
			}
			t.Op(fmt.Sprint(rtptime.FromDuration(time.Duration(d), hz)), "fd", d, hz)
		case 4:
			tm := int64(int32(r.U64()))
			if r.Bool() {
				tm = int64(r.Intn(100000)) - 50000
			}
			hz := rates[i]
			if r.Chance(1, 5) {
				hz = uint32(r.Range(1, 1000000))
			}
			t.Op(fmt.Sprint(int64(rtptime.ToDuration(tm, hz))), "td", tm, hz)
		case 5:
			ntp := r.U64()
			if r.Bool() {
				ntp = randNTP(i, ts[i])
			}
			ns := rtptime.NTPToTime(ntp).Sub(time.Date(1900, 1, 1, 0, 0, 0, 0, time.UTC))
			t.Op(fmt.Sprint(int64(ns)), "n2t", ntp>>32, ntp&0xffffffff)
		case 6:
			ns := int64(r.U64() >> 2)
			if r.Bool() {
				ns = baseNow + int64(r.Intn(1000000000))
			}
			if r.Chance(1, 8) {
				ns = -int64(r.Intn(2000000000))
			}
			ntp := rtptime.TimeToNTP(time.Date(1900, 1, 1, 0, 0, 0, 0, time.UTC).Add(time.Duration(ns)))
			t.Op(fmt.Sprintf("%d:%d", ntp>>32, ntp&0xffffffff), "t2n", ns)
		default:
			// the container timestamp and its monotonicity (C20_ts_monotone)
			o := uint32(r.U64())
			if r.Bool() {
				o = uint32(0x100000000 - int64(r.Range(1, 300000)))
			}
			rate := rates[i]
			if rate < 1000 {
				rate = 90000
			}
			d1 := uint32(r.Intn(1 << uint(r.Range(1, 31))))
			d2 := d1 + uint32(r.Intn(int(0x7fffffff-d1)))
			tm1 := uint32(o+d1-o) / (rate / 1000)
			tm2 := uint32(o+d2-o) / (rate / 1000)
			t.Op(fmt.Sprint(tm1), "tm", o, rate, o+d1)
			t.Op(fmt.Sprint(tm2), "tm", o, rate, o+d2)
			t.Checked("C20.tm_arith_monotone")
			if tm2 < tm1 {
				t.Fail("C20", "tm_arith_monotone", fmt.Sprintf("origin %d rate %d: ts %d -> %d but ts %d -> %d", o, rate, o+d1, tm1, o+d2, tm2))
			}
		}
	}
	t.Nontrivial(fmt.Sprintf("disktime/%v/%d/%d", rates, nops, ts[0]))
}

func sanitiseHistory(t *tr.Trace, r *tr.Rand) {
	t.History("sanitise", "names")
	alphabet := []byte("ab/\\.%-_ \x00\xc3\xa9")
	for k := 0; k < 30; k++ {
		var s []byte
		if k < len(users) {
			s = []byte(users[k])
		} else {
			n := r.Intn(12)
			for i := 0; i < n; i++ {
				s = append(s, alphabet[r.Intn(len(alphabet))])
			}
		}
		out := diskwriter.VerifSanitise(string(s))
		t.Op(tr.Hex([]byte(out)), "san", s)
		t.Checked("C20.sanitise")
		if strings.ContainsAny(out, "/\\") {
			t.Fail("C20", "sanitise", fmt.Sprintf("sanitise(%q) = %q contains a separator", s, out))
		}
	}
	t.Nontrivial("sanitise")
}

// ------------------------------------------------------------------ main

func runDisk(t *tr.Trace, r *tr.Rand, n int) {
	defer func() {
		if theDir != "" {
			os.RemoveAll(theDir)
		}
	}()
	// regression histories first: the minimal replays of K1, K2, N1, N2, N3
	k1StartLate(t, r, true)
	k2ImmediateDup(t, r, true)
	n1OldDup(t, r, true)
	n2KfOvertaken(t, r, false)
	n3SRShift(t, r)
	h264AggHistory(t, r)
	h264SplitHistory(t, r)
	sanitiseHistory(t, r)
	only := os.Getenv("VERIF_DISK_ONLY") // debugging aid: run one stream only
	for hi := 0; hi < n; hi++ {
		if only != "" {
			switch only {
			case "k1-ring-wrap":
				k1RingWrap(t, r)
			case "unfill":
				soundHistory(t, r, "unfill")
			case "jump":
				jumpHistory(t, r)
			case "time":
				timeHistory(t, r)
			case "malformed":
				malformedHistory(t, r)
			case "flush":
				flushHistory(t, r)
			case "h264-split":
				h264SplitHistory(t, r)
			case "h264-aud-first":
				h264AggHistory(t, r)
			default:
				cleanHistory(t, r, only)
			}
			continue
		}
		switch r.Pick(10, 12, 8, 14, 22, 4, 3, 3, // clean
			6, 5, 2, 4, // sound
			2, 1, 2, 1, 1, 1, // triggers
			8, // origin arithmetic
			3) { // N5
		case 0:
			cleanHistory(t, r, "inorder")
		case 1:
			cleanHistory(t, r, "reorder")
		case 2:
			cleanHistory(t, r, "dup")
		case 3:
			cleanHistory(t, r, "fill")
		case 4:
			cleanHistory(t, r, "mixed")
		case 5:
			cleanHistory(t, r, "sr-first")
		case 6:
			cleanHistory(t, r, "sr-single")
		case 7:
			cleanHistory(t, r, "sr-mid")
		case 8:
			soundHistory(t, r, "unfill")
		case 9:
			jumpHistory(t, r)
		case 10:
			dimsHistory(t, r)
		case 11:
			if r.Bool() {
				malformedHistory(t, r)
			} else {
				flushHistory(t, r)
			}
		case 12:
			k1StartLate(t, r, false)
		case 13:
			k1RingWrap(t, r)
		case 14:
			k2ImmediateDup(t, r, false)
		case 15:
			n1OldDup(t, r, false)
		case 16:
			n2KfOvertaken(t, r, r.Chance(1, 3))
		case 17:
			n3SRShift(t, r)
		case 18:
			timeHistory(t, r)
		default:
			if r.Bool() {
				h264SplitHistory(t, r)
			} else {
				h264AggHistory(t, r)
			}
		}
	}
}

func main() { tr.Main(runDisk) }

// rewrite: codecs.RewritePacket on arbitrary and structured byte strings,
// under recover(), compared with Model/Rewrite.v (C12: never out of bounds,
// never changes the length; C02: touches only seqno, marker, VP8 picture id).
package main

import (
	"fmt"

	"github.com/jech/galene/codecs"

	"verifharness/internal/tr"
)

func doRewrite(t *tr.Trace, codec string, data []byte, sm bool, seq, delta uint16) {
	vp8 := "0"
	if codec == "video/vp8" || codec == "video/VP8" || codec == "VIDEO/vp8" {
		vp8 = "1"
	}
	buf := make([]byte, len(data), len(data)) // cap == len: any overrun panics
	copy(buf, data)
	obs := ""
	func() {
		defer func() {
			if r := recover(); r != nil {
				obs = "PANIC"
				t.Fail("C12", "rewrite_no_panic", fmt.Sprintf("RewritePacket(%s, %s, %v, %d, %d) panicked: %v", codec, tr.Hex(data), sm, seq, delta, r))
			}
		}()
		err := codecs.RewritePacket(codec, buf, sm, seq, delta)
		if err != nil {
			obs = "err"
		} else {
			obs = tr.Hex(buf)
		}
	}()
	t.Checked("C12.rewrite_no_panic")
	t.Op(obs, "rewrite", vp8, data, sm, seq, delta)
	if obs == "err" || obs == "PANIC" {
		return
	}
	t.Checked("C12.rewrite_length")
	if len(buf) != len(data) {
		t.Fail("C12", "rewrite_length", "length changed")
	}
	// C02: only byte 1 top bit, bytes 2-3 and at most two bytes of the
	// payload descriptor may differ
	t.Checked("C02.rewrite_frame")
	n := 0
	for i := range data {
		if data[i] == buf[i] {
			continue
		}
		switch {
		case i == 1:
			if data[1]&0x7F != buf[1]&0x7F || data[1]&0x80 != 0 {
				t.Fail("C02", "rewrite_frame", "byte 1 changed other than setting the marker")
			}
		case i == 2 || i == 3:
		default:
			n++
			if vp8 != "1" {
				t.Fail("C02", "rewrite_frame", fmt.Sprintf("byte %d of a non-VP8 packet changed", i))
			}
		}
	}
	if n > 2 {
		t.Fail("C02", "rewrite_frame", fmt.Sprintf("%d bytes beyond the header changed", n))
	}
}

func runRewrite(t *tr.Trace, r *tr.Rand, n int) {
	codecsList := []string{"video/vp8", "video/VP8", "video/vp9", "video/h264", "audio/opus", ""}
	// corpus: F3 (13 bytes, X bit set, delta != 0) and every truncation of a
	// full VP8 packet with CSRCs and extension
	t.History("rewrite", "corpus")
	doRewrite(t, "video/vp8", []byte{0x90, 0, 0, 0, 0, 0, 0, 0, 0, 0, 0, 0, 0}, false, 1, 1)
	full := []byte{0x92, 0x60, 0, 9, 0, 0, 0, 1, 0, 0, 0x12, 0x34, 1, 2, 3, 4, 5, 6, 7, 8,
		0xBE, 0xDE, 0, 2, 1, 2, 3, 4, 5, 6, 7, 8, 0x90, 0x80, 0xFF, 0xFF, 9, 9, 9, 9}
	for l := 0; l <= len(full); l++ {
		for _, d := range []uint16{0, 1, 65535} {
			doRewrite(t, "video/vp8", full[:l], l%2 == 0, 7, d)
			doRewrite(t, "video/vp9", full[:l], l%2 == 1, 7, d)
		}
	}
	for hi := 0; hi < n; hi++ {
		stream := []string{"random", "structured", "lengthfield"}[r.Pick(2, 3, 1)]
		t.History("rewrite", stream)
		for k := 0; k < 60; k++ {
			codec := codecsList[r.Intn(len(codecsList))]
			if r.Chance(2, 3) {
				codec = "video/vp8"
			}
			var data []byte
			switch stream {
			case "random":
				l := r.Range(0, 40)
				if r.Chance(1, 20) {
					l = r.Range(41, 1504)
				}
				data = r.Bytes(l)
				if l > 0 && r.Chance(3, 4) {
					data[0] = 0x80 | byte(r.Intn(32)) // version 2, random X and CC
				}
			case "structured":
				cc := r.Intn(4)
				b0 := byte(0x80 | cc)
				ext := r.Chance(1, 3)
				if ext {
					b0 |= 0x10
				}
				data = append([]byte{b0, byte(r.Intn(256)), 0, 0}, r.Bytes(8+4*cc)...)
				if ext {
					el := r.Intn(3)
					data = append(data, 0xBE, 0xDE, 0, byte(el))
					data = append(data, r.Bytes(4*el)...)
				}
				d0 := byte(r.Intn(256))
				data = append(data, d0)
				data = append(data, r.Bytes(r.Range(0, 12))...)
				if r.Chance(1, 3) { // truncate anywhere
					data = data[:r.Intn(len(data)+1)]
				}
			default: // extension length field pointing at, before, beyond the end
				data = append([]byte{0x90, 0x60, 0, 0}, r.Bytes(8)...)
				total := r.Range(0, 40)
				el := r.Range(0, 12)
				data = append(data, 0xBE, 0xDE, byte(r.Intn(2)*r.Intn(256)), byte(el))
				data = append(data, r.Bytes(total)...)
			}
			delta := uint16(r.U64())
			if r.Chance(1, 4) {
				delta = 0
			}
			doRewrite(t, codec, data, r.Bool(), uint16(r.U64()), delta)
		}
		t.Nontrivial(fmt.Sprintf("rewrite/%s/%d", stream, hi))
	}
}

func main() { tr.Main(runRewrite) }

// sdpfrag: sdpfrag.SDPFrag.Unmarshal (the parser of WHIP PATCH bodies) on
// structured and arbitrary byte strings, under recover(), compared with
// Model/SdpFrag.v (C12: no client-chosen body makes the parser panic); for
// every body that parses, Marshal, UFragPwd and AllCandidates of the parsed
// fragment (what the PATCH handler calls next) are compared as well.
package main

import (
	"bytes"
	"fmt"
	"strconv"
	"strings"

	"github.com/jech/galene/sdpfrag"
	"github.com/pion/webrtc/v4"

	"verifharness/internal/tr"
)

func hx(s string) string { return tr.Hex([]byte(s)) }

func optS(p *string) string {
	if p == nil {
		return "~"
	}
	return hx(*p)
}

func cands(cs []webrtc.ICECandidateInit) string {
	if len(cs) == 0 {
		return "-"
	}
	var out []string
	for _, c := range cs {
		idx := "~"
		if c.SDPMLineIndex != nil {
			idx = strconv.Itoa(int(*c.SDPMLineIndex))
		}
		out = append(out, hx(c.Candidate)+":"+optS(c.UsernameFragment)+":"+idx+":"+optS(c.SDPMid))
	}
	return strings.Join(out, ",")
}

func canon(f *sdpfrag.SDPFrag) string {
	mds := "-"
	if len(f.MediaDescriptions) > 0 {
		var out []string
		for _, m := range f.MediaDescriptions {
			out = append(out, strings.Join([]string{hx(m.MLine), hx(m.Mid), hx(m.UsernameFragment), hx(m.Password), cands(m.Candidates)}, "|"))
		}
		mds = strings.Join(out, ";")
	}
	return "ok " + hx(f.UsernameFragment) + " " + hx(f.Password) + " " + cands(f.Candidates) + " " + mds
}

// the lines as bufio.ScanLines delivers them, restated independently of the
// code under test (only for bodies whose lines are all short)
func shortLines(data []byte) ([][]byte, bool) {
	var out [][]byte
	for len(data) > 0 {
		i := bytes.IndexByte(data, '\n')
		var l []byte
		if i < 0 {
			l, data = data, nil
		} else {
			l, data = data[:i], data[i+1:]
		}
		if len(l) >= 65536 {
			return out, false
		}
		if len(l) > 0 && l[len(l)-1] == '\r' {
			l = l[:len(l)-1]
		}
		out = append(out, l)
	}
	return out, true
}

// guarded runs fn under recover(); a panic is a C12 violation
func guarded(t *tr.Trace, what string, data []byte, fn func() string) string {
	obs := ""
	func() {
		defer func() {
			if r := recover(); r != nil {
				obs = "PANIC"
				show := data
				if len(show) > 200 {
					show = show[:200]
				}
				t.Fail("C12", "sdpfrag_derived_no_panic", fmt.Sprintf("%s of the fragment parsed from %q panicked: %v", what, show, r))
			}
		}()
		obs = fn()
	}()
	t.Checked("C12.sdpfrag_derived_no_panic")
	return obs
}

// doDerived: the three functions the PATCH handler (and the ICE restart) run
// on a parsed fragment.  Each op carries the body the fragment was parsed from.
func doDerived(t *tr.Trace, f *sdpfrag.SDPFrag, data []byte) {
	before := canon(f)
	var out []byte
	obs := guarded(t, "Marshal", data, func() string {
		b, err := f.Marshal()
		if err != nil {
			return "err"
		}
		out = b
		return tr.Hex(b)
	})
	t.Op(obs, "marshal", data)
	if obs != "PANIC" && obs != "err" {
		// monitor, independent of the model: what Marshal writes is made of
		// CRLF-terminated lines, as many as the fragment has printed fields
		// (no value of the body adds a line to the server's answer)
		t.Checked("C12.sdpfrag_marshal_lines")
		want := len(f.Candidates)
		if f.UsernameFragment != "" {
			want++
		}
		if f.Password != "" {
			want++
		}
		for _, m := range f.MediaDescriptions {
			want += 2 + len(m.Candidates)
			if m.UsernameFragment != "" {
				want++
			}
			if m.Password != "" {
				want++
			}
		}
		if n := bytes.Count(out, []byte("\n")); n != want || bytes.Count(out, []byte("\r\n")) < want ||
			(len(out) > 0 && !bytes.HasSuffix(out, []byte("\r\n"))) {
			t.Fail("C12", "sdpfrag_marshal_lines", fmt.Sprintf("Marshal wrote %d line feeds for %d fields", n, want))
		}
	}
	obs = guarded(t, "UFragPwd", data, func() string {
		u, p := f.UFragPwd()
		return hx(u) + " " + hx(p)
	})
	t.Op(obs, "ufragpwd", data)
	obs = guarded(t, "AllCandidates", data, func() string {
		return cands(f.AllCandidates())
	})
	t.Op(obs, "allcands", data)
	// the three functions only read the fragment
	t.Checked("C12.sdpfrag_derived_readonly")
	if canon(f) != before {
		t.Fail("C12", "sdpfrag_derived_readonly", "Marshal/UFragPwd/AllCandidates changed the fragment")
	}
}

func doUnmarshal(t *tr.Trace, data []byte) {
	buf := make([]byte, len(data), len(data))
	copy(buf, data)
	obs := ""
	var f sdpfrag.SDPFrag
	func() {
		defer func() {
			if r := recover(); r != nil {
				obs = "PANIC"
				show := data
				if len(show) > 200 {
					show = show[:200]
				}
				t.Fail("C12", "sdpfrag_no_panic", fmt.Sprintf("SDPFrag.Unmarshal(%q) panicked: %v", show, r))
			}
		}()
		err := f.Unmarshal(buf)
		if err != nil {
			obs = "err"
		} else {
			obs = canon(&f)
		}
	}()
	t.Checked("C12.sdpfrag_no_panic")
	t.Op(obs, "unmarshal", data)
	t.Checked("C12.sdpfrag_readonly")
	if !bytes.Equal(buf, data) {
		t.Fail("C12", "sdpfrag_readonly", "the body was modified")
	}
	if obs == "PANIC" {
		return
	}
	if obs != "err" {
		doDerived(t, &f, data)
	}
	// independent restatement of two facts: the error is "a mid before the
	// first m= line"; every candidate line is kept, in order
	lines, all := shortLines(data)
	midFirst := false
	seenM := false
	var wantC []string
	for _, l := range lines {
		switch {
		case bytes.HasPrefix(l, []byte("a=ice-ufrag:")), bytes.HasPrefix(l, []byte("a=ice-pwd:")):
		case bytes.HasPrefix(l, []byte("m=")):
			seenM = true
		case bytes.HasPrefix(l, []byte("a=mid:")):
			if !seenM {
				midFirst = true
			}
		case bytes.HasPrefix(l, []byte("a=candidate:")):
			wantC = append(wantC, string(l[len("a=candidate:"):]))
		}
		if midFirst {
			break
		}
	}
	t.Checked("C12.sdpfrag_error_iff")
	if (obs == "err") != midFirst {
		t.Fail("C12", "sdpfrag_error_iff", fmt.Sprintf("error=%v but a mid line before the first m= line: %v", obs == "err", midFirst))
	}
	if obs != "err" && all {
		t.Checked("C12.sdpfrag_candidates_kept")
		var got []string
		for _, c := range f.AllCandidates() {
			got = append(got, c.Candidate)
		}
		// AllCandidates lists the session-level ones first; compare as multisets in order per level
		if len(got) != len(wantC) {
			t.Fail("C12", "sdpfrag_candidates_kept", fmt.Sprintf("%d candidate lines, %d candidates returned", len(wantC), len(got)))
		}
	}
}

var prefixes = []string{"a=ice-ufrag:", "a=ice-pwd:", "m=", "a=mid:", "a=candidate:", "a=end-of-candidates", "a=", "m", "", "a=ice-ufrag", "A=MID:", " a=mid:", "a=mid", "c=IN IP4 0.0.0.0"}

func genLine(r *tr.Rand) []byte {
	p := prefixes[r.Pick(6, 5, 8, 8, 10, 2, 2, 1, 2, 1, 1, 1, 1, 1)]
	var v []byte
	switch r.Pick(6, 3, 1, 1) {
	case 0:
		v = []byte([]string{"abcd", "0", "audio 9 UDP/TLS/RTP/SAVPF 111", "1 1 udp 2130706431 192.0.2.1 5000 typ host", "x", "video 9 x 96"}[r.Intn(6)])
	case 1:
		v = nil
	case 2:
		v = r.Bytes(r.Range(0, 12))
	case 3:
		v = []byte("a=mid:nested m= a=candidate:")
	}
	l := append([]byte(p), v...)
	// the generator's own line feeds would split the line: that is a different (also valid) body
	return l
}

func genBody(r *tr.Rand) []byte {
	var b []byte
	n := r.Range(0, 12)
	for i := 0; i < n; i++ {
		b = append(b, genLine(r)...)
		switch r.Pick(6, 4, 1, 1) {
		case 0:
			b = append(b, '\r', '\n')
		case 1:
			b = append(b, '\n')
		case 2:
			b = append(b, '\r', '\r', '\n')
		case 3:
			if i == n-1 {
				// unterminated last line
			} else {
				b = append(b, '\r') // a bare CR does not end a line
			}
		}
	}
	return b
}

func runSdpfrag(t *tr.Trace, r *tr.Rand, n int) {
	t.History("sdpfrag", "corpus")
	for _, s := range []string{"", "\n", "\r\n", "a=mid:0", "a=mid:0\r\n", "m=x\r\na=mid:0\r\n", "a=candidate:c\r\na=mid:0\r\n",
		"a=ice-ufrag:u\r\na=ice-pwd:p\r\na=candidate:c0\r\nm=audio\r\na=mid:0\r\na=ice-ufrag:v\r\na=candidate:c1\r\nm=video\r\na=candidate:c2\r\na=mid:1\r\n",
		"a=ice-ufrag:\r\na=candidate:c\r\n", "m=\r\nm=\r\nm=", "a=mid:\r", "\ra=mid:0\n", "a=ice-pwd:p\nm=a\na=ice-pwd:q\na=ice-ufrag:w",
		"a=ice-ufrag:a=mid:0\r\n", "m=a=mid:\r\na=mid:m=\r\n"} {
		doUnmarshal(t, []byte(s))
	}
	t.Nontrivial("corpus")
	// the scanner's buffer: lines of 65534..65537 bytes, terminated or not, first or later
	t.History("sdpfrag", "long-lines")
	for _, k := range []int{65523, 65524, 65525, 65535, 65536} {
		for _, tail := range []string{"", "\n", "\r\n", "\nm=x\na=mid:1\n"} {
			for _, head := range []string{"", "a=ice-ufrag:u\n", "a=mid:0\n"} {
				body := head + "a=candidate:" + strings.Repeat("c", k) + tail
				doUnmarshal(t, []byte(body))
			}
		}
	}
	t.Nontrivial("long-lines")
	// more than 65536 media sections: the m-line index is a uint16
	// (the model appends to the end of a list: quadratic, about 90 s; thorough and search tiers only)
	if n >= 1000 {
		t.History("sdpfrag", "many-sections")
		doUnmarshal(t, []byte(strings.Repeat("m=\n", 65537)+"a=mid:x\na=candidate:c\n"))
		t.Nontrivial("many-sections")
	}
	t.History("sdpfrag", "some-sections")
	doUnmarshal(t, []byte(strings.Repeat("m=\na=candidate:c\n", 300)+"a=mid:x\na=candidate:c\n"))
	for h := 0; h < n; h++ {
		stream := []string{"structured", "random", "mutated"}[r.Pick(6, 1, 2)]
		t.History("sdpfrag", stream)
		for i := 0; i < 40; i++ {
			var body []byte
			switch stream {
			case "structured":
				body = genBody(r)
			case "random":
				body = r.Bytes(r.Range(0, 60))
			case "mutated":
				body = genBody(r)
				for k := r.Range(1, 3); k > 0 && len(body) > 0; k-- {
					switch r.Intn(3) {
					case 0:
						body[r.Intn(len(body))] = byte(r.Intn(256))
					case 1:
						p := r.Intn(len(body))
						body = append(body[:p:p], body[p+1:]...)
					case 2:
						p := r.Intn(len(body) + 1)
						body = append(body[:p:p], append([]byte{"\n\r:=am"[r.Intn(6)]}, body[p:]...)...)
					}
				}
			}
			doUnmarshal(t, body)
		}
		t.Nontrivial(fmt.Sprintf("%s-%d", stream, h%50))
	}
}

func main() { tr.Main(runSdpfrag) }

// flags: codecs.PacketFlags on structured and malformed VP8/VP9 packets,
// compared with Model/Flags.v (which also covers the pion/rtp depacketisers
// it calls).  Independent monitors: for every packet built from a descriptor
// the flags must be the descriptor's fields (C04: what "start of a frame",
// "keyframe", "temporal/spatial layer", "up-switch point" mean is decided
// here); PacketFlags never panics (C12).
package main

import (
	"fmt"

	"github.com/jech/galene/codecs"

	"verifharness/internal/tr"
)

type want struct {
	known                                  bool
	start, end, kf, tidUp, sidUp, nonref, disc bool
	pid                                    uint16
	tid, sid                               uint8
}

func doFlags(t *tr.Trace, codec string, data []byte, w want) {
	short := map[string]string{"video/vp8": "vp8", "video/VP8": "vp8", "video/vp9": "vp9", "VIDEO/VP9": "vp9"}[codec]
	if short == "" {
		short = "other"
	}
	buf := make([]byte, len(data), len(data))
	copy(buf, data)
	obs := ""
	var f codecs.Flags
	var err error
	func() {
		defer func() {
			if r := recover(); r != nil {
				obs = "PANIC"
				t.Fail("C12", "flags_no_panic", fmt.Sprintf("PacketFlags(%s, %s) panicked: %v", codec, tr.Hex(data), r))
			}
		}()
		f, err = codecs.PacketFlags(codec, buf)
	}()
	t.Checked("C12.flags_no_panic")
	if obs == "" {
		if err != nil {
			obs = "err"
		} else {
			obs = fmt.Sprintf("%d %s %s %s %s %d %d %d %s %s %s %s", f.Seqno, tr.B(f.Marker), tr.B(f.Start), tr.B(f.End),
				tr.B(f.Keyframe), f.Pid, f.Tid, f.Sid, tr.B(f.TidUpSync), tr.B(f.SidUpSync), tr.B(f.SidNonReference), tr.B(f.Discardable))
		}
	}
	if short != "other" && len(data) >= 4 && data[0]&0x10 != 0 && obs != "PANIC" {
		// header extension: outside the model (the receive loop strips it)
		t.Note("unmodelled-extension")
		obs = "unmodelled"
	}
	t.Op(obs, "flags", short, data)
	for i := range data {
		if data[i] != buf[i] {
			t.Fail("C02", "flags_readonly", "PacketFlags modified its argument")
			break
		}
	}
	t.Checked("C02.flags_readonly")
	if !w.known || obs == "unmodelled" {
		return
	}
	t.Checked("C04.flags_spec")
	if err != nil {
		t.Fail("C04", "flags_spec", fmt.Sprintf("well-formed %s packet %s refused: %v", short, tr.Hex(data), err))
		return
	}
	got := want{true, f.Start, f.End, f.Keyframe, f.TidUpSync, f.SidUpSync, f.SidNonReference, f.Discardable, f.Pid, f.Tid, f.Sid}
	if got != w {
		t.Fail("C04", "flags_spec", fmt.Sprintf("%s packet %s: flags %+v, descriptor says %+v", short, tr.Hex(data), got, w))
	}
}

func rtpHeader(r *tr.Rand, marker bool) []byte {
	cc := 0
	if r.Chance(1, 6) {
		cc = r.Range(1, 3)
	}
	b1 := byte(r.Intn(128))
	if marker {
		b1 |= 0x80
	}
	h := []byte{byte(0x80 | cc), b1, byte(r.Intn(256)), byte(r.Intn(256))}
	h = append(h, r.Bytes(8+4*cc)...)
	return h
}

// VP8 packet from a random descriptor (RFC 7741)
func genVP8(r *tr.Rand) ([]byte, want) {
	marker := r.Bool()
	p := rtpHeader(r, marker)
	s := r.Chance(2, 3)
	partid := 0
	if r.Chance(1, 3) {
		partid = r.Range(1, 7)
	}
	n := r.Chance(1, 4)
	hasI, hasL, hasT, hasK := r.Chance(3, 4), r.Chance(1, 3), r.Chance(2, 3), r.Chance(1, 4)
	x := hasI || hasL || hasT || hasK
	b0 := byte(partid)
	if x {
		b0 |= 0x80
	}
	if n {
		b0 |= 0x20
	}
	if s {
		b0 |= 0x10
	}
	if r.Chance(1, 8) {
		b0 |= 0x48 // reserved bits
	}
	p = append(p, b0)
	var w want
	w.known = true
	if x {
		var b1 byte
		if hasI {
			b1 |= 0x80
		}
		if hasL {
			b1 |= 0x40
		}
		if hasT {
			b1 |= 0x20
		}
		if hasK {
			b1 |= 0x10
		}
		p = append(p, b1|byte(r.Intn(2)*r.Intn(16)))
		if hasI {
			if r.Bool() {
				pid := uint16(r.Intn(32768))
				if r.Chance(1, 4) {
					pid = uint16([]int{0, 127, 128, 32767}[r.Intn(4)])
				}
				p = append(p, 0x80|byte(pid>>8), byte(pid))
				w.pid = pid
			} else {
				pid := uint16(r.Intn(128))
				p = append(p, byte(pid))
				w.pid = pid
			}
		}
		if hasL {
			p = append(p, byte(r.Intn(256)))
		}
		if hasT || hasK {
			tid := r.Intn(4)
			y := r.Bool()
			b := byte(tid<<6) | byte(r.Intn(32))
			if y {
				b |= 0x20
			}
			p = append(p, b)
			if hasT {
				w.tid = uint8(tid)
				w.tidUp = y
			}
		}
	}
	pl := r.Bytes(r.Range(0, 6))
	if len(pl) > 0 && r.Bool() {
		pl[0] &^= 1 // key frame bit clear = key frame
	}
	p = append(p, pl...)
	w.start = s && partid == 0
	w.end = marker
	w.kf = w.start && len(pl) > 0 && pl[0]&1 == 0
	w.tidUp = w.tidUp || w.kf
	w.sidUp = w.kf
	w.disc = n
	return p, w
}

// VP9 packet from a random descriptor (draft-ietf-payload-vp9)
func genVP9(r *tr.Rand) ([]byte, want) {
	marker := r.Bool()
	p := rtpHeader(r, marker)
	fI, fP, fL, fF, fB, fE, fV, fZ := r.Chance(3, 4), r.Bool(), r.Chance(3, 4), r.Chance(1, 3), r.Bool(), r.Bool(), r.Chance(1, 6), r.Chance(1, 4)
	var b0 byte
	for i, f := range []bool{fI, fP, fL, fF, fB, fE, fV, fZ} {
		if f {
			b0 |= 0x80 >> i
		}
	}
	p = append(p, b0)
	var w want
	w.known = true
	if fI {
		if r.Bool() {
			p = append(p, 0x80|byte(r.Intn(128)), byte(r.Intn(256)))
		} else {
			p = append(p, byte(r.Intn(128)))
		}
	}
	if fL {
		tid, u, sid, d := r.Intn(8), r.Bool(), r.Intn(5), r.Bool()
		b := byte(tid<<5) | byte(sid<<1)
		if u {
			b |= 0x10
		}
		if d {
			b |= 1
		}
		p = append(p, b)
		w.tid, w.sid, w.tidUp = uint8(tid), uint8(sid), u
		if !fF {
			p = append(p, byte(r.Intn(256)))
		}
	}
	if fF && fP {
		k := r.Range(1, 3)
		for i := 0; i < k; i++ {
			b := byte(r.Intn(128) << 1)
			if i < k-1 {
				b |= 1
			}
			p = append(p, b)
		}
	}
	if fV {
		ns := r.Intn(3)
		y, g := r.Bool(), r.Bool()
		b := byte(ns << 5)
		if y {
			b |= 0x10
		}
		if g {
			b |= 0x08
		}
		p = append(p, b)
		if y {
			p = append(p, r.Bytes(4*(ns+1))...)
		}
		if g {
			ng := r.Intn(4)
			p = append(p, byte(ng))
			for i := 0; i < ng; i++ {
				ref := r.Intn(4)
				p = append(p, byte(r.Intn(8)<<5)|byte(r.Intn(2)<<4)|byte(ref<<2))
				p = append(p, r.Bytes(ref)...)
			}
		}
	}
	pl := r.Bytes(r.Range(1, 6))
	switch r.Intn(4) {
	case 0: // key frame, profile 0-2
		pl[0] = 0x80 | byte(r.Intn(3)<<4) | byte(r.Intn(4))
	case 1: // non-key frame
		pl[0] = 0x80 | byte(r.Intn(3)<<4) | 0x04 | byte(r.Intn(4))
	case 2: // profile 3
		pl[0] = 0x80 | 0x30 | byte(r.Intn(16))
	}
	p = append(p, pl...)
	w.start, w.end = fB, fE
	if fB && pl[0]&0xC0 == 0x80 {
		if (pl[0]>>4)&3 != 3 {
			w.kf = pl[0]&0x0C == 0
		} else {
			w.kf = pl[0]&0x06 == 0
		}
	}
	w.tidUp = w.tidUp || w.kf
	w.sidUp = w.kf || !fP
	w.nonref = fZ
	return p, w
}

func runFlags(t *tr.Trace, r *tr.Rand, n int) {
	// corpus: every truncation of one full packet of each kind; S=1 with a
	// non-zero partition index is not a frame start
	t.History("flags", "corpus")
	v8 := []byte{0x81, 0xE0, 0, 9, 0, 0, 0, 1, 0, 0, 0x12, 0x34, 1, 2, 3, 4, 0xB0, 0xF0, 0x81, 0x02, 7, 0x60, 0x10, 0x11}
	v9 := []byte{0x80, 0x60, 0, 9, 0, 0, 0, 1, 0, 0, 0x12, 0x34, 0xFE, 0x81, 0x02, 0x53, 0x03, 0x02, 0x58, 1, 2, 3, 4, 5, 6, 7, 8, 2, 0x44, 9, 0x28, 8, 7, 0x82, 1}
	for l := 0; l <= len(v8); l++ {
		doFlags(t, "video/vp8", v8[:l], want{})
	}
	for l := 0; l <= len(v9); l++ {
		doFlags(t, "video/vp9", v9[:l], want{})
	}
	doFlags(t, "video/vp8", []byte{0x80, 0x60, 0, 9, 0, 0, 0, 1, 0, 0, 0x12, 0x34, 0x11, 0x00, 0x00},
		want{known: true})
	doFlags(t, "video/vp8", []byte{0x80, 0x60, 0, 9, 0, 0, 0, 1, 0, 0, 0x12, 0x34, 0x10, 0x00, 0x00},
		want{known: true, start: true, kf: true, tidUp: true, sidUp: true})
	// padding
	doFlags(t, "video/vp8", []byte{0xA0, 0x60, 0, 9, 0, 0, 0, 1, 0, 0, 0x12, 0x34, 0x10, 0x00, 0x00, 2}, want{})
	doFlags(t, "video/vp8", []byte{0xA0, 0x60, 0, 9, 0, 0, 0, 1, 0, 0, 0x12, 0x34, 0x10, 0x00, 0x00, 0}, want{})
	doFlags(t, "video/vp8", []byte{0xA0, 0x60, 0, 9, 0, 0, 0, 1, 0, 0, 0x12, 0x34, 0x10, 0x00, 0x00, 9}, want{})
	doFlags(t, "video/vp9", []byte{0xA0, 0x60, 0, 9, 0, 0, 0, 1, 0, 0, 0x12, 0x34, 0x08, 0x80, 4}, want{})
	for hi := 0; hi < n; hi++ {
		stream := []string{"vp8", "vp9", "truncated", "random", "padded"}[r.Pick(4, 4, 3, 2, 1)]
		t.History("flags", stream)
		for k := 0; k < 60; k++ {
			switch stream {
			case "vp8":
				p, w := genVP8(r)
				doFlags(t, []string{"video/vp8", "video/VP8"}[r.Intn(2)], p, w)
			case "vp9":
				p, w := genVP9(r)
				doFlags(t, []string{"video/vp9", "VIDEO/VP9"}[r.Intn(2)], p, w)
			case "truncated":
				var p []byte
				codec := "video/vp8"
				if r.Bool() {
					p, _ = genVP8(r)
				} else {
					p, _ = genVP9(r)
					codec = "video/vp9"
				}
				doFlags(t, codec, p[:r.Intn(len(p)+1)], want{})
			case "random":
				l := r.Range(0, 30)
				p := r.Bytes(l)
				if l > 0 && r.Chance(3, 4) {
					p[0] = 0x80 | byte(r.Intn(4)) | byte(r.Intn(2)*r.Intn(2)<<4) | byte(r.Intn(2)*r.Intn(2)<<5)
				}
				doFlags(t, []string{"video/vp8", "video/vp9", "video/h264", "audio/opus"}[r.Pick(3, 3, 1, 1)], p, want{})
			default:
				var p []byte
				codec := "video/vp8"
				if r.Bool() {
					p, _ = genVP8(r)
				} else {
					p, _ = genVP9(r)
					codec = "video/vp9"
				}
				p[0] |= 0x20
				pad := r.Range(0, 6)
				p = append(p, r.Bytes(pad)...)
				p[len(p)-1] = byte([]int{pad, pad, pad + 1, 0, len(p) - 12, len(p)}[r.Intn(6)])
				doFlags(t, codec, p, want{})
			}
		}
		t.Nontrivial(fmt.Sprintf("flags/%s/%d", stream, hi))
	}
}

func main() { tr.Main(runFlags) }

// Driver `descstore` (property C18): the real group-definition store
// (group.UpdateDescription, DeleteDescription, UpdateUser, DeleteUser,
// SetUserPassword, SetKeys, GetDescriptionTag, GetUserTag) and the real API
// handler (webserver apiHandler) on a temporary directory, against
// Model/DescStore.v, with monitors that state the property on the
// implementation's behaviour alone:
//
//	C18.exclusive       an acknowledged conditional write carried the tag that
//	                    was current; a stale tag is refused
//	C18.no_lost_update  every acknowledged write is visible until a later
//	                    acknowledged write; refused writes change nothing
//	C18.race_exclusive  N goroutines with the same tag: at most one succeeds
//	                    (exactly one if the tag is current); creation with the
//	                    empty tag / If-None-Match: * succeeds at most once
//	C18.atomic_reader   a concurrent reader sees a complete definition
//	C18.content_matches_tag  one writer, eight readers (GetSanitisedDescription
//	                    and GET through apiHandler): every (definition, tag)
//	                    pair served is a pair that was written
//	C18.lockstep_serial the driver holds groups.mu, writer B parks on it, then
//	                    request A (every update function, direct or through
//	                    apiHandler) parks behind B; released, the outcome must
//	                    be that of B then A: no acknowledged update undone, a
//	                    deleted group does not reappear
//	(stream loaded)     the group is loaded in the running server (group.Add):
//	                    same-size and same-mtime rewrites; GET with and without
//	                    trailing slash must serve the current definition and
//	                    tag (content_matches_tag), 304 only for the current tag
//	C18.atomic          a child process killed (strace, SIGKILL on syscall
//	                    entry) before every file-related system call of one
//	                    update leaves the complete old or the complete new
//	                    definition, readable after "restart"; *.temp leftovers
//	                    are not listed as groups
//	C18.syscall_order   the system calls of one update are create temp, write,
//	                    fsync, close, rename (compared with the model)
//
// The property's hypothesis (versions differ in size or mtime) is established
// by os.Chtimes after every acknowledged write, except in the stream
// `natural`, which counts how often the filesystem's own stamps collide.
package main

import (
	"bytes"
	"encoding/json"
	"errors"
	"fmt"
	"io"
	"log"
	"net/http"
	"net/http/httptest"
	"os"
	"os/exec"
	"path/filepath"
	"regexp"
	"runtime"
	"sort"
	"strconv"
	"strings"
	"sync"
	"time"

	"github.com/jech/galene/group"
	"github.com/jech/galene/webserver"

	"verifharness/internal/tr"
)

var permNames = []string{"op", "present", "message", "observe"}

const groupName = "g"

// ---------------------------------------------------------------- payloads

func descOf(d int) *group.Description {
	return &group.Description{
		DisplayName: fmt.Sprintf("d%d", d),
		Description: strings.Repeat("x", d%5),
	}
}

func descJSON(d int) string {
	return fmt.Sprintf(`{"displayName":"d%d","description":"%s"}`, d, strings.Repeat("x", d%5))
}

func userOf(perm int) *group.UserDescription {
	p, err := group.NewPermissions(permNames[perm])
	if err != nil {
		panic(err)
	}
	return &group.UserDescription{Permissions: p}
}

func pwOf(pw int) group.Password {
	if pw == 0 {
		return group.Password{}
	}
	k := fmt.Sprintf("pw%d", pw)
	return group.Password{Type: "plain", Key: &k}
}

func keysOf(k int) []map[string]any {
	if k == 0 {
		return nil
	}
	return []map[string]any{{
		"kty": "oct", "alg": "HS256", "kid": fmt.Sprintf("k%d", k),
		"k": "4S9YZLHK1traIaXQooCnPfBw_yR8j9VEPaAMWAog_YQ",
	}}
}

func userName(t int) (string, bool) {
	if t < 0 {
		return "", true
	}
	return fmt.Sprintf("u%d", t), false
}

// ---------------------------------------------------------------- projection

type uproj struct{ perm, pw int }

type proj struct {
	exists bool
	d      int
	users  map[int]uproj
	wild   *uproj
	keys   int
}

func (p *proj) clone() *proj {
	q := &proj{exists: p.exists, d: p.d, keys: p.keys, users: map[int]uproj{}}
	for k, v := range p.users {
		q.users[k] = v
	}
	if p.wild != nil {
		w := *p.wild
		q.wild = &w
	}
	return q
}

func (p *proj) String() string {
	if !p.exists {
		return "absent"
	}
	ids := make([]int, 0, len(p.users))
	for k := range p.users {
		ids = append(ids, k)
	}
	sort.Ints(ids)
	us := make([]string, 0, len(ids))
	for _, k := range ids {
		us = append(us, fmt.Sprintf("%d:%d:%d", k, p.users[k].perm, p.users[k].pw))
	}
	u := "-"
	if len(us) > 0 {
		u = strings.Join(us, ",")
	}
	w := "-"
	if p.wild != nil {
		w = fmt.Sprintf("%d:%d", p.wild.perm, p.wild.pw)
	}
	return fmt.Sprintf("d=%d u=%s w=%s k=%d", p.d, u, w, p.keys)
}

func parseUser(raw map[string]json.RawMessage) (uproj, error) {
	var u uproj
	if r, ok := raw["permissions"]; ok {
		var s string
		if err := json.Unmarshal(r, &s); err != nil {
			return u, err
		}
		u.perm = -1
		for i, n := range permNames {
			if n == s {
				u.perm = i
			}
		}
	}
	if r, ok := raw["password"]; ok {
		var s string
		if err := json.Unmarshal(r, &s); err != nil {
			return u, err
		}
		n, err := strconv.Atoi(strings.TrimPrefix(s, "pw"))
		if err != nil {
			return u, err
		}
		u.pw = n
	}
	return u, nil
}

// readProj parses the definition file itself (complete JSON or an error).
func readProj(file string) (*proj, []byte, error) {
	b, err := os.ReadFile(file)
	if errors.Is(err, os.ErrNotExist) {
		return &proj{users: map[int]uproj{}}, nil, nil
	}
	if err != nil {
		return nil, nil, err
	}
	p, err := parseProj(b)
	return p, b, err
}

func parseProj(b []byte) (*proj, error) {
	var raw struct {
		DisplayName string                                `json:"displayName"`
		Description string                                `json:"description"`
		Users       map[string]map[string]json.RawMessage `json:"users"`
		Wildcard    map[string]json.RawMessage            `json:"wildcard-user"`
		AuthKeys    []map[string]any                      `json:"authKeys"`
	}
	dec := json.NewDecoder(bytes.NewReader(b))
	dec.DisallowUnknownFields()
	if err := dec.Decode(&raw); err != nil {
		return nil, err
	}
	if _, err := dec.Token(); err != io.EOF {
		return nil, errors.New("trailing data after the definition")
	}
	p := &proj{exists: true, users: map[int]uproj{}}
	d, err := strconv.Atoi(strings.TrimPrefix(raw.DisplayName, "d"))
	if err != nil {
		return nil, fmt.Errorf("displayName %q", raw.DisplayName)
	}
	p.d = d
	if raw.Description != strings.Repeat("x", d%5) {
		return nil, fmt.Errorf("description %q does not belong to displayName %q", raw.Description, raw.DisplayName)
	}
	for name, u := range raw.Users {
		id, err := strconv.Atoi(strings.TrimPrefix(name, "u"))
		if err != nil {
			return nil, err
		}
		up, err := parseUser(u)
		if err != nil {
			return nil, err
		}
		p.users[id] = up
	}
	if raw.Wildcard != nil {
		up, err := parseUser(raw.Wildcard)
		if err != nil {
			return nil, err
		}
		p.wild = &up
	}
	if len(raw.AuthKeys) > 0 {
		kid, _ := raw.AuthKeys[0]["kid"].(string)
		n, err := strconv.Atoi(strings.TrimPrefix(kid, "k"))
		if err != nil {
			return nil, err
		}
		p.keys = n
	}
	return p, nil
}

func (p *proj) target(t int) *uproj {
	if t < 0 {
		return p.wild
	}
	if u, ok := p.users[t]; ok {
		return &u
	}
	return nil
}

func (p *proj) setTarget(t int, u uproj) {
	if t < 0 {
		p.wild = &u
	} else {
		p.users[t] = u
	}
}

func (p *proj) delTarget(t int) {
	if t < 0 {
		p.wild = nil
	} else {
		delete(p.users, t)
	}
}

// ---------------------------------------------------------------- history

type hist struct {
	t        *tr.Trace
	r        *tr.Rand
	dir      string // group.Directory
	file     string
	writable bool
	natural  bool // do not touch the stamps
	clock    int64
	exp      *proj    // what the acknowledged writes so far amount to
	seenTags []string // tags served so far (for stale tags)
	stamps   map[string]bool
	hypoOK   bool // all versions so far had different stamps
	acks     int
	stale    int
	// loaded stream
	keepMtime bool  // the next version keeps the mtime if its size differs
	lastSize  int64 // size of the previous version
	lastMtime int64
	prevTag   string
}

var baseDir string
var histSeq int

func classify(err error) string {
	switch {
	case err == nil:
		return "ok"
	case errors.Is(err, group.ErrTagMismatch):
		return "mismatch"
	case errors.Is(err, os.ErrNotExist):
		return "notexist"
	case errors.Is(err, group.ErrDescriptionsNotWritable):
		return "notwritable"
	}
	var na *group.NotAuthorisedError
	if errors.As(err, &na) {
		return "notwritable"
	}
	return "other:" + strings.ReplaceAll(err.Error(), " ", "_")
}

func newHist(t *tr.Trace, r *tr.Rand, stream string, writable, natural bool) *hist {
	histSeq++
	root := filepath.Join(baseDir, fmt.Sprintf("h%d", histSeq))
	dir := filepath.Join(root, "groups")
	data := filepath.Join(root, "data")
	os.MkdirAll(dir, 0700)
	os.MkdirAll(data, 0700)
	conf := fmt.Sprintf(`{"writableGroups": %v, "users": {"root": {"password": "pw", "permissions": "admin"}}}`, writable)
	if err := os.WriteFile(filepath.Join(data, "config.json"), []byte(conf), 0600); err != nil {
		panic(err)
	}
	group.Directory = dir
	group.DataDirectory = data
	t.History("descstore", stream, tr.B(writable))
	return &hist{t: t, r: r, dir: dir, file: filepath.Join(dir, groupName+".json"),
		writable: writable, natural: natural, clock: 1700000000000000000 + int64(r.Intn(1000000000)),
		exp: &proj{users: map[int]uproj{}}, stamps: map[string]bool{}, hypoOK: true}
}

// seed writes an initial definition directly (a hand-written file, as an
// administrator would): the store functions cannot create users' passwords.
func (h *hist) seed(p *proj) {
	type ud struct {
		Password    string `json:"password,omitempty"`
		Permissions string `json:"permissions"`
	}
	m := map[string]any{"displayName": fmt.Sprintf("d%d", p.d), "description": strings.Repeat("x", p.d%5)}
	mk := func(u uproj) ud {
		x := ud{Permissions: permNames[u.perm]}
		if u.pw != 0 {
			x.Password = fmt.Sprintf("pw%d", u.pw)
		}
		return x
	}
	if len(p.users) > 0 {
		us := map[string]ud{}
		for k, u := range p.users {
			us[fmt.Sprintf("u%d", k)] = mk(u)
		}
		m["users"] = us
	}
	if p.wild != nil {
		m["wildcard-user"] = mk(*p.wild)
	}
	if p.keys != 0 {
		m["authKeys"] = keysOf(p.keys)
	}
	b, _ := json.Marshal(m)
	if err := os.WriteFile(h.file, append(b, '\n'), 0600); err != nil {
		panic(err)
	}
	p.exists = true
	h.exp = p.clone()
	size, mtime := h.restamp()
	// the model learns the seeded content through ordinary ops on an absent file
	h.t.Op("ok", "seed", p.d, h.usersArg(p), h.wildArg(p), p.keys, size, mtime)
}

func (h *hist) usersArg(p *proj) string {
	s := p.String()
	return strings.TrimPrefix(strings.Fields(s)[1], "u=")
}
func (h *hist) wildArg(p *proj) string {
	s := p.String()
	return strings.TrimPrefix(strings.Fields(s)[2], "w=")
}

// restamp establishes the hypothesis after an acknowledged write: a strictly
// increasing mtime; returns the stamp of the file (0,0 if absent).
func (h *hist) restamp() (int64, int64) {
	fi, err := os.Stat(h.file)
	if err != nil {
		return 0, 0
	}
	if !h.natural {
		inc := []int64{1, 1000, 1000000, 1000000000}[h.r.Intn(4)]
		if h.keepMtime && fi.Size() != h.lastSize && !h.stamps[fmt.Sprintf("%d-%d", fi.Size(), h.lastMtime)] {
			// the versions differ in size only (same mtime)
			inc = 0
		}
		h.keepMtime = false
		// the stamp is read back: a file system that rounds the time may give
		// the stamp of an earlier version; then step further
		for try := 0; ; try++ {
			h.clock += inc
			tm := time.Unix(0, h.clock)
			if err := os.Chtimes(h.file, tm, tm); err != nil {
				panic(err)
			}
			fi, err = os.Stat(h.file)
			if err != nil {
				panic(err)
			}
			if !h.stamps[fmt.Sprintf("%d-%d", fi.Size(), fi.ModTime().UnixNano())] || try >= 4 {
				break
			}
			h.t.Note("stamp-rounded-by-the-file-system")
			inc = 2000000000
		}
		if inc == 0 {
			h.t.Note("same-mtime-different-size")
		} else if fi.Size() == h.lastSize {
			h.t.Note("same-size-different-mtime")
		}
		h.lastSize = fi.Size()
		h.lastMtime = fi.ModTime().UnixNano()
	}
	key := fmt.Sprintf("%d-%d", fi.Size(), fi.ModTime().UnixNano())
	if h.stamps[key] {
		h.hypoOK = false
		h.t.Note("stamp-reused-by-a-later-version")
	}
	h.stamps[key] = true
	return fi.Size(), fi.ModTime().UnixNano()
}

func (h *hist) curTag() string {
	fi, err := os.Stat(h.file)
	if err != nil {
		return ""
	}
	return fmt.Sprintf("\"%d-%d\"", fi.Size(), fi.ModTime().UnixNano())
}

// objTag is the tag of the object a conditional operation is about, computed
// by the monitor itself from stat and its own bookkeeping.
func (h *hist) objTag(t int, user bool) string {
	if !user {
		return h.curTag()
	}
	if !h.exp.exists || h.exp.target(t) == nil {
		return ""
	}
	return h.curTag()
}

func (h *hist) remember(tag string) {
	if tag != "" {
		h.seenTags = append(h.seenTags, tag)
	}
}

// checkState: the file holds exactly what the acknowledged writes amount to.
func (h *hist) checkState(after string) {
	h.t.Checked("C18.no_lost_update")
	p, _, err := readProj(h.file)
	if err != nil {
		h.t.Fail("C18", "no_lost_update", fmt.Sprintf("after %s the definition is not readable: %v", after, err))
		return
	}
	if p.String() != h.exp.String() {
		h.t.Fail("C18", "no_lost_update", fmt.Sprintf("after %s the definition is [%s] but the acknowledged writes amount to [%s]", after, p, h.exp))
		h.exp = p
	}
}

// afterWrite runs the monitors common to all write operations.  cond: the
// operation carried a tag; objBefore: the tag of its object just before.
func (h *hist) afterWrite(what, res string, cond bool, tag, objBefore string, apply func(p *proj)) (int64, int64) {
	var size, mtime int64
	if res == "ok" {
		h.acks++
		apply(h.exp)
		size, mtime = h.restamp()
		if cond {
			h.t.Checked("C18.exclusive")
			if tag != objBefore {
				h.t.Fail("C18", "exclusive", fmt.Sprintf("%s with tag %q was acknowledged although the current tag was %q", what, tag, objBefore))
			}
		}
	} else if cond && res == "mismatch" {
		h.t.Checked("C18.exclusive")
		if tag == objBefore {
			h.t.Fail("C18", "exclusive", fmt.Sprintf("%s with the current tag %q was refused as a mismatch", what, tag))
		}
		h.stale++
	}
	h.checkState(what + " => " + res)
	return size, mtime
}

// ---------------------------------------------------------------- direct ops

func (h *hist) getTag() string {
	tag, err := group.GetDescriptionTag(groupName)
	obs := classify(err)
	if err == nil {
		obs = tr.Hex([]byte(tag))
		h.remember(tag)
	}
	h.t.Op(obs, "gettag")
	return tag
}

func (h *hist) getUserTag(t int) string {
	name, wild := userName(t)
	tag, err := group.GetUserTag(groupName, name, wild)
	obs := classify(err)
	if err == nil {
		obs = tr.Hex([]byte(tag))
		h.remember(tag)
	}
	h.t.Op(obs, "getusertag", t)
	return tag
}

func (h *hist) updateDescription(tag string, d int) string {
	before := h.objTag(0, false)
	res := classify(group.UpdateDescription(groupName, tag, descOf(d)))
	size, mtime := h.afterWrite("UpdateDescription", res, true, tag, before, func(p *proj) {
		if !p.exists {
			*p = proj{exists: true, users: map[int]uproj{}}
		}
		p.d = d
	})
	h.t.Op(res, "updesc", []byte(tag), d, size, mtime)
	return res
}

func (h *hist) deleteDescription(tag string) string {
	before := h.objTag(0, false)
	res := classify(group.DeleteDescription(groupName, tag))
	h.afterWrite("DeleteDescription", res, true, tag, before, func(p *proj) {
		*p = proj{users: map[int]uproj{}}
	})
	h.t.Op(res, "deldesc", []byte(tag))
	return res
}

func (h *hist) updateUser(t int, tag string, perm int) string {
	name, wild := userName(t)
	before := h.objTag(t, true)
	res := classify(group.UpdateUser(groupName, name, wild, tag, userOf(perm)))
	size, mtime := h.afterWrite("UpdateUser", res, true, tag, before, func(p *proj) {
		u := uproj{perm: perm}
		if old := p.target(t); old != nil {
			u.pw = old.pw
		}
		p.setTarget(t, u)
	})
	h.t.Op(res, "upuser", t, []byte(tag), perm, size, mtime)
	return res
}

func (h *hist) deleteUser(t int, tag string) string {
	name, wild := userName(t)
	before := h.objTag(t, true)
	res := classify(group.DeleteUser(groupName, name, wild, tag))
	size, mtime := h.afterWrite("DeleteUser", res, true, tag, before, func(p *proj) { p.delTarget(t) })
	h.t.Op(res, "deluser", t, []byte(tag), size, mtime)
	return res
}

func (h *hist) setPassword(t int, pw int) string {
	name, wild := userName(t)
	res := classify(group.SetUserPassword(groupName, name, wild, pwOf(pw)))
	size, mtime := h.afterWrite("SetUserPassword", res, false, "", "", func(p *proj) {
		u := *p.target(t)
		u.pw = pw
		p.setTarget(t, u)
	})
	h.t.Op(res, "setpw", t, pw, size, mtime)
	return res
}

func (h *hist) setKeys(k int) string {
	res := classify(group.SetKeys(groupName, keysOf(k)))
	size, mtime := h.afterWrite("SetKeys", res, false, "", "", func(p *proj) { p.keys = k })
	h.t.Op(res, "setkeys", k, size, mtime)
	return res
}

func (h *hist) state() {
	p, _, err := readProj(h.file)
	obs := ""
	if err != nil {
		obs = "unreadable"
	} else {
		obs = p.String()
		if p.exists {
			obs += " tag=" + tr.Hex([]byte(h.curTag()))
		}
	}
	h.t.Op(obs, "state")
	// the server's own view agrees with the file
	h.t.Checked("C18.atomic_reader")
	desc, err := group.GetDescription(groupName)
	if p != nil && p.exists {
		if err != nil || desc.DisplayName != fmt.Sprintf("d%d", p.d) {
			h.t.Fail("C18", "atomic_reader", fmt.Sprintf("GetDescription: %v", err))
		}
	} else if err == nil {
		h.t.Fail("C18", "atomic_reader", "GetDescription returned a definition for an absent group")
	}
}

// ---------------------------------------------------------------- HTTP

type httpReq struct {
	kind    string // getgroup headgroup putgroup delgroup getuser putuser deluser setpw setkeys
	t       int
	im, inm string
	arg     int
}

func (q httpReq) build() *http.Request {
	base := "/galene-api/v0/.groups/" + groupName + "/"
	upath := func() string {
		if q.t < 0 {
			return base + ".wildcard-user"
		}
		return base + ".users/" + fmt.Sprintf("u%d", q.t)
	}
	var method, path, body, ctype string
	switch q.kind {
	case "getgroup":
		method, path = "GET", base
	case "headgroup":
		method, path = "HEAD", base
	case "putgroup":
		method, path, body, ctype = "PUT", base, descJSON(q.arg), "application/json"
	case "delgroup":
		method, path = "DELETE", base
	case "getuser":
		method, path = "GET", upath()
	case "putuser":
		method, path, ctype = "PUT", upath(), "application/json"
		body = fmt.Sprintf(`{"permissions":"%s"}`, permNames[q.arg])
	case "deluser":
		method, path = "DELETE", upath()
	case "setpw":
		method, path, ctype = "PUT", upath()+"/.password", "application/json"
		body = fmt.Sprintf(`"pw%d"`, q.arg)
		if q.arg == 0 {
			method, body, ctype = "DELETE", "", ""
		}
	case "setkeys":
		method, path, ctype = "PUT", base+".keys", "application/jwk-set+json"
		b, _ := json.Marshal(map[string]any{"keys": keysOf(q.arg)})
		body = string(b)
		if q.arg == 0 {
			method, body, ctype = "DELETE", "", ""
		}
	}
	r := httptest.NewRequest(method, path, strings.NewReader(body))
	if ctype != "" {
		r.Header.Set("Content-Type", ctype)
	}
	if q.im != "" {
		r.Header["If-Match"] = []string{q.im}
	}
	if q.inm != "" {
		r.Header["If-None-Match"] = []string{q.inm}
	}
	r.SetBasicAuth("root", "pw")
	return r
}

func (q httpReq) isWrite() bool { return !strings.HasPrefix(q.kind, "get") && q.kind != "headgroup" }
func (q httpReq) isUser() bool  { return strings.HasSuffix(q.kind, "user") }

func (q httpReq) apply(p *proj) {
	switch q.kind {
	case "putgroup":
		if !p.exists {
			*p = proj{exists: true, users: map[int]uproj{}}
		}
		p.d = q.arg
	case "delgroup":
		*p = proj{users: map[int]uproj{}}
	case "putuser":
		u := uproj{perm: q.arg}
		if old := p.target(q.t); old != nil {
			u.pw = old.pw
		}
		p.setTarget(q.t, u)
	case "deluser":
		p.delTarget(q.t)
	case "setpw":
		u := *p.target(q.t)
		u.pw = q.arg
		p.setTarget(q.t, u)
	case "setkeys":
		p.keys = q.arg
	}
}

// offersTag: the header, a comma-separated list as the driver sends them,
// contains exactly that element.
func offersTag(header, tag string) bool {
	for _, p := range strings.Split(header, ",") {
		if strings.TrimSpace(p) == tag {
			return true
		}
	}
	return false
}

func serve(q httpReq) (int, string) {
	w := httptest.NewRecorder()
	webserver.VerifEtagAPIHandler(w, q.build())
	return w.Code, w.Header().Get("Etag")
}

func (h *hist) http(q httpReq) int {
	before := h.objTag(q.t, q.isUser())
	status, etagHdr := serve(q)
	ok := status == 200 || status == 201 || status == 204
	var size, mtime int64
	if q.isWrite() {
		res := fmt.Sprint(status)
		if ok {
			res = "ok"
		}
		cond := q.im != ""
		size, mtime = h.afterWrite("HTTP "+q.kind, res, false, "", "", q.apply)
		if ok && cond {
			// an acknowledged write carrying If-Match: the definition is
			// unchanged since that tag was served (the header offered the
			// current tag; the driver only sends lists of tags and "*")
			h.t.Checked("C18.exclusive")
			if !offersTag(q.im, before) && !offersTag(q.im, "*") || before == "" {
				h.t.Fail("C18", "exclusive", fmt.Sprintf("HTTP %s If-Match=%q acknowledged (%d) although the current tag was %q", q.kind, q.im, status, before))
			}
		}
		if ok && strings.TrimSpace(q.inm) == "*" {
			h.t.Checked("C18.create_once")
			if before != "" {
				h.t.Fail("C18", "create_once", fmt.Sprintf("HTTP %s If-None-Match=* acknowledged (%d) although the object existed (%q)", q.kind, status, before))
			}
		}
	} else {
		h.t.Checked("C18.304_iff_current")
		if q.inm != "" && q.im == "" && before != "" {
			exact := strings.TrimSpace(q.inm) == before || strings.TrimSpace(q.inm) == "*"
			if exact && status != 304 {
				h.t.Fail("C18", "304_iff_current", fmt.Sprintf("%s If-None-Match=%q with current tag %q answered %d", q.kind, q.inm, before, status))
			}
			if status == 304 && !offersTag(q.inm, before) && !offersTag(q.inm, "*") {
				h.t.Fail("C18", "304_iff_current", fmt.Sprintf("%s If-None-Match=%q answered 304 but the current tag is %q", q.kind, q.inm, before))
			}
		}
		if status == 200 || status == 304 {
			if etagHdr != before {
				h.t.Fail("C18", "304_iff_current", fmt.Sprintf("%s served the tag %q, current is %q", q.kind, etagHdr, before))
			}
			h.remember(etagHdr)
		}
	}
	if status == 412 || status == 500 {
		h.stale++
	}
	h.t.Op(fmt.Sprint(status), "http", q.kind, q.t, []byte(q.im), []byte(q.inm), q.arg, size, mtime)
	return status
}

// ---------------------------------------------------------------- races

// reader polls the definition while writers race: every read must be a
// complete definition (or absent).
func (h *hist) reader(stop chan struct{}, wg *sync.WaitGroup, bad *string, reads *int) {
	defer wg.Done()
	for {
		select {
		case <-stop:
			return
		default:
		}
		_, _, err := readProj(h.file)
		*reads++
		if err != nil && *bad == "" {
			*bad = err.Error()
		}
		_, err = group.GetDescription(groupName)
		if err != nil && !errors.Is(err, os.ErrNotExist) && *bad == "" {
			*bad = "GetDescription: " + err.Error()
		}
	}
}

// race runs n goroutines doing mk(i) with the same tag; the line carries the
// winner's operation (candidate 0 if nobody won) so that the model can replay
// it sequentially.
func (h *hist) race(kind string, n int, tag string, t int) {
	before := h.objTag(t, kind == "upuser" || kind == "deluser")
	results := make([]string, n)
	var wg, rwg sync.WaitGroup
	stop := make(chan struct{})
	bad := ""
	reads := 0
	rwg.Add(1)
	go h.reader(stop, &rwg, &bad, &reads)
	start := make(chan struct{})
	base := h.r.Intn(50)
	name, wild := userName(t)
	for i := 0; i < n; i++ {
		wg.Add(1)
		go func(i int) {
			defer wg.Done()
			<-start
			var err error
			switch kind {
			case "updesc":
				err = group.UpdateDescription(groupName, tag, descOf(base+i))
			case "upuser":
				err = group.UpdateUser(groupName, name, wild, tag, userOf((base+i)%4))
			case "mixed":
				switch i % 3 {
				case 0:
					err = group.UpdateDescription(groupName, tag, descOf(base+i))
				case 1:
					err = group.UpdateUser(groupName, name, wild, tag, userOf((base+i)%4))
				default:
					err = group.DeleteUser(groupName, name, wild, tag)
				}
			}
			results[i] = classify(err)
		}(i)
	}
	close(start)
	wg.Wait()
	close(stop)
	rwg.Wait()
	nok, winner := 0, -1
	for i, r := range results {
		if r == "ok" {
			nok++
			if winner < 0 {
				winner = i
			}
		} else if r != "mismatch" && r != "notexist" && r != "notwritable" {
			h.t.Fail("C18", "race_exclusive", fmt.Sprintf("racing %s returned %s", kind, r))
		}
	}
	h.t.Checked("C18.race_exclusive")
	if nok > 1 {
		h.t.Fail("C18", "race_exclusive", fmt.Sprintf("%d goroutines (%s) with the same tag %q: %d were acknowledged", n, kind, tag, nok))
	}
	if nok == 0 && tag == before && h.writable && (h.exp.exists || kind == "updesc") {
		h.t.Fail("C18", "race_exclusive", fmt.Sprintf("%d goroutines (%s) with the current tag %q: none was acknowledged (%v)", n, kind, tag, results))
	}
	h.t.Checked("C18.atomic_reader")
	if bad != "" {
		h.t.Fail("C18", "atomic_reader", "a reader concurrent with the writers saw: "+bad)
	}
	if reads > 0 {
		h.t.Note("concurrent-reads")
	}
	w := winner
	if w < 0 {
		w = 0
	}
	// the winner's operation, applied sequentially
	opk, arg := kind, base+w
	if kind == "mixed" {
		opk = []string{"updesc", "upuser", "deluser"}[w%3]
	}
	if opk == "upuser" {
		arg = (base + w) % 4
	}
	var size, mtime int64
	res := "none"
	if winner >= 0 {
		res = "ok"
	}
	size, mtime = h.afterWrite("race "+kind, res, false, "", "", func(p *proj) {
		switch opk {
		case "updesc":
			if !p.exists {
				*p = proj{exists: true, users: map[int]uproj{}}
			}
			p.d = arg
		case "upuser":
			u := uproj{perm: arg}
			if old := p.target(t); old != nil {
				u.pw = old.pw
			}
			p.setTarget(t, u)
		case "deluser":
			p.delTarget(t)
		}
	})
	h.t.Op(fmt.Sprint(nok), "race", opk, t, []byte(tag), arg, size, mtime)
	if nok == 1 {
		h.t.Note("race-one-winner")
	}
}

// httpRace: n concurrent PUTs through the API handler with the same headers.
func (h *hist) httpRace(n int, q httpReq) {
	before := h.objTag(q.t, q.isUser())
	statuses := make([]int, n)
	var wg sync.WaitGroup
	start := make(chan struct{})
	base := h.r.Intn(50)
	for i := 0; i < n; i++ {
		wg.Add(1)
		go func(i int) {
			defer wg.Done()
			qi := q
			if q.kind == "putgroup" {
				qi.arg = base + i
			} else {
				qi.arg = (base + i) % 4
			}
			<-start
			statuses[i], _ = serve(qi)
		}(i)
	}
	close(start)
	wg.Wait()
	nok, winner, n500 := 0, -1, 0
	for i, s := range statuses {
		if s == 201 || s == 204 {
			nok++
			if winner < 0 {
				winner = i
			}
		}
		if s == 500 {
			n500++
		}
	}
	h.t.Checked("C18.race_exclusive")
	if nok > 1 {
		h.t.Fail("C18", "race_exclusive", fmt.Sprintf("%d concurrent %s If-Match=%q If-None-Match=%q: %d acknowledged %v", n, q.kind, q.im, q.inm, nok, statuses))
	}
	if n500 > 0 {
		h.t.Note("race-lost-under-the-lock-answered-500")
	}
	w := winner
	if w < 0 {
		w = 0
	}
	qw := q
	if q.kind == "putgroup" {
		qw.arg = base + w
	} else {
		qw.arg = (base + w) % 4
	}
	res := "none"
	if winner >= 0 {
		res = "ok"
	}
	_ = before
	size, mtime := h.afterWrite("httprace "+q.kind, res, false, "", "", qw.apply)
	h.t.Op(fmt.Sprint(nok), "httprace", qw.kind, qw.t, []byte(qw.im), []byte(qw.inm), qw.arg, size, mtime)
}

// ---------------------------------------------------------------- generators

func (h *hist) pickTag(cur string) string {
	switch h.r.Pick(6, 3, 1, 1, 1) {
	case 0:
		return cur
	case 1:
		if len(h.seenTags) > 0 {
			h.t.Note("stale-tag")
			return h.seenTags[h.r.Intn(len(h.seenTags))]
		}
		return cur
	case 2:
		return ""
	case 3:
		return `"1-2"`
	default:
		if cur != "" {
			h.t.Note("weak-tag")
			return "W/" + cur
		}
		return cur
	}
}

func (h *hist) pickTarget() int {
	if h.r.Chance(1, 5) {
		return -1
	}
	return h.r.Intn(4)
}

func randSeed(r *tr.Rand) *proj {
	p := &proj{exists: true, d: r.Intn(100), users: map[int]uproj{}, keys: 0}
	for i := 0; i < 4; i++ {
		if r.Chance(1, 2) {
			p.users[i] = uproj{perm: r.Intn(4), pw: r.Intn(3)}
		}
	}
	if r.Chance(1, 3) {
		p.wild = &uproj{perm: r.Intn(4), pw: r.Intn(3)}
	}
	if r.Chance(1, 3) {
		p.keys = r.Range(1, 9)
	}
	return p
}

func (h *hist) directOps(n int) {
	for i := 0; i < n; i++ {
		switch h.r.Pick(3, 2, 10, 2, 8, 4, 3, 2, 3) {
		case 0:
			h.getTag()
		case 1:
			h.getUserTag(h.pickTarget())
		case 2:
			h.updateDescription(h.pickTag(h.curTag()), h.r.Intn(100))
		case 3:
			h.deleteDescription(h.pickTag(h.curTag()))
		case 4:
			t := h.pickTarget()
			h.updateUser(t, h.pickTag(h.objTag(t, true)), h.r.Intn(4))
		case 5:
			t := h.pickTarget()
			h.deleteUser(t, h.pickTag(h.objTag(t, true)))
		case 6:
			h.setPassword(h.pickTarget(), h.r.Intn(4))
		case 7:
			h.setKeys(h.r.Intn(5))
		default:
			h.state()
		}
	}
	h.state()
}

func (h *hist) pickHeader(cur string) (string, string) {
	t := h.pickTag(cur)
	switch h.r.Pick(4, 3, 2, 1, 1, 1) {
	case 0:
		return t, ""
	case 1:
		return "", "*"
	case 2:
		return "", ""
	case 3:
		return `"7-7", ` + t, ""
	case 4:
		return "*", ""
	default:
		return "", t
	}
}

func (h *hist) httpOps(n int) {
	for i := 0; i < n; i++ {
		switch h.r.Pick(4, 8, 2, 2, 6, 3, 2, 2, 2) {
		case 0:
			kind := "getgroup"
			if h.r.Chance(1, 3) {
				kind = "headgroup"
			}
			cur := h.curTag()
			inm := h.pickTag(cur)
			if h.r.Chance(1, 4) {
				inm = "*"
			}
			im := ""
			if h.r.Chance(1, 6) {
				im = h.pickTag(cur)
			}
			h.http(httpReq{kind: kind, im: im, inm: inm})
		case 1:
			im, inm := h.pickHeader(h.curTag())
			h.http(httpReq{kind: "putgroup", im: im, inm: inm, arg: h.r.Intn(100)})
		case 2:
			im, inm := h.pickHeader(h.curTag())
			h.http(httpReq{kind: "delgroup", im: im, inm: inm})
		case 3:
			t := h.pickTarget()
			h.http(httpReq{kind: "getuser", t: t, inm: h.pickTag(h.objTag(t, true))})
		case 4:
			t := h.pickTarget()
			im, inm := h.pickHeader(h.objTag(t, true))
			h.http(httpReq{kind: "putuser", t: t, im: im, inm: inm, arg: h.r.Intn(4)})
		case 5:
			t := h.pickTarget()
			im, inm := h.pickHeader(h.objTag(t, true))
			h.http(httpReq{kind: "deluser", t: t, im: im, inm: inm})
		case 6:
			h.http(httpReq{kind: "setpw", t: h.pickTarget(), arg: h.r.Intn(4)})
		case 7:
			h.http(httpReq{kind: "setkeys", arg: h.r.Intn(5)})
		default:
			h.state()
		}
	}
	h.state()
}

func (h *hist) raceOps(n int) {
	for i := 0; i < n; i++ {
		t := h.r.Intn(4)
		switch h.r.Pick(4, 3, 3, 2, 3, 2, 2) {
		case 0:
			h.race("updesc", h.r.Range(2, 8), h.pickTag(h.curTag()), 0)
		case 1:
			h.race("upuser", h.r.Range(2, 8), h.pickTag(h.objTag(t, true)), t)
		case 2:
			if h.exp.exists && h.exp.target(t) != nil {
				h.race("mixed", h.r.Range(3, 9), h.pickTag(h.curTag()), t)
			} else {
				h.updateUser(t, "", h.r.Intn(4))
			}
		case 3: // creation races
			if h.exp.exists {
				h.deleteDescription(h.curTag())
			}
			h.race("updesc", h.r.Range(2, 8), "", 0)
		case 4:
			cur := h.curTag()
			if cur == "" || h.r.Chance(1, 3) {
				h.httpRace(h.r.Range(2, 6), httpReq{kind: "putgroup", inm: "*"})
			} else {
				h.httpRace(h.r.Range(2, 6), httpReq{kind: "putgroup", im: cur})
			}
		case 5:
			cur := h.objTag(t, true)
			if cur == "" {
				h.httpRace(h.r.Range(2, 6), httpReq{kind: "putuser", t: t, inm: "*"})
			} else {
				h.httpRace(h.r.Range(2, 6), httpReq{kind: "putuser", t: t, im: cur})
			}
		default:
			h.state()
		}
	}
	h.state()
}

// ---------------------------------------------------------------- readers vs one writer

// resync tells the model the definition now on disk (after a stream whose
// individual writes are not replayed by the model).
func (h *hist) resync() {
	p, _, err := readProj(h.file)
	if err != nil {
		h.t.Fail("C18", "atomic_reader", "definition unreadable after the race: "+err.Error())
		return
	}
	h.exp = p.clone()
	fi, err := os.Stat(h.file)
	if err != nil {
		return
	}
	h.t.Op("ok", "seed", p.d, h.usersArg(p), h.wildArg(p), p.keys, fi.Size(), fi.ModTime().UnixNano())
}

// httpGetGroup is an API GET of the group: status, ETag header, displayName.
func httpGetGroup() (int, string, string) {
	w := httptest.NewRecorder()
	webserver.VerifEtagAPIHandler(w, httpReq{kind: "getgroup"}.build())
	var body struct {
		DisplayName string `json:"displayName"`
	}
	json.Unmarshal(w.Body.Bytes(), &body)
	return w.Code, w.Header().Get("Etag"), body.DisplayName
}

// rwRace: ONE writer replaces the definition `versions` times, every version
// with a distinctive displayName, and records the tag of every version it
// wrote; concurrent readers fetch (definition, tag) as the API does
// (group.GetSanitisedDescription and GET through apiHandler).  Every pair
// served must be a pair that was written: the tag served with a definition is
// the tag of THAT definition (C18.content_matches_tag).  The stamps are the
// filesystem's own; a tag that two versions happen to share is set aside.
func rwRace(t *tr.Trace, r *tr.Rand, versions int) {
	h := newHist(t, r, "rwrace", true, true)
	h.seed(randSeed(r))
	type pair struct {
		tag  string
		name string
	}
	var mu sync.Mutex
	written := map[string]string{}
	ambiguous := map[string]bool{}
	served := map[pair]string{} // pair -> who served it
	record := func(tag, name string) {
		mu.Lock()
		if old, ok := written[tag]; ok && old != name {
			ambiguous[tag] = true
		}
		written[tag] = name
		mu.Unlock()
	}
	tag := h.curTag()
	record(tag, fmt.Sprintf("d%d", h.exp.d))
	var stop bool
	var smu sync.Mutex
	stopped := func() bool { smu.Lock(); defer smu.Unlock(); return stop }
	var wg sync.WaitGroup
	errs := map[string]bool{}
	for i := 0; i < 8; i++ {
		wg.Add(1)
		go func(i int) {
			defer wg.Done()
			for !stopped() {
				var p pair
				who := "GetSanitisedDescription"
				if i%2 == 0 {
					desc, etag, err := group.GetSanitisedDescription(groupName)
					if err != nil {
						mu.Lock()
						errs["GetSanitisedDescription: "+err.Error()] = true
						mu.Unlock()
						continue
					}
					p = pair{etag, desc.DisplayName}
				} else {
					who = "HTTP GET"
					code, etag, name := httpGetGroup()
					if code != 200 {
						mu.Lock()
						errs[fmt.Sprintf("HTTP GET answered %d", code)] = true
						mu.Unlock()
						continue
					}
					p = pair{etag, name}
				}
				mu.Lock()
				served[p] = who
				mu.Unlock()
			}
		}(i)
	}
	base := 1000 + r.Intn(1000)
	acks := 0
	for k := 0; k < versions; k++ {
		d := base + k
		var err error
		switch {
		case k%7 == 3:
			// other writes replace the file too (same definition, new tag)
			err = group.SetKeys(groupName, keysOf(1+k%5))
			d = base + k - 1
		default:
			err = group.UpdateDescription(groupName, tag, descOf(d))
		}
		if err != nil {
			t.Fail("C18", "content_matches_tag", fmt.Sprintf("single writer, version %d: %v", k, err))
			break
		}
		acks++
		tag = h.curTag()
		record(tag, fmt.Sprintf("d%d", d))
	}
	smu.Lock()
	stop = true
	smu.Unlock()
	wg.Wait()
	bad := 0
	t.Checked("C18.content_matches_tag")
	for p, who := range served {
		n, ok := written[p.tag]
		switch {
		case !ok:
			bad++
			t.Fail("C18", "content_matches_tag", fmt.Sprintf("%s served definition %q with tag %s, which is the tag of no version that was written", who, p.name, p.tag))
		case ambiguous[p.tag]:
			t.Note("tag-shared-by-two-versions")
		case n != p.name:
			bad++
			t.Fail("C18", "content_matches_tag", fmt.Sprintf("%s served definition %q with tag %s, which is the tag of %q (after %d versions)", who, p.name, p.tag, n, acks))
		}
		if bad >= 3 {
			break
		}
	}
	t.Checked("C18.atomic_reader")
	for e := range errs {
		t.Fail("C18", "atomic_reader", "a reader concurrent with the writer: "+e)
		break
	}
	t.Note(fmt.Sprintf("rwrace-pairs-served>=%d", len(served)/100*100))
	t.Op(fmt.Sprint(bad), "rwrace", acks)
	h.resync()
	h.state()
	if len(served) > 10 {
		t.Nontrivial(fmt.Sprintf("rwrace/%d/%d", acks, len(served)))
	}
}

// ---------------------------------------------------------------- lockstep schedules

// parked returns the number of goroutines blocked in sync.Mutex.Lock.
func parked() int {
	buf := make([]byte, 1<<20)
	n := runtime.Stack(buf, true)
	return strings.Count(string(buf[:n]), "[sync.Mutex.Lock")
}

// waitParked waits until n goroutines are parked on a mutex, or the request
// just started has returned (it was answered before any locked section).
func waitParked(n int, finished func() bool) bool {
	for i := 0; i < 4000; i++ {
		if parked() >= n || finished() {
			return true
		}
		time.Sleep(250 * time.Microsecond)
	}
	return false
}

// lsOp is one update request of a lockstep schedule: a direct call of an
// update function of package group, or (http) a request through apiHandler.
type lsOp struct {
	kind string // updesc deldesc upuser deluser setpw setkeys | putgroup delgroup (http)
	t    int
	tag  string // direct: the tag argument; http: If-Match
	inm  string
	arg  int
	http bool
}

func (o lsOp) req() httpReq { return httpReq{kind: o.kind, t: o.t, im: o.tag, inm: o.inm, arg: o.arg} }

// run executes the request on the implementation; "ok" or the error class /
// HTTP status.
func (o lsOp) run() string {
	if o.http {
		st, _ := serve(o.req())
		if st == 201 || st == 204 {
			return "ok"
		}
		return fmt.Sprint(st)
	}
	name, wild := userName(o.t)
	var err error
	switch o.kind {
	case "updesc":
		err = group.UpdateDescription(groupName, o.tag, descOf(o.arg))
	case "deldesc":
		err = group.DeleteDescription(groupName, o.tag)
	case "upuser":
		err = group.UpdateUser(groupName, name, wild, o.tag, userOf(o.arg))
	case "deluser":
		err = group.DeleteUser(groupName, name, wild, o.tag)
	case "setpw":
		err = group.SetUserPassword(groupName, name, wild, pwOf(o.arg))
	case "setkeys":
		err = group.SetKeys(groupName, keysOf(o.arg))
	}
	return classify(err)
}

func (o lsOp) apply(p *proj) {
	switch o.kind {
	case "updesc", "putgroup":
		if !p.exists {
			*p = proj{exists: true, users: map[int]uproj{}}
		}
		p.d = o.arg
	case "deldesc", "delgroup":
		*p = proj{users: map[int]uproj{}}
	case "upuser":
		u := uproj{perm: o.arg}
		if old := p.target(o.t); old != nil {
			u.pw = old.pw
		}
		p.setTarget(o.t, u)
	case "deluser":
		p.delTarget(o.t)
	case "setpw":
		if old := p.target(o.t); old != nil {
			u := *old
			u.pw = o.arg
			p.setTarget(o.t, u)
		}
	case "setkeys":
		p.keys = o.arg
	}
}

func (o lsOp) conditional() bool {
	if o.http {
		return o.tag != ""
	}
	return o.kind != "setpw" && o.kind != "setkeys"
}

// lockstep: the driver holds the descriptions lock; writer B is started and
// parks on the lock; then request A is started and parks behind it (whatever
// A does before taking the lock has happened then); the lock is released: B's
// locked section completes, then A's.  The outcome must be that of B followed
// by A (or, should the lock have been handed over in the other order, A
// followed by B): every acknowledged update is in the final definition, a
// group deleted with a matching tag stays deleted, and A, if it carried a tag
// that B's acknowledged update made stale, is refused.
func (h *hist) lockstep(a, b lsOp) {
	var order int32
	var ra, rb string
	var oa, ob int32
	var wg sync.WaitGroup
	var omu sync.Mutex
	done := func(res *string, ord *int32, v string) {
		omu.Lock()
		order++
		*ord = order
		*res = v
		omu.Unlock()
	}
	if a.http {
		h.t.Op("-", "lsread", a.kind, a.t, []byte(a.tag), []byte(a.inm), a.arg)
	}
	group.VerifDescriptionsLock()
	wg.Add(2)
	go func() { defer wg.Done(); done(&rb, &ob, b.run()) }()
	fin := func(ord *int32) func() bool {
		return func() bool { omu.Lock(); defer omu.Unlock(); return *ord != 0 }
	}
	okb := waitParked(1, fin(&ob))
	go func() { defer wg.Done(); done(&ra, &oa, a.run()) }()
	oka := waitParked(2, fin(&oa))
	time.Sleep(2 * time.Millisecond)
	group.VerifDescriptionsUnlock()
	wg.Wait()
	disturbed := !oka || !okb
	// Which of the two parked goroutines got the mutex first is not
	// determined (sync.Mutex is not FIFO) and is not observable from here:
	// the monitor accepts both serial orders, and the trace line carries both
	// requests with the observed results and final definition; the model side
	// looks for the serial order that produces them.
	serial := func(x lsOp, rx string, y lsOp, ry string) *proj {
		p := h.exp.clone()
		if rx == "ok" {
			x.apply(p)
		}
		if ry == "ok" {
			y.apply(p)
		}
		return p
	}
	got, _, err := readProj(h.file)
	h.t.Checked("C18.lockstep_serial")
	pba := serial(b, rb, a, ra)
	pab := serial(a, ra, b, rb)
	if err != nil {
		h.t.Fail("C18", "lockstep_serial", "definition unreadable after the schedule: "+err.Error())
		got = pba
	} else if got.String() != pba.String() && got.String() != pab.String() {
		h.t.Fail("C18", "lockstep_serial", fmt.Sprintf(
			"B=%s(t=%d,arg=%d)=>%s was queued on the lock before A=%s(t=%d,arg=%d,http=%v)=>%s; the definition is [%s], the acknowledged writes amount to [%s] (before: [%s])",
			b.kind, b.t, b.arg, rb, a.kind, a.t, a.arg, a.http, ra, got, pba, h.exp))
	}
	star := func(o lsOp) bool { return o.http && offersTag(o.tag, "*") }
	if a.conditional() && b.conditional() && a.tag != "" && b.tag != "" && !star(a) && !star(b) {
		// both hold a tag of the file as it was before the schedule
		h.t.Checked("C18.exclusive")
		if ra == "ok" && rb == "ok" {
			h.t.Fail("C18", "exclusive", fmt.Sprintf("A=%s holding tag %q and B=%s holding tag %q were both acknowledged", a.kind, a.tag, b.kind, b.tag))
		}
	}
	h.exp = got
	if ra == "ok" {
		h.acks++
	}
	if rb == "ok" {
		h.acks++
	}
	var size, mtime int64
	if ra == "ok" || rb == "ok" {
		size, mtime = h.restamp()
	}
	if ra != "ok" || rb != "ok" {
		h.stale++
	}
	if disturbed {
		// a request neither parked nor returned within the timeout: what it
		// read before the lock is not known; do not compare this schedule
		h.t.Note("disturbed-by-timing")
		h.resync()
		return
	}
	final := got.String()
	ah := 0
	if a.http {
		ah = 1
	}
	h.t.Op("serial", "ls2", rb, ra, []byte(final), size, mtime,
		b.kind, b.t, []byte(b.tag), b.arg,
		ah, a.kind, a.t, []byte(a.tag), []byte(a.inm), a.arg)
	h.state()
}

func (h *hist) randLsOp(allowHTTP bool) lsOp {
	t := h.pickTarget()
	cur := h.curTag()
	switch h.r.Pick(3, 2, 3, 2, 2, 3, 2, 1) {
	case 0:
		return lsOp{kind: "updesc", tag: h.pickTag(cur), arg: h.r.Intn(100)}
	case 1:
		return lsOp{kind: "deldesc", tag: h.pickTag(cur)}
	case 2:
		return lsOp{kind: "upuser", t: t, tag: h.pickTag(h.objTag(t, true)), arg: h.r.Intn(4)}
	case 3:
		return lsOp{kind: "deluser", t: t, tag: h.pickTag(h.objTag(t, true))}
	case 4:
		return lsOp{kind: "setpw", t: t, arg: h.r.Intn(4)}
	case 5:
		return lsOp{kind: "setkeys", arg: h.r.Intn(5)}
	case 6:
		if allowHTTP {
			im, inm := h.pickHeader(cur)
			return lsOp{kind: "putgroup", tag: im, inm: inm, arg: h.r.Intn(100), http: true}
		}
		return lsOp{kind: "setkeys", arg: h.r.Intn(5)}
	default:
		if allowHTTP {
			im, inm := h.pickHeader(cur)
			return lsOp{kind: "delgroup", tag: im, inm: inm, http: true}
		}
		return lsOp{kind: "setpw", t: t, arg: h.r.Intn(4)}
	}
}

func (h *hist) lockstepOps(n int) {
	for i := 0; i < n; i++ {
		if !h.exp.exists {
			h.updateDescription("", h.r.Intn(100))
			h.updateUser(h.r.Intn(4), "", h.r.Intn(4))
		}
		h.lockstep(h.randLsOp(true), h.randLsOp(false))
	}
}

// ---------------------------------------------------------------- a group loaded in the running server

// load is group.Add(name, nil): what a join, GET /group/NAME/.status or the
// periodic group.Update do; the server then holds the definition in memory.
func (h *hist) load() {
	_, err := group.Add(groupName, nil)
	h.t.Op(classify(err), "load")
}

// hget is GET of the group through apiHandler; form 0: /.groups/g (the name
// the server knows: GetDescription may use the in-memory copy), form 1:
// /.groups/g/ (always reads the file).  Observable: status, ETag, definition.
func (h *hist) hget(form int, im, inm string) {
	path := "/galene-api/v0/.groups/" + groupName
	if form == 1 {
		path += "/"
	}
	r := httptest.NewRequest("GET", path, nil)
	if im != "" {
		r.Header["If-Match"] = []string{im}
	}
	if inm != "" {
		r.Header["If-None-Match"] = []string{inm}
	}
	r.SetBasicAuth("root", "pw")
	w := httptest.NewRecorder()
	webserver.VerifEtagAPIHandler(w, r)
	etag := w.Header().Get("Etag")
	dstr := "-"
	if w.Code == 200 {
		var body struct {
			DisplayName string `json:"displayName"`
		}
		json.Unmarshal(w.Body.Bytes(), &body)
		dstr = strings.TrimPrefix(body.DisplayName, "d")
	}
	cur := h.curTag()
	if !h.hypoOK {
		// two versions got the same stamp: outside the property's hypothesis
		h.t.Note("monitor-skipped-stamp-hypothesis-not-met")
		e := "-"
		if w.Code != 404 {
			e = tr.Hex([]byte(etag))
		}
		h.t.Op(fmt.Sprintf("%d %s %s", w.Code, e, dstr), "hget", form, []byte(im), []byte(inm))
		return
	}
	h.t.Checked("C18.content_matches_tag")
	if w.Code != 404 && etag != cur {
		h.t.Fail("C18", "content_matches_tag", fmt.Sprintf("GET %s served the tag %s, the definition on disk has %s (an acknowledged update is not visible)", path, etag, cur))
	}
	if w.Code == 200 && dstr != fmt.Sprint(h.exp.d) {
		h.t.Fail("C18", "content_matches_tag", fmt.Sprintf("GET %s served definition d%s with tag %s; the acknowledged writes amount to d%d", path, dstr, etag, h.exp.d))
	}
	if inm != "" && im == "" && cur != "" {
		h.t.Checked("C18.304_iff_current")
		want := offersTag(inm, cur) || offersTag(inm, "*")
		if (w.Code == 304) != want {
			h.t.Fail("C18", "304_iff_current", fmt.Sprintf("GET %s If-None-Match=%q answered %d; the current tag is %s", path, inm, w.Code, cur))
		}
	}
	e := "-"
	if w.Code != 404 {
		e = tr.Hex([]byte(etag))
	}
	h.t.Op(fmt.Sprintf("%d %s %s", w.Code, e, dstr), "hget", form, []byte(im), []byte(inm))
}

// sameSizeD: another description number whose file has the same size.
func sameSizeD(d int, r *tr.Rand) int {
	for i := 0; i < 20; i++ {
		e := d + 5*r.Range(-8, 8)
		if e != d && e >= 10 && e <= 99 && d >= 10 && d <= 99 {
			return e
		}
	}
	return d
}

func (h *hist) loadedOps(n int) {
	h.load()
	for i := 0; i < n; i++ {
		cur := h.curTag()
		t := h.r.Intn(4)
		switch h.r.Pick(5, 3, 3, 3, 2, 8, 2, 2, 1) {
		case 0: // same size, other mtime
			h.prevTag = cur
			h.updateDescription(cur, sameSizeD(h.exp.d, h.r))
		case 1: // other size, same mtime
			h.prevTag = cur
			h.keepMtime = true
			h.updateDescription(cur, h.r.Range(10, 99))
		case 2: // same-size permission change of an existing user
			h.prevTag = cur
			if u := h.exp.target(t); u != nil {
				h.updateUser(t, cur, 1+(u.perm+h.r.Range(0, 1))%3)
			} else {
				h.updateUser(t, "", h.r.Range(1, 3))
			}
		case 3: // password reset: same size
			h.prevTag = cur
			h.setPassword(t, h.r.Range(1, 3))
		case 4:
			h.prevTag = cur
			h.setKeys(h.r.Range(1, 5))
		case 5:
			inm := ""
			switch h.r.Pick(2, 3, 3, 1, 1) {
			case 1:
				inm = cur
			case 2:
				inm = h.prevTag
				if inm != "" && inm != cur {
					h.t.Note("conditional-GET-with-the-previous-tag")
				}
			case 3:
				inm = "*"
			case 4:
				inm = h.pickTag(cur)
			}
			h.hget(h.r.Intn(2), "", inm)
			if h.r.Bool() {
				h.hget(h.r.Intn(2), "", inm)
			}
		case 6:
			h.getUserTag(t)
		case 7:
			h.load() // reload, as group.Update does
		default:
			h.state()
		}
	}
	h.hget(0, "", h.prevTag)
	h.hget(1, "", h.prevTag)
	h.state()
	// unload
	if !group.Delete(groupName) && group.Get(groupName) != nil {
		h.t.Fail("C18", "content_matches_tag", "the loaded group could not be unloaded")
	}
}

// ---------------------------------------------------------------- crash points

const crashSyscalls = "openat,write,pwrite64,fsync,fdatasync,close,rename,renameat,renameat2,unlink,unlinkat,ftruncate,truncate,mkdirat,fchmod,fchmodat"

// childMain performs ONE update in the directories given by the environment.
func childMain() {
	runtime.LockOSThread()
	group.Directory = os.Getenv("C18_DIR")
	group.DataDirectory = os.Getenv("C18_DATA")
	var err error
	switch os.Getenv("C18_CHILD") {
	case "updesc":
		d, _ := strconv.Atoi(os.Getenv("C18_ARG"))
		err = group.UpdateDescription(groupName, os.Getenv("C18_TAG"), descOf(d))
	case "upuser":
		p, _ := strconv.Atoi(os.Getenv("C18_ARG"))
		err = group.UpdateUser(groupName, "u1", false, os.Getenv("C18_TAG"), userOf(p))
	}
	if err != nil {
		fmt.Fprintln(os.Stderr, "child:", err)
		os.Exit(3)
	}
	os.Exit(0)
}

type straceRun struct {
	killed bool
	rc     int
	log    string
}

func runChild(h *hist, mode, tag string, arg int, inject string, logPath string) straceRun {
	self, _ := os.Executable()
	args := []string{"-f", "-o", logPath, "-e", "trace=" + crashSyscalls}
	if inject != "" {
		args = append(args, "-e", "inject="+inject)
	}
	args = append(args, self)
	os.Remove(logPath)
	cmd := exec.Command("strace", args...)
	cmd.Env = append(os.Environ(), "C18_CHILD="+mode, "C18_DIR="+group.Directory, "C18_DATA="+group.DataDirectory,
		"C18_TAG="+tag, fmt.Sprintf("C18_ARG=%d", arg), "GOMAXPROCS=1")
	out, err := cmd.CombinedOutput()
	var r straceRun
	if err != nil {
		var ee *exec.ExitError
		if errors.As(err, &ee) {
			r.rc = ee.ExitCode()
			if ee.ExitCode() == -1 || ee.ExitCode() == 137 {
				r.killed = true
			}
		} else {
			r.rc = -2
			r.log = err.Error()
		}
	}
	_ = out
	b, _ := os.ReadFile(logPath)
	r.log += string(b)
	if strings.Contains(r.log, "+++ killed by SIGKILL +++") {
		r.killed = true
	}
	return r
}

var reResumed = regexp.MustCompile(`^(\d+)\s+<\.\.\. \w+ resumed>(.*)`)
var reSys = regexp.MustCompile(`^\d+\s+(\w+)\((.*)`)

// projectSyscalls extracts from a strace log the calls that touch the group
// directory (by path, or by the descriptor of the temp file) in model terms.
func projectSyscalls(log, dir string) ([]string, map[string]int) {
	var seq []string
	counts := map[string]int{}
	tempFd := ""
	// strace splits a call into "<unfinished ...>" and "<... name resumed>"
	// when another thread's event comes in between: join the two halves
	pending := map[string]string{}
	var lines []string
	for _, line := range strings.Split(log, "\n") {
		if m := reResumed.FindStringSubmatch(line); m != nil {
			if head, ok := pending[m[1]]; ok {
				delete(pending, m[1])
				lines = append(lines, head+m[2])
			}
			continue
		}
		if i := strings.Index(line, "<unfinished ...>"); i >= 0 {
			if f := strings.Fields(line); len(f) > 0 {
				pending[f[0]] = line[:i]
			}
			continue
		}
		lines = append(lines, line)
	}
	// a call that was never resumed was entered and killed: counted, not run
	for _, head := range pending {
		lines = append(lines, head+") = ?")
	}
	for _, line := range lines {
		m := reSys.FindStringSubmatch(line)
		if m == nil {
			continue
		}
		name, rest := m[1], m[2]
		counts[name]++
		if strings.HasSuffix(strings.TrimSpace(rest), "= ?") || strings.Contains(rest, "<unfinished") {
			continue // entered but killed before it ran
		}
		inDir := strings.Contains(rest, dir+"/")
		switch {
		case name == "openat" && inDir && strings.Contains(rest, "O_CREAT") && strings.Contains(rest, "O_EXCL") && !strings.Contains(rest, ".json\""):
			// a new file that is not a definition: the temp file
			seq = append(seq, "create")
			if i := strings.LastIndex(rest, "= "); i >= 0 {
				tempFd = strings.TrimSpace(rest[i+2:])
			}
		case name == "openat" && inDir && (strings.Contains(rest, "O_TRUNC") || strings.Contains(rest, "O_WRONLY") || strings.Contains(rest, "O_RDWR")):
			seq = append(seq, "open-target-for-writing")
		case (name == "write" || name == "pwrite64") && tempFd != "" && strings.HasPrefix(rest, tempFd+","):
			if len(seq) == 0 || seq[len(seq)-1] != "write" {
				seq = append(seq, "write")
			}
		case (name == "fsync" || name == "fdatasync") && tempFd != "" && strings.HasPrefix(rest, tempFd+")"):
			seq = append(seq, "sync")
		case name == "close" && tempFd != "" && strings.HasPrefix(rest, tempFd+")"):
			seq = append(seq, "close")
			tempFd = ""
		case strings.HasPrefix(name, "rename") && inDir:
			seq = append(seq, "rename")
		case strings.HasPrefix(name, "unlink") && inDir:
			seq = append(seq, "remove")
		case strings.Contains(name, "truncate") && inDir:
			seq = append(seq, "truncate")
		}
	}
	return seq, counts
}

// crashHistory: one update in a child, killed before every file-related
// system call in turn.  full=false: a reduced set of kill points.
func crashHistory(t *tr.Trace, r *tr.Rand, full bool) {
	if _, err := exec.LookPath("strace"); err != nil {
		t.Note("strace-unavailable")
		return
	}
	h := newHist(t, r, "crash", true, false)
	h.seed(randSeed(r))
	h.exp.users[1] = uproj{perm: 1, pw: 2}
	h.seed(h.exp.clone())
	oldBytes, _ := os.ReadFile(h.file)
	oldTag := h.curTag()
	mode, arg := "updesc", 10+r.Intn(80)
	if r.Bool() {
		mode, arg = "upuser", r.Intn(4)
	}
	logPath := filepath.Join(baseDir, "strace.log")
	// reference run, not killed: the system-call sequence and the new bytes
	ref := runChild(h, mode, oldTag, arg, "", logPath)
	if ref.rc != 0 || ref.killed {
		// the tool, not the code under test: nothing is compared
		t.Note("strace-unusable")
		return
	}
	seq, counts := projectSyscalls(ref.log, h.dir)
	t.Op(strings.Join(seq, ","), "syscalls", mode)
	t.Checked("C18.syscall_order")
	if strings.Join(seq, ",") != "create,write,sync,close,rename" {
		t.Fail("C18", "syscall_order", "one update issued "+strings.Join(seq, ",")+" on the group directory; the proof assumes create,write,sync,close,rename")
	}
	newBytes, _ := os.ReadFile(h.file)
	if _, err := parseProj(newBytes); err != nil || bytes.Equal(newBytes, oldBytes) {
		t.Fail("C18", "atomic", fmt.Sprintf("reference update did not produce a new definition: %v", err))
		return
	}
	t.Op("new 0", "crash", 99) // the run that was not killed
	restore := func() {
		ents, _ := os.ReadDir(h.dir)
		for _, e := range ents {
			os.Remove(filepath.Join(h.dir, e.Name()))
		}
		os.WriteFile(h.file, oldBytes, 0600)
		tm := time.Unix(0, h.clock)
		os.Chtimes(h.file, tm, tm)
	}
	names := strings.Split(crashSyscalls, ",")
	points := 0
	for _, sc := range names {
		total := counts[sc]
		for n := 1; n <= total; n++ {
			if !full && total > 3 && n <= total-3 {
				// reduced: only the last three invocations of frequent calls
				// (the earlier ones belong to start-up and to reading)
				continue
			}
			restore()
			run := runChild(h, mode, oldTag, arg, fmt.Sprintf("%s:signal=SIGKILL:when=%d", sc, n), logPath)
			if run.rc == -2 || !strings.Contains(run.log, "(") {
				// strace itself did not run or left no log: not a crash point
				t.Note("strace-run-failed")
				continue
			}
			points++
			seqK, _ := projectSyscalls(run.log, h.dir)
			got, err := os.ReadFile(h.file)
			verdict := "partial"
			switch {
			case err != nil:
				verdict = "missing"
			case bytes.Equal(got, oldBytes):
				verdict = "old"
			case bytes.Equal(got, newBytes):
				verdict = "new"
			}
			leftovers := 0
			ents, _ := os.ReadDir(h.dir)
			for _, e := range ents {
				if !strings.HasSuffix(e.Name(), ".json") {
					leftovers++
				}
			}
			t.Checked("C18.atomic")
			if verdict != "old" && verdict != "new" {
				t.Fail("C18", "atomic", fmt.Sprintf("child killed before %s #%d (after %s): the definition file is %s (%d bytes: %q)", sc, n, strings.Join(seqK, ","), verdict, len(got), truncate(got)))
			}
			if !run.killed && verdict != "new" {
				t.Fail("C18", "atomic", fmt.Sprintf("child not killed (%s #%d, rc=%d) but the definition is %s", sc, n, run.rc, verdict))
			}
			// restart: the server's reader and the group listing
			desc, derr := group.GetDescription(groupName)
			if derr != nil || desc == nil {
				t.Fail("C18", "atomic", fmt.Sprintf("after a kill before %s #%d the definition cannot be read: %v", sc, n, derr))
			}
			lst, _ := group.GetDescriptionNames()
			if len(lst) != 1 || lst[0] != groupName {
				t.Fail("C18", "atomic", fmt.Sprintf("after a kill before %s #%d the groups are %v (leftover temp files: %d)", sc, n, lst, leftovers))
			}
			if leftovers > 0 {
				t.Note("leftover-temp-file-after-kill")
			}
			// the model replays the prefix of the sequence that was executed
			k := len(seqK)
			if !run.killed {
				k = 99
			}
			lo := "0"
			if leftovers > 0 {
				lo = "1"
			}
			t.Op(verdict+" "+lo, "crash", k)
		}
	}
	restore()
	t.Note(fmt.Sprintf("crash-points=%d", points))
	t.Nontrivial(fmt.Sprintf("crash/%s/%d", mode, points))
}

func truncate(b []byte) string {
	if len(b) > 60 {
		return string(b[:60]) + "..."
	}
	return string(b)
}

// ---------------------------------------------------------------- main

func corpus(t *tr.Trace, r *tr.Rand) {
	// the sequence of TestApi, through the direct functions
	h := newHist(t, r, "corpus", true, false)
	h.updateDescription(`"foo"`, 1)
	h.updateDescription("", 2)
	tag := h.getTag()
	h.updateDescription("", 3)
	h.updateDescription(tag, 4)
	h.updateDescription(tag, 5) // stale
	h.setKeys(1)
	h.updateUser(0, tag, 1)
	h.updateUser(0, "", 1)
	h.updateUser(0, "", 2) // exists now
	ut := h.getUserTag(0)
	h.setPassword(0, 3)
	h.updateUser(0, ut, 2) // stale after the password change
	ut = h.getUserTag(0)
	h.updateUser(0, ut, 2)
	h.state()
	h.deleteUser(0, ut) // stale
	h.deleteUser(0, h.getUserTag(0))
	h.deleteUser(0, h.curTag())
	h.updateUser(-1, "", 0)
	h.setPassword(-1, 1)
	h.state()
	h.deleteDescription(tag)
	h.deleteDescription(h.getTag())
	h.deleteDescription("")
	h.getTag()
	h.state()
	t.Nontrivial("corpus")
	// the same through HTTP
	h = newHist(t, r, "corpus-http", true, false)
	h.http(httpReq{kind: "putgroup", im: `"foo"`, arg: 1})
	h.http(httpReq{kind: "putgroup", inm: "*", arg: 2})
	h.http(httpReq{kind: "putgroup", inm: "*", arg: 3})
	h.http(httpReq{kind: "getgroup"})
	cur := h.curTag()
	h.http(httpReq{kind: "getgroup", inm: cur})
	h.http(httpReq{kind: "headgroup", inm: cur})
	h.http(httpReq{kind: "getgroup", inm: "W/" + cur})
	h.http(httpReq{kind: "getgroup", inm: "*"})
	h.http(httpReq{kind: "putgroup", im: cur, arg: 4})
	h.http(httpReq{kind: "putgroup", im: cur, arg: 5})
	h.http(httpReq{kind: "getgroup", inm: cur})
	h.http(httpReq{kind: "putuser", t: 1, inm: "*", arg: 1})
	h.http(httpReq{kind: "putuser", t: 1, inm: "*", arg: 2})
	h.http(httpReq{kind: "setpw", t: 1, arg: 2})
	h.http(httpReq{kind: "setkeys", arg: 3})
	h.http(httpReq{kind: "getuser", t: 1, inm: h.curTag()})
	h.http(httpReq{kind: "deluser", t: 1, im: cur})
	h.http(httpReq{kind: "deluser", t: 1, im: h.curTag()})
	h.http(httpReq{kind: "delgroup", inm: "*"})
	h.http(httpReq{kind: "delgroup", im: h.curTag()})
	h.state()
	t.Nontrivial("corpus-http")
}

func runDescStore(t *tr.Trace, r *tr.Rand, n int) {
	var err error
	log.SetOutput(io.Discard)
	baseDir, err = os.MkdirTemp("", "c18-descstore-*")
	if err != nil {
		panic(err)
	}
	defer os.RemoveAll(baseDir)
	static := filepath.Join(baseDir, "static")
	os.MkdirAll(static, 0700)
	if err := webserver.VerifEtagSetStaticRoot(static); err != nil {
		panic(err)
	}
	corpus(t, r)
	crashHistory(t, r, n >= 200)
	for i := 0; i < 3+n/100; i++ {
		rwRace(t, r, 400)
	}
	for i := 0; i < 6+n/20; i++ {
		h := newHist(t, r, "lockstep", !r.Chance(1, 15), false)
		h.seed(randSeed(r))
		h.lockstepOps(r.Range(8, 14))
		if h.acks >= 3 {
			t.Nontrivial(fmt.Sprintf("lockstep/%d/%d/%s", h.acks, h.stale, h.exp))
		}
	}
	for i := 0; i < 6+n/20; i++ {
		h := newHist(t, r, "loaded", true, false)
		p := randSeed(r)
		p.d = r.Range(10, 99)
		h.seed(p)
		h.loadedOps(r.Range(25, 45))
		if h.acks >= 3 {
			t.Nontrivial(fmt.Sprintf("loaded/%d/%s", h.acks, h.exp))
		}
	}
	for hi := 0; hi < n; hi++ {
		writable := !r.Chance(1, 12)
		var h *hist
		switch r.Pick(5, 4, 3, 1) {
		case 0:
			h = newHist(t, r, "direct", writable, false)
			if r.Chance(2, 3) {
				h.seed(randSeed(r))
			}
			h.directOps(r.Range(15, 40))
		case 1:
			h = newHist(t, r, "http", writable, false)
			if r.Chance(2, 3) {
				h.seed(randSeed(r))
			}
			h.httpOps(r.Range(15, 40))
		case 2:
			h = newHist(t, r, "race", writable, false)
			if r.Chance(2, 3) {
				h.seed(randSeed(r))
			}
			h.raceOps(r.Range(6, 14))
		default:
			h = newHist(t, r, "natural", true, true)
			h.seed(randSeed(r))
			h.directOps(r.Range(15, 40))
		}
		if !h.hypoOK {
			t.Note("history-violating-the-stamp-hypothesis")
		}
		if h.acks >= 3 && h.stale >= 1 {
			t.Nontrivial(fmt.Sprintf("%d/%d/%d/%s", h.acks, h.stale, len(h.seenTags), h.exp))
		}
	}
}

func main() {
	if os.Getenv("C18_CHILD") != "" {
		childMain()
		return
	}
	tr.Main(runDescStore)
}

package main

// hist.go: one history of the `subscribe` component = one sigdrv.World driven
// operation by operation on the REAL signalling code; every operation is
// buffered in the protocol that model/comp_subscribe.ml replays through
// Model/Subscribe.v and written to the trace when the history ends (a
// history disturbed by the real 200 ms timer is discarded and run again).
//
// Names: client handle h <-> client id "c<h>"; group k <-> "g<k>"; user n <->
// "u<n>" (n%4: 0 no permission, 1 present, 2 op+present); stream id k <-> "s<k>",
// label k <-> "l<k>", 0 <-> "".

import (
	"encoding/json"
	"fmt"
	"sort"
	"strconv"
	"strings"
	"time"

	"github.com/jech/galene/group"
	"github.com/jech/galene/rtpconn"
	"github.com/pion/webrtc/v4"

	"verifharness/internal/sigdrv"
	"verifharness/internal/tr"
)

const nGroups = 3

func sid(k int) string {
	if k == 0 {
		return ""
	}
	return "s" + strconv.Itoa(k)
}
func lbl(k int) string {
	if k == 0 {
		return ""
	}
	return "l" + strconv.Itoa(k)
}
func num(s string) int {
	if s == "" {
		return 0
	}
	n, err := strconv.Atoi(s[1:])
	if err != nil {
		return -1
	}
	return n
}

// omsg is a C07-relevant server-to-client message.
type omsg struct {
	typ                           string // offer close abort answer err
	id, label, replace, src, user int
	sdp                           string
}

func (m omsg) String() string {
	switch m.typ {
	case "offer":
		return fmt.Sprintf("offer/%d/%d/%d/%d/%d", m.id, m.label, m.replace, m.src, m.user)
	case "err":
		return "err"
	}
	return fmt.Sprintf("%s/%d", m.typ, m.id)
}

type cli struct {
	c   *sigdrv.Client
	h   int
	new []omsg   // messages caused by the last operation
	out []string // projected messages since the last obs
	// the driver's own record of what this client asked for (for the monitors)
	grp      int // -1: none
	user     int
	reqmap   map[int][]string
	hasReq   map[int]bool
	override map[int][]string // per stream id; present key = non-nil request
	declined map[int]bool     // aborted / refused / per-stream changed since the last full re-request
	subpc    map[int]*webrtc.PeerConnection
	lastSDP  map[int]string
}

type upRec struct {
	k       int // model handle
	up      *rtpconn.VerifUp
	owner   int
	id      int
	label   int
	grp     int
	timers  int
	pushed  bool // the driver's record of rtpUpConnection.pushed
	g       *group.Group
	pub     *publisher
	created time.Time
	lenient bool // established in sleep mode: intermediate pushes possible
}

type hist struct {
	t       *tr.Trace
	r       *tr.Rand
	w       *sigdrv.World
	stream  string
	n       int
	cs      []*cli
	ups     []*upRec
	lines   [][2]string // op text, observable
	fails   [][3]string // property, monitor, message
	checked map[string]int
	notes   map[string]int
	tainted bool
	lenient bool // since the last obs an establishment ran in sleep mode
	// ids used by more than one owner, or re-used: the unique-id hypothesis
	// of the theorems does not hold for them
	idOwner   map[int]int
	collision map[int]bool
	replaces  map[int]int // object -> the id it replaced
	hasTracks bool
	// (client, stream id) pairs for which the history is built to show a known
	// discrepancy: the monitor records a note instead of a violation
	knownMiss map[[2]int]string
	// nomodel: the history runs on REAL time (the 200 ms goroutines of pushConn):
	// its operations are not written to the trace (no comparison with the
	// model: their interleaving with the goroutines depends on the wall clock)
	// and only the monitor onlyMonitor, which polls, is evaluated
	nomodel     bool
	onlyMonitor string
}

func newHist(t *tr.Trace, r *tr.Rand, stream string, n int) *hist {
	w, err := sigdrv.NewWorld()
	if err != nil {
		panic(err)
	}
	h := &hist{t: t, r: r, w: w, stream: stream, n: n, checked: map[string]int{}, notes: map[string]int{},
		idOwner: map[int]int{}, collision: map[int]bool{}, replaces: map[int]int{}, knownMiss: map[[2]int]string{}}
	var users []sigdrv.User
	for u := 0; u < 4*n; u++ {
		var p []string
		switch u % 4 {
		case 1:
			p = []string{"present"}
		case 2:
			p = []string{"op", "present"}
		default:
			p = []string{}
		}
		users = append(users, sigdrv.User{Name: "u" + strconv.Itoa(u), Password: "pw", Permissions: p})
	}
	for g := 1; g <= nGroups; g++ {
		if err := w.AddGroup(sigdrv.GroupSpec{Name: "g" + strconv.Itoa(g), Users: users}); err != nil {
			panic(err)
		}
	}
	for i := 0; i < n; i++ {
		c := &cli{c: w.NewClient("c" + strconv.Itoa(i)), h: i, grp: -1}
		c.reset()
		c.subpc = map[int]*webrtc.PeerConnection{}
		c.lastSDP = map[int]string{}
		h.cs = append(h.cs, c)
	}
	return h
}

func (c *cli) reset() {
	c.grp = -1
	c.reqmap = map[int][]string{}
	c.hasReq = map[int]bool{}
	c.override = map[int][]string{}
	c.declined = map[int]bool{}
}

func (h *hist) fail(monitor, msg string) {
	if h.nomodel && monitor != h.onlyMonitor {
		return // a history run on real time: only its own, polling monitor counts
	}
	h.fails = append(h.fails, [3]string{"C07", monitor, msg})
}

// failProp reports a violation under another property whose statement the
// history also exercises (C04: limitSid follows the request).
func (h *hist) failProp(property, monitor, msg string) {
	if h.nomodel {
		return
	}
	h.fails = append(h.fails, [3]string{property, monitor, msg})
}
func (h *hist) check(monitor string) { h.checked[monitor]++ }
func (h *hist) note(k string)        { h.notes[k]++ }

// end closes the world and, unless the history was disturbed by the real
// timer, writes it to the trace.  It returns false if it must be run again.
func (h *hist) end(key string) bool {
	for _, u := range h.ups {
		if u.pub != nil {
			u.pub.close()
		}
	}
	for _, c := range h.cs {
		for _, pc := range c.subpc {
			pc.Close()
		}
	}
	if err := h.w.Close(); err != nil {
		h.fail("cleanup", err.Error())
	}
	if ps := h.w.Panics(); len(ps) > 0 {
		h.fail("no_panic", strings.Join(ps, "; "))
	}
	// a delayed push that the harness fired must still be marked as pushed:
	// otherwise an OnTrack slipped in after it and a real goroutine is (or was)
	// about to push on its own
	for _, u := range h.ups {
		if u.pushed && !u.up.Pushed() {
			h.tainted = true
		}
	}
	if h.tainted {
		h.t.Note("disturbed-by-timing")
		return false
	}
	h.t.History("subscribe", h.stream, h.n)
	if h.nomodel {
		h.lines = nil
	}
	for _, l := range h.lines {
		toks := strings.Split(l[0], " ")
		args := make([]interface{}, len(toks)-1)
		for i, x := range toks[1:] {
			args[i] = x
		}
		h.t.Op(l[1], toks[0], args...)
	}
	for k, v := range h.checked {
		for i := 0; i < v; i++ {
			if strings.HasPrefix(k, "C04.") {
				h.t.Checked(k)
			} else {
				h.t.Checked("C07." + k)
			}
		}
	}
	for k, v := range h.notes {
		for i := 0; i < v; i++ {
			h.t.Note(k)
		}
	}
	for _, f := range h.fails {
		h.t.Fail(f[0], f[1], f[2])
	}
	if key != "" {
		h.t.Nontrivial(key)
	}
	return true
}

// ---------------------------------------------------------------- draining

func (h *hist) drain() {
	for _, c := range h.cs {
		c.new = c.new[:0]
		raws := c.c.OutRaw()
		if len(raws) == 0 {
			continue
		}
		for _, u := range h.ups {
			if u.pub != nil && u.owner == c.h {
				u.pub.feed(sid(u.id), raws)
			}
		}
		for _, raw := range raws {
			var x struct {
				Type     string  `json:"type"`
				Kind     string  `json:"kind"`
				Id       string  `json:"id"`
				Label    string  `json:"label"`
				Replace  string  `json:"replace"`
				Source   string  `json:"source"`
				Username *string `json:"username"`
				SDP      string  `json:"sdp"`
			}
			if json.Unmarshal(raw, &x) != nil {
				continue
			}
			var m omsg
			switch x.Type {
			case "offer":
				u := -1
				if x.Username != nil {
					u = num(*x.Username)
				}
				m = omsg{typ: "offer", id: num(x.Id), label: num(x.Label), replace: num(x.Replace),
					src: num(x.Source), user: u, sdp: x.SDP}
				c.lastSDP[m.id] = x.SDP
			case "close", "abort", "answer":
				m = omsg{typ: x.Type, id: num(x.Id)}
			case "usermessage":
				if x.Kind != "error" {
					continue
				}
				m = omsg{typ: "err"}
			default:
				continue
			}
			c.new = append(c.new, m)
			if m.typ != "err" { // error usermessages are not part of the property
				c.out = append(c.out, m.String())
			}
		}
	}
}

// ---------------------------------------------------------------- observation

func reqLetter(s string) string {
	switch s {
	case "audio":
		return "a"
	case "video":
		return "v"
	case "video-low":
		return "l"
	}
	return "j"
}

func reqString(has bool, l []string) string {
	if !has {
		return "n"
	}
	if len(l) == 0 {
		return "-"
	}
	out := make([]string, len(l))
	for i, s := range l {
		out[i] = reqLetter(s)
	}
	return strings.Join(out, "+")
}

func (h *hist) obsString(withClose bool) string {
	var parts []string
	for _, c := range h.cs {
		g := "-"
		if c.c.HasGroup() {
			g = strconv.Itoa(num(c.c.GroupName()))
		}
		var ups []int
		for _, id := range c.c.UpIds() {
			ups = append(ups, num(id))
		}
		sort.Ints(ups)
		upss := make([]string, len(ups))
		for i, u := range ups {
			upss[i] = strconv.Itoa(u)
		}
		var downs []string
		for _, d := range c.c.VerifDowns() {
			var trs []string
			for _, i := range d.TrackIdx {
				if i < 0 {
					trs = append(trs, "x")
				} else {
					trs = append(trs, strconv.Itoa(i))
				}
			}
			sort.Strings(trs)
			// limitSid of the down tracks: L all set, - none, ? mixed
			lim := "-"
			nl := 0
			for _, l := range d.LimitSid {
				if l {
					nl++
				}
			}
			if nl > 0 && nl == len(d.LimitSid) {
				lim = "L"
			} else if nl > 0 {
				lim = "?"
			}
			// have-local-offer, and N if a renegotiation is deferred until the answer
			neg := ""
			if d.Negotiation > 0 {
				neg = "N"
			}
			downs = append(downs, fmt.Sprintf("%d/%d/%d/%s/%s/%s/%s%s", num(d.Id), num(d.RemoteOwner), num(d.RemoteId),
				dash(strings.Join(trs, "+")), lim, reqString(d.HasRequested, d.Requested), tr.B(d.HaveLocal), neg))
		}
		sort.Strings(downs)
		var outs []string
		for _, o := range c.out {
			if !withClose && strings.HasPrefix(o, "close/") {
				continue
			}
			outs = append(outs, o)
		}
		sort.Strings(outs)
		c.out = nil
		parts = append(parts, fmt.Sprintf("%d:g=%s:p=%s:dead=%s:up=%s:down=%s:out=%s", c.h, g,
			tr.B(has(c.c.Permissions(), "present")), tr.B(c.c.Dead),
			dash(strings.Join(upss, ",")), dash(strings.Join(downs, ";")), dash(strings.Join(outs, ","))))
	}
	return strings.Join(parts, " ")
}

func dash(s string) string {
	if s == "" {
		return "-"
	}
	return s
}

func has(l []string, s string) bool {
	for _, x := range l {
		if x == s {
			return true
		}
	}
	return false
}

// obs writes the full observation.  After an establishment in sleep mode the
// `close` messages are not compared (an intermediate push with fewer tracks
// may have happened).
func (h *hist) obs() {
	if h.lenient {
		h.lines = append(h.lines, [2]string{"obsx", h.obsString(false)})
		h.lenient = false
	} else {
		h.lines = append(h.lines, [2]string{"obs", h.obsString(true)})
	}
}

// ---------------------------------------------------------------- operations

func (h *hist) line(obs string, format string, a ...interface{}) {
	h.lines = append(h.lines, [2]string{fmt.Sprintf(format, a...), obs})
}

func status(c *cli, res sigdrv.Result) string {
	if !res.Ran {
		return "dead"
	}
	if res.Err != nil {
		return "err"
	}
	return "ok"
}

// after every operation: collect what was sent, run the per-operation monitors
func (h *hist) after(actor *cli, kind string, id int, downsBefore [][]int, grpBefore []int) {
	h.drain()
	h.perOpMonitors(actor, kind, id, downsBefore, grpBefore)
}

// snapshot: the down stream ids and the group (-1: none, or dead) of every
// client before an operation
func (h *hist) snapshot() ([][]int, []int) {
	downs := make([][]int, len(h.cs))
	in := make([]int, len(h.cs))
	for i, c := range h.cs {
		for _, id := range c.c.DownIds() {
			downs[i] = append(downs[i], num(id))
		}
		in[i] = -1
		if c.c.HasGroup() && !c.c.Dead {
			in[i] = num(c.c.GroupName())
		}
	}
	return downs, in
}

func (h *hist) send(c *cli, kind string, id int, m sigdrv.M, format string, a ...interface{}) sigdrv.Result {
	db, gb := h.snapshot()
	res := c.c.Send(m)
	if res.Err != nil || c.c.Dead {
		if res.Ran && res.Err != nil {
			c.reset()
		}
	}
	h.line(status(c, res), format, a...)
	h.after(c, kind, id, db, gb)
	return res
}

func (h *hist) join(c *cli, g, user int) {
	res := h.send(c, "join", 0, sigdrv.M{"type": "join", "kind": "join", "group": "g" + strconv.Itoa(g),
		"username": "u" + strconv.Itoa(user), "password": "pw"},
		"join %d %d %d %s %s", c.h, g, user, tr.B(user%4 == 1 || user%4 == 2), tr.B(user%4 == 2))
	if res.Ran && res.Err == nil {
		c.grp = g
		c.user = user
	}
}

func (h *hist) leave(c *cli, g int) {
	res := h.send(c, "leave", 0, sigdrv.M{"type": "join", "kind": "leave", "group": "g" + strconv.Itoa(g)},
		"leave %d %d", c.h, g)
	if res.Ran && res.Err == nil {
		c.reset()
	}
}

// request: m maps a label to a request; nil value = JSON null
func (h *hist) request(c *cli, labels []int, reqs [][]string, null []bool) {
	jm := map[string]interface{}{}
	var spec []string
	for i, l := range labels {
		if null[i] {
			jm[lbl(l)] = nil
		} else {
			r := reqs[i]
			if r == nil {
				r = []string{}
			}
			jm[lbl(l)] = r
		}
		spec = append(spec, fmt.Sprintf("%d:%s", l, reqString(true, reqs[i])))
	}
	res := h.send(c, "request", 0, sigdrv.M{"type": "request", "request": jm},
		"request %d %s", c.h, dash(strings.Join(spec, ";")))
	if res.Ran && res.Err == nil {
		c.reqmap = map[int][]string{}
		c.hasReq = map[int]bool{}
		for i, l := range labels {
			c.reqmap[l] = reqs[i]
			c.hasReq[l] = true
		}
		c.declined = map[int]bool{}
	}
}

// reqstream: mode 0 = null, 1 = the list (possibly empty)
func (h *hist) reqstream(c *cli, id int, null bool, req []string) {
	var v interface{}
	if !null {
		if req == nil {
			req = []string{}
		}
		v = req
	}
	res := h.send(c, "reqstream", id, sigdrv.M{"type": "requestStream", "id": sid(id), "request": v},
		"reqstream %d %d %s", c.h, id, reqString(!null, req))
	if res.Ran && res.Err == nil {
		if null {
			delete(c.override, id)
		} else {
			c.override[id] = req
		}
		c.declined[id] = true
		// the request in force for this stream is now the list the client sent: a
		// list that is PRESENT AND EMPTY means "nothing of this stream" (the
		// client is to be sent a close), null means "back to the request map";
		// the two must not be confused on the way in
		h.check("request_stream_recorded")
		for _, d := range c.c.VerifDowns() {
			if d.Id != sid(id) {
				continue
			}
			if d.HasRequested != !null || (!null && fmt.Sprint(d.Requested) != fmt.Sprint(req)) {
				h.fail("request_stream_recorded", fmt.Sprintf("client %d sent requestStream %d with request %s; the server recorded %s for that stream: the stream will be evaluated under another request than the one the client made",
					c.h, id, reqString(!null, req), reqString(d.HasRequested, d.Requested)))
			}
		}
	}
}

func (h *hist) offerSDP(c *cli, id, label, replace int, sdpKind string, sdp string, pub *publisher) *upRec {
	prev := c.c.VerifUp(sid(id))
	var g *group.Group
	if c.c.HasGroup() {
		g = h.w.Group(c.c.GroupName())
	}
	m := sigdrv.M{"type": "offer", "id": sid(id), "sdp": sdp}
	if label != 0 {
		m["label"] = lbl(label)
	}
	if replace != 0 {
		m["replace"] = sid(replace)
	}
	db, gb := h.snapshot()
	t0 := time.Now()
	res := c.c.Send(m)
	if res.Ran && res.Err != nil {
		c.reset()
	}
	var rec *upRec
	cur := c.c.VerifUp(sid(id))
	newS := "-"
	if res.Ran && cur != nil && (prev == nil || !cur.Same(prev)) {
		rec = &upRec{k: len(h.ups), up: cur, owner: c.h, id: id, label: label, grp: num(c.c.GroupName()),
			timers: 1, g: g, pub: pub, created: t0}
		h.ups = append(h.ups, rec)
		newS = strconv.Itoa(rec.k)
		if o, ok := h.idOwner[id]; ok {
			h.collision[id] = true
			_ = o
		}
		h.idOwner[id] = c.h
		if replace != 0 {
			h.replaces[rec.k] = replace
		}
	}
	if replace != 0 {
		if o, ok := h.idOwner[replace]; !ok || o != c.h {
			h.collision[replace] = true
		}
	}
	h.drain()
	// A second offer for an EXISTING connection: whether pion accepts it depends
	// on what the peer connection has been through (e.g. one created by an offer
	// that was refused does not accept a good offer later).  Negotiation is an
	// oracle of the model: the trace records what pion decided.
	if prev != nil && sdpKind == "g" && rec == nil {
		answered := false
		for _, o := range c.new {
			if o.typ == "answer" && o.id == id {
				answered = true
			}
		}
		if !answered {
			sdpKind = "m"
			h.note("second-offer-refused-by-pion")
		}
	}
	h.line(status(c, res)+" new="+newS, "offer %d %d %d %d %s", c.h, id, label, replace, sdpKind)
	h.perOpMonitors(c, "offer", id, db, gb)
	return rec
}

func (h *hist) offer(c *cli, id, label, replace int, sdpKind string) *upRec {
	k := map[string]string{"g": "good", "m": "min", "b": "bad"}[sdpKind]
	return h.offerSDP(c, id, label, replace, sdpKind, sigdrv.SDP(k), nil)
}

func (h *hist) closeUp(c *cli, id int) {
	h.send(c, "close", id, sigdrv.M{"type": "close", "id": sid(id)}, "close %d %d", c.h, id)
}

func (h *hist) abort(c *cli, id int) {
	res := h.send(c, "abort", id, sigdrv.M{"type": "abort", "id": sid(id)}, "abort %d %d", c.h, id)
	if res.Ran && res.Err == nil {
		c.declined[id] = true
		delete(c.override, id)
	}
}

// answer: ok = a real answer produced by a pion peer connection from the last
// offer sent to the client for this stream; !ok = an SDP that does not parse.
func (h *hist) answer(c *cli, id int, ok bool) {
	sdp := sigdrv.SDP("bad")
	if ok {
		s, err := h.realAnswer(c, id)
		if err != nil {
			h.note("answer-failed-locally")
			return
		}
		sdp = s
	}
	res := h.send(c, "answer", id, sigdrv.M{"type": "answer", "id": sid(id), "sdp": sdp},
		"answer %d %d %s", c.h, id, tr.B(ok))
	if res.Ran && res.Err == nil && !ok {
		c.declined[id] = true
		delete(c.override, id)
	}
}

func (h *hist) realAnswer(c *cli, id int) (string, error) {
	offer, ok := c.lastSDP[id]
	if !ok {
		return "", fmt.Errorf("no offer")
	}
	pc := c.subpc[id]
	if pc == nil {
		var err error
		pc, err = webrtc.NewPeerConnection(webrtc.Configuration{})
		if err != nil {
			return "", err
		}
		c.subpc[id] = pc
	}
	if err := pc.SetRemoteDescription(webrtc.SessionDescription{Type: webrtc.SDPTypeOffer, SDP: offer}); err != nil {
		return "", err
	}
	a, err := pc.CreateAnswer(nil)
	if err != nil {
		return "", err
	}
	if err := pc.SetLocalDescription(a); err != nil {
		return "", err
	}
	return a.SDP, nil
}

func (h *hist) kick(c *cli, dest int) {
	h.send(c, "kick", 0, sigdrv.M{"type": "useraction", "kind": "kick", "dest": "c" + strconv.Itoa(dest)},
		"kick %d %d", c.h, dest)
}

func (h *hist) perm(c *cli, dest int, give bool) {
	k := "unpresent"
	if give {
		k = "present"
	}
	h.send(c, "perm", 0, sigdrv.M{"type": "useraction", "kind": k, "dest": "c" + strconv.Itoa(dest)},
		"perm %d %d %s", c.h, dest, tr.B(give))
}

func (h *hist) disc(c *cli) {
	db, gb := h.snapshot()
	st := "ok"
	if c.c.Dead {
		st = "dead"
	}
	c.c.Disconnect()
	c.reset()
	h.line(st, "disc %d", c.h)
	h.after(c, "disc", 0, db, gb)
}

func (h *hist) pump(c *cli) {
	db, gb := h.snapshot()
	res := c.c.Pump()
	if res.Ran && res.Err != nil {
		c.reset()
	}
	h.line(status(c, res), "pump %d", c.h)
	h.after(c, "pump", 0, db, gb)
}

// timer fires the first pending delayed push of the object NOW (hook Fire).
func (h *hist) timer(u *upRec) {
	if u.timers == 0 {
		return
	}
	u.timers--
	db, gb := h.snapshot()
	fired := u.up.Fire(u.g)
	if fired == u.pushed {
		// the real goroutine of pushConn got there first (the history took
		// more than 200 ms of wall time): discard and run again
		h.tainted = true
	}
	u.pushed = true
	h.line(tr.B(fired), "timer %d", u.k)
	h.after(nil, "timer", u.id, db, gb)
}

func (h *hist) pendingTimers() []*upRec {
	var out []*upRec
	for _, u := range h.ups {
		if u.timers > 0 {
			out = append(out, u)
		}
	}
	return out
}

// pumpAny pumps one runnable client chosen by the seeded generator.
func (h *hist) pumpAny() bool {
	var rs []*cli
	for _, c := range h.cs {
		if c.c.Runnable() {
			rs = append(rs, c)
		}
	}
	if len(rs) == 0 {
		return false
	}
	h.pump(rs[h.r.Intn(len(rs))])
	return true
}

// quiesce: pump and fire until nothing is pending; then observe and run the
// monitors of the quiescent state.
func (h *hist) quiesce() {
	for i := 0; i < 5000; i++ {
		ts := h.pendingTimers()
		runnable := false
		for _, c := range h.cs {
			if c.c.Runnable() {
				runnable = true
			}
		}
		if !runnable && len(ts) == 0 {
			break
		}
		if len(ts) > 0 && (!runnable || h.r.Chance(1, 3)) {
			h.timer(ts[h.r.Intn(len(ts))])
		} else {
			h.pumpAny()
		}
	}
	h.line("1", "quiescent")
	h.obs()
	h.quiescentMonitors()
}

// establish publishes a REAL stream: an in-process pion publisher sends the
// offer, takes galene's answer and candidates, and sends RTP until OnTrack
// has fired for every track.  The driver does nothing else meanwhile.  Then
// the delayed push is fired through the hook (one push with all the tracks).
// If that did not happen within the push delay of the offer (slow ICE, loaded
// machine) a real goroutine of pushConn may have pushed on its own at a moment
// the harness does not control: the history is marked as disturbed, discarded
// and run again (see end); nothing that depends on the wall clock is compared.
func (h *hist) establish(c *cli, id, label, replace int, kinds []string) *upRec {
	return h.establishWith(c, id, label, replace, kinds, nil)
}

// establishWith runs between() right after the offer, before any track can
// have arrived (checked): what happens inside the push delay of the stream.
func (h *hist) establishWith(c *cli, id, label, replace int, kinds []string, between func()) *upRec {
	for _, u := range h.pendingTimers() { // no other timer may be pending while we wait
		for u.timers > 0 {
			h.timer(u)
		}
	}
	pub, err := newPublisher(kinds)
	if err != nil {
		h.note("publisher-failed")
		return nil
	}
	sdp, err := pub.offer()
	if err != nil {
		pub.close()
		h.note("publisher-failed")
		return nil
	}
	rec := h.offerSDP(c, id, label, replace, "g", sdp, pub)
	if rec == nil {
		pub.close()
		return nil
	}
	if between != nil {
		between()
		if len(rec.up.Kinds()) > 0 {
			h.tainted = true // a track overtook the scripted operations
		}
	}
	pub.start()
	deadline := time.Now().Add(6 * time.Second)
	var got []string
	for time.Now().Before(deadline) {
		h.drain()
		got = rec.up.Kinds()
		if len(got) >= len(kinds) {
			break
		}
		time.Sleep(5 * time.Millisecond)
	}
	if len(got) < len(kinds) {
		h.note("tracks-did-not-arrive")
		h.tainted = true
		return rec
	}
	h.hasTracks = true
	letters := make([]string, len(got))
	for i, k := range got {
		letters[i] = reqLetter(k)
	}
	rec.timers += len(got)
	rec.pushed = false
	h.line(strconv.Itoa(len(got)), "track %d %s", rec.k, strings.Join(letters, ","))
	// Fire the delayed push through the hook: one push with all the tracks.
	// The history is undisturbed only if the hook did push (no real goroutine
	// had done the test-and-set since the last OnTrack) AND less than the push
	// delay has passed since the offer when it returns (time.Sleep never wakes
	// early: no real goroutine of this stream can have run at all) AND no
	// pushConn of an OnTrack slips in afterwards (checked here after a pause and
	// again when the history ends).
	h.timer(rec)
	if h.lines[len(h.lines)-1][1] != "1" || time.Since(rec.created) >= 185*time.Millisecond {
		h.tainted = true
	}
	for rec.timers > 0 {
		h.timer(rec)
	}
	time.Sleep(2 * time.Millisecond)
	if !rec.up.Pushed() {
		h.tainted = true
	}
	h.note("established-by-hook")
	return rec
}

package main

import (
	"fmt"
	"time"

	"verifharness/internal/sigdrv"
)

func main() {
	sigdrv.Quiet()
	w, _ := sigdrv.NewWorld()
	defer w.Close()
	w.AddGroup(sigdrv.GroupSpec{Name: "g", Users: []sigdrv.User{
		{Name: "pub", Password: "pw", Permissions: []string{"present"}},
		{Name: "sub", Password: "pw", Permissions: []string{}},
		{Name: "sub2", Password: "pw", Permissions: []string{}}}})
	p := w.NewClient("P")
	m := w.NewClient("M")
	n := w.NewClient("N")
	fmt.Println(p.Send(sigdrv.M{"type": "join", "kind": "join", "group": "g", "username": "pub", "password": "pw"}).Class)
	fmt.Println(m.Send(sigdrv.M{"type": "join", "kind": "join", "group": "g", "username": "sub", "password": "pw"}).Class)
	fmt.Println(n.Send(sigdrv.M{"type": "join", "kind": "join", "group": "g", "username": "sub2", "password": "pw"}).Class)
	w.Quiesce(nil)
	m.Send(sigdrv.M{"type": "request", "request": map[string]interface{}{"": []string{"audio", "video"}}})
	w.Quiesce(nil)
	p.OutRaw()
	m.OutRaw()
	n.OutRaw()
	t0 := time.Now()
	pub, err := newPublisher([]string{"audio", "video", "video"})
	if err != nil {
		panic(err)
	}
	defer pub.close()
	sdp, err := pub.offer()
	if err != nil {
		panic(err)
	}
	fmt.Println("offer created", time.Since(t0))
	res := p.Send(sigdrv.M{"type": "offer", "id": "s1", "label": "camera", "sdp": sdp})
	fmt.Println("offer:", res.Class, res.Err)
	up := p.VerifUp("s1")
	pub.start()
	deadline := time.Now().Add(8 * time.Second)
	answered := false
	for time.Now().Before(deadline) {
		a, err := pub.feed("s1", p.OutRaw())
		if err != nil {
			panic(err)
		}
		answered = answered || a
		if len(up.Kinds()) >= 3 {
			break
		}
		time.Sleep(10 * time.Millisecond)
	}
	fmt.Println("answered", answered, "tracks", up.Kinds(), time.Since(t0))
	time.Sleep(260 * time.Millisecond)
	w.Quiesce(nil)
	for _, c := range []*sigdrv.Client{m, n} {
		for _, o := range c.Out() {
			fmt.Println(c.ID, "<-", o.Type, o.Id, o.Source, o.User(), o.Replace)
		}
		for _, d := range c.VerifDowns() {
			fmt.Printf("%s down %+v\n", c.ID, d)
		}
	}
	// second subscriber requests video-low
	n.Send(sigdrv.M{"type": "request", "request": map[string]interface{}{"camera": []string{"video-low"}}})
	w.Quiesce(nil)
	for _, c := range []*sigdrv.Client{m, n} {
		for _, o := range c.Out() {
			fmt.Println(c.ID, "<-", o.Type, o.Id, o.Source, o.User(), o.Replace)
		}
		for _, d := range c.VerifDowns() {
			fmt.Printf("%s down %+v\n", c.ID, d)
		}
	}
	fmt.Println("total", time.Since(t0))
}

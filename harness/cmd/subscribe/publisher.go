package main

// A REAL publisher: an in-process pion PeerConnection with local RTP tracks.
// Its offer is fed to galene's real gotOffer as the `offer` message of a
// VerifClient, galene's `answer` and trickled `ice` messages are taken from
// the client's outbox, and a few RTP packets per track make pion's OnTrack
// fire on the server side, which is the only way an rtpUpConnection gets
// tracks.

import (
	"encoding/json"
	"fmt"
	"sync"
	"time"

	"github.com/pion/rtp"
	"github.com/pion/webrtc/v4"
)

type publisher struct {
	pc     *webrtc.PeerConnection
	tracks []*webrtc.TrackLocalStaticRTP
	kinds  []string
	stop   chan struct{}
	wg     sync.WaitGroup
	mu     sync.Mutex
	cands  []webrtc.ICECandidateInit
}

// newPublisher creates a peer connection sending one track per entry of
// kinds ("audio" = Opus, "video" = VP8), in that order.
func newPublisher(kinds []string) (*publisher, error) {
	pc, err := webrtc.NewPeerConnection(webrtc.Configuration{})
	if err != nil {
		return nil, err
	}
	p := &publisher{pc: pc, kinds: kinds, stop: make(chan struct{})}
	for i, k := range kinds {
		var cap webrtc.RTPCodecCapability
		if k == "audio" {
			cap = webrtc.RTPCodecCapability{MimeType: webrtc.MimeTypeOpus, ClockRate: 48000, Channels: 2}
		} else {
			cap = webrtc.RTPCodecCapability{MimeType: webrtc.MimeTypeVP8, ClockRate: 90000}
		}
		t, err := webrtc.NewTrackLocalStaticRTP(cap, fmt.Sprintf("t%d", i), "verifstream")
		if err != nil {
			pc.Close()
			return nil, err
		}
		_, err = pc.AddTransceiverFromTrack(t, webrtc.RTPTransceiverInit{
			Direction: webrtc.RTPTransceiverDirectionSendonly})
		if err != nil {
			pc.Close()
			return nil, err
		}
		p.tracks = append(p.tracks, t)
	}
	return p, nil
}

// offer creates the offer and waits for ICE gathering to complete, so that
// the SDP carries the publisher's candidates (no trickling on this side).
func (p *publisher) offer() (string, error) {
	o, err := p.pc.CreateOffer(nil)
	if err != nil {
		return "", err
	}
	done := webrtc.GatheringCompletePromise(p.pc)
	if err := p.pc.SetLocalDescription(o); err != nil {
		return "", err
	}
	select {
	case <-done:
	case <-time.After(5 * time.Second):
		return "", fmt.Errorf("ICE gathering did not complete")
	}
	return p.pc.LocalDescription().SDP, nil
}

// feed hands the server's messages about stream id (answer, ice) to the
// peer connection.  It returns whether an answer was seen.
func (p *publisher) feed(id string, raws [][]byte) (bool, error) {
	answered := false
	for _, raw := range raws {
		var m struct {
			Type      string                   `json:"type"`
			Id        string                   `json:"id"`
			SDP       string                   `json:"sdp"`
			Candidate *webrtc.ICECandidateInit `json:"candidate"`
		}
		if json.Unmarshal(raw, &m) != nil || m.Id != id {
			continue
		}
		switch m.Type {
		case "answer":
			err := p.pc.SetRemoteDescription(webrtc.SessionDescription{Type: webrtc.SDPTypeAnswer, SDP: m.SDP})
			if err != nil {
				return false, err
			}
			answered = true
			p.mu.Lock()
			cs := p.cands
			p.cands = nil
			p.mu.Unlock()
			for _, c := range cs {
				p.pc.AddICECandidate(c)
			}
		case "ice":
			if m.Candidate == nil {
				continue
			}
			if p.pc.RemoteDescription() == nil {
				p.mu.Lock()
				p.cands = append(p.cands, *m.Candidate)
				p.mu.Unlock()
			} else {
				p.pc.AddICECandidate(*m.Candidate)
			}
		}
	}
	return answered, nil
}

// start sends one small RTP packet per track every 20 ms until close.
func (p *publisher) start() {
	p.wg.Add(1)
	go func() {
		defer p.wg.Done()
		seq := uint16(1000)
		ts := uint32(5000)
		tick := time.NewTicker(20 * time.Millisecond)
		defer tick.Stop()
		for {
			select {
			case <-p.stop:
				return
			case <-tick.C:
			}
			for i, t := range p.tracks {
				payload := []byte{0x10, 0x00, 0x00, 0x9d, 0x01, 0x2a, 0x10, 0x00, 0x10, 0x00} // VP8: S bit, key frame header
				if p.kinds[i] == "audio" {
					payload = []byte{0xf8, 0xff, 0xfe}
				}
				t.WriteRTP(&rtp.Packet{
					Header:  rtp.Header{Version: 2, SequenceNumber: seq, Timestamp: ts, Marker: true},
					Payload: payload,
				})
			}
			seq++
			ts += 960
		}
	}()
}

func (p *publisher) close() {
	select {
	case <-p.stop:
	default:
		close(p.stop)
	}
	p.wg.Wait()
	p.pc.Close()
}

package main

// random.go: seeded random histories.  The generator is the scheduler: it
// decides which client reads a message, which client serves its action queue
// and when each delayed push fires.

import (
	"fmt"

	"verifharness/internal/tr"
)

type gen struct {
	h      *hist
	r      *tr.Rand
	nextId int
	real   int // real publishers still allowed
	pool   []int
}

func (g *gen) freshId() int {
	if len(g.pool) > 0 {
		return g.pool[g.r.Intn(len(g.pool))]
	}
	g.nextId++
	return g.nextId
}

func (g *gen) randReq() []string {
	switch g.r.Pick(2, 3, 3, 2, 2, 2, 1, 1) {
	case 0:
		return []string{}
	case 1:
		return []string{"audio", "video"}
	case 2:
		return []string{"audio"}
	case 3:
		return []string{"video"}
	case 4:
		return []string{"video-low"}
	case 5:
		return []string{"audio", "video-low"}
	case 6:
		return []string{"junk", "video", "video-low"}
	}
	return []string{"junk"}
}

func (g *gen) randKinds() []string {
	switch g.r.Pick(3, 2, 2, 2, 1) {
	case 0:
		return []string{"audio", "video"}
	case 1:
		return []string{"audio"}
	case 2:
		return []string{"video"}
	case 3:
		return []string{"audio", "video", "video"}
	}
	return []string{"video", "video"}
}

func (g *gen) ownUps(c *cli) []int {
	var out []int
	for _, id := range c.c.UpIds() {
		out = append(out, num(id))
	}
	return out
}

func (g *gen) downs(c *cli) []int {
	var out []int
	for _, id := range c.c.DownIds() {
		out = append(out, num(id))
	}
	return out
}

func (g *gen) pick(l []int) int { return l[g.r.Intn(len(l))] }

func (g *gen) step() {
	h, r := g.h, g.r
	c := h.cs[r.Intn(len(h.cs))]
	inGroup := c.c.HasGroup() && !c.c.Dead
	switch r.Pick(22, 12, 10, 12, 3, 4, 3, 3, 3, 3, 2, 1, 2, 1, 3, 3) {
	case 0: // serve a queue
		if !h.pumpAny() {
			if ts := h.pendingTimers(); len(ts) > 0 {
				h.timer(ts[r.Intn(len(ts))])
			}
		}
	case 1: // a delayed push fires
		if ts := h.pendingTimers(); len(ts) > 0 {
			h.timer(ts[r.Intn(len(ts))])
		} else {
			h.pumpAny()
		}
	case 2: // join / leave
		if c.c.Dead {
			return
		}
		if !inGroup {
			role := r.Pick(3, 7, 2)
			grp := 1 + r.Pick(6, 3, 1)
			h.join(c, grp, 4*r.Intn(h.n)+role)
		} else if r.Chance(1, 3) {
			if r.Chance(1, 12) {
				h.leave(c, 1+r.Intn(nGroups)) // possibly the wrong group: an error, the connection ends
			} else {
				h.leave(c, num(c.c.GroupName()))
			}
		} else if r.Chance(1, 20) {
			h.join(c, 1, 1) // a second join: protocol error
		}
	case 3: // request
		if !inGroup && !r.Chance(1, 15) {
			return
		}
		var labels []int
		var reqs [][]string
		var null []bool
		for l := 0; l <= 2; l++ {
			if r.Chance(1, 2) || (l == 0 && r.Chance(1, 2)) {
				labels = append(labels, l)
				if r.Chance(1, 10) {
					reqs = append(reqs, nil)
					null = append(null, true)
				} else {
					reqs = append(reqs, g.randReq())
					null = append(null, false)
				}
			}
		}
		h.request(c, labels, reqs, null)
	case 4: // requestStream
		ds := g.downs(c)
		if len(ds) == 0 {
			if r.Chance(1, 10) {
				h.reqstream(c, 1+r.Intn(4), false, g.randReq()) // unknown id: the connection ends
			}
			return
		}
		if r.Chance(1, 5) {
			h.reqstream(c, g.pick(ds), true, nil)
		} else {
			h.reqstream(c, g.pick(ds), false, g.randReq())
		}
	case 5: // offer
		if c.c.Dead || (!inGroup && !r.Chance(1, 10)) {
			return
		}
		replace := 0
		ups := g.ownUps(c)
		if len(ups) > 0 && r.Chance(1, 3) && len(g.pool) == 0 {
			replace = g.pick(ups)
		}
		sdp := []string{"g", "g", "g", "g", "g", "g", "g", "g", "m", "b"}[r.Intn(10)]
		if g.real > 0 && has(c.c.Permissions(), "present") && r.Chance(1, 2) {
			g.real--
			h.establish(c, g.freshId(), r.Intn(3), replace, g.randKinds())
			return
		}
		h.offer(c, g.freshId(), r.Intn(3), replace, sdp)
	case 6: // the publisher closes a stream
		ups := g.ownUps(c)
		if len(ups) > 0 {
			h.closeUp(c, g.pick(ups))
		} else if r.Chance(1, 5) && !c.c.Dead {
			h.closeUp(c, 1+r.Intn(5))
		}
	case 7: // abort by the subscriber
		ds := g.downs(c)
		if len(ds) > 0 {
			h.abort(c, g.pick(ds))
		} else if r.Chance(1, 5) && !c.c.Dead {
			h.abort(c, 1+r.Intn(5))
		}
	case 8: // answer
		ds := g.downs(c)
		if len(ds) == 0 {
			return
		}
		id := g.pick(ds)
		ok := false
		if r.Chance(2, 3) {
			for _, d := range c.c.VerifDowns() {
				if num(d.Id) == id && d.HaveLocal {
					ok = true
				}
			}
		}
		h.answer(c, id, ok)
	case 9: // moderation
		if c.c.Dead {
			return
		}
		dest := r.Intn(h.n)
		if r.Chance(1, 3) {
			h.kick(c, dest)
		} else {
			h.perm(c, dest, r.Chance(1, 3))
		}
	case 10:
		if !c.c.Dead && r.Chance(1, 2) {
			h.disc(c)
		}
	case 11: // a second offer for an existing stream
		ups := g.ownUps(c)
		if len(ups) > 0 {
			id := g.pick(ups)
			for _, u := range h.ups {
				if u.id == id && u.pub != nil {
					return // not for real streams
				}
			}
			h.offer(c, id, r.Intn(3), 0, []string{"g", "m", "b"}[r.Intn(3)])
		}
	case 12: // observe without waiting for quiescence
		h.obs()
	case 13:
		h.quiesce()
	case 14:
		// a permission change with an offer in flight: an operator takes (or
		// gives) `present`, the publisher's loop applies the change (its
		// permissionsChangedAction is still queued) and then reads an offer
		// that replaces one of its streams, or a close
		ups := g.ownUps(c)
		if len(ups) == 0 || !inGroup {
			return
		}
		var op *cli
		for _, o := range h.cs {
			if !o.c.Dead && o.c.HasGroup() && o.c.GroupName() == c.c.GroupName() && has(o.c.Permissions(), "op") {
				op = o
			}
		}
		if op == nil {
			return
		}
		h.perm(op, c.h, r.Chance(1, 4))
		if r.Chance(3, 4) {
			h.pump(c)
		}
		if len(g.pool) > 0 || r.Chance(1, 4) {
			h.closeUp(c, g.pick(ups))
		} else {
			h.offer(c, g.freshId(), r.Intn(3), g.pick(ups), "g")
		}
	case 15:
		// change the request on what is already established
		if !inGroup {
			return
		}
		labs := []int{r.Intn(3)}
		if labs[0] != 0 && r.Chance(1, 2) {
			labs = append(labs, 0)
		}
		h.request(c, labs, [][]string{g.randReq(), g.randReq()}[:len(labs)], make([]bool, len(labs)))
		if r.Chance(1, 2) {
			h.quiesce()
		}
	}
}

func randomHistory(t *tr.Trace, r *tr.Rand, real bool, i int) bool {
	n := r.Range(3, 5)
	stream := "random"
	if real {
		stream = "random-real"
	}
	h := newHist(t, r, stream, n)
	g := &gen{h: h, r: r}
	if real {
		g.real = r.Range(1, 2)
	}
	// most clients join at once so that something happens
	for _, c := range h.cs {
		if r.Chance(4, 5) {
			role := r.Pick(3, 7, 2)
			h.join(c, 1+r.Pick(7, 3), 4*r.Intn(n)+role)
			if r.Chance(2, 3) {
				h.reqDefault(c, g.randReq())
			}
		}
	}
	steps := r.Range(15, 60)
	for s := 0; s < steps; s++ {
		g.step()
	}
	h.quiesce()
	key := ""
	if len(h.ups) > 0 {
		key = fmt.Sprintf("%s-%d-%d-%d-%v", stream, n, len(h.ups), len(h.lines), h.hasTracks)
	}
	return h.end(key)
}

// collisionHistory: stream ids from a pool of three, no `replace`.
func collisionHistory(t *tr.Trace, r *tr.Rand) bool {
	n := r.Range(3, 4)
	h := newHist(t, r, "collision-random", n)
	g := &gen{h: h, r: r, pool: []int{1, 2, 3}}
	for _, id := range g.pool {
		h.collision[id] = true
	}
	for _, c := range h.cs {
		h.join(c, 1, 4*r.Intn(n)+1)
		h.reqDefault(c, g.randReq())
	}
	steps := r.Range(15, 40)
	for s := 0; s < steps; s++ {
		g.step()
	}
	h.quiesce()
	return h.end(fmt.Sprintf("collision-%d-%d", n, len(h.lines)))
}

package main

// monitors.go: direct executable statements of C07, evaluated on what the
// REAL implementation did and sent, independent of the Coq model.
//
//	C07.requested_tracks     (subscribe.go, layer 1)
//	C07.offered_iff_requested  at quiescence
//	C07.label_identity         every offer
//	C07.same_group_only        every offer/close, every held down stream
//	C07.teardown               every vanished down stream, and at quiescence
//	C07.close_only_when        every close
//	C07.late-joiner            regression of F26 (subscribe.go)
//
// The unique-id hypothesis of the theorems: a stream id used by two owners or
// used twice is a `collision`; the monitors skip such ids (the driver stream
// `collision` shows what happens then; see props/C07.json).

import (
	"fmt"
	"sort"
	"strings"
)

// specSelect is the selection the PROPERTY prescribes, written from its text:
// first audio track iff "audio" is requested; first video track iff "video" is
// requested; else the last video track iff "video-low" is requested; audio
// first; limitSid iff video-low without video and fewer than two video tracks.
func specSelect(req []string, kinds []string) ([]int, bool) {
	if len(req) == 0 {
		return nil, false
	}
	first := func(k string) int {
		for i, x := range kinds {
			if x == k {
				return i
			}
		}
		return -1
	}
	last := func(k string) (int, int) {
		idx, n := -1, 0
		for i, x := range kinds {
			if x == k {
				idx = i
				n++
			}
		}
		return idx, n
	}
	var out []int
	limit := false
	if has(req, "audio") {
		if i := first("audio"); i >= 0 {
			out = append(out, i)
		}
	}
	if has(req, "video") {
		if i := first("video"); i >= 0 {
			out = append(out, i)
		}
	} else if has(req, "video-low") {
		i, n := last("video")
		if i >= 0 {
			out = append(out, i)
		}
		limit = n < 2
	}
	return out, limit
}

// mapRequest is what the client's request map says about a label: the entry
// of the label if there is one (even an empty one), else the default entry.
func (c *cli) mapRequest(label int) []string {
	if c.hasReq[label] {
		return c.reqmap[label]
	}
	return c.reqmap[0]
}

func (h *hist) recsWithId(id int) []*upRec {
	var out []*upRec
	for _, u := range h.ups {
		if u.id == id {
			out = append(out, u)
		}
	}
	return out
}

func (h *hist) liveInGroup(id, grp int) *upRec {
	for _, u := range h.ups {
		if u.id == id && u.grp == grp && !u.up.Closed() {
			return u
		}
	}
	return nil
}

func contains(l []int, x int) bool {
	for _, y := range l {
		if y == x {
			return true
		}
	}
	return false
}

// candidate requests under which the server may have evaluated stream id for
// client m: the per-stream request of the stream (or of the stream it
// replaces), else the request map.
func (h *hist) candidateRequests(m *cli, u *upRec) [][]string {
	out := [][]string{m.mapRequest(u.label)}
	if r, ok := m.override[u.id]; ok {
		out = append(out, r)
	}
	if rep, ok := h.replaces[u.k]; ok {
		if r, ok := m.override[rep]; ok {
			out = append(out, r)
		}
	}
	return out
}

func (h *hist) perOpMonitors(actor *cli, kind string, opId int, downsBefore [][]int, grpBefore []int) {
	for i, m := range h.cs {
		// messages are sent to m while m serves its own loop: the group that
		// matters is the one m was in when the operation began (an operation
		// that ends the connection, e.g. a kick at the end of a batch, leaves
		// the group afterwards)
		stillIn := m.c.HasGroup() && !m.c.Dead
		mg := grpBefore[i]
		if mg < 0 && stillIn {
			mg = num(m.c.GroupName())
		}
		inGroup := mg >= 0
		for _, o := range m.new {
			switch o.typ {
			case "offer":
				if h.collision[o.id] {
					h.note("monitor-skipped-collision")
					continue
				}
				recs := h.recsWithId(o.id)
				h.check("same_group_only")
				if !inGroup {
					h.fail("same_group_only", fmt.Sprintf("client %d is in no group and was sent an offer for stream %d", m.h, o.id))
				} else if len(recs) == 1 && recs[0].grp != mg {
					h.fail("same_group_only", fmt.Sprintf("client %d of group %d was sent an offer for stream %d of group %d", m.h, mg, o.id, recs[0].grp))
				}
				h.check("label_identity")
				if len(recs) != 1 {
					h.fail("label_identity", fmt.Sprintf("client %d was sent an offer for stream %d which nobody published", m.h, o.id))
				} else {
					r := recs[0]
					if o.src != r.owner || o.user != h.cs[r.owner].user || o.label != r.label {
						h.fail("label_identity", fmt.Sprintf("offer for stream %d to client %d says source=%d username=%d label=%d; the publisher is client %d, user %d, label %d",
							o.id, m.h, o.src, o.user, o.label, r.owner, h.cs[r.owner].user, r.label))
					}
				}
			case "close":
				own := actor == m && (kind == "abort" || kind == "answer") && opId == o.id
				if own {
					continue
				}
				if h.collision[o.id] {
					h.note("monitor-skipped-collision")
					continue
				}
				recs := h.recsWithId(o.id)
				if len(recs) > 0 {
					h.check("same_group_only")
					ok := false
					for _, r := range recs {
						if inGroup && r.grp == mg {
							ok = true
						}
					}
					// the group the client was in before this operation (its own leave)
					if !ok {
						h.fail("same_group_only", fmt.Sprintf("client %d (group %d) was sent a close for stream %d of group %d", m.h, mg, o.id, recs[0].grp))
					}
				}
				h.check("close_only_when")
				live := h.liveInGroup(o.id, mg)
				if live == nil {
					continue // the stream ended (closed, replaced, its publisher left) or never was
				}
				if live.lenient || h.lenient {
					continue // tracks were still arriving
				}
				justified := false
				for _, req := range h.candidateRequests(m, live) {
					if sel, _ := specSelect(req, live.up.Kinds()); len(sel) == 0 {
						justified = true
					}
				}
				if !justified {
					h.fail("close_only_when", fmt.Sprintf("client %d was sent a close for stream %d, which is live, which it requests (map %v) and whose negotiation did not fail",
						m.h, o.id, m.reqmap))
				}
			}
		}
		// teardown, message half: a down stream does not vanish silently
		if grpBefore[i] >= 0 && stillIn && !(actor == m && (kind == "leave" || kind == "disc")) {
			now := map[int]bool{}
			for _, id := range m.c.DownIds() {
				now[num(id)] = true
			}
			for _, id := range downsBefore[i] {
				if now[id] {
					continue
				}
				h.check("teardown")
				told := false
				for _, o := range m.new {
					if (o.typ == "close" && o.id == id) || (o.typ == "offer" && o.replace == id) {
						told = true
					}
				}
				if !told {
					h.fail("teardown", fmt.Sprintf("client %d lost its down stream %d without being sent a close or a replacing offer", m.h, id))
				}
			}
		}
	}
}

func (h *hist) quiescentMonitors() {
	for _, m := range h.cs {
		if m.c.Dead {
			continue
		}
		downs := m.c.VerifDowns()
		mg := -1
		if m.c.HasGroup() {
			mg = num(m.c.GroupName())
		}
		for _, d := range downs {
			id := num(d.Id)
			// what the subscriber was last OFFERED is what it is given: a
			// renegotiation may be deferred only while an offer is unanswered,
			// and otherwise the last offer sent for the stream carries exactly
			// the tracks of the down connection
			h.check("offer_carries_selection")
			if d.Negotiation > 0 && !d.HaveLocal {
				h.fail("offer_carries_selection", fmt.Sprintf("at quiescence client %d, stream %d: a renegotiation is marked as deferred but no offer is outstanding: the subscriber is never offered tracks %v",
					m.h, id, d.TrackKinds))
			} else if d.Negotiation == 0 {
				if sdp, ok := m.lastSDP[id]; ok {
					offered := activeKinds(sdp)
					given := append([]string{}, d.TrackKinds...)
					sort.Strings(given)
					if fmt.Sprint(offered) != fmt.Sprint(given) {
						h.fail("offer_carries_selection", fmt.Sprintf("at quiescence client %d, stream %d: the last offer sent carries %v, the down connection has tracks %v",
							m.h, id, offered, given))
					}
				}
			}
			if h.collision[id] {
				h.note("monitor-skipped-collision")
				continue
			}
			h.check("teardown")
			if d.RemoteClosed {
				h.fail("teardown", fmt.Sprintf("at quiescence client %d still holds down stream %d whose publisher stream has ended", m.h, id))
			}
			h.check("same_group_only")
			owner := h.cs[num(d.RemoteOwner)]
			if mg < 0 || (!d.RemoteClosed && (!owner.c.HasGroup() || num(owner.c.GroupName()) != mg)) {
				h.fail("same_group_only", fmt.Sprintf("client %d (group %d) holds down stream %d of client %s (group %q)", m.h, mg, id, d.RemoteOwner, owner.c.GroupName()))
			}
		}
		if mg < 0 {
			continue
		}
		for _, u := range h.ups {
			if u.up.Closed() || u.owner == m.h || u.grp != mg || h.collision[u.id] {
				continue
			}
			if u.lenient {
				// established by waiting: compared through the model only
			}
			kinds := u.up.Kinds()
			var held *int
			for i, d := range downs {
				if num(d.Id) == u.id {
					held = new(int)
					*held = i
				}
			}
			h.check("offered_iff_requested")
			if held != nil {
				d := downs[*held]
				if d.SameObject == nil || !d.SameObject.Same(u.up) {
					h.fail("offered_iff_requested", fmt.Sprintf("client %d: down stream %d is attached to another object than the publisher's stream", m.h, u.id))
					continue
				}
				// the request the server used: the per-stream request of the
				// down stream if it has one; else the request map, or (first
				// push of a replacing stream) the per-stream request of the
				// stream it replaced, which is used but not stored
				cands := [][]string{m.mapRequest(u.label)}
				if d.HasRequested {
					cands = [][]string{d.Requested}
				} else if rep, ok := h.replaces[u.k]; ok {
					if r, ok := m.override[rep]; ok {
						cands = append(cands, r)
						h.note("inherited-per-stream-request")
					}
				}
				got := append([]int{}, d.TrackIdx...)
				sort.Ints(got)
				okSel := false
				limitBad := ""
				var want []int
				for _, req := range cands {
					w, lim := specSelect(req, kinds)
					w2 := append([]int{}, w...)
					sort.Ints(w2)
					if len(w) > 0 && fmt.Sprint(got) == fmt.Sprint(w2) {
						// C04: every down track's limitSid is requestedTracks' second
						// result for the request in force (video-low and not video,
						// fewer than two video tracks)
						h.check("C04.limit_follows_request")
						limOk := true
						for _, l := range d.LimitSid {
							if l != lim {
								limOk = false
							}
						}
						if limOk {
							okSel = true
						} else {
							limitBad = fmt.Sprintf("client %d, stream %d (kinds %v), request %v served: down tracks %v have limitSid %v, requestedTracks says %v",
								m.h, u.id, kinds, req, got, d.LimitSid, lim)
						}
					}
					want = w2
				}
				if !okSel && limitBad != "" {
					h.failProp("C04", "limit_follows_request", limitBad)
				}
				if !okSel {
					h.fail("offered_iff_requested", fmt.Sprintf("client %d holds stream %d (kinds %v) with tracks %v limitSid %v; its request %v selects %v", m.h, u.id, kinds, got, d.LimitSid, cands, want))
				}
				if len(want) > 0 {
					h.note("held-with-tracks")
				}
			} else {
				if m.declined[u.id] {
					continue
				}
				justified := false
				for _, req := range h.candidateRequests(m, u) {
					if sel, _ := specSelect(req, kinds); len(sel) == 0 {
						justified = true
					}
				}
				if name, ok := h.knownMiss[[2]int{m.h, u.id}]; ok && !justified {
					h.note("FINDING reproduced: " + name)
					continue
				}
				if !justified {
					h.fail("offered_iff_requested", fmt.Sprintf("at quiescence client %d does not hold stream %d (label %d, kinds %v) of client %d although its request %s selects tracks",
						m.h, u.id, u.label, kinds, u.owner, reqmapString(m)))
				}
			}
		}
	}
}

func reqmapString(m *cli) string {
	var ks []int
	for k := range m.hasReq {
		ks = append(ks, k)
	}
	sort.Ints(ks)
	var out []string
	for _, k := range ks {
		out = append(out, fmt.Sprintf("%d:%s", k, reqString(true, m.reqmap[k])))
	}
	return "{" + strings.Join(out, ";") + "}"
}

// activeKinds lists (sorted) the kinds of the media sections of an SDP offer
// that send something (a=sendonly / a=sendrecv, port not 0).
func activeKinds(sdp string) []string {
	var out []string
	kind, sending, rejected := "", false, false
	flush := func() {
		if kind != "" && sending && !rejected {
			out = append(out, kind)
		}
	}
	for _, l := range strings.Split(strings.ReplaceAll(sdp, "\r", ""), "\n") {
		switch {
		case strings.HasPrefix(l, "m="):
			flush()
			f := strings.Fields(l[2:])
			kind, sending, rejected = f[0], false, len(f) > 1 && f[1] == "0"
		case l == "a=sendonly" || l == "a=sendrecv":
			sending = true
		}
	}
	flush()
	sort.Strings(out)
	return out
}

// Driver `subscribe` (property C07): the REAL requestedTracks, pushDownConn,
// handleAction, delUpConn, gotOffer, leaveGroup ... of rtpconn, driven
// through the verif hooks (sigdrv.World: the harness is the scheduler of the
// clients' event loops; verif_export_c07.go: requestedTracks on fake tracks,
// the delayed push fired at a chosen moment, the down connections of a client)
// against the extracted model Model/Subscribe.v, with the monitors of
// monitors.go.
//
//  1. layer 1, EXHAUSTIVE: every request list over {audio, video, video-low,
//     junk} of length <= 3 (and the nil slice) x every list of track kinds over
//     {audio, video} of length <= 6 and over {unknown, audio, video} of length
//     <= 4, on the real requestedTracks;
//  2. corpus: the schedules that matter (close for a never-offered stream,
//     explicitly empty request entry, replace racing a request inside the push
//     delay, a member joining inside the push delay (F26), stale push after a
//     group switch, teardown by close / unpresent / kick / leave / disconnect,
//     video-low, requestStream, abort, answer) with
//     REAL publishers: an in-process pion peer connection sends RTP so that
//     OnTrack fires and the streams have tracks;
//  3. the id-collision histories (the hypothesis of the theorems fails);
//  4. n seeded random histories, a third of them with real publishers.
package main

import (
	"fmt"
	"strings"
	"time"

	"github.com/jech/galene/rtpconn"

	"verifharness/internal/sigdrv"
	"verifharness/internal/tr"
)

var reqNames = []string{"audio", "video", "video-low", "junk"}

func main() { tr.Main(runSubscribe) }

func runSubscribe(t *tr.Trace, r *tr.Rand, n int) {
	sigdrv.Quiet()
	layer1(t)
	corpus(t, r)
	lateJoiner(t, r)
	realTimerTeardown(t, r)
	collisions(t, r)
	for i := 0; i < n; i++ {
		seed := r.U64()
		real := i%3 == 0
		for try := 0; try < 4; try++ {
			if randomHistory(t, tr.NewRand(seed), real, i) {
				break
			}
		}
	}
}

// ---------------------------------------------------------------- layer 1

func kindLists(alphabet []int, maxLen int) [][]int {
	out := [][]int{{}}
	prev := [][]int{{}}
	for l := 1; l <= maxLen; l++ {
		var cur [][]int
		for _, p := range prev {
			for _, a := range alphabet {
				cur = append(cur, append(append([]int{}, p...), a))
			}
		}
		out = append(out, cur...)
		prev = cur
	}
	return out
}

func layer1(t *tr.Trace) {
	var reqs [][]string
	reqs = append(reqs, []string{})
	prev := [][]string{{}}
	for l := 1; l <= 3; l++ {
		var cur [][]string
		for _, p := range prev {
			for _, a := range reqNames {
				cur = append(cur, append(append([]string{}, p...), a))
			}
		}
		reqs = append(reqs, cur...)
		prev = cur
	}
	kl := kindLists([]int{1, 2}, 6)
	seen := map[string]bool{}
	for _, k := range kl {
		seen[fmt.Sprint(k)] = true
	}
	for _, k := range kindLists([]int{0, 1, 2}, 4) {
		if !seen[fmt.Sprint(k)] {
			kl = append(kl, k)
		}
	}
	kname := map[int]string{0: "unknown", 1: "audio", 2: "video"}
	kletter := map[int]string{0: "o", 1: "a", 2: "v"}
	run := func(req []string, isNil bool) {
		rs := reqString(!isNil, req)
		t.History("reqtracks", "exhaustive", rs)
		for _, ks := range kl {
			idx, lim := rtpconn.VerifRequestedTracks(req, isNil, ks)
			names := make([]string, len(ks))
			letters := make([]string, len(ks))
			for i, k := range ks {
				names[i] = kname[k]
				letters[i] = kletter[k]
			}
			is := make([]string, len(idx))
			for i, x := range idx {
				is[i] = fmt.Sprint(x)
			}
			t.Op(dash(strings.Join(is, ","))+"/"+tr.B(lim), "rt", rs, dash(strings.Join(letters, ",")))
			t.Checked("C07.requested_tracks")
			want, wlim := specSelect(req, names)
			if fmt.Sprint(want) != fmt.Sprint(append([]int(nil), idx...)) && !(len(want) == 0 && len(idx) == 0) || wlim != lim {
				t.Fail("C07", "requested_tracks", fmt.Sprintf("request %v on tracks %v: requestedTracks chose %v limitSid=%v; the property prescribes %v limitSid=%v",
					req, names, idx, lim, want, wlim))
			}
		}
		t.Nontrivial("reqtracks-" + rs)
	}
	run(nil, true)
	for _, req := range reqs {
		run(req, false)
	}
}

// ---------------------------------------------------------------- corpus

var av = []string{"audio", "video"}

func (h *hist) reqDefault(c *cli, req []string) {
	h.request(c, []int{0}, [][]string{req}, []bool{false})
}

func corpusRun(t *tr.Trace, r *tr.Rand, name string, n int, body func(h *hist)) {
	for try := 0; try < 4; try++ {
		h := newHist(t, r, name, n)
		body(h)
		if h.end(name) {
			return
		}
	}
	t.Note("corpus-history-never-undisturbed:" + name)
}

func corpus(t *tr.Trace, r *tr.Rand) {
	// A member that requested nothing is sent a `close` for a stream it was
	// never offered (pushDownConn with no requested tracks calls
	// closeDownConn, which always writes `close`).
	corpusRun(t, r, "corpus-never-offered-close", 3, func(h *hist) {
		p, m, n := h.cs[0], h.cs[1], h.cs[2]
		h.join(p, 1, 1)
		h.join(m, 1, 4)
		h.join(n, 1, 8)
		h.reqDefault(m, av)
		h.quiesce()
		u := h.offer(p, 1, 1, 0, "g")
		h.timer(u)
		h.quiesce()
		h.closeUp(p, 1)
		h.quiesce()
	})
	// An explicitly empty entry for a label means "nothing", not "the default".
	corpusRun(t, r, "corpus-explicit-empty-entry", 3, func(h *hist) {
		p, m, n := h.cs[0], h.cs[1], h.cs[2]
		h.join(p, 1, 1)
		h.join(m, 1, 4)
		h.join(n, 1, 8)
		h.request(m, []int{1, 0}, [][]string{{}, av}, []bool{false, false})
		h.request(n, []int{1, 0}, [][]string{nil, {"audio"}}, []bool{true, false})
		h.quiesce()
		h.establish(p, 1, 1, 0, av)
		h.quiesce()
		h.establish(p, 2, 2, 0, av)
		h.quiesce()
		h.request(m, []int{1}, [][]string{{"video"}}, []bool{false})
		h.quiesce()
	})
	// An offer with `replace` racing another client's request inside the push
	// delay: the request-triggered push carries the replace field but must not
	// consume it; the delayed push tells everybody.
	corpusRun(t, r, "corpus-replace-races-request", 4, func(h *hist) {
		p, m, n, o := h.cs[0], h.cs[1], h.cs[2], h.cs[3]
		h.join(p, 1, 1)
		h.join(m, 1, 4)
		h.join(n, 1, 8)
		h.join(o, 1, 12)
		h.reqDefault(m, av)
		h.reqDefault(n, av)
		h.reqDefault(o, []string{"audio"})
		h.quiesce()
		h.establish(p, 1, 0, 0, av)
		h.quiesce()
		u := h.offer(p, 2, 0, 1, "g")
		h.reqDefault(n, []string{"video"})
		h.pump(p)
		h.pump(n)
		h.obs()
		h.timer(u)
		h.quiesce()
	})
	// The same with a real replacing stream.
	corpusRun(t, r, "corpus-replace-real", 3, func(h *hist) {
		p, m, n := h.cs[0], h.cs[1], h.cs[2]
		h.join(p, 1, 1)
		h.join(m, 1, 4)
		h.join(n, 1, 8)
		h.reqDefault(m, av)
		h.reqDefault(n, []string{"video-low"})
		h.quiesce()
		h.establish(p, 1, 1, 0, av)
		h.quiesce()
		h.reqstream(m, 1, false, []string{"audio"})
		h.quiesce()
		h.establish(p, 2, 1, 1, []string{"video", "audio"})
		h.quiesce()
	})
	// A push that was queued for a client of group 1 is dropped when the
	// client has moved to group 2 in the meantime (both routes: the
	// request-triggered push and the delayed push).
	corpusRun(t, r, "corpus-group-switch", 3, func(h *hist) {
		p, m, q := h.cs[0], h.cs[1], h.cs[2]
		h.join(p, 1, 1)
		h.join(m, 1, 4)
		h.join(q, 2, 9)
		h.reqDefault(m, av)
		h.quiesce()
		h.establish(p, 1, 0, 0, av)
		h.quiesce()
		h.reqDefault(m, av) // requestConns queued at p
		u := h.offer(p, 2, 0, 0, "g")
		h.leave(m, 1)
		h.join(m, 2, 4)
		h.reqDefault(m, av)
		h.pump(p)
		h.timer(u)
		h.quiesce()
		// and a client that left altogether
		h.reqDefault(m, av)
		h.leave(m, 2)
		h.quiesce()
	})
	// A request is made IN a group: it does not survive leaving it.  A client
	// that asked for everything in group 1, left, and joined group 2 (or group
	// 1 again) without asking for anything there is offered nothing, whatever
	// is published or pushed again around it.
	corpusRun(t, r, "corpus-request-ends-with-membership", 4, func(h *hist) {
		p, m, q, n := h.cs[0], h.cs[1], h.cs[2], h.cs[3]
		h.join(p, 1, 1)
		h.join(q, 2, 9)
		h.join(m, 1, 4)
		h.join(n, 2, 12)
		h.reqDefault(m, av)
		h.reqDefault(n, av)
		h.quiesce()
		h.establish(p, 1, 0, 0, av)
		h.quiesce()
		h.leave(m, 1)
		h.join(m, 2, 4) // no request in group 2
		h.quiesce()
		h.establish(q, 2, 0, 0, av) // a new stream in group 2
		h.quiesce()
		h.reqDefault(n, []string{"audio"}) // q pushes again for n
		h.quiesce()
		h.leave(m, 2)
		h.join(m, 1, 4) // back in group 1, again without a request
		h.quiesce()
		h.establish(p, 3, 0, 0, av)
		h.quiesce()
	})
	// Teardown reaches everybody: close, unpresent, kick, leave, disconnect.
	corpusRun(t, r, "corpus-teardown", 5, func(h *hist) {
		a, b, c, m, o := h.cs[0], h.cs[1], h.cs[2], h.cs[3], h.cs[4]
		h.join(a, 1, 1)
		h.join(b, 1, 5)
		h.join(c, 1, 9)
		h.join(m, 1, 12)
		h.join(o, 1, 18)
		h.reqDefault(m, av)
		h.reqDefault(o, []string{"audio"})
		h.reqDefault(a, []string{"video"})
		h.quiesce()
		h.establish(a, 1, 0, 0, av)
		h.establish(b, 2, 0, 0, av)
		h.establish(c, 3, 0, 0, av)
		h.quiesce()
		h.closeUp(a, 1)
		h.quiesce()
		h.perm(o, 1, false)
		h.quiesce()
		h.kick(o, 2)
		h.quiesce()
		h.establish(a, 4, 0, 0, []string{"audio"})
		h.quiesce()
		h.disc(a)
		h.quiesce()
	})
	corpusRun(t, r, "corpus-leave-teardown", 3, func(h *hist) {
		p, m, n := h.cs[0], h.cs[1], h.cs[2]
		h.join(p, 2, 1)
		h.join(m, 2, 4)
		h.join(n, 2, 8)
		h.reqDefault(m, av)
		h.reqDefault(n, av)
		h.quiesce()
		h.establish(p, 1, 0, 0, av)
		h.quiesce()
		h.leave(p, 2)
		h.quiesce()
	})
	// video-low: the LAST video track; limitSid with fewer than two.
	corpusRun(t, r, "corpus-video-low", 4, func(h *hist) {
		p, m, n, q := h.cs[0], h.cs[1], h.cs[2], h.cs[3]
		h.join(p, 1, 1)
		h.join(m, 1, 4)
		h.join(n, 1, 8)
		h.join(q, 1, 12)
		h.reqDefault(m, []string{"video-low"})
		h.reqDefault(n, []string{"video", "video-low", "audio"})
		h.reqDefault(q, []string{"audio", "video-low"})
		h.quiesce()
		h.establish(p, 1, 0, 0, []string{"audio", "video", "video"})
		h.quiesce()
		h.establish(p, 2, 0, 0, []string{"video"})
		h.quiesce()
	})
	// requestStream, abort and answer touch only the client's own stream.
	corpusRun(t, r, "corpus-own-stream", 3, func(h *hist) {
		p, m, n := h.cs[0], h.cs[1], h.cs[2]
		h.join(p, 1, 1)
		h.join(m, 1, 4)
		h.join(n, 1, 8)
		h.reqDefault(m, av)
		h.reqDefault(n, av)
		h.quiesce()
		h.establish(p, 1, 0, 0, av)
		h.quiesce()
		h.reqstream(m, 1, false, []string{"audio"})
		h.quiesce()
		h.answer(n, 1, true)
		h.quiesce()
		h.reqstream(n, 1, false, []string{"video"})
		h.quiesce()
		h.answer(n, 1, true)
		h.quiesce()
		h.reqstream(m, 1, false, []string{})
		h.quiesce()
		h.reqDefault(m, av)
		h.quiesce()
		h.abort(m, 1)
		h.quiesce()
		h.answer(n, 1, false)
		h.quiesce()
		h.abort(n, 7)
		h.answer(n, 9, false)
		h.quiesce()
	})
	// The request CHANGES on established streams: video <-> video-low <->
	// audio+video <-> nothing, through the default entry and through the entry
	// of the stream's label, with 1, 2 and 3 video tracks.  After each change
	// the down connection's tracks and every down track's limitSid are compared
	// with the model and with the property (C07.offered_iff_requested,
	// C04.limit_follows_request): the selection may stay the same while
	// limitSid changes (video -> video-low with one video track).
	for nv := 1; nv <= 3; nv++ {
		kinds := []string{"audio"}
		for i := 0; i < nv; i++ {
			kinds = append(kinds, "video")
		}
		nv := nv
		corpusRun(t, r, fmt.Sprintf("corpus-request-changes-%d", nv), 4, func(h *hist) {
			p, m, n, q := h.cs[0], h.cs[1], h.cs[2], h.cs[3]
			h.join(p, 1, 1)
			h.join(m, 1, 4)
			h.join(n, 1, 8)
			h.join(q, 1, 12)
			h.reqDefault(m, []string{"video"})
			h.request(n, []int{1}, [][]string{{"video"}}, []bool{false})
			h.reqDefault(q, []string{"video-low"})
			h.quiesce()
			h.establish(p, 1, 1, 0, kinds)
			h.quiesce()
			h.answer(q, 1, true)
			for _, req := range [][]string{{"video-low"}, {"audio", "video"}, {"video-low", "audio"}, {},
				{"video-low"}, {"video"}, {"video", "video-low"}, {"video-low"}, {"junk"}, {"video"}} {
				h.reqDefault(m, req)
				h.quiesce()
			}
			steps := []struct {
				labels []int
				reqs   [][]string
			}{
				{[]int{1}, [][]string{{"video-low"}}},
				{[]int{0}, [][]string{{"video-low"}}},
				{[]int{1, 0}, [][]string{{}, {"video"}}},
				{[]int{1, 0}, [][]string{{"video-low"}, {"video"}}},
				{[]int{1, 0}, [][]string{{"video"}, {"video-low"}}},
				{[]int{2, 0}, [][]string{{"video"}, {"video-low", "audio"}}},
				{[]int{1}, [][]string{{"audio", "video"}}},
				{[]int{1}, [][]string{{"audio", "video-low"}}},
			}
			for _, st := range steps {
				h.request(n, st.labels, st.reqs, make([]bool, len(st.labels)))
				h.quiesce()
			}
			for _, req := range [][]string{{"video"}, {"video-low"}, {"video"}} {
				h.reqDefault(q, req)
				h.quiesce()
				h.answer(q, 1, true)
			}
		})
	}
	// Changes WHILE an offer is outstanding: the server updates the down
	// connection, defers the renegotiation, and must send it when the answer
	// arrives.  What the subscriber was last offered is what it is given
	// (monitor C07.offer_carries_selection; the deferred flag is part of the
	// compared state).
	corpusRun(t, r, "corpus-change-while-offer-outstanding", 4, func(h *hist) {
		p, m, n, q := h.cs[0], h.cs[1], h.cs[2], h.cs[3]
		h.join(p, 1, 1)
		h.join(m, 1, 4)
		h.join(n, 1, 8)
		h.join(q, 1, 12)
		h.reqDefault(m, []string{"video"})
		h.reqDefault(n, []string{"audio"})
		h.reqDefault(q, av)
		h.quiesce()
		h.establish(p, 1, 1, 0, []string{"audio", "video", "video"})
		h.quiesce()
		// m widens its request before answering, then answers
		h.reqDefault(m, av)
		h.quiesce()
		h.answer(m, 1, true)
		h.quiesce()
		h.answer(m, 1, true)
		h.quiesce()
		// stable: a change is offered at once; a second change is deferred
		h.reqDefault(m, []string{"video-low"})
		h.quiesce()
		h.reqDefault(m, []string{"audio"})
		h.reqDefault(m, []string{"audio", "video-low"})
		h.quiesce()
		h.answer(m, 1, true)
		h.quiesce()
		h.answer(m, 1, true)
		h.quiesce()
		// the same through requestStream, and narrowing to the same track set
		h.reqstream(n, 1, false, av)
		h.quiesce()
		h.reqstream(n, 1, false, []string{"audio"})
		h.quiesce()
		h.answer(n, 1, true)
		h.quiesce()
		h.answer(n, 1, true)
		h.quiesce()
		// q answers first, then everything changes twice
		h.answer(q, 1, true)
		h.reqDefault(q, []string{"video"})
		h.reqDefault(q, []string{"video-low"})
		h.quiesce()
		h.answer(q, 1, true)
		h.quiesce()
	})
	// A stream replaced twice in a row, the second time before the replacing
	// stream was ever announced; a replacing stream closed / abandoned before
	// it was announced.  (With the hook; the real-timer variants are below.)
	corpusRun(t, r, "corpus-replace-chain", 4, func(h *hist) {
		p, m, n, q := h.cs[0], h.cs[1], h.cs[2], h.cs[3]
		h.join(p, 1, 1)
		h.join(m, 1, 4)
		h.join(n, 1, 8)
		h.join(q, 1, 12)
		h.reqDefault(m, av)
		h.reqDefault(n, []string{"audio"})
		h.quiesce()
		h.establish(p, 1, 0, 0, av)
		h.quiesce()
		b := h.offer(p, 2, 0, 1, "g")
		c := h.offer(p, 3, 0, 2, "g")
		h.obs()
		h.timer(c)
		h.timer(b)
		h.quiesce()
		h.establish(p, 4, 0, 3, av)
		h.quiesce()
		b = h.offer(p, 5, 0, 4, "g")
		h.closeUp(p, 5)
		h.timer(b)
		h.quiesce()
	})
	// A permission change racing an offer: `unpresent` has been applied by the
	// publisher's loop, its permissionsChangedAction (which closes the streams)
	// is still queued, and the loop reads `offer B replace A`: A is deleted by
	// the refused offer and the close must still be pushed to the subscribers.
	corpusRun(t, r, "corpus-unpresent-offer-replace", 4, func(h *hist) {
		p, o, m, n := h.cs[0], h.cs[1], h.cs[2], h.cs[3]
		h.join(p, 1, 1)
		h.join(o, 1, 6)
		h.join(m, 1, 8)
		h.join(n, 1, 12)
		h.reqDefault(m, av)
		h.reqDefault(n, []string{"audio"})
		h.quiesce()
		h.establish(p, 1, 0, 0, av)
		h.quiesce()
		h.perm(o, 0, false)
		h.pump(p) // applies the change; permissionsChangedAction is queued behind
		h.offer(p, 2, 0, 1, "g")
		h.obs()
		h.quiesce()
		// and the same with a close in flight
		h.perm(o, 0, true)
		h.quiesce()
		h.establish(p, 3, 0, 0, av)
		h.quiesce()
		h.perm(o, 0, false)
		h.pump(p)
		h.closeUp(p, 3)
		h.quiesce()
	})
	// offers that fail, offers by a client without `present`, a second offer
	// for an existing stream.
	corpusRun(t, r, "corpus-offers", 3, func(h *hist) {
		p, m, n := h.cs[0], h.cs[1], h.cs[2]
		h.join(p, 1, 1)
		h.join(m, 1, 4)
		h.join(n, 1, 8)
		h.reqDefault(m, av)
		h.quiesce()
		h.offer(p, 1, 0, 0, "b")
		h.offer(p, 2, 0, 0, "m")
		h.offer(m, 3, 0, 0, "g")
		h.quiesce()
		u := h.offer(p, 4, 0, 0, "g")
		h.offer(p, 4, 0, 0, "g")
		h.offer(p, 4, 0, 0, "b")
		h.timer(u)
		h.quiesce()
		h.offer(p, 5, 0, 4, "m")
		h.quiesce()
		h.offer(p, 0, 0, 0, "g")
		h.quiesce()
	})
}

// ---------------------------------------------------------------- the late joiner (F26, fixed)

// Regression histories of finding F26: pushConn used to start one goroutine
// per call, each with ITS OWN snapshot of the group's clients taken when the
// push was scheduled, and the first one to wake up pushed for all of them.  A
// client that joined and requested inside the 200 ms push delay of a new
// stream was pushed the stream by its own request (no track yet); when OnTrack
// fired, the goroutine of the ORIGINAL pushConn woke first, pushed the tracks
// to its stale list (without the joiner) and set `pushed`; the goroutine
// started by OnTrack did nothing: the joiner requested video, the stream had
// video, and it was never offered.  The clients are now read from the group
// when the goroutine wakes up.  Monitor C07.late-joiner.
func lateJoiner(t *tr.Trace, r *tr.Rand) {
	// with the hook: the harness fires the delayed push; compared with the model
	corpusRun(t, r, "corpus-late-joiner", 3, func(h *hist) {
		p, m, n := h.cs[0], h.cs[1], h.cs[2]
		h.join(p, 1, 1)
		h.join(n, 1, 8)
		h.reqDefault(n, av)
		h.quiesce()
		h.establishWith(p, 1, 0, 0, av, func() {
			h.join(m, 1, 4)
			h.reqDefault(m, av)
			h.pump(p)
			h.pump(m)
		})
		h.quiesce()
		h.check("late-joiner")
		if !h.tainted && (len(m.c.DownIds()) != 1 || len(n.c.DownIds()) != 1) {
			h.fail("late-joiner", fmt.Sprintf("late-joiner: client 1 joined and requested audio+video inside the push delay of stream 1; "+
				"at quiescence the stream has tracks %v, the early member holds %v, the late joiner holds %v",
				h.ups[0].up.Kinds(), n.c.DownIds(), m.c.DownIds()))
		}
	})
	// with the REAL 200 ms goroutines of pushConn, no hook.  When they run
	// depends on the wall clock, so nothing is compared with the model and the
	// generic monitors are off; the monitor polls: whatever the timing, the late
	// joiner must END UP holding the stream (before F26 was repaired it never
	// did when the tracks arrived inside the push delay of the offer).
	corpusRun(t, r, "corpus-late-joiner-real-timers", 3, func(h *hist) {
		h.nomodel, h.onlyMonitor = true, "late-joiner"
		p, m, n := h.cs[0], h.cs[1], h.cs[2]
		h.join(p, 1, 1)
		h.join(n, 1, 8)
		h.reqDefault(n, av)
		h.quiesce()
		pub, err := newPublisher(av)
		if err != nil {
			h.tainted = true
			return
		}
		sdp, err := pub.offer()
		if err != nil {
			pub.close()
			h.tainted = true
			return
		}
		rec := h.offerSDP(p, 1, 0, 0, "g", sdp, pub)
		if rec == nil {
			pub.close()
			h.tainted = true
			return
		}
		rec.timers = 0 // the real goroutines fire, not the harness
		h.join(m, 1, 4)
		h.reqDefault(m, av)
		h.pump(p)
		h.pump(m)
		pub.start()
		held := func(c *cli) bool {
			ds := c.c.VerifDowns()
			return len(ds) == 1 && len(ds[0].TrackIdx) == 2
		}
		deadline := time.Now().Add(10 * time.Second)
		ok := false
		for time.Now().Before(deadline) {
			h.drain()
			for h.pumpAny() {
			}
			if len(rec.up.Kinds()) == 2 && held(m) && held(n) {
				ok = true
				break
			}
			time.Sleep(10 * time.Millisecond)
		}
		if len(rec.up.Kinds()) < 2 {
			h.tainted = true // the media never arrived: nothing to say
			return
		}
		h.check("late-joiner")
		if !ok {
			h.fail("late-joiner", fmt.Sprintf("late-joiner (real timers): client 1 joined and requested audio+video inside the push delay of stream 1; "+
				"10 s after the tracks %v arrived the early member holds %v, the late joiner holds %v",
				rec.up.Kinds(), n.c.DownIds(), m.c.DownIds()))
		}
	})
}

// ---------------------------------------------------------------- real timers

// Teardown through the REAL goroutines of pushConn (no hook: the hook re-states
// their body and cannot see a change of it).  When they run depends on the
// wall clock: nothing is written to the trace, the generic monitors are off,
// and the monitor polls: whatever the timing, every subscriber that held the
// replaced stream must END UP without it.
func realTimerTeardown(t *tr.Trace, r *tr.Rand) {
	type variant struct {
		name string
		body func(h *hist, p *cli)
	}
	vs := []variant{
		{"replace-once", func(h *hist, p *cli) { h.offer(p, 2, 0, 1, "g") }},
		{"replace-twice", func(h *hist, p *cli) { h.offer(p, 2, 0, 1, "g"); h.offer(p, 3, 0, 2, "g") }},
		{"replace-thrice", func(h *hist, p *cli) { h.offer(p, 2, 0, 1, "g"); h.offer(p, 3, 0, 2, "g"); h.offer(p, 4, 0, 3, "m") }},
		{"replace-then-close", func(h *hist, p *cli) { h.offer(p, 2, 0, 1, "g"); h.closeUp(p, 2) }},
		{"replace-twice-then-leave", func(h *hist, p *cli) { h.offer(p, 2, 0, 1, "g"); h.offer(p, 3, 0, 2, "g"); h.leave(p, 1) }},
	}
	for _, v := range vs {
		v := v
		corpusRun(t, r, "real-timers-"+v.name, 3, func(h *hist) {
			h.nomodel, h.onlyMonitor = true, "teardown_real_timers"
			p, m, n := h.cs[0], h.cs[1], h.cs[2]
			h.join(p, 1, 1)
			h.join(m, 1, 4)
			h.join(n, 1, 8)
			h.reqDefault(m, av)
			h.reqDefault(n, []string{"audio"})
			h.quiesce()
			if h.establish(p, 1, 0, 0, av) == nil {
				h.tainted = true
				return
			}
			h.quiesce()
			if h.tainted || len(m.c.DownIds()) != 1 || len(n.c.DownIds()) != 1 {
				h.tainted = true // the stream to be replaced was not established in time
				return
			}
			v.body(h, p)
			for _, u := range h.ups {
				u.timers = 0 // the real goroutines fire, not the harness
			}
			deadline := time.Now().Add(5 * time.Second)
			ok := false
			for time.Now().Before(deadline) {
				h.drain()
				for h.pumpAny() {
				}
				if !has(m.c.DownIds(), "s1") && !has(n.c.DownIds(), "s1") {
					ok = true
					break
				}
				time.Sleep(10 * time.Millisecond)
			}
			h.check("teardown_real_timers")
			if !ok {
				h.fail("teardown_real_timers", fmt.Sprintf("%s: 5 s after stream 1 was replaced its subscribers still hold it (client 1: %v, client 2: %v); "+
					"they were sent neither a close nor a replacing offer", v.name, m.c.DownIds(), n.c.DownIds()))
			}
		})
	}
}

// ---------------------------------------------------------------- id collisions

// Stream ids are chosen by the publishers.  Two publishers using the same id,
// or a `replace` naming somebody else's stream, break label_identity,
// close_only_when and teardown: the theorems assume unique ids (the reference
// client draws 128 random bits).  These histories run through the model (which
// transcribes the code: model and implementation agree); what happens is
// inside the property's quantifier (clients choose their ids), so it is
// reported as monitor failures, which KNOWN_FINDINGS.txt lists as F27 and F28;
// the general monitors skip collided ids.
func collisions(t *tr.Trace, r *tr.Rand) {
	// a second publisher offers the id of the first publisher's stream
	corpusRun(t, r, "collision-same-id", 3, func(h *hist) {
		p1, p2, m := h.cs[0], h.cs[1], h.cs[2]
		h.join(p1, 1, 1)
		h.join(p2, 1, 5)
		h.join(m, 1, 8)
		h.reqDefault(m, av)
		h.quiesce()
		h.establish(p1, 1, 0, 0, av)
		h.quiesce()
		held := len(m.c.DownIds())
		u := h.offer(p2, 1, 0, 0, "g") // no media: pushed with no tracks
		h.timer(u)
		h.quiesce()
		if held == 1 && len(m.c.DownIds()) == 0 {
			h.fail("close_only_when", "stream-id-collision: another publisher's offer with the same id closed the subscriber's stream of the first publisher")
		}
	})
	corpusRun(t, r, "collision-spliced-tracks", 3, func(h *hist) {
		p1, p2, m := h.cs[0], h.cs[1], h.cs[2]
		h.join(p1, 1, 1)
		h.join(p2, 1, 5)
		h.join(m, 1, 8)
		h.reqDefault(m, av)
		h.quiesce()
		h.establish(p1, 1, 0, 0, []string{"audio"})
		h.quiesce()
		h.establish(p2, 1, 0, 0, []string{"video"})
		h.quiesce()
		for _, d := range m.c.VerifDowns() {
			for _, i := range d.TrackIdx {
				if i < 0 && d.RemoteOwner == "c0" {
					h.fail("label_identity", "stream-id-collision: a track of publisher c1 is carried by the down stream labelled with publisher c0")
				}
			}
		}
	})
	// `replace` naming a stream of another publisher
	corpusRun(t, r, "collision-foreign-replace", 3, func(h *hist) {
		p1, p2, m := h.cs[0], h.cs[1], h.cs[2]
		h.join(p1, 1, 1)
		h.join(p2, 1, 5)
		h.join(m, 1, 8)
		h.reqDefault(m, av)
		h.quiesce()
		h.establish(p1, 1, 0, 0, av)
		h.quiesce()
		u := h.offer(p2, 2, 0, 1, "g")
		h.timer(u)
		h.quiesce()
		if len(m.c.DownIds()) == 0 && len(p1.c.UpIds()) == 1 {
			h.fail("close_only_when", "stream-id-collision: a foreign `replace` closed the subscriber's stream although its publisher still sends it")
		}
	})
	// a subscriber that itself publishes the id it is pushed is disconnected
	corpusRun(t, r, "collision-kills-subscriber", 2, func(h *hist) {
		p, m := h.cs[0], h.cs[1]
		h.join(p, 1, 1)
		h.join(m, 1, 5)
		h.reqDefault(m, av)
		h.quiesce()
		u := h.offer(m, 1, 0, 0, "g")
		h.timer(u)
		h.quiesce()
		h.establish(p, 1, 0, 0, av)
		h.quiesce()
		if m.c.Dead {
			h.fail("close_only_when", "stream-id-collision: a subscriber publishing the same id was disconnected by the push (adding duplicate connection)")
		}
	})
	// `replace` on a second offer of an EXISTING stream is never pushed
	corpusRun(t, r, "collision-replace-on-existing", 2, func(h *hist) {
		p, m := h.cs[0], h.cs[1]
		h.join(p, 1, 1)
		h.join(m, 1, 4)
		h.reqDefault(m, av)
		h.quiesce()
		h.establish(p, 1, 0, 0, av)
		h.establish(p, 2, 0, 0, av)
		h.quiesce()
		h.collision[2] = true
		h.offer(p, 1, 0, 2, "g") // renegotiation of stream 1 carrying replace=2
		h.quiesce()
		if has(m.c.DownIds(), "s2") {
			h.fail("teardown", "replace-on-existing: `replace` sent with a second offer of an existing stream never reaches the subscribers, who keep the replaced stream")
		}
	})
	for i := 0; i < 6; i++ {
		seed := r.U64()
		for try := 0; try < 4; try++ {
			if collisionHistory(t, tr.NewRand(seed)) {
				break
			}
		}
	}
}

// wsreader: the REAL clientReader of rtpconn on a real websocket connection
// (an in-process HTTP server, a gorilla client).  The signalling drivers hand
// decoded messages to handleClientMessage themselves; this driver covers the
// step before: every frame a client sends is decoded ON ITS OWN - nothing of
// an earlier frame (a destination, a username, a source) survives into a
// later one that omits the field (C15: a broadcast sent after a private
// message goes to everybody, and carries what ITS frame says).  Monitors only.
package main

import (
	"bytes"
	"encoding/json"
	"fmt"
	"net/http"
	"net/http/httptest"
	"strings"
	"time"

	"github.com/gorilla/websocket"

	"github.com/jech/galene/rtpconn"

	"verifharness/internal/tr"
)

var upgrader = websocket.Upgrader{CheckOrigin: func(*http.Request) bool { return true }}

func frame(r *tr.Rand, i int) []byte {
	m := map[string]interface{}{}
	pick := func(k string, vals ...interface{}) {
		if r.Chance(1, 2) {
			m[k] = vals[r.Intn(len(vals))]
		}
	}
	m["type"] = []string{"chat", "usermessage", "join", "request", "useraction", "offer", "ping"}[r.Intn(7)]
	pick("kind", "", "me", "caption", "join", "leave", "op", "kick")
	pick("id", fmt.Sprintf("i%d", i), "")
	pick("replace", "old", "")
	pick("source", "c1", "c2", "")
	pick("dest", "c2", "c3", "")
	pick("username", "alice", "bob", "", nil)
	pick("password", "pw", "")
	pick("token", "tok", "")
	pick("privileged", true, false)
	pick("noecho", true, false)
	pick("group", "g", "h")
	pick("value", "hello", 5, map[string]interface{}{"a": 1}, nil, []interface{}{1, "x"})
	pick("data", map[string]interface{}{"k": "v"}, map[string]interface{}{})
	pick("permissions", []string{"op"}, []string{})
	pick("time", "2026-01-01T00:00:00Z")
	pick("sdp", "v=0")
	pick("candidate", map[string]interface{}{"candidate": "c"}, nil)
	pick("label", "camera", "")
	pick("request", map[string]interface{}{"": []string{"audio"}}, []string{"video"}, nil)
	pick("rtcConfiguration", map[string]interface{}{"iceServers": []interface{}{}})
	pick("error", "x")
	pick("version", []string{"2"})
	b, _ := json.Marshal(m)
	return b
}

func runWsReader(t *tr.Trace, r *tr.Rand, n int) {
	result := make(chan [][]byte, 1)
	srv := httptest.NewServer(http.HandlerFunc(func(w http.ResponseWriter, req *http.Request) {
		conn, err := upgrader.Upgrade(w, req, nil)
		if err != nil {
			result <- nil
			return
		}
		defer conn.Close()
		result <- rtpconn.VerifReadFrames(conn)
	}))
	defer srv.Close()
	url := "ws" + strings.TrimPrefix(srv.URL, "http")
	for hi := 0; hi < n; hi++ {
		stream := []string{"random", "set-then-omit"}[hi%2]
		t.History("wsreader", stream)
		var frames [][]byte
		if stream == "set-then-omit" {
			// a private message, then a broadcast that says nothing about dest /
			// username / source: the second must not inherit the first's
			frames = append(frames,
				[]byte(`{"type":"chat","kind":"","source":"c1","username":"alice","dest":"c2","privileged":true,"noecho":true,"value":"secret for c2","id":"a"}`),
				[]byte(`{"type":"chat","value":"for everybody"}`),
				[]byte(`{"type":"usermessage","kind":"x","dest":"c3","value":{"k":1}}`),
				[]byte(`{"type":"chat"}`))
		}
		k := r.Range(3, 25)
		for i := 0; i < k; i++ {
			frames = append(frames, frame(r, i))
		}
		c, _, err := websocket.DefaultDialer.Dial(url, nil)
		if err != nil {
			t.Fail("C15", "harness", "cannot connect to the in-process websocket server: "+err.Error())
			return
		}
		for _, f := range frames {
			c.WriteMessage(websocket.TextMessage, f)
		}
		c.WriteControl(websocket.CloseMessage, websocket.FormatCloseMessage(websocket.CloseNormalClosure, ""), time.Now().Add(time.Second))
		var got [][]byte
		select {
		case got = <-result:
		case <-time.After(20 * time.Second):
			t.Fail("C15", "frames_decoded_independently", "the reader did not finish within 20 s after the client closed the connection")
			c.Close()
			return
		}
		c.Close()
		t.Checked("C15.frames_decoded_independently")
		if len(got) != len(frames) {
			t.Fail("C15", "frames_decoded_independently", fmt.Sprintf("%d frames sent, %d messages delivered", len(frames), len(got)))
		}
		bad := -1
		for i := 0; i < len(got) && i < len(frames); i++ {
			want, err := rtpconn.VerifDecodeFrame(frames[i])
			if err != nil {
				t.Fail("C15", "harness", "generated frame does not decode: "+err.Error())
				continue
			}
			if !bytes.Equal(got[i], want) && bad < 0 {
				bad = i
				t.Fail("C15", "frames_decoded_independently", fmt.Sprintf("frame %d %s was delivered to the client loop as %s; decoded on its own it is %s: fields of an earlier frame survive in it (a broadcast is sent to the previous addressee, a message carries another frame's username)",
					i, frames[i], got[i], want))
			}
		}
		t.Op(tr.B(bad < 0), "frames", len(frames))
		if len(got) > 0 {
			t.Nontrivial(fmt.Sprintf("%s/%d", stream, len(frames)))
		}
	}
}

func main() { tr.Main(runWsReader) }

package main

// The signalling side of driver tokapi: operators connected through the
// real handleClientMessage (rtpconn.VerifClient via internal/sigdrv) send
// groupaction maketoken / edittoken / listtokens.

import (
	"fmt"

	"verifharness/internal/sigdrv"
	"verifharness/internal/tokdrv"
)

type sigWorld struct {
	w       *sigdrv.World
	clients []*sigdrv.Client
}

func sigNew(groupName string, operators int) (tokdrv.SigWorld, error) {
	sigdrv.Quiet()
	w, err := sigdrv.NewWorld()
	if err != nil {
		return nil, err
	}
	var users []sigdrv.User
	for i := 0; i < operators; i++ {
		users = append(users, sigdrv.User{Name: fmt.Sprintf("op%d", i), Password: "pw",
			Permissions: []string{"op", "present", "message", "token"}})
	}
	if err := w.AddGroup(sigdrv.GroupSpec{Name: groupName, Users: users}); err != nil {
		w.Close()
		return nil, err
	}
	s := &sigWorld{w: w}
	for i := 0; i < operators; i++ {
		c := w.NewClient(fmt.Sprintf("c%d", i))
		res := c.Send(sigdrv.M{"type": "join", "kind": "join", "group": groupName,
			"username": fmt.Sprintf("op%d", i), "password": "pw"})
		if res.Err != nil || res.Panic != nil {
			w.Close()
			return nil, fmt.Errorf("join: %v %v", res.Err, res.Panic)
		}
		s.clients = append(s.clients, c)
	}
	w.Quiesce(nil)
	for _, c := range s.clients {
		c.Out()
	}
	return s, nil
}

func (s *sigWorld) TokenFile() string { return s.w.TokenFile }

// Request sends one groupaction and returns the server's reply to the sender
// (a usermessage of kind token / tokenlist).
func (s *sigWorld) Request(client int, kind string, value map[string]interface{}) (errKind string, val interface{}, ok bool) {
	c := s.clients[client]
	m := sigdrv.M{"type": "groupaction", "kind": kind}
	if value != nil {
		m["value"] = value
	}
	res := c.Send(m)
	if res.Err != nil || res.Panic != nil || !res.Ran {
		return fmt.Sprintf("connection error: %v %v", res.Err, res.Panic), nil, false
	}
	for _, r := range c.Out() {
		if r.Type == "usermessage" && (r.Kind == "token" || r.Kind == "tokenlist") {
			return r.Error, r.Value, true
		}
	}
	return "no reply", nil, false
}

func (s *sigWorld) Close() { s.w.Close() }

// Driver tokapi (C16): the REAL token handlers of the administrative HTTP API
// (webserver.apiHandler -> tokensHandler, through the hook
// webserver.VerifAPIHandler) on top of the real token store, against the
// handler model api_step of Model/TokenStore.v.  Generators and monitors are
// in internal/tokdrv/api.go.
package main

import (
	"io"
	"log"
	"net/http"
	"os"
	"path/filepath"

	"github.com/jech/galene/group"
	"github.com/jech/galene/webserver"

	"verifharness/internal/tokdrv"
	"verifharness/internal/tr"
)

func apiSetup(base string, groups []string) (http.Handler, error) {
	log.SetOutput(io.Discard)
	static := filepath.Join(base, "static")
	gdir := filepath.Join(base, "groups")
	data := filepath.Join(base, "data")
	for _, d := range []string{static, gdir, data} {
		if err := os.MkdirAll(d, 0700); err != nil {
			return nil, err
		}
	}
	for _, g := range groups {
		if err := os.WriteFile(filepath.Join(gdir, g+".json"), []byte("{}"), 0600); err != nil {
			return nil, err
		}
	}
	conf := `{"users": {"root": {"password": "pw", "permissions": "admin"}}}`
	if err := os.WriteFile(filepath.Join(data, "config.json"), []byte(conf), 0600); err != nil {
		return nil, err
	}
	group.Directory = gdir
	group.DataDirectory = data
	return webserver.VerifAPIHandler(static)
}

func main() {
	tokdrv.APISetup = apiSetup
	tokdrv.SigNew = sigNew
	tr.Main(tokdrv.RunAPI)
}

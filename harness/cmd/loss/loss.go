// Driver `loss` (property C06): loss accounting and NACK generation.
//
// Runs arrival histories on a REAL packetcache.Cache and the real
// packetcache.ToBitmap.  readLoop, sendUpRTCP and nackWriter of rtpconn
// cannot be called without a webrtc.TrackRemote / peer connection: the
// driver contains COPIES of their few arithmetic statements, used only to
// choose when to sample BitmapGet / which numbers to pack, exactly as the
// Coq model (Model/Loss.v) transcribes them; the statements themselves are
// tied to the source by gen/loss.go (Generated/LossConsts.v).
//
// Monitors state the property on the implementation's behaviour alone:
// nack_received (never a NACK for a number received since the last restart),
// nack_before_next, nack_once, hole_requested, received_le_expected,
// eseqno_monotone, tobitmap_roundtrip, nackwriter_not_held.
package main

import (
	"fmt"
	"math/bits"
	"sort"
	"strings"

	"github.com/jech/galene/packetcache"

	"verifharness/internal/tr"
)

type lossHist struct {
	t      *tr.Trace
	r      *tr.Rand
	c      *packetcache.Cache
	stream string
	// monitor state (independent of the model)
	recv       map[uint16]bool // numbers stored since the last restart (pruned far behind newest)
	nacked     map[uint16]bool // numbers denoted by a NACK since the last restart
	everRecv   map[uint16]bool // every number stored in this history (stray stream only)
	newest     uint16
	haveNewest bool
	restarted  bool // a restart happened since the last GetStats
	travel     uint64 // sum of the forward steps of the newest number (monitor expected_bounded)
	expects    uint64 // sum of the Expect(n) calls
	strayed    bool // a single packet more than 256 old was delivered (stray stream)
	// F20 at its boundary, in any stream: a packet exactly 256 behind the newest
	// one became the window start (Store returned it as bitmap.first), which
	// happens when bitmap.first = newest+1 (after a duplicate of the newest
	// packet).  Failures about numbers up to limitNewest are then attributed
	// to F20 until the stream has moved 64 numbers on.
	limitStray  bool
	limitNewest uint16
	f20Reported bool
	lastESeqno  uint32
	haveESeqno  bool
	strict      bool // monitors that assume BitmapGet is sampled as readLoop does
	stores      int
	nacks       int
	lastNack    []uint16 // numbers denoted by the most recent NACK of readloop
	sincePrune  int
}

func newLossHist(t *tr.Trace, r *tr.Rand, stream string, capacity int) *lossHist {
	t.History("loss", stream, capacity)
	return &lossHist{t: t, r: r, c: packetcache.New(capacity), stream: stream,
		recv: map[uint16]bool{}, nacked: map[uint16]bool{}, everRecv: map[uint16]bool{},
		strict: true}
}

// noteStore is the monitors' own reading of an arrival: a packet behind the
// newest one by more than 256 is a restart.
func (h *lossHist) noteStore(seq uint16, first uint16) {
	if h.haveNewest && h.newest-seq == 0x100 && first == seq {
		h.limitStray = true
		h.limitNewest = h.newest
		h.t.Note("f20-at-the-limit")
	}
	if h.limitStray && int16(seq-h.limitNewest) > 64 {
		h.limitStray = false
	}
	h.stores++
	h.everRecv[seq] = true
	jumped := false
	if !h.haveNewest {
		h.haveNewest = true
		h.newest = seq
	} else if int16(seq-h.newest) > 0 {
		jumped = seq-h.newest > 300
		h.travel += uint64(seq - h.newest)
		h.newest = seq
	} else if h.newest-seq > 0x100 {
		h.newest = seq
		h.restarted = true
		h.recv = map[uint16]bool{}
		h.nacked = map[uint16]bool{}
		h.t.Note("restart")
	}
	h.recv[seq] = true
	// numbers far behind the newest cannot be told from numbers a cycle ahead
	h.sincePrune++
	if h.sincePrune < 200 && !jumped {
		return
	}
	h.sincePrune = 0
	{
		for n := range h.recv {
			if h.newest-n > 1000 {
				delete(h.recv, n)
			}
		}
	}
	{
		for n := range h.nacked {
			if h.newest-n > 1000 {
				delete(h.nacked, n)
			}
		}
	}
}

func nackNums(first, bitmap uint16) []uint16 {
	nums := []uint16{first}
	for i := 0; i < 16; i++ {
		if bitmap&(1<<uint(i)) != 0 {
			nums = append(nums, first+uint16(i)+1)
		}
	}
	return nums
}

// checkNack evaluates the NACK monitors on one BitmapGet result.
func (h *lossHist) checkNack(next uint16, first, bitmap uint16) []uint16 {
	nums := nackNums(first, bitmap)
	h.nacks++
	for _, s := range nums {
		h.t.Checked("C06.nack_before_next")
		if int16(s-next) >= 0 {
			h.t.Fail("C06", "nack_before_next", fmt.Sprintf("BitmapGet(%d) denotes %d, at or beyond next", next, s))
		}
		if !h.strict {
			continue
		}
		h.t.Checked("C06.nack_received")
		if h.limitStray && int16(s-h.limitNewest) <= 0 {
			// consequence of the re-base by the stray packet (known finding F20)
			if (h.recv[s] || h.nacked[s]) && !h.f20Reported {
				h.f20Reported = true
				h.t.Fail("C06", "nack_f20_limit", fmt.Sprintf("stray-old-packet (at the limit: exactly 256 behind the newest packet %d, which had been duplicated, so 257 behind bitmap.first): NACK (%d,%#x) from BitmapGet(%d) denotes %d, which arrived or was already requested before the stray packet", h.limitNewest, first, bitmap, next, s))
			}
			h.nacked[s] = true
			continue
		}
		if h.recv[s] {
			h.t.Fail("C06", "nack_received", fmt.Sprintf("NACK (%d,%#x) from BitmapGet(%d) denotes %d, which arrived since the last restart", first, bitmap, next, s))
		} else if h.strayed && h.everRecv[s] && h.c.Get(s, nil) > 0 {
			// F20: only in the stream that delivers ONE stray packet and then
			// continues where it was
			if h.f20Reported {
				continue
			}
			h.f20Reported = true
			h.t.Fail("C06", "nack_f20", fmt.Sprintf("stray-old-packet: NACK (%d,%#x) from BitmapGet(%d) denotes %d, which arrived before the stray packet and is still in the cache", first, bitmap, next, s))
		}
		h.t.Checked("C06.nack_once")
		if h.nacked[s] {
			h.t.Fail("C06", "nack_once", fmt.Sprintf("%d is denoted by a second NACK (%d,%#x) since the last restart", s, first, bitmap))
		}
		h.nacked[s] = true
	}
	return nums
}

func (h *lossHist) store(seq uint16, kf bool) {
	first, _ := h.c.Store(seq, 0, kf, false, []byte{0})
	h.t.Op(fmt.Sprint(first), "store", seq, kf)
	h.noteStore(seq, first)
}

func (h *lossHist) bitmapGet(next uint16) {
	found, first, bitmap := h.c.BitmapGet(next)
	h.t.Op(fmt.Sprintf("%s %d %d", tr.B(found), first, bitmap), "bitmapget", next)
	if found {
		h.checkNack(next, first, bitmap)
	}
}

// rlPackets / rlUnnacked: COPY of rtpreader.go readLoop (see the header).
func rlPackets(rate uint32) uint32 {
	packets := rate / 50
	if packets > 24 {
		packets = 24
	}
	if packets < 2 {
		packets = 2
	}
	return packets
}
func rlUnnacked(packets uint32) uint16 {
	unnacked := uint16(4)
	if unnacked > uint16(packets) {
		unnacked = uint16(packets)
	}
	return unnacked
}

// readloop = Store + the NACK decision of readLoop + BitmapGet + the Expect of
// sendNACK; ok = the track negotiated nack feedback and WriteRTCP succeeded.
// Returns the numbers denoted by the NACK that was sent (nil if none).
func (h *lossHist) readloop(seq uint16, kf bool, rate uint32, ok bool) []uint16 {
	first, _ := h.c.Store(seq, 0, kf, false, []byte{0})
	h.noteStore(seq, first)
	delta := seq - first
	if (delta & 0x8000) != 0 {
		delta = 0
	}
	packets := rlPackets(rate)
	unnacked := rlUnnacked(packets)
	obs := "-"
	var nums []uint16
	if uint32(delta) > packets {
		next := seq - unnacked
		found, f, bitmap := h.c.BitmapGet(next)
		if found {
			// the monitors look at what BitmapGet shifted out whether or not
			// the NACK can be sent: it will never be reported again
			n := h.checkNack(next, f, bitmap)
			if ok {
				obs = fmt.Sprintf("%d:%d", f, bitmap)
				h.c.Expect(1 + bits.OnesCount16(bitmap))
				h.expects += uint64(1 + bits.OnesCount16(bitmap))
				nums = n
			}
		}
	}
	h.t.Op(obs, "readloop", seq, kf, rate, ok)
	h.lastNack = nums
	return nums
}

func (h *lossHist) expect(n int) {
	h.c.Expect(n)
	h.expects += uint64(n)
	h.t.Op("-", "expect", n)
}

func (h *lossHist) stats(reset bool) packetcache.Stats {
	s := h.c.GetStats(reset)
	h.t.Op(fmt.Sprintf("%d %d %d %d %d", s.Received, s.TotalReceived, s.Expected, s.TotalExpected, s.ESeqno),
		"getstats", reset)
	h.t.Checked("C06.received_le_expected")
	if s.Received > s.Expected {
		h.t.Fail("C06", "received_le_expected", fmt.Sprintf("interval: received %d > expected %d", s.Received, s.Expected))
	}
	if s.TotalReceived > s.TotalExpected {
		h.t.Fail("C06", "received_le_expected", fmt.Sprintf("total: received %d > expected %d", s.TotalReceived, s.TotalExpected))
	}
	// an independent ceiling: the server cannot have expected more packets than
	// the newest number travelled forward (plus one per arrival: the first packet
	// and every restart count one, plus what Expect added for retransmissions),
	// nor have received more than arrived.  A counter that went below zero
	// (e.g. an increment computed without the 16-bit wrap) shows up here as a
	// value near 2^32, which `received <= expected` alone does not notice.
	h.t.Checked("C06.expected_bounded")
	if bound := h.travel + uint64(h.stores) + h.expects; uint64(s.TotalExpected) > bound || uint64(s.Expected) > bound {
		h.t.Fail("C06", "expected_bounded", fmt.Sprintf("expected %d (interval) / %d (total) although the newest number moved forward by %d in all, %d packets arrived and Expect added %d", s.Expected, s.TotalExpected, h.travel, h.stores, h.expects))
	}
	if uint64(s.TotalReceived) > uint64(h.stores) || uint64(s.Received) > uint64(h.stores) {
		h.t.Fail("C06", "expected_bounded", fmt.Sprintf("received %d (interval) / %d (total) although only %d packets arrived", s.Received, s.TotalReceived, h.stores))
	}
	h.t.Checked("C06.eseqno_monotone")
	if h.haveESeqno && !h.restarted && s.ESeqno < h.lastESeqno {
		h.t.Fail("C06", "eseqno_monotone", fmt.Sprintf("extended seqno went from %d to %d without a backward jump > 256", h.lastESeqno, s.ESeqno))
	}
	if h.haveNewest && uint16(s.ESeqno) != h.newest {
		h.t.Fail("C06", "eseqno_monotone", fmt.Sprintf("extended seqno %d does not end in the newest number %d", s.ESeqno, h.newest))
	}
	h.lastESeqno = s.ESeqno
	h.haveESeqno = true
	h.restarted = false
	return s
}

// rrStats: COPY of the loss arithmetic of sendUpRTCP (see the header).
func rrStats(stats packetcache.Stats) (uint8, uint32, uint32) {
	var totalLost uint32
	if stats.TotalExpected > stats.TotalReceived {
		totalLost = stats.TotalExpected - stats.TotalReceived
	}
	var fractionLost uint32
	if stats.Expected > stats.Received {
		lost := stats.Expected - stats.Received
		fractionLost = lost * 256 / stats.Expected
		if fractionLost >= 255 {
			fractionLost = 255
		}
	}
	return uint8(fractionLost), totalLost, stats.ESeqno
}

func pairsString(fs, bs []uint16) string {
	if len(fs) == 0 {
		return "-"
	}
	parts := make([]string, len(fs))
	for i := range fs {
		parts[i] = fmt.Sprintf("%d:%d", fs[i], bs[i])
	}
	return strings.Join(parts, ",")
}

func listString(l []uint16) string {
	if len(l) == 0 {
		return "-"
	}
	parts := make([]string, len(l))
	for i, v := range l {
		parts[i] = fmt.Sprint(v)
	}
	return strings.Join(parts, ",")
}

// toPairs iterates the real packetcache.ToBitmap as rtpUpTrack.sendNACKs does
// (COPY of its loop, including the 240-pair limit).
func toPairs(seqnos []uint16) (fs, bs []uint16) {
	for len(seqnos) > 0 {
		if len(fs) >= 240 {
			break
		}
		var f, b uint16
		f, b, seqnos = packetcache.ToBitmap(seqnos)
		fs = append(fs, f)
		bs = append(bs, b)
	}
	return
}

// nackwriter: COPY of the filter of nackWriter, on the real cache.
func (h *lossHist) nackwriter(buffered []uint16) {
	arg := listString(buffered)
	nacks := append([]uint16{}, buffered...)
	var cutoff uint16
	seqno, found := h.c.Keyframe()
	if found {
		cutoff = seqno
	} else {
		lastSeqno, last := h.c.Last()
		if !last {
			h.t.Op("-", "nackwriter", arg)
			return
		}
		cutoff = lastSeqno - 256
	}
	i := 0
	for i < len(nacks) {
		if ((nacks[i] - cutoff) & 0x8000) != 0 {
			nacks = append(nacks[:i], nacks[i+1:]...)
			continue
		}
		l := h.c.Get(nacks[i], nil)
		if l > 0 {
			nacks = append(nacks[:i], nacks[i+1:]...)
			continue
		}
		i++
	}
	sort.Slice(nacks, func(i, j int) bool {
		return nacks[i]-cutoff < nacks[j]-cutoff
	})
	fs, bs := toPairs(nacks)
	h.t.Op(pairsString(fs, bs), "nackwriter", arg)
	// monitor: what is shipped out is a buffered number the cache does not hold
	in := map[uint16]bool{}
	for _, n := range buffered {
		in[n] = true
	}
	for k := range fs {
		for _, n := range nackNums(fs[k], bs[k]) {
			h.t.Checked("C06.nackwriter_not_held")
			if !in[n] {
				h.t.Fail("C06", "nackwriter_not_held", fmt.Sprintf("nackWriter ships %d, which was not requested", n))
			}
			if h.everRecv[n] && h.c.Get(n, nil) > 0 {
				h.t.Fail("C06", "nackwriter_not_held", fmt.Sprintf("nackWriter ships %d, which the cache holds", n))
			}
		}
	}
	if len(nacks) > 0 {
		h.expect(len(nacks))
	}
}

// ---------------------------------------------------------------- pure ops

func lossFn(t *tr.Trace, r *tr.Rand, n int) {
	t.History("lossfn", "tobitmap")
	check := func(l []uint16, sorted bool) {
		fs, bs := toPairs(l)
		t.Op(pairsString(fs, bs), "tobitmap", listString(l))
		var got []uint16
		for k := range fs {
			got = append(got, nackNums(fs[k], bs[k])...)
		}
		t.Checked("C06.tobitmap_roundtrip")
		if sorted && len(l) <= 240 {
			if listString(got) != listString(l) {
				t.Fail("C06", "tobitmap_roundtrip", fmt.Sprintf("sorted list %s is packed as %s which denotes %s", listString(l), pairsString(fs, bs), listString(got)))
			}
			return
		}
		// arbitrary lists: the same SET (all of it up to 240 elements)
		in := map[uint16]bool{}
		for _, v := range l {
			in[v] = true
		}
		out := map[uint16]bool{}
		for _, v := range got {
			out[v] = true
			if !in[v] {
				t.Fail("C06", "tobitmap_roundtrip", fmt.Sprintf("list %s is packed as %s which denotes %d", listString(l), pairsString(fs, bs), v))
			}
		}
		if len(l) <= 240 {
			for _, v := range l {
				if !out[v] {
					t.Fail("C06", "tobitmap_roundtrip", fmt.Sprintf("list %s is packed as %s which does not denote %d", listString(l), pairsString(fs, bs), v))
				}
			}
		}
	}
	// corpus: the boundaries of one pair
	for _, base := range []uint16{0, 42, 65519, 65520, 65535, 32767} {
		check([]uint16{base}, true)
		check([]uint16{base, base + 1}, true)
		check([]uint16{base, base + 16}, true)
		check([]uint16{base, base + 17}, true)
		check([]uint16{base, base + 15, base + 16, base + 17, base + 33, base + 34}, true)
		all := []uint16{}
		for i := 0; i < 40; i++ {
			all = append(all, base+uint16(i))
		}
		check(all, true)
		check([]uint16{base, base, base + 1, base}, false)
		check([]uint16{base + 5, base + 2, base + 9}, false)
	}
	for i := 0; i < 40+n/2; i++ {
		cutoff := uint16(r.U64())
		switch r.Pick(2, 2, 3) {
		case 0:
			cutoff = uint16(65536 - r.Range(1, 300))
			t.Note("tobitmap-near-wrap")
		case 1:
			cutoff = uint16(r.Range(0, 40))
		}
		ln := r.Range(1, 60)
		if r.Chance(1, 25) {
			ln = r.Range(230, 260)
			t.Note("tobitmap-long")
		}
		var l []uint16
		off := 0
		for k := 0; k < ln; k++ {
			switch r.Pick(5, 3, 2, 1) {
			case 0:
				off += 1
			case 1:
				off += r.Range(2, 15)
			case 2:
				off += r.Range(16, 18)
			default:
				off += r.Range(19, 120)
			}
			if off >= 32768 {
				break
			}
			l = append(l, cutoff+uint16(off))
		}
		if len(l) == 0 {
			l = []uint16{cutoff}
		}
		if r.Chance(3, 4) {
			check(l, true)
		} else {
			// shuffle, duplicate
			m := append([]uint16{}, l...)
			for k := range m {
				j := r.Intn(len(m))
				m[k], m[j] = m[j], m[k]
			}
			if r.Bool() {
				m = append(m, m[r.Intn(len(m))])
			}
			check(m, false)
			t.Note("tobitmap-unsorted")
		}
	}

	t.History("lossfn", "rrstats")
	rr := func(s packetcache.Stats) {
		fl, tl, es := rrStats(s)
		t.Op(fmt.Sprintf("%d %d %d", fl, tl, es), "rrstats", s.Received, s.TotalReceived, s.Expected, s.TotalExpected, s.ESeqno)
	}
	for _, s := range []packetcache.Stats{
		{}, {Received: 1, Expected: 1}, {Received: 0, Expected: 1}, {Received: 1, Expected: 256},
		{Received: 0, Expected: 16777216}, {Received: 0, Expected: 16777217}, {Received: 5, Expected: 4294967295},
		{Received: 9, Expected: 3, TotalReceived: 10, TotalExpected: 4},
		{Received: 1, Expected: 255, TotalReceived: 0, TotalExpected: 4294967295, ESeqno: 4294967295},
	} {
		rr(s)
	}
	for i := 0; i < 60+n; i++ {
		var s packetcache.Stats
		switch r.Pick(6, 2, 1) {
		case 0:
			s.Expected = uint32(r.Range(0, 3000))
			s.Received = uint32(r.Range(0, int(s.Expected)+2))
			s.TotalExpected = s.Expected + uint32(r.Range(0, 100000))
			s.TotalReceived = uint32(r.Range(0, int(s.TotalExpected)+2))
		case 1:
			s.Expected = uint32(r.U64())
			s.Received = uint32(r.U64())
			s.TotalExpected = uint32(r.U64())
			s.TotalReceived = uint32(r.U64())
		default:
			s.Expected = uint32(1<<24) + uint32(r.Range(-3, 3000))
			s.Received = uint32(r.Range(0, 5))
			s.TotalExpected = s.Expected
		}
		s.ESeqno = uint32(r.U64())
		rr(s)
	}
}

// ---------------------------------------------------------------- streams

// f20: an in-order stream, ONE stray packet more than 256 numbers old, and the
// stream continues where it was (known finding F20).
func strayStream(t *tr.Trace, r *tr.Rand, start uint16, run int, back int, rate uint32) {
	h := newLossHist(t, r, "f20-stray", 512)
	seq := start
	for i := 0; i < run; i++ {
		h.readloop(seq, i == 0, rate, true)
		seq++
	}
	h.readloop(seq-1-uint16(back), false, rate, true)
	h.strayed = true
	// the monitors' restart reading does not apply here: the stream did not
	// restart, one old packet was delivered
	for i := 0; i < 40; i++ {
		h.readloop(seq, false, rate, true)
		seq++
	}
	h.stats(true)
	t.Nontrivial(fmt.Sprintf("stray/%d/%d/%d", start, run, back))
}

// limitStream: F20 at its boundary (corpus): in-order run, the newest packet
// duplicated (bitmap.first becomes newest+1), one packet exactly 256 behind the
// newest, and the stream continues.
func limitStream(t *tr.Trace, r *tr.Rand, start uint16, run int, rate uint32) {
	h := newLossHist(t, r, "f20-limit", 512)
	seq := start
	for i := 0; i < run; i++ {
		h.readloop(seq, i == 0, rate, true)
		seq++
	}
	h.readloop(seq-1, false, rate, true)
	h.readloop(seq-1-256, false, rate, true)
	seq++ // one packet lost
	for i := 0; i < 40; i++ {
		h.readloop(seq, false, rate, true)
		seq++
	}
	h.stats(true)
	t.Nontrivial(fmt.Sprintf("limit/%d/%d", start, run))
}

// steadyHole: in-order arrivals at a fixed rate, single holes far apart; each
// must be requested exactly at the (packets+1)-th arrival after it.
func steadyHole(t *tr.Trace, r *tr.Rand, start uint16, rate uint32) {
	h := newLossHist(t, r, "steady-hole", 256)
	seq := start
	packets := int(rlPackets(rate))
	lead := r.Range(1, 40)
	for i := 0; i < lead; i++ {
		h.readloop(seq, i == 0, rate, true)
		seq++
	}
	for k := 0; k < 6; k++ {
		hole := seq
		seq++
		requested := -1
		for j := 1; j <= packets+1; j++ {
			nums := h.readloop(seq, false, rate, true)
			seq++
			for _, s := range nums {
				if s == hole && requested < 0 {
					requested = j
				}
			}
		}
		h.t.Checked("C06.hole_requested")
		if requested < 0 {
			h.t.Fail("C06", "hole_requested", fmt.Sprintf("the single missing packet %d of a steady stream (rate %d, packets %d) was not requested within %d arrivals", hole, rate, packets, packets+1))
		}
		gap := r.Range(30, 70)
		for i := 0; i < gap; i++ {
			h.readloop(seq, false, rate, true)
			seq++
		}
		if k%2 == 1 {
			h.stats(true)
		}
	}
	h.stats(false)
	t.Nontrivial(fmt.Sprintf("steady/%d/%d", start, rate))
}

func pickStart(t *tr.Trace, r *tr.Rand) uint16 {
	switch r.Pick(2, 3, 1, 3) {
	case 0:
		return uint16(r.Range(0, 3))
	case 1:
		t.Note("start-near-wrap")
		return uint16(65536 - r.Range(1, 300))
	case 2:
		return uint16(32768 - r.Range(0, 100))
	default:
		return uint16(r.U64())
	}
}

func pickRate(r *tr.Rand) uint32 {
	switch r.Pick(2, 3, 3, 1, 1) {
	case 0:
		return uint32(r.Range(0, 149)) // packets = 2
	case 1:
		return uint32(r.Range(150, 1249)) // 3..24
	case 2:
		return uint32(r.Range(100, 400))
	case 3:
		return uint32(r.Range(1200, 5000))
	default:
		return uint32(r.U64())
	}
}

func runLoss(t *tr.Trace, r *tr.Rand, n int) {
	// corpus: F20 as in DESIGN.md section 4, then variations
	strayStream(t, r, 900, 101, 500, 100)
	strayStream(t, r, 65400, 200, 300, 600)
	for i := 0; i < 1+n/60; i++ {
		strayStream(t, r, pickStart(t, r), r.Range(40, 160), r.Range(257, 3000), pickRate(r))
	}
	limitStream(t, r, 100, 80, 100)
	limitStream(t, r, 65300, 300, 700)
	// corpus: steady streams, every value of packets
	for _, rate := range []uint32{0, 100, 149, 150, 200, 250, 600, 1199, 1200, 1249, 1250, 100000} {
		steadyHole(t, r, uint16(65536-int(rate%97)-5), rate)
	}
	for i := 0; i < 2+n/20; i++ {
		steadyHole(t, r, pickStart(t, r), pickRate(r))
	}
	lossFn(t, r, n)

	for hi := 0; hi < n; hi++ {
		stream := "lossy"
		switch r.Pick(6, 2, 2, 1) {
		case 1:
			stream = "reorder"
		case 2:
			stream = "restarts"
		case 3:
			stream = "random-sampling"
		}
		capacity := r.Range(64, 600)
		h := newLossHist(t, r, stream, capacity)
		if stream == "random-sampling" {
			// BitmapGet at arbitrary points: only the model comparison and
			// nack_before_next apply
			h.strict = false
		}
		seq := pickStart(t, r)
		start := seq
		rate := pickRate(r)
		varRate := r.Chance(1, 4)
		lossP := r.Range(0, 12)
		type held struct {
			seq uint16
			at  int
		}
		var pending []held
		var missing []uint16
		nops := r.Range(40, 500)
		for i := 0; i < nops; i++ {
			if varRate && r.Chance(1, 10) {
				rate = pickRate(r)
			}
			ok := !r.Chance(1, 40)
			arrive := func(s uint16) {
				if stream == "random-sampling" && r.Chance(1, 2) {
					h.store(s, r.Chance(1, 30))
				} else {
					h.readloop(s, r.Chance(1, 30), rate, ok)
				}
			}
			// deliver held-back packets that are due (never more than 256 late)
			for len(pending) > 0 && (pending[0].at <= i || seq-pending[0].seq > 200) {
				arrive(pending[0].seq)
				pending = pending[1:]
				t.Note("late-arrival")
			}
			switch r.Pick(70, lossP, 5, 6, 1, 2, 2, 2, 1) {
			case 0:
				arrive(seq)
				seq++
			case 1: // loss of 1..4 packets
				k := r.Range(1, 4)
				for j := 0; j < k; j++ {
					missing = append(missing, seq)
					seq++
				}
				arrive(seq)
				seq++
				t.Note("loss")
			case 2: // duplicate of a recent packet; sometimes as old as the limit allows
				back := uint16(r.Range(1, 40))
				limit := r.Chance(1, 12) && h.haveNewest
				if limit {
					back = seq - h.newest + uint16(r.Range(254, 256))
					t.Note("old-at-the-limit")
				}
				if limit || h.everRecv[seq-back] {
					arrive(seq - back)
					t.Note("duplicate")
				}
			case 3: // hold one back
				if stream != "lossy" || r.Chance(1, 3) {
					late := r.Range(1, 12)
					if stream == "reorder" && r.Chance(1, 4) {
						late = r.Range(12, 180)
					}
					pending = append(pending, held{seq, i + late})
					sort.Slice(pending, func(a, b int) bool { return pending[a].at < pending[b].at })
					seq++
					t.Note("reorder")
				}
			case 4: // forward jump (a burst of loss); what was held back is lost too
				pending = nil
				seq += uint16(r.Range(20, 2000))
				arrive(seq)
				seq++
				t.Note("forward-jump")
			case 5: // sample the statistics as sendUpRTCP does
				h.stats(true)
			case 6:
				h.stats(false)
			case 7: // nackWriter on a few recent numbers, some missing, some held
				var buf []uint16
				seen := map[uint16]bool{}
				want := r.Range(1, 12)
				for j := 0; j < want; j++ {
					var s uint16
					if len(missing) > 0 && r.Chance(2, 3) {
						s = missing[len(missing)-1-r.Intn(min(len(missing), 30))]
					} else {
						s = seq - uint16(r.Range(1, 400))
					}
					if !seen[s] {
						seen[s] = true
						buf = append(buf, s)
					}
				}
				h.nackwriter(buf)
			case 8:
				if stream == "restarts" || r.Chance(1, 6) {
					// the publisher restarts: jumps backwards by more than 256
					// (or "forwards" by more than 32768) and continues from there
					pending = nil
					seq -= uint16(r.Range(257, 40000))
					arrive(seq)
					seq++
				}
			}
			if stream == "random-sampling" && r.Chance(1, 8) {
				if r.Chance(3, 4) {
					h.bitmapGet(seq - uint16(r.Range(0, 40)))
				} else {
					h.bitmapGet(uint16(r.U64()))
				}
			}
			if r.Chance(1, 200) {
				h.expect(r.Range(-2, 30))
			}
		}
		h.stats(true)
		h.stats(false)
		if h.stores > 3 {
			t.Nontrivial(fmt.Sprintf("%s/%d/%d/%d", stream, start, h.stores, h.nacks))
		}
	}
}

func main() { tr.Main(runLoss) }

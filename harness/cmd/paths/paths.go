// Driver `paths` (property C19: names from clients never reach files outside
// their configured directories).
//
// Pure operations, compared with the extracted Coq model (Model/Paths.v):
//
//	clean <s>                     the REAL path.Clean
//	validgroup <s>, validuser <s> group.validGroupName / validUsername
//	parsegroup <prefix> <p>       webserver.parseGroupName
//	splitpath <p>                 webserver.splitPath
//	sanitise <s>                  diskwriter.sanitise
//	join <a> <b>                  the REAL filepath.Join
//	descfiles <dir> <name> <sub>  every file name group.getDescriptionFile tries
//	recdir <dir> <group>          the directory diskwriter.New creates
//	recfile <stamp> <user> <counter> <ext>   the name openDiskFile creates
//	delete <group> <filename>     the delete action: refused or attempted
//
//	getperm <tok> <parse> <needs> <check> <cuser> <exists> <pwok>
//	                              Description.GetPermission: the username a join
//	                              gets (password, stateful token with/without a
//	                              username, JWT sub); the token verdicts are
//	                              oracles read off the real token package
//
// Operations observed by monitors only (real file system, in a sandbox):
// groupadd, updatedesc, updateuser, apiput, addclient.
//
// Inputs: regression literals, then every string of at most L symbols over
// {a . / \ % NUL é} (L = 5, or 6 when n >= 5000), then n seeded random longer
// strings.  One history per input string.
package main

import (
	"bytes"
	"encoding/base64"
	"fmt"
	"io"
	"log"
	"net"
	"net/http"
	"net/http/httptest"
	"net/url"
	"os"
	"path"
	"path/filepath"
	"sort"
	"strings"
	"time"

	"github.com/golang-jwt/jwt/v5"

	"github.com/jech/galene/conn"
	"github.com/jech/galene/diskwriter"
	"github.com/jech/galene/group"
	"github.com/jech/galene/token"
	"github.com/jech/galene/webserver"

	"verifharness/internal/tr"
)

var alphabet = []string{"a", ".", "/", "\\", "%", "\x00", "é"}

// directories used as group.Directory / diskwriter.Directory for the pure
// operations (nothing is opened there)
var dirs = []string{"/vd/groups", "groups", "./groups/", "../g", ".", "/", "g//h/../k/", "/vd/../w/.", ".."}

var corpus = []string{
	"", "a", "a/b", "a\\b", "\\", "..", ".", "/", "//", "../x", "a/../..", "a/../../x",
	"a//b", "a/./b", ".a", "a/.b", "a/..b", "a/b/", "/a", "...", "a/.../b", "a/..", "a/.",
	"./a", "a/b/../c", "a/..\\..\\b", "..\\x", "%2e%2e/x", "%5c", "a\x00b", "\x00", "é/é",
	"a/.status", "a/.users/b", "/.groups", "a/.b/c/.d", "/./", "/../", "a/../b/../..",
	"-slash-", "a/b\\c", strings.Repeat("a", 300), strings.Repeat("../", 20) + "etc/passwd",
	strings.Repeat("a/", 30) + "b", "a/" + strings.Repeat("../", 3) + "b",
}

// ---------------------------------------------------------------- specification side

// specValid is the rule of the property, written independently of the code:
// non-empty, no backslash, every '/'-separated component non-empty and
// different from "." and "..".
func specValid(s string) bool {
	if s == "" || strings.Contains(s, "\\") {
		return false
	}
	for _, c := range strings.Split(s, "/") {
		if c == "" || c == "." || c == ".." {
			return false
		}
	}
	return true
}

// under reports whether file is strictly below dir, lexically.
func under(dir, file string) (bool, string) {
	rel, err := filepath.Rel(dir, file)
	if err != nil {
		return false, "Rel: " + err.Error()
	}
	if rel == "." || rel == ".." || strings.HasPrefix(rel, "../") || filepath.IsAbs(rel) {
		return false, "relative path is " + rel
	}
	for _, c := range strings.Split(rel, "/") {
		if c == "" || c == "." || c == ".." {
			return false, "relative path " + rel + " has a component " + c
		}
	}
	return true, ""
}

func specSanitise(s string) string {
	// the replacement of '/' introduces no backslash, so two passes are exact
	s = strings.ReplaceAll(s, "/", "-slash-")
	return strings.ReplaceAll(s, "\\", "-backslash-")
}

func hx(s string) string { return tr.Hex([]byte(s)) }

func hlist(l []string) string {
	if len(l) == 0 {
		return "none"
	}
	out := make([]string, len(l))
	for i, s := range l {
		out[i] = hx(s)
	}
	return strings.Join(out, ",")
}

// ---------------------------------------------------------------- pure operations

type drv struct {
	t   *tr.Trace
	r   *tr.Rand
	cnt int
}

func (d *drv) opClean(s string) {
	t := d.t
	got := path.Clean(s)
	t.Op(hx(got), "clean", []byte(s))
	if strings.HasPrefix(s, "/") {
		t.Checked("C19.clean_rooted")
		bad := ""
		if !strings.HasPrefix(got, "/") {
			bad = "not rooted"
		} else if path.Clean(got) != got {
			bad = "not idempotent"
		} else if got != "/" {
			for _, c := range strings.Split(got[1:], "/") {
				if c == "" || c == "." || c == ".." {
					bad = "component " + c
				}
			}
		}
		if bad != "" {
			t.Fail("C19", "clean_rooted", fmt.Sprintf("path.Clean(%q) = %q: %s", s, got, bad))
		}
	}
}

func (d *drv) opValid(s string) bool {
	t := d.t
	v := group.VerifPathsValidGroupName(s)
	t.Op(tr.B(v), "validgroup", []byte(s))
	t.Checked("C19.valid_rule")
	if v != specValid(s) {
		t.Fail("C19", "valid_rule", fmt.Sprintf("validGroupName(%q) = %v, the rule says %v", s, v, specValid(s)))
	}
	u := group.VerifPathsValidUsername(s)
	t.Op(tr.B(u), "validuser", []byte(s))
	t.Checked("C19.username_rule")
	if u != (s == "" || specValid(s)) {
		t.Fail("C19", "username_rule", fmt.Sprintf("validUsername(%q) = %v", s, u))
	}
	if v {
		t.Note("valid")
		t.Nontrivial(fmt.Sprintf("valid/%d/%d", len(s), strings.Count(s, "/")))
		// an accepted name stays below any directory it is joined to
		for _, dir := range []string{"/vd/rec", "rec", "../r"} {
			t.Checked("C19.accepted_confined")
			p := filepath.Join(dir, s)
			if ok, why := under(dir, p); !ok {
				t.Fail("C19", "accepted_confined", fmt.Sprintf("accepted name %q joined to %q gives %q: %s", s, dir, p, why))
			} else if rel, _ := filepath.Rel(dir, p); rel != s {
				t.Fail("C19", "accepted_confined", fmt.Sprintf("accepted name %q joined to %q gives %q, relative %q", s, dir, p, rel))
			}
		}
	} else {
		t.Note("invalid")
	}
	return v
}

func (d *drv) opParse(prefix, p string) {
	t := d.t
	got := webserver.VerifPathsParseGroupName(prefix, p)
	t.Op(hx(got), "parsegroup", []byte(prefix), []byte(p))
	t.Checked("C19.parse_agrees")
	if got != "" {
		t.Note("parsed")
		if !group.VerifPathsValidGroupName(got) || !specValid(got) {
			t.Fail("C19", "parse_agrees", fmt.Sprintf("parseGroupName(%q, %q) = %q which the group layer rejects", prefix, p, got))
		}
	}
}

func (d *drv) opSplitPath(p string) {
	a, k, r := webserver.VerifPathsSplitPath(p)
	d.t.Op(hx(a)+" "+hx(k)+" "+hx(r), "splitpath", []byte(p))
	d.t.Checked("C19.splitpath_partition")
	// the three parts partition the path; kind is one component starting with '.'
	ok := true
	if k == "" {
		ok = a == p && r == "" && !strings.Contains(p, "/.")
	} else {
		ok = a+"/"+k+r == p && strings.HasPrefix(k, ".") && !strings.Contains(k, "/") &&
			(r == "" || r[0] == '/') && !strings.Contains(a, "/.")
	}
	if !ok {
		d.t.Fail("C19", "splitpath_partition", fmt.Sprintf("splitPath(%q) = %q %q %q", p, a, k, r))
	}
}

func (d *drv) opSanitise(s string) {
	t := d.t
	got := diskwriter.VerifPathsSanitise(s)
	t.Op(hx(got), "sanitise", []byte(s))
	t.Checked("C19.sanitise")
	if strings.ContainsAny(got, "/\\") {
		t.Fail("C19", "sanitise", fmt.Sprintf("sanitise(%q) = %q contains a separator", s, got))
	} else if got != specSanitise(s) {
		t.Fail("C19", "sanitise", fmt.Sprintf("sanitise(%q) = %q, expected %q", s, got, specSanitise(s)))
	}
}

func (d *drv) opJoin(a, b string) {
	d.t.Op(hx(filepath.Join(a, b)), "join", []byte(a), []byte(b))
}

func (d *drv) opDescFiles(dir, name string, sub bool) {
	t := d.t
	group.Directory = dir
	files := group.VerifPathsDescriptionFiles(name, sub)
	t.Op(hlist(files), "descfiles", []byte(dir), []byte(name), sub)
	for _, f := range files {
		t.Checked("C19.desc_confined")
		if ok, why := under(dir, f); !ok {
			t.Fail("C19", "desc_confined", fmt.Sprintf("description file for %q under %q is %q: %s", name, dir, f, why))
		}
	}
}

func (d *drv) opRecDir(dir, g string) {
	// what diskwriter.New computes; the real New is exercised in the sandbox
	d.t.Op(hx(filepath.Join(dir, g)), "recdir", []byte(dir), []byte(g))
}

// pure runs every pure operation on one input string (one history).
func (d *drv) pure(stream, s string) {
	t := d.t
	t.History("paths", stream)
	d.cnt++
	dir := dirs[d.cnt%len(dirs)]
	d.opClean(s)
	d.opClean("/" + s)
	valid := d.opValid(s)
	d.opParse("/group/", "/group/"+s)
	d.opParse("", s)
	d.opSplitPath(s)
	d.opSplitPath("/" + s)
	d.opSanitise(s)
	d.opDescFiles("/vd/groups", s, true)
	d.opDescFiles(dir, s, d.cnt%3 != 0)
	d.opJoin(dir, s)
	if valid {
		d.opRecDir(dir, s)
	}
}

// ---------------------------------------------------------------- sandbox (real files)

type sandbox struct {
	root, groups, data, rec, outside string
}

func newSandbox() (*sandbox, error) {
	root, err := os.MkdirTemp("", "verif-c19-")
	if err != nil {
		return nil, err
	}
	root, err = filepath.EvalSymlinks(root)
	if err != nil {
		return nil, err
	}
	sb := &sandbox{root: root, groups: filepath.Join(root, "in", "groups"),
		data: filepath.Join(root, "in", "data"), rec: filepath.Join(root, "in", "rec"),
		outside: filepath.Join(root, "outside")}
	for _, dd := range []string{sb.groups, sb.data, sb.rec, sb.outside} {
		if err := os.MkdirAll(dd, 0700); err != nil {
			return nil, err
		}
	}
	config := `{"writableGroups": true, "users": {"root": {"password": "pw", "permissions": "admin"}}}`
	if err := os.WriteFile(filepath.Join(sb.data, "config.json"), []byte(config), 0600); err != nil {
		return nil, err
	}
	if err := os.WriteFile(filepath.Join(sb.outside, "sentinel"), []byte("s"), 0600); err != nil {
		return nil, err
	}
	static := filepath.Join(root, "in", "static")
	if err := os.MkdirAll(static, 0700); err != nil {
		return nil, err
	}
	if err := webserver.VerifPathsSetStaticRoot(static); err != nil {
		return nil, err
	}
	group.Directory = sb.groups
	group.DataDirectory = sb.data
	diskwriter.Directory = sb.rec
	return sb, nil
}

// snapshot lists every entry below the sandbox root except the data directory.
func (sb *sandbox) snapshot() map[string]bool {
	m := map[string]bool{}
	filepath.WalkDir(sb.root, func(p string, de os.DirEntry, err error) error {
		if err != nil {
			return nil
		}
		if p == sb.data {
			return filepath.SkipDir
		}
		m[p] = de.IsDir()
		return nil
	})
	return m
}

func diff(before, after map[string]bool) (added, removed []string) {
	for p := range after {
		if _, ok := before[p]; !ok {
			added = append(added, p)
		}
	}
	for p := range before {
		if _, ok := after[p]; !ok {
			removed = append(removed, p)
		}
	}
	sort.Strings(added)
	sort.Strings(removed)
	return
}

// strictly below dir (absolute clean paths)
func below(dir, p string) bool { return strings.HasPrefix(p, dir+"/") }

func (sb *sandbox) resetGroups() {
	os.RemoveAll(sb.groups)
	os.MkdirAll(sb.groups, 0700)
}

// confinedChange checks that every added or removed entry is strictly below
// dir; anything else is an escape.
func (d *drv) confinedChange(what, escape string, dir string, before, after map[string]bool) (added, removed []string) {
	added, removed = diff(before, after)
	d.t.Checked("C19." + strings.ReplaceAll(escape, "-", "_"))
	for _, p := range append(append([]string{}, added...), removed...) {
		if !below(dir, p) {
			d.t.Fail("C19", escape, fmt.Sprintf("%s touched %q which is not below %q", what, p, dir))
		}
	}
	return
}

func (d *drv) updateDesc(sb *sandbox, name string) {
	t := d.t
	t.History("paths", "fs-api")
	sb.resetGroups()
	before := sb.snapshot()
	err := group.UpdateDescription(name, "", &group.Description{})
	after := sb.snapshot()
	added, _ := d.confinedChange(fmt.Sprintf("UpdateDescription(%q)", name), "api-escape", sb.groups, before, after)
	obs := "error"
	if err == nil {
		obs = "ok " + hlist(added)
	}
	t.Op(obs, "updatedesc", []byte(name))
	t.Checked("C19.api_name_validated")
	if err == nil {
		t.Note("updatedesc-accepted")
		if !group.VerifPathsValidGroupName(name) {
			t.Fail("C19", "api-name-not-validated", fmt.Sprintf("group.UpdateDescription accepted the name %q, which validGroupName rejects, and created %v", name, added))
		}
		// the created file is the one the model names
		want := filepath.Join(sb.groups, path.Clean("/"+name)+".json")
		found := false
		for _, a := range added {
			if a == want {
				found = true
			}
		}
		t.Checked("C19.api_file_is_desc_file")
		if !found {
			t.Fail("C19", "api_file_is_desc_file", fmt.Sprintf("UpdateDescription(%q) created %v, expected %q", name, added, want))
		}
	} else {
		t.Note("updatedesc-refused")
	}
}

func (d *drv) updateUser(sb *sandbox, username string) {
	t := d.t
	t.History("paths", "fs-api")
	sb.resetGroups()
	if err := group.UpdateDescription("ok", "", &group.Description{}); err != nil {
		t.Fail("C19", "harness", "cannot create the group ok: "+err.Error())
		return
	}
	before := sb.snapshot()
	err := group.UpdateUser("ok", username, false, "", &group.UserDescription{})
	after := sb.snapshot()
	d.confinedChange(fmt.Sprintf("UpdateUser(ok, %q)", username), "api-escape", sb.groups, before, after)
	obs := "error"
	if err == nil {
		obs = "ok"
	}
	t.Op(obs, "updateuser", []byte(username))
	t.Checked("C19.api_name_validated")
	if err == nil && !group.VerifPathsValidUsername(username) {
		t.Fail("C19", "api-name-not-validated", fmt.Sprintf("group.UpdateUser accepted the username %q, which validUsername rejects", username))
	}
}

func (d *drv) apiPut(sb *sandbox, pth string) {
	t := d.t
	t.History("paths", "fs-api")
	sb.resetGroups()
	before := sb.snapshot()
	req := httptest.NewRequest("PUT", "http://localhost/galene-api/v0/.groups/x", strings.NewReader("{}"))
	req.URL.Path = "/galene-api/v0/.groups" + pth
	req.Header.Set("Content-Type", "application/json")
	req.Header.Set("If-None-Match", "*")
	req.SetBasicAuth("root", "pw")
	w := httptest.NewRecorder()
	webserver.VerifPathsAPIGroupHandler(w, req, pth)
	after := sb.snapshot()
	added, _ := d.confinedChange(fmt.Sprintf("PUT .groups%q", pth), "api-escape", sb.groups, before, after)
	t.Op(fmt.Sprintf("%d %s", w.Code, hlist(added)), "apiput", []byte(pth))
	t.Checked("C19.api_name_validated")
	if w.Code == http.StatusCreated {
		t.Note("apiput-created")
		for _, a := range added {
			if strings.HasSuffix(a, ".json") {
				name := strings.TrimSuffix(strings.TrimPrefix(a, sb.groups+"/"), ".json")
				if !group.VerifPathsValidGroupName(name) {
					t.Fail("C19", "api-name-not-validated", fmt.Sprintf("PUT /galene-api/v0/.groups%s answered 201 and created %q; validGroupName rejects %q", pth, a, name))
				}
			}
		}
	}
}

func (d *drv) groupAdd(sb *sandbox, name string, withRecorder bool) {
	t := d.t
	t.History("paths", "fs-group")
	before := map[string]bool{}
	if withRecorder {
		os.RemoveAll(sb.rec)
		os.MkdirAll(sb.rec, 0700)
		before = sb.snapshot()
	}
	g, err := group.Add(name, &group.Description{})
	obs := "refused"
	if err == nil {
		obs = "added"
	}
	t.Op(obs, "groupadd", []byte(name))
	t.Checked("C19.rejected_everywhere")
	if (err == nil) != specValid(name) {
		t.Fail("C19", "rejected_everywhere", fmt.Sprintf("group.Add(%q): err=%v, the rule says valid=%v", name, err, specValid(name)))
	}
	if err != nil {
		return
	}
	defer group.Delete(name)
	if !withRecorder || strings.Contains(name, "\x00") {
		return
	}
	c, err := diskwriter.New(g)
	if err != nil {
		t.Note("recorder-error")
		return
	}
	c.Close()
	after := sb.snapshot()
	added, _ := d.confinedChange(fmt.Sprintf("diskwriter.New(%q)", name), "rec-escape", sb.rec, before, after)
	want := filepath.Join(sb.rec, name)
	t.Checked("C19.rec_dir")
	found := false
	for _, a := range added {
		if a == want {
			found = true
		}
	}
	if !found || want != sb.rec+"/"+name {
		t.Fail("C19", "rec_dir", fmt.Sprintf("diskwriter.New(%q) created %v, expected %q", name, added, sb.rec+"/"+name))
	}
	t.Nontrivial("recdir/" + fmt.Sprint(strings.Count(name, "/")))
}

const stampFormat = "2006-01-02T15:04:05.000"

func (d *drv) recFile(sb *sandbox, counters map[string]int, g, username, ext string) {
	t := d.t
	t.History("paths", "fs-rec")
	dir := filepath.Join(sb.rec, g)
	if err := os.MkdirAll(dir, 0700); err != nil {
		t.Fail("C19", "harness", err.Error())
		return
	}
	existing := map[string]bool{}
	if es, err := os.ReadDir(dir); err == nil {
		for _, e := range es {
			existing[e.Name()] = true
		}
	}
	name, err := diskwriter.VerifPathsOpenDiskFile(dir, username, ext)
	if err == nil {
		// C20: every recording gets a file of its own - also two recordings of one
		// user that start within the same millisecond (the name carries a counter
		// then): never the file of a recording that exists
		t.Checked("C20.recording_file_is_new")
		if existing[filepath.Base(name)] {
			t.Fail("C20", "recording_file_is_new", fmt.Sprintf("the recording of %q was opened on %q, which already existed: two recordings share (and truncate) one file", username, name))
		}
	}
	if err != nil {
		t.Note("recfile-error")
		t.Checked("C19.rec_file")
		if !strings.Contains(username, "\x00") && len(specSanitise(username)) < 200 {
			t.Fail("C19", "rec_file", fmt.Sprintf("openDiskFile(%q, %q): %v", username, ext, err))
		}
		return
	}
	t.Checked("C19.rec_escape")
	if !strings.HasPrefix(name, dir+"/") {
		t.Fail("C19", "rec-escape", fmt.Sprintf("recording for %q was opened as %q, not in %q", username, name, dir))
		return
	}
	fn := name[len(dir)+1:]
	stamp := ""
	if len(fn) >= len(stampFormat) {
		stamp = fn[:len(stampFormat)]
	}
	if _, err := time.Parse(stampFormat, stamp); err != nil {
		t.Fail("C19", "rec_file", fmt.Sprintf("recording name %q does not start with a time stamp", fn))
		return
	}
	key := stamp + "|" + specSanitise(username) + "|" + ext
	counter := counters[key]
	counters[key]++
	if counter > 0 {
		t.Note("recfile-counter")
	}
	t.Op(hx(fn), "recfile", []byte(stamp), []byte(username), counter, []byte(ext))
	// the property: one component, in the group's own directory
	t.Checked("C19.rec_file")
	fi, err := os.Lstat(dir + "/" + fn)
	if strings.ContainsAny(fn, "/\\") || fn == "." || fn == ".." || filepath.Base(fn) != fn ||
		err != nil || !fi.Mode().IsRegular() {
		t.Fail("C19", "rec-escape", fmt.Sprintf("recording for %q: name %q is not a plain file of %q", username, fn, dir))
	}
	t.Nontrivial("recfile/" + fmt.Sprint(len(username)))
}

func (d *drv) deleteAction(sb *sandbox, filename string) {
	t := d.t
	t.History("paths", "fs-delete")
	os.RemoveAll(sb.rec)
	g := "grp"
	for _, f := range []string{"grp/f1", "grp/sub/f2", "other/x", "top"} {
		os.MkdirAll(filepath.Dir(filepath.Join(sb.rec, f)), 0700)
		os.WriteFile(filepath.Join(sb.rec, f), []byte("x"), 0600)
	}
	if specValid(filename) && !strings.Contains(filename, "/") && !strings.Contains(filename, "\x00") && len(filename) < 200 {
		os.WriteFile(filepath.Join(sb.rec, g, filename), []byte("x"), 0600)
	}
	before := sb.snapshot()
	form := url.Values{"q": {"delete"}, "filename": {filename}}
	req := httptest.NewRequest("POST", "http://localhost/recordings/"+g+"/", strings.NewReader(form.Encode()))
	req.Header.Set("Content-Type", "application/x-www-form-urlencoded")
	w := httptest.NewRecorder()
	webserver.VerifPathsGroupAction(w, req, g)
	after := sb.snapshot()
	_, removed := diff(before, after)
	created := false
	if isDir, ok := before[filepath.Join(sb.rec, g, filename)]; ok && !isDir && !strings.Contains(filename, "/") && filename != "" {
		created = true
	}
	if w.Code == http.StatusBadRequest {
		t.Op("refused", "delete", []byte(g), []byte(filename))
	} else {
		t.Op("attempted", "delete", []byte(g), []byte(filename))
		if created {
			t.Checked("C19.delete_effect")
			want := filepath.Join(sb.rec, g, filename)
			if len(removed) == 0 || removed[0] != want {
				t.Fail("C19", "delete_effect", fmt.Sprintf("delete with filename %q removed %v, expected %q", filename, removed, want))
			}
		}
	}
	t.Checked("C19.delete_confined")
	gdir := filepath.Join(sb.rec, g)
	added, _ := diff(before, after)
	for _, p := range append(added, removed...) {
		if p == gdir {
			t.Note("delete-removed-group-dir")
		} else if !below(gdir, p) {
			t.Fail("C19", "delete-escape", fmt.Sprintf("delete with filename %q touched %q which is not below %q", filename, p, gdir))
		}
	}
	if len(removed) > 0 {
		t.Note("delete-removed")
		if w.Code == http.StatusBadRequest {
			t.Fail("C19", "delete-escape", fmt.Sprintf("delete with filename %q answered 400 but removed %v", filename, removed))
		}
	}
}

// final check: the sentinel directory is as it was
func (d *drv) sentinel(sb *sandbox) {
	d.t.Checked("C19.sentinel")
	es, err := os.ReadDir(sb.outside)
	b, err2 := os.ReadFile(filepath.Join(sb.outside, "sentinel"))
	if err != nil || err2 != nil || len(es) != 1 || !bytes.Equal(b, []byte("s")) {
		d.t.Fail("C19", "sentinel-touched", fmt.Sprintf("the directory outside the roots changed: %v %v %d entries", err, err2, len(es)))
	}
	top, _ := os.ReadDir(sb.root)
	if len(top) != 2 {
		d.t.Fail("C19", "sentinel-touched", fmt.Sprintf("the sandbox root has %d entries", len(top)))
	}
}

// ---------------------------------------------------------------- joins

// stubClient records what the group layer tells a client at join time.
type stubClient struct {
	id       string
	group    *group.Group
	username string
	perms    []string
	inited   bool
}

func (c *stubClient) Group() *group.Group { return c.group }
func (c *stubClient) Addr() net.Addr      { return nil }
func (c *stubClient) Id() string          { return c.id }
func (c *stubClient) Username() string    { return c.username }
func (c *stubClient) Init(username string, perms []string) {
	c.username, c.perms, c.inited = username, perms, true
}
func (c *stubClient) Permissions() []string        { return c.perms }
func (c *stubClient) Data() map[string]interface{} { return nil }
func (c *stubClient) PushConn(g *group.Group, id string, up conn.Up, tracks []conn.UpTrack, replace string) error {
	return nil
}
func (c *stubClient) RequestConns(target group.Client, g *group.Group, id string) error { return nil }
func (c *stubClient) Joined(group, kind string) error                                   { return nil }
func (c *stubClient) PushClient(group, kind, id, username string, perms []string, data map[string]interface{}) error {
	return nil
}
func (c *stubClient) Kick(id string, user *string, message string) error { return nil }

const joinGroup = "joinme"

var jwtSecret = []byte("0123456789abcdef0123456789abcdef")

func optHex(s *string) string {
	if s == nil {
		return "nil"
	}
	return hx(*s)
}

// join presents one set of credentials to the real Description.GetPermission
// and to the real group.AddClient.  The rule of the property: whenever the
// join is accepted, the username the client ends up with is empty or a valid
// name -- whichever way it came in.
func (d *drv) join(sb *sandbox, counters map[string]int, kind string, creds group.ClientCredentials) {
	t := d.t
	t.History("paths", "join-"+kind)
	desc, err := group.GetDescription(joinGroup)
	if err != nil {
		t.Fail("C19", "harness", "GetDescription: "+err.Error())
		return
	}
	// oracles: what the real token package says about the token
	tokPresent := creds.Token != ""
	parseOK, needs := false, false
	var check *string
	if tokPresent {
		tok, err := token.Parse(creds.Token, desc.AuthKeys)
		if err == nil && tok != nil {
			parseOK = true
			needs = tok.NeedsUsername()
			if u, _, err := tok.Check("", joinGroup); err == nil {
				check = &u
			}
		}
	}
	exists := false
	if creds.Username != nil {
		_, exists = desc.Users[*creds.Username]
	}
	pwOK := creds.Password == "pw"

	username, _, err := desc.GetPermission(joinGroup, creds)
	obs := "refused"
	if err == nil {
		obs = "ok " + hx(username)
	}
	t.Op(obs, "getperm", tokPresent, parseOK, needs, optHex(check), optHex(creds.Username), exists, pwOK)
	t.Checked("C19.join_username_valid")
	if err == nil {
		t.Note("join-accepted-" + kind)
		if !(username == "" || specValid(username)) {
			t.Fail("C19", "join_username_valid", fmt.Sprintf("GetPermission (%s, client username %s, token username %s) accepted the username %q",
				kind, optQ(creds.Username), optQ(check), username))
		}
	} else {
		t.Note("join-refused-" + kind)
	}

	// the same through a real join
	d.cnt++
	c := &stubClient{id: fmt.Sprintf("c%d", d.cnt)}
	g, err := group.AddClient(joinGroup, c, creds)
	obs = "refused"
	if err == nil {
		c.group = g
		obs = "ok " + hx(c.username)
	}
	t.Op(obs, "addclient", kind, optHex(creds.Username), optHex(check))
	t.Checked("C19.join_username_valid")
	if err == nil {
		if !(c.username == "" || specValid(c.username)) {
			t.Fail("C19", "join_username_valid", fmt.Sprintf("AddClient (%s, client username %s, token username %s): the member's username is %q",
				kind, optQ(creds.Username), optQ(check), c.username))
		}
		t.Nontrivial("join/" + kind + "/" + fmt.Sprint(strings.Count(c.username, "/")))
		group.DelClient(c)
		// the recording of this member stays one component of the group's directory
		if !strings.Contains(c.username, "\x00") {
			d.recFile(sb, counters, joinGroup, c.username, "webm")
		}
	}
}

func optQ(s *string) string {
	if s == nil {
		return "<none>"
	}
	return fmt.Sprintf("%q", *s)
}

func (d *drv) joins(sb *sandbox, names []string) {
	t := d.t
	desc := `{"users": {"op": {"password": "pw", "permissions": "op"}},
 "wildcard-user": {"password": "pw", "permissions": "present"},
 "authKeys": [{"kty": "oct", "alg": "HS256", "k": "` + base64.RawURLEncoding.EncodeToString(jwtSecret) + `"}]}`
	sb.resetGroups()
	if err := os.WriteFile(filepath.Join(sb.groups, joinGroup+".json"), []byte(desc), 0600); err != nil {
		t.History("paths", "join-setup")
		t.Fail("C19", "harness", err.Error())
		return
	}
	token.SetStatefulFilename(filepath.Join(sb.data, "tokens.jsonl"))
	defer token.SetStatefulFilename("")
	defer group.Delete(joinGroup)
	expires := time.Now().Add(time.Hour)
	mint := func(tok string, username *string) bool {
		_, err := token.Update(&token.Stateful{Token: tok, Group: joinGroup, Username: username,
			Permissions: []string{"present"}, Expires: &expires}, "")
		return err == nil
	}
	signJWT := func(sub *string) string {
		claims := jwt.MapClaims{"aud": "https://galene.example/group/" + joinGroup + "/",
			"permissions": []string{"present"}, "iat": time.Now().Add(-time.Minute).Unix(),
			"exp": time.Now().Add(time.Hour).Unix()}
		if sub != nil {
			claims["sub"] = *sub
		}
		s, err := jwt.NewWithClaims(jwt.SigningMethodHS256, claims).SignedString(jwtSecret)
		if err != nil {
			return ""
		}
		return s
	}
	if !mint("anon", nil) {
		t.History("paths", "join-setup")
		t.Fail("C19", "harness", "cannot mint a token")
		return
	}
	counters := map[string]int{}
	str := func(s string) *string { return &s }
	anonJWT := signJWT(nil)
	for i, u := range names {
		// (a) password credentials
		d.join(sb, counters, "password", group.ClientCredentials{Username: str(u), Password: "pw"})
		if i%8 == 0 {
			d.join(sb, counters, "password", group.ClientCredentials{Username: str(u), Password: "wrong"})
		}
		// (b) a stateful token that carries the username
		tok := fmt.Sprintf("named%d", i)
		if mint(tok, str(u)) {
			d.join(sb, counters, "token-username", group.ClientCredentials{Token: tok})
			d.join(sb, counters, "token-username", group.ClientCredentials{Token: tok, Username: str("bob")})
		}
		// (c) a token without username, the client chooses
		d.join(sb, counters, "token-anon", group.ClientCredentials{Token: "anon", Username: str(u)})
		// (d) a JWT whose sub is the username; and one without sub
		if j := signJWT(str(u)); j != "" {
			d.join(sb, counters, "jwt-sub", group.ClientCredentials{Token: j})
			if i%4 == 0 {
				d.join(sb, counters, "jwt-sub", group.ClientCredentials{Token: j, Username: str("bob")})
			}
		}
		if anonJWT != "" {
			d.join(sb, counters, "jwt-anon", group.ClientCredentials{Token: anonJWT, Username: str(u)})
		}
	}
	d.join(sb, counters, "token-anon", group.ClientCredentials{Token: "anon"})
	d.join(sb, counters, "none", group.ClientCredentials{})
	d.join(sb, counters, "token-unknown", group.ClientCredentials{Token: "nosuchtoken", Username: str("bob")})
}

// ---------------------------------------------------------------- generators

func enumerate(maxLen int, f func(string)) int {
	count := 0
	var rec func(prefix string, k int)
	rec = func(prefix string, k int) {
		f(prefix)
		count++
		if k == maxLen {
			return
		}
		for _, a := range alphabet {
			rec(prefix+a, k+1)
		}
	}
	rec("", 0)
	return count
}

var words = []string{"a", "b", ".", "..", "...", "/", "//", "\\", "%2e", "%2f", "%5c", "\x00", "é", ".a", "a.", "..a",
	".status", ".users", ".tokens", ".keys", "ab", "/.", "/..", "../", "./", "-", "-slash-", " ", "\n", "\xff", "\xc3"}

func randomString(r *tr.Rand) string {
	var sb strings.Builder
	switch r.Pick(5, 3, 1) {
	case 0: // words
		k := r.Range(3, 12)
		for i := 0; i < k; i++ {
			sb.WriteString(words[r.Intn(len(words))])
		}
	case 1: // mostly valid multi-component names with one defect
		k := r.Range(1, 6)
		for i := 0; i < k; i++ {
			if i > 0 {
				sb.WriteString("/")
			}
			if r.Chance(1, 6) {
				sb.WriteString(words[r.Intn(len(words))])
			} else {
				sb.WriteString(strings.Repeat("a", r.Range(1, 4)))
				if r.Chance(1, 4) {
					sb.WriteString(alphabet[r.Intn(len(alphabet))])
				}
			}
		}
		if r.Chance(1, 8) {
			sb.WriteString("/")
		}
	default: // arbitrary bytes
		sb.Write(r.Bytes(r.Range(1, 24)))
	}
	return sb.String()
}

func runPaths(t *tr.Trace, r *tr.Rand, n int) {
	log.SetOutput(io.Discard) // the handlers log every OS error
	d := &drv{t: t, r: r}
	maxLen := 5
	if n >= 5000 {
		maxLen = 6
	}

	for _, s := range corpus {
		d.pure("corpus", s)
	}
	cnt := enumerate(maxLen, func(s string) { d.pure(fmt.Sprintf("exhaustive-le%d", maxLen), s) })
	t.Notes["exhaustive-strings"] = cnt
	for i := 0; i < n; i++ {
		d.pure("random", randomString(r))
	}

	// real files
	sb, err := newSandbox()
	if err != nil {
		t.History("paths", "fs-api")
		t.Fail("C19", "harness", "sandbox: "+err.Error())
		return
	}
	defer os.RemoveAll(sb.root)

	var short []string
	enumerate(2, func(s string) { short = append(short, s) })
	var short3 []string
	enumerate(3, func(s string) { short3 = append(short3, s) })

	// administrative API (F21): names the group layer rejects must be refused
	apiNames := append([]string{}, corpus...)
	apiNames = append(apiNames, short...)
	for i := 0; i < 40; i++ {
		apiNames = append(apiNames, randomString(r))
	}
	for _, s := range apiNames {
		d.updateDesc(sb, s)
	}
	for _, s := range append(append([]string{}, corpus[:40]...), short...) {
		d.updateUser(sb, s)
	}
	for _, s := range append(append([]string{}, corpus[:40]...), short...) {
		d.apiPut(sb, "/"+s)
	}
	sb.resetGroups()

	// group layer and recording directory
	for i, s := range append(append([]string{}, corpus...), short3...) {
		d.groupAdd(sb, s, i < len(corpus) || len(s) <= 2 || specValid(s))
	}
	for i := 0; i < 60; i++ {
		d.groupAdd(sb, randomString(r), true)
	}

	// recording file names
	os.RemoveAll(sb.rec)
	counters := map[string]int{}
	recUsers := append(append([]string{}, corpus...), short3...)
	for i, s := range recUsers {
		ext := "webm"
		if i%5 == 0 {
			ext = "mkv"
		}
		d.recFile(sb, counters, "grp", s, ext)
	}
	// same user in a burst: name collisions exercise the counter
	for i := 0; i < 30; i++ {
		d.recFile(sb, counters, "grp/sub", "a/b", "webm")
	}
	for i := 0; i < 60; i++ {
		d.recFile(sb, counters, "grp", randomString(r), "webm")
	}

	// joins: every way a username enters (password, token, JWT)
	joinNames := append(append([]string{"alice", "bob", "op", "../../escape", "/etc/passwd", "a/"}, corpus[:44]...), short3...)
	for i := 0; i < 40; i++ {
		joinNames = append(joinNames, randomString(r))
	}
	d.joins(sb, joinNames)

	// delete action of the recordings page
	for _, s := range append(append([]string{"f1", "sub", "sub/f2", "../other/x", "..\\other\\x", "../top", "grp"}, corpus...), short...) {
		d.deleteAction(sb, s)
	}

	// static files: whatever path reaches the file handler (the mux does not
	// clean the path of a CONNECT request, and handlers can be reached
	// directly), nothing outside the static directory is served
	t.History("paths", "fs-static")
	d.staticFiles(sb, append(append([]string{}, corpus...), short...))

	// deleting a group definition removes that file and nothing else: no file
	// or directory next to the groups directory, whatever the name aliases
	t.History("paths", "fs-delete-desc")
	for _, s := range append([]string{"recordings/x", "../recordings/x", "../empty/x", "a/../../recordings/x", "empty/x", "../data/config", "x/../../in/empty/x", "..", "../.."}, corpus...) {
		d.deleteDesc(sb, s)
	}

	t.History("paths", "fs-sentinel")
	d.sentinel(sb)
}

const staticSecret = "C19-SECRET-OUTSIDE-THE-STATIC-DIRECTORY"

func (d *drv) staticFiles(sb *sandbox, names []string) {
	t := d.t
	static := filepath.Join(sb.root, "in", "static")
	os.WriteFile(filepath.Join(static, "index.html"), []byte("<html>static index</html>"), 0600)
	os.MkdirAll(filepath.Join(static, "sub"), 0700)
	os.WriteFile(filepath.Join(static, "sub", "f.js"), []byte("// static file"), 0600)
	os.WriteFile(filepath.Join(sb.data, "secret-c19.txt"), []byte(staticSecret), 0600)
	defer os.Remove(filepath.Join(sb.data, "secret-c19.txt"))
	site, err := webserver.VerifSiteHandler(static)
	if err != nil {
		t.Fail("C19", "harness", err.Error())
		return
	}
	paths := []string{"/index.html", "/sub/f.js", "/../data/secret-c19.txt", "/sub/../../data/secret-c19.txt", "/../../in/data/secret-c19.txt",
		"/..\\data\\secret-c19.txt", "/%2e%2e/data/secret-c19.txt", "/sub/../../../in/data/secret-c19.txt", "//../data/secret-c19.txt",
		"/./../data/secret-c19.txt", "/../data/config.json", "/../groups/", "/../../outside/sentinel"}
	for _, n := range names {
		paths = append(paths, "/"+n, "/../data/"+n, "/sub/"+n)
	}
	served := 0
	for _, p := range paths {
		for _, method := range []string{"GET", "HEAD", "CONNECT", "POST"} {
			req := httptest.NewRequest("GET", "http://localhost/x", nil)
			req.Method = method
			req.URL.Path = p
			req.URL.RawPath = ""
			w := httptest.NewRecorder()
			func() {
				defer func() { recover() }()
				site.ServeHTTP(w, req)
			}()
			t.Checked("C19.static_confined")
			body := w.Body.String()
			if w.Code == 200 {
				served++
			}
			if strings.Contains(body, staticSecret) || strings.Contains(body, `"writableGroups"`) {
				t.Fail("C19", "static-escape", fmt.Sprintf("%s %q was answered %d with the content of a file outside the static directory", method, p, w.Code))
			}
			if w.Code == 200 && (p == "/../../outside/sentinel") {
				t.Fail("C19", "static-escape", fmt.Sprintf("%s %q was answered 200", method, p))
			}
		}
	}
	if served > 0 {
		t.Nontrivial("static/served")
	}
}

func (d *drv) deleteDesc(sb *sandbox, name string) {
	t := d.t
	sb.resetGroups()
	// nested definitions, and empty directories / a file NEXT to the groups directory
	for _, g := range []string{"recordings/x", "empty/x", "keep"} {
		if err := group.UpdateDescription(g, "", &group.Description{}); err != nil {
			t.Fail("C19", "harness", "cannot create the group "+g+": "+err.Error())
			return
		}
	}
	in := filepath.Dir(sb.groups)
	os.MkdirAll(filepath.Join(in, "recordings"), 0700)
	os.MkdirAll(filepath.Join(in, "empty"), 0700)
	os.WriteFile(filepath.Join(in, "x.json"), []byte("{}"), 0600)
	defer func() {
		os.Remove(filepath.Join(in, "recordings"))
		os.Remove(filepath.Join(in, "empty"))
		os.Remove(filepath.Join(in, "x.json"))
	}()
	// a conditional delete with the current tag of whatever the name designates
	tag, _ := group.GetDescriptionTag(name)
	before := sb.snapshot()
	err := group.DeleteDescription(name, tag)
	after := sb.snapshot()
	_, removed := d.confinedChange(fmt.Sprintf("DeleteDescription(%q)", name), "api-escape", sb.groups, before, after)
	t.Checked("C19.delete_desc_exact")
	if err == nil {
		t.Note("deletedesc-ok")
		want := filepath.Join(sb.groups, path.Clean("/"+name)+".json")
		foundWant := false
		for _, p := range removed {
			if p == want {
				foundWant = true
			}
		}
		if !foundWant {
			t.Fail("C19", "delete_desc_exact", fmt.Sprintf("DeleteDescription(%q) succeeded and removed %v, not %q", name, removed, want))
		}
	} else if len(removed) != 0 {
		t.Fail("C19", "delete_desc_exact", fmt.Sprintf("DeleteDescription(%q) failed (%v) but removed %v", name, err, removed))
	}
}

func main() { tr.Main(runPaths) }

package main

import (
	"fmt"
	"time"

	"verifharness/internal/sigdrv"
)

func show(tag string, c *sigdrv.Client) {
	fmt.Printf("  [%s] group=%q perms=%v up=%v dead=%v\n", tag, c.GroupName(), c.Permissions(), c.UpIds(), c.Dead)
	for _, m := range c.Out() {
		fmt.Printf("     <- %s/%s id=%s dest=%s perms=%v err=%s val=%.60s\n", m.Type, m.Kind, m.Id, m.Dest, m.Permissions, m.Error, m.ValueString())
	}
}

func main() {
	sigdrv.Quiet()
	w, err := sigdrv.NewWorld()
	if err != nil {
		panic(err)
	}
	w.AddGroup(sigdrv.GroupSpec{Name: "g1", Users: []sigdrv.User{
		{Name: "op", Password: "pw", Permissions: []string{"op", "present", "message", "token"}},
		{Name: "u", Password: "pw", Permissions: []string{"message"}}}})
	w.AddGroup(sigdrv.GroupSpec{Name: "g2", Users: []sigdrv.User{
		{Name: "u", Password: "pw", Permissions: []string{"message"}}}})
	a := w.NewClient("A")
	b := w.NewClient("B")
	fmt.Println("join A", a.Send(sigdrv.M{"type": "join", "kind": "join", "group": "g1", "username": "op", "password": "pw"}))
	fmt.Println("join B", b.Send(sigdrv.M{"type": "join", "kind": "join", "group": "g1", "username": "u", "password": "pw"}))
	w.Quiesce(nil)
	show("A", a)
	show("B", b)
	for _, k := range []string{"", "min", "bad", "good", "good"} {
		t0 := time.Now()
		r := a.Send(sigdrv.M{"type": "offer", "id": "s-" + k, "sdp": sigdrv.SDP(k)})
		fmt.Println("offer", k, r, time.Since(t0))
		show("A", a)
	}
	w.Quiesce(nil)
	show("B", b)
	// finding X1: present applied after leave
	fmt.Println("A present->B", a.Send(sigdrv.M{"type": "useraction", "kind": "present", "dest": "B"}))
	fmt.Println("B leave", b.Send(sigdrv.M{"type": "join", "kind": "leave", "group": "g1"}))
	fmt.Println("B pump", b.Pump())
	show("B", b)
	fmt.Println("B offer", b.Send(sigdrv.M{"type": "offer", "id": "x", "sdp": sigdrv.SDP("good")}))
	show("B", b)
	fmt.Println("B pump", b.Pump())
	show("B", b)
	// finding X2: op applied in another group
	c := w.NewClient("C")
	fmt.Println("join C", c.Send(sigdrv.M{"type": "join", "kind": "join", "group": "g1", "username": "u", "password": "pw"}))
	w.Quiesce(nil)
	c.Out()
	fmt.Println("A op->C", a.Send(sigdrv.M{"type": "useraction", "kind": "op", "dest": "C"}))
	fmt.Println("C leave", c.Send(sigdrv.M{"type": "join", "kind": "leave", "group": "g1"}))
	fmt.Println("C join g2", c.Send(sigdrv.M{"type": "join", "kind": "join", "group": "g2", "username": "u", "password": "pw"}))
	show("C", c)
	fmt.Println("C pump", c.Pump())
	show("C", c)
	fmt.Println("C pump", c.Pump())
	show("C", c)
	fmt.Println("C lock g2", c.Send(sigdrv.M{"type": "groupaction", "kind": "lock"}))
	fmt.Println("g2 locked:", w.Locked("g2"))
	fmt.Println("close:", w.Close(), "panics:", w.Panics())
}

// Driver unbounded (C13, part A, real schedules): a real
// unbounded.Channel[item] with P producer goroutines and one consumer
// goroutine that runs the loop of webClient.clientLoop / readLoop
// (`case <-ch.Ch: items := ch.Get()`).  The numbers of items, the pauses and
// the yields come from the seed; the interleaving is the Go scheduler's, so
// there is no line-by-line model correspondence here (see driver unbsched);
// the monitors are
//
//	C13.exactly_once    every (producer, index) is delivered exactly once and
//	                    the items of one producer arrive in the order of its Puts
//	C13.no_lost_wakeup  the consumer has received everything within the
//	                    timeout after the last Put returned (it is never left
//	                    sleeping on Ch with items queued)
package main

import (
	"fmt"
	"runtime"
	"sync"
	"time"

	"github.com/jech/galene/unbounded"

	"verifharness/internal/tr"
)

type item struct{ p, i int }

const drainTimeout = 1500 * time.Millisecond

type plan struct {
	count  int
	yields []byte // per item: 0 none, 1 Gosched, 2 short sleep, 3 wait until the consumer has caught up
}

// runConc returns the items in the order the consumer got them and whether
// the consumer timed out.
func runConc(plans []plan, eager bool) (got []item, batches int, timedOut bool) {
	ch := unbounded.New[item]()
	total := 0
	for _, pl := range plans {
		total += pl.count
	}
	var mu sync.Mutex // guards nGot, nPut (bookkeeping of the driver, for yield kind 3)
	nGot := 0
	nPut := 0

	var wg sync.WaitGroup
	for p, pl := range plans {
		wg.Add(1)
		go func(p int, pl plan) {
			defer wg.Done()
			for i := 0; i < pl.count; i++ {
				switch pl.yields[i] {
				case 1:
					runtime.Gosched()
				case 2:
					time.Sleep(time.Duration(20+int(pl.yields[i])*13) * time.Microsecond)
				case 3:
					// let the queue run empty before this Put: the
					// empty -> non-empty transition is the interesting one
					deadline := time.Now().Add(20 * time.Millisecond)
					mu.Lock()
					for nGot < nPut && time.Now().Before(deadline) {
						mu.Unlock()
						runtime.Gosched()
						mu.Lock()
					}
					mu.Unlock()
				}
				mu.Lock()
				nPut++
				mu.Unlock()
				ch.Put(item{p, i})
			}
		}(p, pl)
	}
	producersDone := make(chan struct{})
	go func() { wg.Wait(); close(producersDone) }()

	done := make(chan struct{})
	go func() {
		defer close(done)
		var timer <-chan time.Time
		pd := producersDone
		for len(got) < total {
			select {
			case <-ch.Ch:
				items := ch.Get()
				batches++
				got = append(got, items...)
				mu.Lock()
				nGot = len(got)
				mu.Unlock()
				if !eager {
					runtime.Gosched()
				}
			case <-pd:
				// every Put has returned: from now on the consumer must be
				// woken within the timeout
				pd = nil
				timer = time.After(drainTimeout)
			case <-timer:
				timedOut = true
				return
			}
		}
	}()
	<-done
	<-producersDone
	return
}

func checkConc(t *tr.Trace, plans []plan, got []item, timedOut bool) bool {
	ok := true
	t.Checked("C13.no_lost_wakeup")
	total := 0
	for _, pl := range plans {
		total += pl.count
	}
	if timedOut {
		ok = false
		t.Fail("C13", "no_lost_wakeup", fmt.Sprintf(
			"all Puts have returned, %d of %d items were delivered, and the consumer loop was not woken for %v: lost wake-up",
			len(got), total, drainTimeout))
	}
	t.Checked("C13.exactly_once")
	next := make([]int, len(plans))
	for k, it := range got {
		if it.p < 0 || it.p >= len(plans) {
			t.Fail("C13", "exactly_once", fmt.Sprintf("delivery %d: unknown producer %d", k, it.p))
			return false
		}
		if it.i != next[it.p] {
			t.Fail("C13", "exactly_once", fmt.Sprintf(
				"delivery %d is item %d of producer %d, expected its item %d (duplicate, loss or reordering)", k, it.i, it.p, next[it.p]))
			return false
		}
		next[it.p]++
	}
	if !timedOut {
		for p, pl := range plans {
			if next[p] != pl.count {
				t.Fail("C13", "exactly_once", fmt.Sprintf("producer %d: %d of %d items delivered", p, next[p], pl.count))
				return false
			}
		}
	}
	return ok
}

func mkPlans(r *tr.Rand, producers, maxItems int, w0, w1, w2, w3 int) []plan {
	plans := make([]plan, producers)
	for p := range plans {
		n := r.Range(0, maxItems)
		if producers == 1 && n == 0 {
			n = 1
		}
		y := make([]byte, n)
		for i := range y {
			y[i] = byte(r.Pick(w0, w1, w2, w3))
		}
		plans[p] = plan{n, y}
	}
	return plans
}

func counts(plans []plan) string {
	s := ""
	for i, pl := range plans {
		if i > 0 {
			s += ","
		}
		s += fmt.Sprint(pl.count)
	}
	return s
}

func runUnbounded(t *tr.Trace, r *tr.Rand, n int) {
	failures := 0
	one := func(stream string, plans []plan, eager bool) {
		if failures >= 3 {
			return // each lost wake-up costs a timeout; three replays are enough
		}
		t.History("unbconc", stream, len(plans))
		got, batches, timedOut := runConc(plans, eager)
		ok := checkConc(t, plans, got, timedOut)
		obs := "ok"
		if !ok {
			obs = "fail"
			failures++
		}
		t.Op(obs, "run", counts(plans), tr.B(eager))
		total := 0
		for _, pl := range plans {
			total += pl.count
		}
		if batches > 1 {
			t.Note("several-batches")
		}
		if batches == total && total > 1 {
			t.Note("one-item-per-batch")
		}
		if total > 3 && len(plans) > 1 {
			t.Nontrivial(fmt.Sprintf("%s/%s/%d", stream, counts(plans), batches))
		}
	}
	// regression histories: one single Put (the wake-up of an empty queue),
	// and Puts separated by complete drains
	one("corpus-single-put", []plan{{1, []byte{0}}}, true)
	one("corpus-drain-between-puts", []plan{{6, []byte{3, 3, 3, 3, 3, 3}}}, true)
	one("corpus-two-producers-drain", []plan{{4, []byte{3, 3, 3, 3}}, {4, []byte{3, 0, 3, 0}}}, true)
	for i := 0; i < n; i++ {
		switch i % 5 {
		case 0: // tight race, many producers
			one("race", mkPlans(r, r.Range(2, 8), 200, 6, 3, 0, 0), r.Bool())
		case 1: // empty -> non-empty transitions
			one("empty-transitions", mkPlans(r, r.Range(1, 4), 30, 1, 1, 1, 4), true)
		case 2: // few items
			one("small", mkPlans(r, r.Range(1, 3), 3, 1, 1, 1, 1), r.Bool())
		case 3: // slow producers, fast consumer
			one("slow-producers", mkPlans(r, r.Range(1, 6), 40, 1, 2, 4, 1), true)
		case 4: // bursts against a yielding consumer
			one("bursts", mkPlans(r, r.Range(2, 6), 400, 10, 1, 0, 0), false)
		}
	}
}

func main() { tr.Main(runUnbounded) }

// layerrace: demonstrates known finding F14 on the real code.  layerInfo is
// one atomic word, but rtpDownTrack.Write updates it by load-modify-store;
// a concurrent update (here: the limitSid request of replaceTracks, through
// the hook) can be overwritten by Write's stale copy.  Monitors only.
package main

import (
	"fmt"
	"sync"
	"sync/atomic"
	"time"

	"github.com/jech/galene/rtpconn"

	"verifharness/internal/tr"
)

func vp8(seq uint16, pid uint16, tid byte, kf bool) []byte {
	p := []byte{0x80, 0xE0, byte(seq >> 8), byte(seq), 0, 0, 0, 1, 0, 0, 0x12, 0x34,
		0x90, 0xA0, 0x80 | byte(pid>>8)&0x7F, byte(pid), tid << 6, 0x01, 0, 0}
	if kf {
		p[17] = 0
	}
	return p
}

func runLayerRace(t *tr.Trace, r *tr.Rand, n int) {
	for hi := 0; hi < n; hi++ {
		t.History("layerrace", "limit-vs-write")
		v, err := rtpconn.NewVerifTrack("video/VP8", 16)
		if err != nil {
			panic(err)
		}
		// make Write store on every packet: wantedTid differs from tid at each frame start
		v.SetRates(400000, 524288, 1)
		var stop atomic.Bool
		var wg sync.WaitGroup
		wg.Add(1)
		go func() {
			defer wg.Done()
			seq := uint16(r.Intn(65536))
			pid := uint16(0)
			for !stop.Load() {
				v.Write(vp8(seq, pid, byte(pid%3), pid%7 == 0))
				seq++
				pid = (pid + 1) & 0x7FFF
				if pid%5 == 0 {
					// alternate congestion and spare capacity so that the
					// wanted layer keeps moving and Write keeps storing
					if pid%10 == 0 {
						v.SetRates(400000, 524288, 1)
					} else {
						v.SetRates(0, 524288, 0)
					}
					v.AdjustLayer()
				}
			}
		}()
		lost := 0
		rounds := 0
		deadline := time.Now().Add(200 * time.Millisecond)
		for time.Now().Before(deadline) {
			v.SetLimitSid(false)
			v.SetLimitSid(true)
			// no one else clears the request: it must still be there
			for k := 0; k < 50; k++ {
				if v.Layer()>>12&1 == 0 {
					lost++
					break
				}
			}
			rounds++
		}
		stop.Store(true)
		wg.Wait()
		t.Op(fmt.Sprint(lost > 0), "race", rounds)
		t.Checked("C04.split_schedule")
		t.Note(fmt.Sprintf("lost-updates-observed=%v", lost > 0))
		if lost > 0 {
			t.Fail("C04", "split_schedule", fmt.Sprintf("split-schedule lost update: limitSid was set and nobody cleared it, yet the layer word lost it %d times in %d rounds (Write stored a stale copy)", lost, rounds))
		}
		t.Nontrivial(fmt.Sprintf("layerrace/%d/%d", hi, rounds))
	}
}

func main() { tr.Main(runLayerRace) }

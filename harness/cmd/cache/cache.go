package main

import (
	"bytes"
	"fmt"

	"github.com/jech/galene/packetcache"

	"verifharness/internal/tr"
)

// stored is one packet handed to Cache.Store.
type stored struct {
	seq    uint16
	ts     uint32
	marker bool
	data   []byte
	idx    uint16
}

// cacheHist drives one real packetcache.Cache and the C05/C06 monitors.
type cacheHist struct {
	t     *tr.Trace
	r     *tr.Rand
	c     *packetcache.Cache
	cap   int
	log   []stored // every store, in order
	k     int      // number of most recent stores that must be retrievable
	buf   []byte
	valid []bool // index validity of log entries (for GetAt monitor): cleared by resize
	// C06 monitor state
	sinceRebase map[uint16]bool // numbers stored since the bitmap window was last re-based
	nacked      map[uint16]int
	newest      uint16
	haveNewest  bool
	lastESeqno  uint32
	haveESeqno  bool
	bigBackJump bool
	recvInt     uint32
	expInt      uint32
}

func newCacheHist(t *tr.Trace, r *tr.Rand, stream string, capacity int) *cacheHist {
	t.History("cache", stream, capacity)
	return &cacheHist{t: t, r: r, c: packetcache.New(capacity), cap: capacity,
		buf: make([]byte, packetcache.BufSize), sinceRebase: map[uint16]bool{},
		nacked: map[uint16]int{}}
}

func (h *cacheHist) store(seq uint16, ts uint32, kf, marker bool, data []byte) {
	first, idx := h.c.Store(seq, ts, kf, marker, data)
	h.t.Op(fmt.Sprintf("%d %d", first, idx), "store", seq, ts, kf, marker, data)
	h.log = append(h.log, stored{seq, ts, marker, append([]byte{}, data...), idx})
	if h.k < h.cap {
		h.k++
	}
	// C06 bookkeeping
	if h.haveNewest {
		d := h.newest - seq
		if int16(seq-h.newest) > 0 {
			h.newest = seq
		} else if d > 0x100 {
			// restart: the stream jumped backwards by more than 256
			h.newest = seq
			h.bigBackJump = true
		}
	} else {
		h.newest = seq
		h.haveNewest = true
	}
}

// findStored returns the packets stored under seq (most recent last).
func (h *cacheHist) findStored(seq uint16) []stored {
	var out []stored
	for _, s := range h.log {
		if s.seq == seq {
			out = append(out, s)
		}
	}
	return out
}

func (h *cacheHist) checkSound(what string, seq uint16, n uint16, got []byte) {
	h.t.Checked("C05.get_sound")
	if n == 0 {
		return
	}
	for _, s := range h.findStored(seq) {
		if int(n) == len(s.data) && bytes.Equal(got, s.data) {
			return
		}
	}
	h.t.Fail("C05", "get_sound", fmt.Sprintf("%s(%d) returned %d bytes %s which is no packet stored under that number",
		what, seq, n, tr.Hex(got)))
}

func (h *cacheHist) get(seq uint16) {
	for i := range h.buf {
		h.buf[i] = 0xEE
	}
	n := h.c.Get(seq, h.buf)
	got := append([]byte{}, h.buf[:n]...)
	h.t.Op(fmt.Sprintf("%d %s", n, tr.Hex(got)), "get", seq)
	h.checkSound("Get", seq, n, got)
	// nothing beyond n may have been written
	for i := int(n); i < len(h.buf); i++ {
		if h.buf[i] != 0xEE {
			h.t.Fail("C05", "get_sound", fmt.Sprintf("Get(%d) wrote beyond the returned length at %d", seq, i))
			break
		}
	}
	// recent_retrievable: among the last k stores, a number that occurs once
	// must be returned exactly
	h.t.Checked("C05.recent_retrievable")
	lo := len(h.log) - h.k
	cnt := 0
	var the stored
	for i := lo; i < len(h.log); i++ {
		if h.log[i].seq == seq {
			cnt++
			the = h.log[i]
		}
	}
	if cnt >= 1 && n == 0 {
		h.t.Fail("C05", "recent_retrievable", fmt.Sprintf("Get(%d) returned nothing although it is among the last %d stored packets", seq, h.k))
	}
	if cnt == 1 && len(h.findStored(seq)) == 1 && n != 0 && !bytes.Equal(got, the.data) {
		h.t.Fail("C05", "recent_retrievable", fmt.Sprintf("Get(%d) differs from the stored packet", seq))
	}
}

func (h *cacheHist) getAt(seq, idx uint16) {
	n := h.c.GetAt(seq, idx, h.buf)
	got := append([]byte{}, h.buf[:n]...)
	h.t.Op(fmt.Sprintf("%d %s", n, tr.Hex(got)), "getat", seq, idx)
	h.checkSound("GetAt", seq, n, got)
}

func (h *cacheHist) resize(capacity int, cond bool) {
	if cond {
		ok := h.c.ResizeCond(capacity)
		h.t.Op(tr.B(ok), "resizecond", capacity)
		if !ok {
			return
		}
	} else {
		h.c.Resize(capacity)
		h.t.Op("-", "resize", capacity)
	}
	h.cap = capacity
	if h.k > capacity {
		h.k = capacity
	}
}

// dump compares the bookkeeping state with the L0 model.
func (h *cacheHist) dump() {
	if h.cap > 3000 {
		return
	}
	h.t.Op(h.c.VerifDump(), "dump")
}

// sweep looks up every one of the last k stored numbers (and a few older
// ones): after a resize or a wrap each of them must still be retrievable.
func (h *cacheHist) sweep() {
	if h.k > 400 {
		return
	}
	lo := len(h.log) - h.k - 2
	if lo < 0 {
		lo = 0
	}
	for i := lo; i < len(h.log); i++ {
		h.get(h.log[i].seq)
	}
	h.t.Note("sweep")
}

func (h *cacheHist) misc(which int) {
	switch which {
	case 0:
		s, ok := h.c.Last()
		h.t.Op(fmt.Sprintf("%d %s", s, tr.B(ok)), "last")
	case 1:
		s, ok := h.c.Keyframe()
		h.t.Op(fmt.Sprintf("%d %s", s, tr.B(ok)), "keyframe")
	}
}

func (h *cacheHist) expect(n int) {
	h.c.Expect(n)
	h.t.Op("-", "expect", n)
}

func (h *cacheHist) stats(reset bool) {
	s := h.c.GetStats(reset)
	h.t.Op(fmt.Sprintf("%d %d %d %d %d", s.Received, s.TotalReceived, s.Expected, s.TotalExpected, s.ESeqno),
		"getstats", reset)
	h.t.Checked("C06.received_le_expected")
	if s.Received > s.Expected {
		h.t.Fail("C06", "received_le_expected", fmt.Sprintf("interval: received %d > expected %d", s.Received, s.Expected))
	}
	if s.TotalReceived > s.TotalExpected {
		h.t.Fail("C06", "received_le_expected", fmt.Sprintf("total: received %d > expected %d", s.TotalReceived, s.TotalExpected))
	}
	h.t.Checked("C06.eseqno_monotone")
	if h.haveESeqno && !h.bigBackJump && s.ESeqno < h.lastESeqno {
		h.t.Fail("C06", "eseqno_monotone", fmt.Sprintf("extended seqno went from %d to %d without a backward jump > 256", h.lastESeqno, s.ESeqno))
	}
	h.lastESeqno = s.ESeqno
	h.haveESeqno = true
	h.bigBackJump = false
}

func (h *cacheHist) bitmapGet(next uint16) {
	found, first, bitmap := h.c.BitmapGet(next)
	h.t.Op(fmt.Sprintf("%s %d %d", tr.B(found), first, bitmap), "bitmapget", next)
	if !found {
		return
	}
	// the numbers denoted by (first, bitmap)
	nums := []uint16{first}
	for i := 0; i < 16; i++ {
		if bitmap&(1<<uint(i)) != 0 {
			nums = append(nums, first+uint16(i)+1)
		}
	}
	for _, s := range nums {
		h.t.Checked("C06.nack_before_next")
		if int16(s-next) >= 0 {
			h.t.Fail("C06", "nack_before_next", fmt.Sprintf("BitmapGet(%d) denotes %d, at or beyond next", next, s))
		}
		h.t.Checked("C06.nack_once")
		h.nacked[s]++
	}
}

// genCacheStream produces the arrival order of one stream: mostly in order
// with loss, duplicates, reordering and occasional restarts.
// cacheWrapGrow: the ring has wrapped, the numbers cross 65535 -> 0, then the
// cache is grown or shrunk; every recent packet must stay retrievable.
func cacheWrapGrow(t *tr.Trace, r *tr.Rand) {
	for _, capacity := range []int{1, 2, 3, 16, 31} {
		for _, before := range []int{1, 4, 12, 40} {
			for _, grow := range []int{capacity + 1, capacity * 2, capacity + 16, (capacity + 1) / 2} {
				h := newCacheHist(t, r, "corpus-wrap-resize", capacity)
				seq := uint16(65536 - before)
				for i := 0; i < before+capacity/2+3; i++ {
					h.store(seq, uint32(1000+i), i%7 == 0, i%3 == 0, r.Bytes(r.Range(1, 9)))
					seq++
				}
				h.sweep()
				h.resize(grow, r.Bool())
				h.sweep()
				h.dump()
				for i := 0; i < 8; i++ {
					h.store(seq, uint32(5000+i), false, false, r.Bytes(r.Range(1, 9)))
					seq++
				}
				h.sweep()
				h.dump()
			}
		}
	}
}

func runCache(t *tr.Trace, r *tr.Rand, n int) {
	cacheWrapGrow(t, r)
	for hi := 0; hi < n; hi++ {
		var capacity int
		stream := ""
		switch r.Pick(6, 2, 1, 1) {
		case 0:
			capacity = r.Range(1, 48)
			stream = "smallcap"
		case 1:
			capacity = r.Range(49, 300)
			stream = "midcap"
		case 2:
			capacity = 1
			stream = "cap1"
		default:
			capacity = r.Range(800, 1100)
			stream = "bigcap"
		}
		if hi%97 == 96 {
			capacity = 65535
			stream = "maxcap"
		}
		h := newCacheHist(t, r, stream, capacity)
		var seq uint16
		switch r.Pick(2, 2, 1, 3) {
		case 0:
			seq = 0
		case 1:
			seq = uint16(65536 - r.Range(1, 200))
			t.Note("start-near-wrap")
		case 2:
			seq = uint16(32768 - r.Range(0, 100))
		default:
			seq = uint16(r.U64())
		}
		ts := uint32(r.U64())
		nops := r.Range(20, 400)
		if stream == "maxcap" {
			nops = 60
		}
		pending := []uint16{} // reordered packets to deliver later
		for i := 0; i < nops; i++ {
			switch r.Pick(50, 14, 8, 3, 3, 2, 6, 2, 4) {
			case 0: // store next packet(s) of the stream
				var s uint16
				switch r.Pick(70, 8, 6, 6, 2, 1) {
				case 0:
					s = seq
					seq++
				case 1: // loss
					seq += uint16(r.Range(1, 5))
					s = seq
					seq++
					t.Note("loss")
				case 2: // duplicate of a recent one
					if len(h.log) > 0 {
						s = h.log[len(h.log)-1-r.Intn(min(len(h.log), 20))].seq
						t.Note("duplicate")
					} else {
						s = seq
						seq++
					}
				case 3: // hold back for reordering
					pending = append(pending, seq)
					seq++
					s = seq
					seq++
					t.Note("reorder")
				case 4: // restart / big jump
					if r.Bool() {
						seq -= uint16(r.Range(257, 40000))
					} else {
						seq += uint16(r.Range(100, 40000))
					}
					s = seq
					seq++
					t.Note("jump")
				default: // old packet up to 300 behind
					s = seq - uint16(r.Range(1, 300))
					t.Note("old")
				}
				size := 0
				switch r.Pick(10, 3, 1, 1) {
				case 0:
					size = r.Range(1, 24)
				case 1:
					size = r.Range(25, 200)
				case 2:
					size = 1504
				default:
					size = r.Range(1200, 1504)
				}
				if stream == "maxcap" {
					size = r.Range(1, 12)
				}
				data := r.Bytes(size)
				ts += uint32(r.Intn(3)) * 3000
				h.store(s, ts, r.Chance(1, 20), r.Chance(1, 6), data)
				if len(pending) > 0 && r.Chance(1, 2) {
					p := pending[0]
					pending = pending[1:]
					h.store(p, ts, false, false, r.Bytes(r.Range(1, 16)))
				}
			case 1: // get a recent or random number
				if len(h.log) > 0 && r.Chance(5, 6) {
					back := r.Intn(min(len(h.log), h.cap+5))
					h.get(h.log[len(h.log)-1-back].seq)
				} else {
					h.get(uint16(r.U64()))
				}
			case 2:
				if len(h.log) > 0 && r.Chance(5, 6) {
					s := h.log[len(h.log)-1-r.Intn(min(len(h.log), h.cap+5))]
					idx := s.idx
					if r.Chance(1, 8) {
						idx = uint16(r.Intn(h.cap + 3))
					}
					h.getAt(s.seq, idx)
				} else {
					h.getAt(uint16(r.U64()), uint16(r.Intn(h.cap+3)))
				}
			case 3:
				nc := h.cap
				switch r.Pick(3, 3, 1, 1) {
				case 0:
					nc = h.cap + r.Range(1, 40)
				case 1:
					nc = max(1, h.cap-r.Range(1, 40))
				case 2:
					nc = max(1, h.cap/2)
				default:
					nc = h.cap * 2
				}
				if nc > 65535 {
					nc = 65535
				}
				if stream == "maxcap" && nc > 3000 {
					nc = r.Range(1, 3000)
				}
				h.resize(nc, false)
				t.Note("resize")
				h.sweep()
				h.dump()
			case 4:
				nc := max(1, h.cap+r.Range(-h.cap, h.cap+10))
				if nc > 65535 {
					nc = 65535
				}
				h.resize(nc, true)
				h.sweep()
			case 5:
				h.misc(r.Intn(2))
			case 6: // as readLoop does: BitmapGet(seqno - unnacked)
				if r.Chance(4, 5) {
					h.bitmapGet(seq - 1 - uint16(r.Range(2, 4)))
				} else {
					h.bitmapGet(uint16(r.U64()))
				}
			case 7:
				h.expect(r.Range(-3, 40))
			case 8:
				h.stats(r.Chance(1, 2))
			}
		}
		h.sweep()
		h.dump()
		if len(h.log) > 3 {
			t.Nontrivial(fmt.Sprintf("cache/%d/%d/%d", h.cap, len(h.log), h.log[len(h.log)-1].seq))
		}
	}
}

func main() { tr.Main(runCache) }

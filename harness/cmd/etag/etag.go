// Driver `etag` (property C18): the real scanETag / etagMatch /
// checkPreconditions of webserver/precondition.go against Model/Etag.v, and
// monitors that evaluate the header semantics of the property with an
// independent oracle (regular expressions over the RFC 7232 grammar).
//
// Streams:
//
//	corpus      the tables of precondition_test.go and regression cases
//	exhaustive  every string up to length L over the alphabet  " a W / * , SP
//	            (L = 4, 6 or 7 depending on the budget -n)
//	lists       seeded well-formed lists (strong/weak tags, duplicates, "*",
//	            arbitrary separators) with the membership known by construction
//	malformed   seeded mutations of well-formed lists (dropped/inserted bytes,
//	            unterminated quotes, control bytes, bytes >= 0x80)
package main

import (
	"fmt"
	"net/http"
	"regexp"
	"strings"

	"github.com/jech/galene/webserver"

	"verifharness/internal/tr"
)

type respWriter struct {
	status int
	calls  int
	h      http.Header
}

func (w *respWriter) Header() http.Header         { return w.h }
func (w *respWriter) Write(b []byte) (int, error) { return len(b), nil }
func (w *respWriter) WriteHeader(s int)           { w.calls++; w.status = s }

// ---------------------------------------------------------------- oracle

// latin1 maps every byte to the rune of the same value so that the regular
// expressions below are byte-exact.
func latin1(s string) string {
	var sb strings.Builder
	for i := 0; i < len(s); i++ {
		sb.WriteRune(rune(s[i]))
	}
	return sb.String()
}

var (
	reSeps = regexp.MustCompile(`^[ \t\n\r,]*`)
	reTag  = regexp.MustCompile(`^(?:W/)?"[\x{21}\x{23}-\x{7E}\x{80}-\x{FF}]*"`)
)

// specMatch is the specification of Proofs/EtagSpec.v (`matches`) evaluated
// directly: non-empty header, and identity, or the tag offered, or "*"
// offered while the object exists.
func specMatch(etag, header string) bool {
	if header == "" {
		return false
	}
	if header == etag {
		return true
	}
	h := latin1(header)
	e := latin1(etag)
	for {
		h = h[len(reSeps.FindString(h)):]
		if strings.HasPrefix(h, "*") {
			return etag != ""
		}
		t := reTag.FindString(h)
		if t == "" {
			return false
		}
		if t == e {
			return true
		}
		h = h[len(t):]
	}
}

func specCP(method, etag, im, inm string) (bool, int) {
	if im != "" && !specMatch(etag, im) {
		return true, 412
	}
	if inm != "" && specMatch(etag, inm) {
		if method == "GET" || method == "HEAD" {
			return true, 304
		}
		return true, 412
	}
	return false, 0
}

// ---------------------------------------------------------------- ops

type drv struct {
	t *tr.Trace
}

// guarded runs one call into the header parser under recover(): the header
// value is chosen by the client (C12: a panic here is a request without a
// response; net/http recovers it and closes the connection).
func (d *drv) guarded(what string, f func()) (panicked bool) {
	d.t.Checked("C12.etag_no_panic")
	defer func() {
		if r := recover(); r != nil {
			panicked = true
			d.t.Fail("C12", "etag_no_panic", fmt.Sprintf("%s panicked: %v", what, r))
			d.t.Fail("C18", "header_semantics", fmt.Sprintf("%s panicked: %v", what, r))
		}
	}()
	f()
	return false
}

func (d *drv) scan(s string) {
	var e, r string
	if d.guarded(fmt.Sprintf("scanETag(%q)", s), func() { e, r = webserver.VerifEtagScan(s) }) {
		d.t.Op("PANIC", "scan", []byte(s))
		return
	}
	d.t.Op(tr.Hex([]byte(e))+" "+tr.Hex([]byte(r)), "scan", []byte(s))
	d.t.Checked("C18.scan_wellformed")
	if e != "" {
		// whatever is returned as a tag is a well-formed entity-tag and the
		// input is (whitespace) tag remain
		le := latin1(e)
		if reTag.FindString(le) != le {
			d.t.Fail("C18", "scan_wellformed", fmt.Sprintf("scanETag(%q) returned the malformed tag %q", s, e))
		}
		if !strings.HasSuffix(s, e+r) || strings.Trim(s[:len(s)-len(e+r)], " \t\n\r") != "" {
			d.t.Fail("C18", "scan_wellformed", fmt.Sprintf("scanETag(%q) = %q,%q is not a split of the input", s, e, r))
		}
	} else if r != "" {
		d.t.Fail("C18", "scan_wellformed", fmt.Sprintf("scanETag(%q) returned no tag but a remainder %q", s, r))
	}
}

func (d *drv) match(etag, header string) bool {
	var m bool
	if d.guarded(fmt.Sprintf("etagMatch(%q, %q)", etag, header), func() { m = webserver.VerifEtagMatch(etag, header) }) {
		d.t.Op("PANIC", "match", []byte(etag), []byte(header))
		return false
	}
	d.t.Op(tr.B(m), "match", []byte(etag), []byte(header))
	d.t.Checked("C18.header_semantics")
	if want := specMatch(etag, header); m != want {
		d.t.Fail("C18", "header_semantics", fmt.Sprintf("etagMatch(%q, %q) = %v, the header grammar says %v", etag, header, m, want))
	}
	return m
}

func (d *drv) cp(method, etag, im, inm string) {
	w := &respWriter{h: http.Header{}}
	w.h.Set("Content-Type", "application/json")
	h := make(http.Header)
	if im != "" {
		h["If-Match"] = []string{im}
	}
	if inm != "" {
		h["If-None-Match"] = []string{inm}
	}
	r := http.Request{Method: method, Header: h}
	var done bool
	if d.guarded(fmt.Sprintf("checkPreconditions(%s, %q, If-Match %q, If-None-Match %q)", method, etag, im, inm), func() { done = webserver.VerifEtagCheckPreconditions(w, &r, etag) }) {
		d.t.Op("PANIC", "cp", method, []byte(etag), []byte(im), []byte(inm))
		return
	}
	d.t.Op(fmt.Sprintf("%s %d", tr.B(done), w.status), "cp", method, []byte(etag), []byte(im), []byte(inm))
	if w.calls > 1 || (done != (w.calls == 1)) {
		d.t.Fail("C18", "if_match", fmt.Sprintf("checkPreconditions(%s,%q,%q,%q): done=%v but WriteHeader called %d times", method, etag, im, inm, done, w.calls))
	}
	wd, ws := specCP(method, etag, im, inm)
	if im != "" {
		d.t.Checked("C18.if_match")
		// a request carrying If-Match passes only if the header matches the
		// current tag, and is refused with 412 otherwise
		if !specMatch(etag, im) && !(done && w.status == 412) {
			d.t.Fail("C18", "if_match", fmt.Sprintf("%s etag=%q If-Match=%q does not match but got done=%v status=%d", method, etag, im, done, w.status))
		}
	}
	if inm != "" && (im == "" || specMatch(etag, im)) {
		d.t.Checked("C18.if_none_match")
		if specMatch(etag, inm) != done {
			d.t.Fail("C18", "if_none_match", fmt.Sprintf("%s etag=%q If-None-Match=%q: match=%v but done=%v", method, etag, inm, specMatch(etag, inm), done))
		}
	}
	d.t.Checked("C18.304_iff_current")
	want304 := (method == "GET" || method == "HEAD") && (im == "" || specMatch(etag, im)) && inm != "" && specMatch(etag, inm)
	if (w.status == 304) != want304 {
		d.t.Fail("C18", "304_iff_current", fmt.Sprintf("%s etag=%q If-Match=%q If-None-Match=%q: status %d, 304 expected: %v", method, etag, im, inm, w.status, want304))
	}
	if done != wd || w.status != ws {
		d.t.Fail("C18", "if_match", fmt.Sprintf("%s etag=%q If-Match=%q If-None-Match=%q: got (%v,%d), RFC 7232 section 6 order gives (%v,%d)", method, etag, im, inm, done, w.status, wd, ws))
	}
	if done && w.status == 304 {
		// writeNotModified drops the representation metadata
		if w.h.Get("Content-Type") != "" {
			d.t.Fail("C18", "304_iff_current", "304 response kept Content-Type")
		}
	}
}

var methods = []string{"GET", "HEAD", "PUT", "DELETE", "POST"}

// ---------------------------------------------------------------- streams

func (d *drv) corpus() {
	d.t.History("etag", "corpus")
	type p struct{ etag, header string }
	for _, c := range []p{
		{`"foo"`, `"foo"`}, {`"foo"`, ` "foo"`}, {`"foo"`, `"foo" `}, {`"foo"`, ` "foo" `},
		{`"foo"`, `"foo", "bar"`}, {`"foo"`, `"bar", "foo"`}, {`W/"foo"`, `W/"foo"`},
		{``, ``}, {``, `*`}, {``, `"foo"`}, {`"foo"`, ``}, {`"foo"`, `"bar"`},
		{`"foo"`, `"bar", "baz"`}, {`"foo"`, `W/"foo"`}, {`W/"foo"`, `"foo"`},
		// regression shapes for the mutation tests
		{`"foo"`, `"foo`}, {`"foo"`, `"bar", "foo`}, {`"foo"`, `"bar" "foo"`},
		{`"foo"`, `"bar"x, "foo"`}, {`"foo"`, `*, "bar"`}, {`"foo"`, `"bar", *`},
		{``, `"bar", *`}, {`"foo"`, `,,, "foo"`}, {`"foo"`, "\t\"foo\"\r\n"},
		{`"foo"`, `W/"foo", "foo"`}, {`"foo"`, `"fo o"`}, {`"fo o"`, `"fo o"`},
		{`foo`, `foo`}, {`*`, `*`}, {`"a"`, `W/`}, {`"a"`, `W`}, {`"a"`, `"`},
		{`""`, `""`}, {`""`, `"`}, {`"a"`, `"a""a"`}, {`"b"`, `"a""b"`},
		{"\"\x80\xff\"", "\"\x80\xff\""}, {`"a"`, "\"\x7f\", \"a\""}, {`"a"`, "\"\x00\", \"a\""},
	} {
		d.scan(c.header)
		d.match(c.etag, c.header)
		for _, m := range methods {
			d.cp(m, c.etag, c.header, "")
			d.cp(m, c.etag, "", c.header)
		}
	}
	for _, c := range []struct{ method, etag, im, inm string }{
		{"GET", ``, ``, ``}, {"GET", ``, `*`, ``}, {"GET", ``, ``, `*`}, {"POST", ``, `*`, ``},
		{"POST", ``, ``, `*`}, {"GET", `"123"`, ``, ``}, {"GET", `"123"`, `"123"`, ``},
		{"GET", `"123"`, `"124"`, ``}, {"POST", `"123"`, `"124"`, ``}, {"GET", `"123"`, `*`, ``},
		{"GET", `"123"`, ``, `"123"`}, {"POST", `"123"`, ``, `"123"`}, {"GET", `"123"`, ``, `"124"`},
		{"GET", `"123"`, ``, `*`}, {"GET", `"123"`, `"123"`, `"123"`}, {"PUT", `"123"`, `"123"`, `"123"`},
		{"GET", `"123"`, `"124"`, `"123"`}, {"get", `"123"`, ``, `"123"`}, {"OPTIONS", `"123"`, ``, `"123"`},
	} {
		d.cp(c.method, c.etag, c.im, c.inm)
	}
	d.t.Nontrivial("corpus")
}

const alphabet = "\"aW/*, "

var currentTags = []string{`"a"`, `W/"a"`, ``, `""`, `"aa"`}

func (d *drv) exhaustive(maxLen int) {
	idx := 0
	var buf []byte
	var rec func(int)
	inHist := 0
	one := func(s string) {
		if inHist == 0 {
			d.t.History("etag", "exhaustive", maxLen)
		}
		inHist++
		if inHist == 1500 {
			inHist = 0
		}
		d.scan(s)
		nm := 0
		for _, e := range currentTags {
			if d.match(e, s) {
				nm++
			}
		}
		if nm > 0 {
			d.t.Note("exhaustive-header-matching-some-tag")
		}
		m := methods[idx%5]
		e := currentTags[(idx/5)%5]
		d.cp(m, e, s, "")
		d.cp(m, e, "", s)
		d.cp(methods[(idx/25)%5], e, s, `"a"`)
		d.cp(methods[(idx/25)%5], e, `"a", W/"a"`, s)
		idx++
	}
	rec = func(n int) {
		one(string(buf))
		if n == 0 {
			return
		}
		for i := 0; i < len(alphabet); i++ {
			buf = append(buf, alphabet[i])
			rec(n - 1)
			buf = buf[:len(buf)-1]
		}
	}
	rec(maxLen)
	d.t.Nontrivial(fmt.Sprintf("exhaustive/%d/%d", maxLen, idx))
}

var tagBodies = []string{"a", "b", "foo", "", "123-1695400000000000000", "57-1695400000123456789",
	"0-0", "x", "!#~", "\x80\xfe", "aW/*", "a,b"}

func randTag(r *tr.Rand) string {
	b := tagBodies[r.Intn(len(tagBodies))]
	if r.Chance(1, 6) {
		b = fmt.Sprintf("%d-%d", r.Intn(5000), 1695400000000000000+int64(r.Intn(1000000)))
	}
	t := `"` + b + `"`
	if r.Chance(1, 4) {
		t = "W/" + t
	}
	return t
}

func randSeps(r *tr.Rand, atLeastComma bool) string {
	var sb strings.Builder
	n := r.Pick(3, 4, 2, 1)
	for i := 0; i < n; i++ {
		sb.WriteByte(" \t\n\r,, "[r.Intn(7)])
	}
	s := sb.String()
	if atLeastComma && !strings.Contains(s, ",") {
		s = "," + s
	}
	return s
}

func (d *drv) lists(r *tr.Rand, hi int) {
	d.t.History("etag", "lists")
	for k := 0; k < 12; k++ {
		n := r.Range(1, 5)
		tags := make([]string, n)
		var sb strings.Builder
		for i := range tags {
			tags[i] = randTag(r)
			if i > 0 && r.Chance(1, 5) {
				tags[i] = tags[r.Intn(i)] // duplicate
				d.t.Note("duplicate-tag")
			}
			sb.WriteString(randSeps(r, i > 0 && r.Chance(9, 10)))
			sb.WriteString(tags[i])
		}
		sb.WriteString(randSeps(r, false))
		header := sb.String()
		// the current tag: a member, a non-member, the weak/strong twin of a
		// member, or absent
		var etag string
		switch r.Pick(4, 2, 2, 1) {
		case 0:
			etag = tags[r.Intn(n)]
		case 1:
			etag = randTag(r)
		case 2:
			etag = tags[r.Intn(n)]
			if strings.HasPrefix(etag, "W/") {
				etag = etag[2:]
			} else {
				etag = "W/" + etag
			}
			d.t.Note("weak-strong-twin")
		default:
			etag = ""
		}
		member := false
		for _, t := range tags {
			if t == etag {
				member = true
			}
		}
		if strings.HasPrefix(etag, "W/") || strings.Contains(header, "W/") {
			d.t.Note("weak-tag")
		}
		d.scan(header)
		got := d.match(etag, header)
		d.t.Checked("C18.list_membership")
		if got != member {
			d.t.Fail("C18", "list_membership", fmt.Sprintf("etagMatch(%q, %q) = %v but membership in the list is %v", etag, header, got, member))
		}
		// "*" alone and inside separators
		star := randSeps(r, false) + "*" + randSeps(r, false)
		gs := d.match(etag, star)
		d.t.Checked("C18.star_iff_exists")
		if gs != (etag != "") {
			d.t.Fail("C18", "star_iff_exists", fmt.Sprintf("etagMatch(%q, %q) = %v", etag, star, gs))
		}
		m := methods[r.Intn(5)]
		d.cp(m, etag, header, "")
		d.cp(m, etag, "", header)
		d.cp(m, etag, "", star)
		d.cp(m, etag, star, "")
		d.cp(m, etag, header, star)
		d.cp(m, etag, randTag(r), header)
		if member {
			d.t.Nontrivial(fmt.Sprintf("list/%d/%d", hi, k))
		}
	}
}

func (d *drv) malformed(r *tr.Rand, hi int) {
	d.t.History("etag", "malformed")
	for k := 0; k < 12; k++ {
		n := r.Range(1, 4)
		tags := make([]string, n)
		var sb strings.Builder
		for i := range tags {
			tags[i] = randTag(r)
			sb.WriteString(randSeps(r, i > 0))
			sb.WriteString(tags[i])
		}
		b := []byte(sb.String())
		for j := r.Range(1, 3); j > 0 && len(b) > 0; j-- {
			p := r.Intn(len(b))
			switch r.Pick(3, 3, 2, 2, 1) {
			case 0: // drop a byte (often a quote)
				b = append(b[:p], b[p+1:]...)
			case 1: // insert a byte
				c := []byte{'"', 'W', '/', '*', ',', ' ', 0, 0x7f, 0x80, 0xff, '\\', 'a'}[r.Intn(12)]
				b = append(b[:p], append([]byte{c}, b[p:]...)...)
			case 2: // truncate
				b = b[:p]
			case 3: // overwrite
				b[p] = byte(r.U64())
			default: // swap
				q := r.Intn(len(b))
				b[p], b[q] = b[q], b[p]
			}
		}
		header := string(b)
		etag := tags[r.Intn(n)]
		if r.Chance(1, 6) {
			etag = ""
		}
		d.scan(header)
		d.match(etag, header)
		m := methods[r.Intn(5)]
		d.cp(m, etag, header, "")
		d.cp(m, etag, "", header)
		d.cp(m, etag, tags[0], header)
		d.t.Nontrivial(fmt.Sprintf("malformed/%d/%d", hi, k))
	}
}

func runEtag(t *tr.Trace, r *tr.Rand, n int) {
	d := &drv{t: t}
	d.corpus()
	maxLen := 6
	if n < 50 {
		maxLen = 4
	} else if n >= 1000 {
		maxLen = 7
	}
	d.exhaustive(maxLen)
	for hi := 0; hi < n; hi++ {
		if hi%3 == 2 {
			d.malformed(r, hi)
		} else {
			d.lists(r, hi)
		}
	}
}

func main() { tr.Main(runEtag) }

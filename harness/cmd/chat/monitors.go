package main

// monitors.go: direct executable statements of C15 (message level) evaluated
// on the implementation's behaviour only.  The driver tags every chat /
// usermessage it sends with a unique value, so that for every message any
// client is ever sent it knows who sent it, what that sender's id, username
// and permissions were at that moment, and who should have received it.
// The expected recipients, the expected history and the expected effect of
// clearchat are computed here from the property text, not from the model.

import (
	"encoding/json"
	"fmt"
	"sort"
	"strings"
	"time"

	"github.com/jech/galene/group"

	"verifharness/internal/sigdrv"
)

const propMaxHistory = 50 // "a history that never exceeds 50 entries"

// what the driver knows about one tagged message
type tagInfo struct {
	sender   *cl
	senderID string
	username string // the sender's true username when it sent the message
	op       bool   // the sender held op at that moment
	typ      string
	deliver  bool // the property says the message is forwarded
	why      string
	// the server's clock around the moment the message was handed to it
	t0, t1 time.Time
	extras string
}

// one entry of the history the property prescribes
type entry struct {
	id, source string
	user       *string
	kind       string
	value      string
}

type monitors struct {
	h    *hist
	tags map[string]*tagInfo
	hist map[string][]entry // group -> prescribed history
	// ids the server generated for broadcast chats sent without id
	fresh map[string]bool
	// what GetChatHistory returned earlier (the list a joiner would be
	// replaying, outside the group lock) and what it contained then
	snaps map[string][]snapshot
}

type snapshot struct {
	raw  []group.ChatHistoryEntry
	copy []entry
	when string
}

const keepSnapshots = 6

func newMonitors(h *hist) *monitors {
	return &monitors{h: h, tags: map[string]*tagInfo{}, hist: map[string][]entry{}, fresh: map[string]bool{}, snaps: map[string][]snapshot{}}
}

var serverKinds = map[string]bool{"error": true, "kicked": true, "warning": true, "userinfo": true,
	"token": true, "tokenlist": true, "clearchat": true}

// tagOf: the tag the driver put into a message value: the value itself, the
// field "tag" of a map, or the first element of a list.
func tagOf(v interface{}) string {
	switch x := v.(type) {
	case string:
		return x
	case map[string]interface{}:
		s, _ := x["tag"].(string)
		return s
	case []interface{}:
		if len(x) > 0 {
			s, _ := x[0].(string)
			return s
		}
	}
	return ""
}

// the fields the server puts into a relayed chat / usermessage / chathistory
var relayedFields = map[string]bool{"type": true, "kind": true, "id": true, "source": true, "dest": true,
	"username": true, "privileged": true, "time": true, "value": true, "noecho": true}

func isChatLike(t string) bool { return t == "chat" || t == "usermessage" || t == "chathistory" }

func us(p *string) string {
	if p == nil {
		return "<absent>"
	}
	return fmt.Sprintf("%q", *p)
}

// onReceive: C15.authentic and C15.privileged on EVERY chat-like message any
// client is sent, whenever it is sent.
func (mo *monitors) onReceive(c *cl, m sigdrv.Msg) {
	if !isChatLike(m.Type) {
		return
	}
	t := mo.h.t
	t.Checked("C15.authentic")
	v := tagOf(m.Value)
	ti := mo.tags[v]
	if v == "" || ti == nil {
		// not one of ours: it must be one of the server's own messages
		ok := m.Source == "" &&
			((m.Type == "usermessage" && m.Privileged && serverKinds[m.Kind]) ||
				(m.Type == "chat" && m.User() == "Server" && !m.Privileged))
		if !ok {
			t.Fail("C15", "authentic", fmt.Sprintf("client %d was sent a %s/%s message (source %q, username %s, privileged %v, value %s) that no client sent and that is not one of the server's own messages",
				c.h, m.Type, m.Kind, m.Source, us(m.Username), m.Privileged, m.ValueString()))
		}
		return
	}
	if !(m.Source == "" || m.Source == ti.senderID) {
		t.Fail("C15", "authentic", fmt.Sprintf("client %d was sent %s %q with source %q; it was sent by client %d whose id is %q",
			c.h, m.Type, v, m.Source, ti.sender.h, ti.senderID))
	}
	if !(m.Username == nil || *m.Username == ti.username) {
		t.Fail("C15", "authentic", fmt.Sprintf("client %d was sent %s %q with username %s; it was sent by client %d whose username is %q",
			c.h, m.Type, v, us(m.Username), ti.sender.h, ti.username))
	}
	if !ti.deliver {
		t.Checked("C15.spoof_closes")
		t.Fail("C15", "spoof_closes", fmt.Sprintf("client %d was sent %s %q although the message had to be refused (%s)", c.h, m.Type, v, ti.why))
	}
	mo.serverFields(c, m, ti, v)
	if m.Type == "chathistory" {
		if ti.op && !m.Privileged {
			t.Note("known:replayed-operator-message-not-privileged")
		}
		if m.Privileged && !ti.op {
			t.Checked("C15.privileged")
			t.Fail("C15", "privileged", fmt.Sprintf("replayed message %q is marked privileged but its sender (client %d) was not an operator", v, ti.sender.h))
		}
		return
	}
	t.Checked("C15.privileged")
	if m.Privileged != ti.op {
		t.Fail("C15", "privileged", fmt.Sprintf("client %d was sent %s %q with privileged=%v; its sender (client %d) held op: %v",
			c.h, m.Type, v, m.Privileged, ti.sender.h, ti.op))
	}
}

// serverFields: C15.server_fields.  Every field of a relayed or replayed
// message other than the ones copied from the sender's message (kind,
// source, dest, username, value, noecho, and the id when the sender gave one)
// is the server's: nothing else the sender put into its message gets
// through (permissions, status, data, group, error, ...), and the time is
// the server's clock at the moment it handled the message, not the sender's.
func (mo *monitors) serverFields(c *cl, m sigdrv.Msg, ti *tagInfo, v string) {
	t := mo.h.t
	t.Checked("C15.server_fields")
	var raw map[string]interface{}
	if err := json.Unmarshal(m.Raw, &raw); err != nil {
		t.Fail("C15", "server_fields", fmt.Sprintf("client %d was sent an undecodable %s %q", c.h, m.Type, v))
		return
	}
	for k := range raw {
		if !relayedFields[k] {
			t.Fail("C15", "server_fields", fmt.Sprintf("client %d was sent %s %q carrying the field %q = %v, which only its sender (client %d, extra fields %s) can have put there",
				c.h, m.Type, v, k, raw[k], ti.sender.h, ti.extras))
		}
	}
	ts, _ := raw["time"].(string)
	tm, err := time.Parse(time.RFC3339, ts)
	if err != nil {
		t.Fail("C15", "server_fields", fmt.Sprintf("client %d was sent %s %q with time %q", c.h, m.Type, v, ts))
		return
	}
	// RFC3339 has one-second resolution
	if tm.Before(ti.t0.Add(-2*time.Second)) || tm.After(ti.t1.Add(2*time.Second)) {
		t.Fail("C15", "server_fields", fmt.Sprintf("client %d was sent %s %q with time %s; the server handled it between %s and %s (sender's extra fields: %s)",
			c.h, m.Type, v, ts, ti.t0.Format(time.RFC3339), ti.t1.Format(time.RFC3339), ti.extras))
	}
}

// onPump: C15.history_replay.  A `joined` message of kind join is followed
// by exactly the prescribed history of that group, in order, as chathistory
// messages carrying the stored fields.
func (mo *monitors) onPump(c *cl) {
	t := mo.h.t
	ms := c.msgs
	for i := 0; i < len(ms); i++ {
		if !(ms[i].Type == "joined" && ms[i].Kind == "join") {
			continue
		}
		g := ms[i].Group
		var got []sigdrv.Msg
		j := i + 1
		for j < len(ms) && ms[j].Type == "chathistory" {
			got = append(got, ms[j])
			j++
		}
		want := mo.hist[g]
		t.Checked("C15.history_replay")
		t.Note(fmt.Sprintf("replay-len:%d", bucket(len(want))))
		if len(got) > propMaxHistory {
			t.Fail("C15", "history_replay", fmt.Sprintf("client %d joining %s was replayed %d messages (more than %d)", c.h, g, len(got), propMaxHistory))
		}
		if len(got) != len(want) {
			t.Fail("C15", "history_replay", fmt.Sprintf("client %d joining %s was replayed %d messages %v; the broadcast chats of the group are %d: %v",
				c.h, g, len(got), msgIDs(got), len(want), entryIDs(want)))
			continue
		}
		for k := range want {
			e, m := want[k], got[k]
			if m.Id != e.id || m.Source != e.source || m.Kind != e.kind || tagOf(m.Value) != e.value ||
				(m.Username == nil) != (e.user == nil) || (m.Username != nil && *m.Username != *e.user) || m.Dest != "" {
				t.Fail("C15", "history_replay", fmt.Sprintf("client %d joining %s: replayed message %d is id=%q source=%q username=%s kind=%q value=%q, expected id=%q source=%q username=%s kind=%q value=%q",
					c.h, g, k, m.Id, m.Source, us(m.Username), m.Kind, tagOf(m.Value), e.id, e.source, us(e.user), e.kind, e.value))
				break
			}
		}
		// chathistory messages arrive nowhere else
		i = j - 1
	}
	for i, m := range ms {
		if m.Type == "chathistory" && (i == 0 || (ms[i-1].Type != "chathistory" && !(ms[i-1].Type == "joined" && ms[i-1].Kind == "join"))) {
			t.Checked("C15.history_replay")
			t.Fail("C15", "history_replay", fmt.Sprintf("client %d was sent a chathistory message (%q) that does not follow its joined message", c.h, m.ValueString()))
		}
	}
}

func bucket(n int) int {
	switch {
	case n == 0:
		return 0
	case n < 10:
		return 1
	case n < 49:
		return 10
	case n < 50:
		return 49
	default:
		return 50
	}
}

func msgIDs(ms []sigdrv.Msg) []string {
	var out []string
	for _, m := range ms {
		out = append(out, m.Id+"/"+tagOf(m.Value))
	}
	return out
}

func entryIDs(es []entry) []string {
	var out []string
	for _, e := range es {
		out = append(out, e.id+"/"+e.value)
	}
	return out
}

// snapshot of who is where, taken before a message is handed to the server
type snap struct {
	group map[*cl]string // "" = in no group
	dead  map[*cl]bool
}

func (mo *monitors) snapshot() snap {
	s := snap{group: map[*cl]string{}, dead: map[*cl]bool{}}
	for _, c := range mo.h.cs {
		s.dead[c] = c.c.Dead
		if !c.c.Dead {
			s.group[c] = c.c.GroupName()
		}
	}
	return s
}

func (s snap) membersOf(g string) []*cl {
	var out []*cl
	for c, cg := range s.group {
		if g != "" && cg == g {
			out = append(out, c)
		}
	}
	sort.Slice(out, func(i, j int) bool { return out[i].h < out[j].h })
	return out
}

func toEntries(raw []group.ChatHistoryEntry) []entry {
	var out []entry
	for _, e := range raw {
		out = append(out, entry{id: e.Id, source: e.Source, user: e.User, kind: e.Kind, value: tagOf(e.Value)})
	}
	return out
}

// the history galene holds, as entries
func implHistory(g string) []entry {
	gr := group.Get(g)
	if gr == nil {
		return nil
	}
	return toEntries(gr.GetChatHistory())
}

// snapshotHistory: GetChatHistory is what the replay on join iterates AFTER
// the group lock is released, while other members chat, operators clear and
// entries expire.  C15.replay_snapshot: a list it returned keeps its content
// whatever happens to the history afterwards (checked over the next
// keepSnapshots operations), so that a replay in progress is the in-order
// history at the time of the join.
func (mo *monitors) snapshotHistory(g string, what string) []entry {
	gr := group.Get(g)
	if gr == nil {
		return nil
	}
	t := mo.h.t
	for _, s := range mo.snaps[g] {
		t.Checked("C15.replay_snapshot")
		if !sameEntries(toEntries(s.raw), s.copy) {
			t.Fail("C15", "replay_snapshot", fmt.Sprintf("the history of %s returned to a joiner after %s was %v; after %s the same list reads %v: a replay in progress is no longer the in-order history",
				g, s.when, entryIDs(s.copy), what, entryIDs(toEntries(s.raw))))
			mo.snaps[g] = nil
			break
		}
	}
	raw := gr.GetChatHistory()
	cp := toEntries(raw)
	l := append(mo.snaps[g], snapshot{raw: raw, copy: cp, when: what})
	if len(l) > keepSnapshots {
		l = l[len(l)-keepSnapshots:]
	}
	mo.snaps[g] = l
	return cp
}

func sameEntries(a, b []entry) bool {
	if len(a) != len(b) {
		return false
	}
	for i := range a {
		x, y := a[i], b[i]
		if x.id != y.id || x.source != y.source || x.kind != y.kind || x.value != y.value ||
			(x.user == nil) != (y.user == nil) || (x.user != nil && *x.user != *y.user) {
			return false
		}
	}
	return true
}

// checkHistories: C15.history_only_broadcast.  After every operation the
// history of every group is the prescribed one (at most 50 entries).
func (mo *monitors) checkHistories(what string) {
	t := mo.h.t
	for _, g := range mo.h.groups {
		t.Checked("C15.history_only_broadcast")
		got := mo.snapshotHistory(g, what)
		if len(got) > propMaxHistory {
			t.Fail("C15", "history_only_broadcast", fmt.Sprintf("after %s the history of %s has %d entries", what, g, len(got)))
		}
		if !sameEntries(got, mo.hist[g]) {
			t.Fail("C15", "history_only_broadcast", fmt.Sprintf("after %s the history of %s is %v; the broadcast chats of its members (minus what operators cleared) are %v",
				what, g, entryIDs(got), entryIDs(mo.hist[g])))
			// resynchronise so that one defect is reported once per history
			mo.hist[g] = got
		}
	}
}

// requiredPermission: the property's table ("chat needs message, captions
// caption").
func requiredPermission(m *smsg) string {
	if m.Type == "chat" && m.Kind == "caption" {
		return "caption"
	}
	return "message"
}

func countTagged(ms []sigdrv.Msg, typ, v string) (n int, first sigdrv.Msg) {
	for _, m := range ms {
		if m.Type == typ && tagOf(m.Value) == v {
			if n == 0 {
				first = m
			}
			n++
		}
	}
	return
}

func hasError(ms []sigdrv.Msg, text string) bool {
	for _, m := range ms {
		if m.Type == "usermessage" && m.Kind == "error" && m.ValueString() == text {
			return true
		}
	}
	return false
}

func hasClose(ms []sigdrv.Msg, code string) bool {
	for _, m := range ms {
		if m.Type == "__close__" && m.Id == code {
			return true
		}
	}
	return false
}

// sendChat sends a tagged chat / usermessage and evaluates C15.addressing,
// C15.spoof_closes, C15.needs_message and the history monitor on it.
func (h *hist) sendChat(c *cl, m *smsg) {
	mo, t := h.mon, h.t
	h.takeAll()
	mark := h.marks()
	before := mo.snapshot()
	perms := c.c.Permissions()
	username := c.c.Username()
	grp := c.c.GroupName()
	v := m.Value.S
	spoofSource := m.Source != "" && m.Source != c.id
	spoofUser := m.User != nil && *m.User != username
	ti := &tagInfo{sender: c, senderID: c.id, username: username, op: has(perms, "op"), typ: m.Type,
		t0: time.Now(), extras: fmt.Sprint(m.Extra)}
	switch {
	case spoofSource || spoofUser:
		ti.why = "it claims another client's id or username"
	case grp == "":
		ti.why = "the sender is in no group"
	case !has(perms, requiredPermission(m)):
		ti.why = "the sender lacks " + requiredPermission(m)
	default:
		ti.deliver = true
	}
	mo.tags[v] = ti
	ti.t1 = ti.t0.Add(time.Minute) // until the call has returned
	sr := h.msg(c, m)
	ti.t1 = time.Now()
	if sr.auth == "dead" || sr.auth == "panic" {
		return
	}
	h.takeAll()
	what := fmt.Sprintf("%s/%s %q by client %d (source %q username %s dest %q noecho %v)", m.Type, m.Kind, v, c.h, m.Source, us(m.User), m.Dest, m.NoEcho)

	// who must have received it
	expect := map[*cl]bool{}
	userUnknown := false
	if ti.deliver {
		if m.Dest == "" {
			for _, x := range before.membersOf(grp) {
				if !(m.NoEcho && x == c) {
					expect[x] = true
				}
			}
		} else {
			userUnknown = true
			for _, x := range before.membersOf(grp) {
				if x.id == m.Dest {
					expect[x] = true
					userUnknown = false
				}
			}
		}
	}
	t.Checked("C15.addressing")
	for _, x := range h.cs {
		if h.deadW[x] {
			continue // its outbox can no longer be observed
		}
		n, first := countTagged(x.log[mark[x]:], m.Type, v)
		want := 0
		if expect[x] {
			want = 1
		}
		if n != want {
			where := "in no group"
			if g := before.group[x]; g != "" {
				where = "member of " + g
			}
			if before.dead[x] {
				where = "closed"
			}
			t.Fail("C15", "addressing", fmt.Sprintf("%s (sender in %q): client %d (id %q, %s) received it %d times, expected %d", what, grp, x.h, x.id, where, n, want))
			continue
		}
		if n == 1 {
			// copied verbatim
			wantID := m.ID
			idOK := first.Id == wantID
			if m.Type == "chat" && m.Dest == "" && m.ID == "" {
				idOK = first.Id != "" && !h.knownIDs[first.Id]
			}
			if first.Source != m.Source || first.Dest != m.Dest || first.Kind != m.Kind || !idOK ||
				(first.Username == nil) != (m.User == nil) || (m.User != nil && *first.Username != *m.User) {
				t.Fail("C15", "addressing", fmt.Sprintf("%s: client %d received it as id=%q source=%q dest=%q kind=%q username=%s",
					what, x.h, first.Id, first.Source, first.Dest, first.Kind, us(first.Username)))
			}
		}
	}
	t.Note("chat:" + classify(c, m, ti, userUnknown))
	if len(h.deadW) > 0 {
		t.Note("chat-with-dead-writer-member")
	}

	switch {
	case h.deadW[c]:
		// the sender cannot be told anything any more
	case spoofSource || spoofUser:
		t.Checked("C15.spoof_closes")
		if sr.res.Class != "protocol" || !c.c.Dead || !hasClose(c.log[mark[c]:], "protocol") {
			t.Fail("C15", "spoof_closes", fmt.Sprintf("%s: the message claims another client's id or username but the connection was not closed with a protocol error (result %s, closed %v)",
				what, sr.res.Class, c.c.Dead))
		}
	case !ti.deliver:
		t.Checked("C15.needs_message")
		text := "not authorised"
		if grp == "" {
			text = "join a group first"
		}
		if !hasError(c.log[mark[c]:], text) || c.c.Dead {
			t.Fail("C15", "needs_message", fmt.Sprintf("%s: expected the refusal %q (sender in %q with %v)", what, text, grp, perms))
		}
	case userUnknown:
		t.Checked("C15.addressing")
		if !hasError(c.log[mark[c]:], "user unknown") {
			t.Fail("C15", "addressing", fmt.Sprintf("%s: no member of %s has that id, but the sender was not told \"user unknown\"", what, grp))
		}
	}

	// the prescribed history
	if ti.deliver && m.Type == "chat" && m.Dest == "" {
		id := m.ID
		if id == "" {
			// the server's choice: read it back, it must be fresh
			ih := implHistory(grp)
			if len(ih) > 0 {
				id = ih[len(ih)-1].id
			}
			t.Checked("C15.history_only_broadcast")
			if id == "" || h.knownIDs[id] || mo.fresh[id] {
				t.Fail("C15", "history_only_broadcast", fmt.Sprintf("%s: stored under the id %q, which is not a fresh one", what, id))
			}
			mo.fresh[id] = true
		}
		l := append(mo.hist[grp], entry{id: id, source: m.Source, user: m.User, kind: m.Kind, value: v})
		if len(l) > propMaxHistory {
			l = l[len(l)-propMaxHistory:]
			t.Note("history-eviction")
		}
		mo.hist[grp] = l
	}
	mo.checkHistories(what)
}

func classify(c *cl, m *smsg, ti *tagInfo, unknown bool) string {
	k := m.Type
	if m.Type == "chat" && m.Kind == "caption" {
		k = "caption"
	}
	switch {
	case !ti.deliver:
		return k + ":refused:" + strings.Fields(ti.why)[0] + strings.Fields(ti.why)[1]
	case m.Dest == "" && m.NoEcho:
		return k + ":broadcast-noecho"
	case m.Dest == "":
		return k + ":broadcast"
	case unknown:
		return k + ":dest-unknown"
	case m.Dest == c.id:
		return k + ":dest-self"
	}
	return k + ":dest-member"
}

// sendClearchat sends a clearchat group action and evaluates C15.clearchat.
// mode: all | user | one | bad-id-only | bad-string
func (h *hist) sendClearchat(c *cl, m *smsg, id, userID string, malformed bool) {
	mo, t := h.mon, h.t
	h.takeAll()
	mark := h.marks()
	before := mo.snapshot()
	perms := c.c.Permissions()
	grp := c.c.GroupName()
	username := c.c.Username()
	spoof := (m.Source != "" && m.Source != c.id) || (m.User != nil && *m.User != username)
	sr := h.msg(c, m)
	if sr.auth == "dead" || sr.auth == "panic" {
		return
	}
	h.takeAll()
	what := fmt.Sprintf("clearchat id=%q userId=%q malformed=%v by client %d (in %q, %v)", id, userID, malformed, c.h, grp, perms)
	t.Checked("C15.clearchat")
	accepted := false
	switch {
	case spoof:
		if sr.res.Class != "protocol" || !c.c.Dead {
			t.Fail("C15", "spoof_closes", what+": claims another client's id or username but the connection was not closed")
		}
	case grp == "":
		if !hasError(c.log[mark[c]:], "join a group first") {
			t.Fail("C15", "clearchat", what+": not refused although the sender is in no group")
		}
	case !has(perms, "op"):
		if !hasError(c.log[mark[c]:], "not authorised") {
			t.Fail("C15", "clearchat", what+": not refused although the sender is not an operator")
		}
	case malformed || (userID == "" && id != ""):
		if !hasError(c.log[mark[c]:], "bad value in clearchat") {
			t.Fail("C15", "clearchat", what+": a value that is not {id, userId} with a userId was not refused")
		}
	default:
		accepted = true
	}
	if accepted {
		// one message, one user's messages, or everything
		var l []entry
		for _, e := range mo.hist[grp] {
			del := false
			switch {
			case id == "" && userID == "":
				del = true
			case id == "":
				del = e.source == userID
			default:
				del = e.source == userID && e.id == id
			}
			if !del {
				l = append(l, e)
			}
		}
		if len(l) != len(mo.hist[grp]) {
			t.Note("clearchat-removed")
		}
		mo.hist[grp] = l
	}
	// every member of the group is told, nobody else
	for _, x := range h.cs {
		if h.deadW[x] {
			continue
		}
		n := 0
		for _, mm := range x.log[mark[x]:] {
			if mm.Type == "usermessage" && mm.Kind == "clearchat" {
				if _, tagged := mo.tags[tagOf(mm.Value)]; !tagged || tagOf(mm.Value) == "" {
					n++
					if !mm.Privileged || mm.Source != "" {
						t.Fail("C15", "clearchat", fmt.Sprintf("%s: client %d received the notification with privileged=%v source=%q", what, x.h, mm.Privileged, mm.Source))
					}
				}
			}
		}
		want := 0
		if accepted && before.group[x] == grp && !before.dead[x] {
			want = 1
		}
		if n != want {
			t.Fail("C15", "clearchat", fmt.Sprintf("%s: client %d (in %q) received %d clearchat notifications, expected %d", what, x.h, before.group[x], n, want))
		}
	}
	t.Note(fmt.Sprintf("clearchat:accepted=%v", accepted))
	mo.checkHistories(what)
}

// marks: the length of every client's log, to find what an operation added.
func (h *hist) marks() map[*cl]int {
	out := map[*cl]int{}
	for _, c := range h.cs {
		out[c] = len(c.log)
	}
	return out
}

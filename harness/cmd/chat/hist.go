package main

// hist.go: one history of the `sig` component = one sigdrv.World driven
// operation by operation, every operation written to the trace in the
// protocol that model/comp_sig.ml replays through Model/Signal.v.
// Copied from harness/cmd/sig/hist.go (the trace protocol and the projection
// must stay the ones comp_sig.ml prints); the C11 monitors are replaced by the
// hooks onTake / onPump of the C15 monitors (monitors.go).

import (
	"fmt"
	"sort"
	"strings"
	"time"

	"github.com/jech/galene/group"

	"verifharness/internal/sigdrv"
	"verifharness/internal/tr"
)

// val is a message value: Kind n(one) s(tring) m(ap) t(oken spec) o(ther).
type val struct {
	Kind string
	S    string
	M    [][2]string // value "~" = null
	T    tokSpec
	O    interface{} // for Kind o: the JSON value actually sent
}

type tokSpec struct {
	Token    string // canonical name or ""
	User     *string
	Group    string
	Perms    []string // nil = absent
	HasPerms bool
	Expires  *int64 // relative ms
	NB       *int64
}

type reqv struct {
	Kind string      // n, m, l, b
	M    [][2]string // label -> a+b
	L    []string
}

// smsg is a structured client-to-server message.
type smsg struct {
	Type, Kind                string
	ID, Replace, Source, Dest string
	User                      *string
	Pw, Token, Group          string
	Value                     val
	NoEcho                    bool
	SDP                       string // bad, min, good ("" = field absent)
	Label                     string
	Req                       reqv
	Cand                      bool
	// Extra: further top-level JSON fields the client puts into the message
	// (privileged, time, permissions, status, error, ...).  They are NOT
	// written to the trace: the model is "the server does not let them
	// through", so any influence on what anybody is sent is a divergence.
	Extra map[string]interface{}
}

func sp(s string) *string { return &s }
func ip(i int64) *int64   { return &i }

type cl struct {
	c     *sigdrv.Client
	h     int
	id    string
	buf   []string     // projected, not yet written by a drain op
	msgs  []sigdrv.Msg // decoded messages of the last take()
	log   []sigdrv.Msg // every decoded message so far
	perms string       // its permission set after its own last step (monitor sender_rights_stable)
	seen  bool
}

type hist struct {
	t         *tr.Trace
	r         *tr.Rand
	w         *sigdrv.World
	cs        []*cl
	live      []*cl // clients whose connection has not ended
	groups    []string
	tokGroups []string // if set: the groups whose tokens the monitors watch
	tokReal   map[string]string
	tokCanon  map[string]string
	knownIDs  map[string]bool
	texts     map[string]bool // user supplied texts (lock messages, ...)
	stream    string
	mon       *monitors
	// silent: operations are run and monitored but no longer written to the
	// trace (fault phase at the end of a history: the state "writer dead,
	// still a member" does not exist in Model/Signal.v)
	silent bool
	deadW  map[*cl]bool // clients whose writer was killed
}

func (h *hist) op(obs string, op string, args ...interface{}) {
	if h.silent {
		return
	}
	h.t.Op(obs, op, args...)
}

var galeneTexts = map[string]bool{
	"not authorised": true, "join a group first": true, "permission denied": true,
	"user unknown": true, "no suck user": true, "client not found": true, "no such user": true,
	"already recording": true, "bad value in clearchat": true, "Bad value in setdata": true,
	"this user doesn't chat": true, "this is not a real user": true,
	"adding duplicate connection": true, "you are not joined": true, "unknown kind": true,
	"cannot join multiple groups": true, "spoofed client id": true, "spoofed username": true,
	"empty id": true, "null candidate": true, "unexpected message": true,
	"unknown group action": true, "unknown user action": true, "unknown permission": true,
	"client specified token": true, "wrong group in token": true,
	"hierarchical token not allowed": true, "token doesn't expire": true,
	"that username is taken": true, "this field cannot be edited": true,
	"username required": true, "not authorised: this username is taken": true,
	"group does not exist": true, "internal server error": true, "this group is locked": true,
	"too many users": true, "you have been kicked out": true,
}

func newHist(t *tr.Trace, r *tr.Rand, stream string) *hist {
	w, err := sigdrv.NewWorld()
	if err != nil {
		panic(err)
	}
	t.History("sig", stream)
	h := &hist{t: t, r: r, w: w, tokReal: map[string]string{}, tokCanon: map[string]string{},
		knownIDs: map[string]bool{}, texts: map[string]bool{}, stream: stream, deadW: map[*cl]bool{}}
	h.mon = newMonitors(h)
	return h
}

func (h *hist) close() {
	if err := h.w.Close(); err != nil {
		h.t.Fail("C15", "cleanup", err.Error())
	}
}

func plus(l []string) string {
	if len(l) == 0 {
		return "-"
	}
	return strings.Join(l, "+")
}

func dash(s string) string {
	if s == "" {
		return "-"
	}
	return s
}

func optS(p *string) string {
	if p == nil {
		return "~"
	}
	return dash(*p)
}

// ---- operations

func (h *hist) mkgroup(s sigdrv.GroupSpec) {
	if err := h.w.AddGroup(s); err != nil {
		panic(err)
	}
	h.groups = append(h.groups, s.Name)
	h.texts[s.Redirect] = true
	args := []interface{}{s.Name, dash(s.Redirect), s.AllowRecording, s.MaxClients}
	user := func(name string, u sigdrv.User) string {
		return fmt.Sprintf("%s:%s:%s:%s", name, dash(u.Password), tr.B(u.Wildcard), plus(u.Permissions))
	}
	for _, u := range s.Users {
		args = append(args, user(u.Name, u))
	}
	if s.WildcardUser != nil {
		args = append(args, user("*", *s.WildcardUser))
	}
	h.op("-", "mkgroup", args...)
}

func (h *hist) client(id string) *cl {
	c := &cl{c: h.w.NewClient(id), h: len(h.cs), id: id}
	h.cs = append(h.cs, c)
	h.live = append(h.live, c)
	if id != "" {
		h.knownIDs[id] = true
	}
	h.op("-", "client", c.h, dash(id))
	return c
}

func (m *smsg) traceArgs() []interface{} {
	var a []interface{}
	add := func(k, v string) { a = append(a, k+"="+v) }
	if m.ID != "" {
		add("id", m.ID)
	}
	if m.Replace != "" {
		add("replace", m.Replace)
	}
	if m.Source != "" {
		add("source", m.Source)
	}
	if m.Dest != "" {
		add("dest", m.Dest)
	}
	if m.User != nil {
		add("user", *m.User)
	}
	if m.Pw != "" {
		add("pw", m.Pw)
	}
	if m.Token != "" {
		add("token", m.Token)
	}
	if m.Group != "" {
		add("group", m.Group)
	}
	switch m.Value.Kind {
	case "s":
		add("value", "s:"+dash(m.Value.S))
	case "m":
		var es []string
		for _, kv := range m.Value.M {
			v := kv[1]
			if v != "~" {
				v = dash(v)
			}
			es = append(es, kv[0]+"="+v)
		}
		add("value", "m:"+strings.Join(es, ";"))
	case "t":
		ts := m.Value.T
		ps := "~"
		if ts.HasPerms {
			ps = plus(ts.Perms)
		}
		zo := func(p *int64) string {
			if p == nil {
				return "~"
			}
			return fmt.Sprint(*p)
		}
		add("value", "t:"+strings.Join([]string{dash(ts.Token), optS(ts.User), dash(ts.Group), ps, zo(ts.Expires), zo(ts.NB)}, "|"))
	case "o":
		add("value", "o")
	}
	if m.NoEcho {
		add("noecho", "1")
	}
	if m.SDP != "" {
		add("sdp", m.SDP)
	}
	if m.Label != "" {
		add("label", m.Label)
	}
	switch m.Req.Kind {
	case "m":
		var es []string
		for _, kv := range m.Req.M {
			es = append(es, dash(kv[0])+"="+kv[1])
		}
		add("req", "m:"+strings.Join(es, ";"))
	case "l":
		add("req", "l:"+plus(m.Req.L))
	case "b":
		add("req", "b")
	}
	if m.Cand {
		add("cand", "1")
	}
	return a
}

func (h *hist) json(m *smsg) sigdrv.M {
	j := sigdrv.M{"type": m.Type}
	set := func(k, v string) {
		if v != "" {
			j[k] = v
		}
	}
	set("kind", m.Kind)
	set("id", m.ID)
	set("replace", m.Replace)
	set("source", m.Source)
	set("dest", m.Dest)
	if m.User != nil {
		j["username"] = *m.User
	}
	set("password", m.Pw)
	if m.Token != "" {
		if real, ok := h.tokReal[m.Token]; ok {
			j["token"] = real
		} else {
			j["token"] = m.Token
		}
	}
	set("group", m.Group)
	switch m.Value.Kind {
	case "s":
		j["value"] = m.Value.S
	case "m":
		mm := map[string]interface{}{}
		for _, kv := range m.Value.M {
			if kv[1] == "~" {
				mm[kv[0]] = nil
			} else {
				mm[kv[0]] = kv[1]
			}
		}
		j["value"] = mm
	case "t":
		ts := m.Value.T
		mm := map[string]interface{}{}
		if ts.Token != "" {
			if real, ok := h.tokReal[ts.Token]; ok {
				mm["token"] = real
			} else {
				mm["token"] = ts.Token
			}
		}
		if ts.User != nil {
			mm["username"] = *ts.User
		}
		if ts.Group != "" {
			mm["group"] = ts.Group
		}
		if ts.HasPerms {
			ps := ts.Perms
			if ps == nil {
				ps = []string{}
			}
			mm["permissions"] = ps
		}
		if ts.Expires != nil {
			mm["expires"] = *ts.Expires
		}
		if ts.NB != nil {
			mm["not-before"] = *ts.NB
		}
		j["value"] = mm
	case "o":
		j["value"] = m.Value.O
	}
	if m.NoEcho {
		j["noecho"] = true
	}
	if m.SDP != "" {
		j["sdp"] = sigdrv.SDP(m.SDP)
	}
	set("label", m.Label)
	switch m.Req.Kind {
	case "m":
		mm := map[string]interface{}{}
		for _, kv := range m.Req.M {
			l := []interface{}{}
			if kv[1] != "-" {
				for _, s := range strings.Split(kv[1], "+") {
					l = append(l, s)
				}
			}
			mm[kv[0]] = l
		}
		j["request"] = mm
	case "l":
		l := []interface{}{}
		for _, s := range m.Req.L {
			l = append(l, s)
		}
		j["request"] = l
	case "b":
		j["request"] = 17
	}
	if m.Cand {
		j["candidate"] = map[string]interface{}{"candidate": ""}
	}
	for k, v := range m.Extra {
		if _, ok := j[k]; !ok {
			j[k] = v
		}
	}
	return j
}

func (h *hist) text(s string) string {
	if galeneTexts[s] || h.texts[s] || s == "" {
		return s
	}
	return "?"
}

func (h *hist) canonTok(v interface{}) string {
	m, ok := v.(map[string]interface{})
	if !ok {
		return "?"
	}
	real, _ := m["token"].(string)
	if c, ok := h.tokCanon[real]; ok {
		return c
	}
	c := fmt.Sprintf("T%03d", len(h.tokCanon))
	h.tokCanon[real] = c
	h.tokReal[c] = real
	return c
}

// project maps a server-to-client message to the compared token, or "".
func (h *hist) project(m sigdrv.Msg) string {
	if m.Type == "close" || m.Type == "ice" {
		return ""
	}
	id, source, dest, user, perms, grp, errs, value := m.Id, m.Source, m.Dest, "~", plus(m.Permissions), m.Group, m.Error, ""
	if m.Username != nil {
		user = sigdrv.Sanitise(*m.Username)
	}
	locked := m.Locked
	switch m.Type {
	case "joined":
		value = h.text(m.ValueString())
	case "user":
		perms = "-"
		if !h.knownIDs[id] {
			id = "?"
		}
	case "chat", "usermessage", "chathistory":
		value = m.ValueString()
		switch {
		case m.Type == "usermessage" && (m.Kind == "error" || m.Kind == "kicked"):
			value = h.text(value)
		case m.Type == "usermessage" && m.Kind == "warning":
			value = "?"
		case m.Type == "usermessage" && m.Kind == "clearchat" && m.Privileged && m.Source == "":
			// the server's broadcast carries the map it was given (or
			// nothing); a member's own usermessage of that kind carries a
			// string
			if _, isStr := m.Value.(string); m.Value != nil && !isStr {
				value = "?"
			}
		case m.Type == "usermessage" && m.Kind == "token" && m.Privileged && m.Source == "":
			if m.Error == "" {
				value = h.canonTok(m.Value)
			} else {
				value = h.text(value)
			}
		case m.Type == "usermessage" && m.Kind == "tokenlist" && m.Privileged && m.Source == "":
			if m.Error == "" {
				var names []string
				if l, ok := m.Value.([]interface{}); ok {
					for _, e := range l {
						names = append(names, h.canonTok(e))
					}
				}
				sort.Strings(names)
				perms = plus(names)
				value = ""
			} else {
				value = h.text(value)
			}
		case m.Type == "usermessage" && m.Kind == "userinfo" && m.Privileged && m.Source == "":
			if vm, ok := m.Value.(map[string]interface{}); ok {
				id, _ = vm["id"].(string)
				if u, ok := vm["username"].(string); ok {
					user = sigdrv.Sanitise(u)
				}
			}
			value = ""
		case m.Type == "chat" && m.Source == "" && m.User() == "Server":
			if value != "" {
				value = "?"
			}
		default:
			if (m.Type == "chat" || m.Type == "chathistory") && id != "" && !h.knownIDs[id] {
				id = "?"
			}
			// a value that is not a string is opaque in the model
			if _, isStr := m.Value.(string); m.Value != nil && !isStr {
				value = "?"
			}
		}
	case "__close__":
		value = ""
	case "answer", "offer":
		user = "~"
		source = ""
		value = ""
	}
	d := sigdrv.Sanitise
	return strings.Join([]string{m.Type + "/" + d(m.Kind), d(id), d(source), d(dest), user,
		tr.B(m.Privileged), perms, d(grp), d(errs), tr.B(locked), d(value)}, "|")
}

// take moves the client's outbox into its buffer and returns the decoded messages.
func (h *hist) take(c *cl) []sigdrv.Msg {
	ms := c.c.Out()
	for _, m := range ms {
		if p := h.project(m); p != "" {
			c.buf = append(c.buf, p)
		}
	}
	c.msgs = ms
	c.log = append(c.log, ms...)
	for _, m := range ms {
		h.mon.onReceive(c, m)
	}
	return ms
}

func (h *hist) stateOf(c *cl) string {
	return fmt.Sprintf("g=%s u=%s p=%s", dash(c.c.GroupName()), sigdrv.Sanitise(c.c.Username()), plus(c.c.Permissions()))
}

func (h *hist) panicked(what string, p interface{}) {
	msg := fmt.Sprintf("%s: recovered panic (the server process would have exited): %v", what, p)
	h.t.Fail("C12", "signalling_no_panic", msg)
	h.t.Fail("C15", "no_panic", msg)
}

// authClass derives the class of the response from what the sender was sent.
func authClass(res sigdrv.Result, ms []sigdrv.Msg) string {
	if res.Class == "protocol" || res.Class == "user" {
		return "invalid"
	}
	for _, m := range ms {
		if m.Type == "usermessage" && m.Kind == "error" && m.ValueString() == "join a group first" {
			return "joinfirst"
		}
	}
	for _, m := range ms {
		if m.Type == "usermessage" && m.Kind == "error" && m.ValueString() == "not authorised" {
			return "notauth"
		}
		if m.Type == "usermessage" && (m.Kind == "token" || m.Kind == "tokenlist") && m.Error == "not-authorised" {
			return "notauth"
		}
	}
	return "passed"
}

type sendResult struct {
	res   sigdrv.Result
	auth  string
	msgs  []sigdrv.Msg
	perms []string // sender's permissions when the message was sent
	grp   string   // sender's group when the message was sent
}

func (h *hist) msg(c *cl, m *smsg) sendResult {
	if m.ID != "" {
		h.knownIDs[m.ID] = true
	}
	if m.Value.Kind == "s" {
		h.texts[m.Value.S] = true
	}
	before := c.c.Permissions()
	grp := c.c.GroupName()
	res := c.c.Send(h.json(m))
	ms := h.take(c)
	args := append([]interface{}{c.h, m.Type, dash(m.Kind)}, m.traceArgs()...)
	sr := sendResult{res: res, msgs: ms, perms: before, grp: grp}
	switch {
	case res.Panic != nil:
		h.op("PANIC", "msg", args...)
		h.panicked(fmt.Sprintf("message %s/%s by client %d", m.Type, m.Kind, c.h), res.Panic)
		sr.auth = "panic"
	case !res.Ran:
		h.op("dead", "msg", args...)
		sr.auth = "dead"
	default:
		sr.auth = authClass(res, ms)
		h.op(sr.auth+" "+res.Class+" "+h.stateOf(c), "msg", args...)
	}
	h.rightsStable(c, "message "+m.Type+"/"+m.Kind)
	h.prune()
	return sr
}

// rightsStable: `privileged` is decided from the sender's permission list at
// the moment it sends.  That list changes only when the sender's OWN loop
// serves a permission change (or joins/leaves): whatever another connection
// does - in particular being demoted itself - never alters it.  (A list
// shared between two clients, or with the role table, would.)
func (h *hist) rightsStable(actor *cl, what string) {
	for _, x := range h.live {
		p := fmt.Sprint(sortedCopy(x.c.Permissions()))
		if x == actor || !x.seen {
			x.perms, x.seen = p, true
			continue
		}
		h.t.Checked("C15.sender_rights_stable")
		if p != x.perms {
			h.t.Fail("C15", "sender_rights_stable", fmt.Sprintf("after %s by client %d the permissions of client %d changed from %s to %s although its own loop did nothing: its next messages are marked privileged (or not) by rights it was never given (or never lost)",
				what, actor.h, x.h, x.perms, p))
			x.perms = p
		}
	}
}

func sortedCopy(l []string) []string {
	c := append([]string{}, l...)
	sort.Strings(c)
	return c
}

func (h *hist) pump(c *cl) sigdrv.Result {
	res := c.c.Pump()
	h.take(c)
	switch {
	case res.Panic != nil:
		h.op("PANIC", "pump", c.h)
		h.panicked(fmt.Sprintf("action queue of client %d", c.h), res.Panic)
	case !res.Ran:
		h.op("dead", "pump", c.h)
	default:
		h.op(res.Class+" "+h.stateOf(c), "pump", c.h)
	}
	h.mon.onPump(c)
	h.rightsStable(c, "a service of the action queue")
	h.prune()
	return res
}

func (h *hist) disc(c *cl) {
	c.c.Disconnect()
	h.take(c)
	h.op("-", "disc", c.h)
	h.prune()
}

// quiesce pumps round-robin in handle order until nobody is runnable
// (Signal.quiesce does the same).
func (h *hist) quiesce() {
	for round := 0; round < 1000; round++ {
		any := false
		for _, c := range append([]*cl{}, h.live...) {
			if c.c.Runnable() {
				any = true
				res := c.c.Pump()
				h.take(c)
				if res.Panic != nil {
					h.panicked(fmt.Sprintf("action queue of client %d (quiesce)", c.h), res.Panic)
				}
				h.mon.onPump(c)
				h.rightsStable(c, "a service of the action queue (quiesce)")
			}
		}
		h.prune()
		if !any {
			break
		}
	}
	h.op("-", "quiesce")
}

func (h *hist) drain(c *cl) {
	h.take(c)
	sort.Strings(c.buf)
	obs := "-"
	if len(c.buf) > 0 {
		obs = strings.Join(c.buf, " ")
	}
	c.buf = nil
	h.op(obs, "drain", c.h)
}

func (h *hist) drainAll() {
	for _, c := range h.cs {
		h.drain(c)
	}
}

func (h *hist) handleOf(id string, g string) int {
	for _, c := range h.cs {
		if c.id == id && c.c.GroupName() == g && !c.c.Dead {
			return c.h
		}
	}
	return -1
}

func (h *hist) state(g string) {
	gr := group.Get(g)
	if gr == nil {
		// the group object is created on first use; the model has it from
		// mkgroup on
		h.op("locked=0 members=- rec=0 tokens=-", "state", g)
		return
	}
	var ms []int
	rec := false
	for _, cc := range gr.GetClients(nil) {
		found := false
		for _, c := range h.cs {
			if c.c.Client() == cc {
				ms = append(ms, c.h)
				found = true
			}
		}
		if !found {
			rec = true
		}
	}
	sort.Ints(ms)
	msS := "-"
	if len(ms) > 0 {
		var ss []string
		for _, x := range ms {
			ss = append(ss, fmt.Sprint(x))
		}
		msS = strings.Join(ss, ",")
	}
	var toks []string
	for _, t := range h.w.Tokens(g) {
		c, ok := h.tokCanon[t.Token]
		if !ok {
			c = fmt.Sprintf("T%03d", len(h.tokCanon))
			h.tokCanon[t.Token] = c
			h.tokReal[c] = t.Token
		}
		u := "~"
		if t.Username != nil {
			u = sigdrv.Sanitise(*t.Username)
		}
		e := "noexp"
		if t.Expires != nil {
			if t.Expires.After(time.Now()) {
				e = "valid"
			} else {
				e = "expired"
			}
		}
		toks = append(toks, c+":"+plus(t.Permissions)+":"+u+":"+e)
	}
	sort.Strings(toks)
	tS := "-"
	if len(toks) > 0 {
		tS = strings.Join(toks, ",")
	}
	h.op(fmt.Sprintf("locked=%s members=%s rec=%s tokens=%s", tr.B(h.w.Locked(g)), msS, tr.B(rec), tS), "state", g)
}

func (h *hist) ups(c *cl) {
	ids := c.c.UpIds()
	obs := "-"
	if len(ids) > 0 {
		obs = strings.Join(ids, ",")
	}
	h.op(obs, "ups", c.h)
}

// prune drops the clients whose connection has ended from the live list.
func (h *hist) prune() {
	n := 0
	for _, x := range h.live {
		if !x.c.Dead {
			h.live[n] = x
			n++
		}
	}
	h.live = h.live[:n]
}

func (h *hist) takeAll() {
	for _, c := range h.cs {
		h.take(c)
	}
}

func has(l []string, p string) bool {
	for _, x := range l {
		if x == p {
			return true
		}
	}
	return false
}

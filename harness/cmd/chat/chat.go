// Driver `chat` (C15, message level): the REAL handleClientMessage /
// handleAction / leaveGroup of rtpconn driven through the verif hook (no
// websocket, no media), every operation replayed by the runner through the
// extracted model Model/Signal.v (component `sig`), with the C15 monitors of
// monitors.go evaluated on the implementation alone.
//
//  1. corpus: the refutation witness of Properties/C15.v (an operator's
//     broadcast is privileged live, not privileged when replayed), username
//     spoofing with and without a source, every clearchat mode, equal ids in
//     two groups, a refused chat must not reach the history, eviction at 50;
//  2. n seeded histories: 2-3 groups, 2-6 clients, chat / usermessage /
//     caption / clearchat / join / leave / moderation with arbitrary claimed
//     source, username, dest, kind, id and noecho, and the harness as
//     scheduler (which queue is served when).
package main

import (
	"fmt"

	"github.com/jech/galene/rtpconn"

	"verifharness/internal/sigdrv"
	"verifharness/internal/tr"
)

type cuser struct {
	name, pw string
	perms    []string
}

// raw permission arrays
var cusers = []cuser{
	{"oper", "pwo", []string{"op", "present", "message", "caption"}},
	{"mod", "pwm", []string{"op", "message"}},
	{"plain", "pwp", []string{"message"}},
	{"capt", "pwc", []string{"message", "caption"}},
	{"caponly", "pwy", []string{"caption"}},
	{"mute", "pwu", nil},
	{"opmute", "pwq", []string{"op"}},
}

func groupSpec(name string) sigdrv.GroupSpec {
	var us []sigdrv.User
	for _, u := range cusers {
		us = append(us, sigdrv.User{Name: u.name, Password: u.pw, Permissions: u.perms})
	}
	return sigdrv.GroupSpec{Name: name, Users: us}
}

func join(g, user, pw string) *smsg {
	return &smsg{Type: "join", Kind: "join", Group: g, User: sp(user), Pw: pw}
}
func leave(g string) *smsg { return &smsg{Type: "join", Kind: "leave", Group: g} }

func (h *hist) joinAs(c *cl, g, user string) {
	for _, u := range cusers {
		if u.name == user {
			h.msg(c, join(g, u.name, u.pw))
			return
		}
	}
	panic("no such user " + user)
}

var tagSeq int

func (h *hist) tag() string {
	tagSeq++
	return fmt.Sprintf("v%d", tagSeq)
}

func (h *hist) chat(c *cl, m *smsg) {
	m.Value = val{Kind: "s", S: h.tag()}
	h.sendChat(c, m)
}

// chatShaped: the tag inside a value that is not a string (S keeps the tag
// for the monitors; the model sees an opaque value).
func (h *hist) chatShaped(c *cl, m *smsg, shape int) {
	tag := h.tag()
	switch shape {
	case 1:
		m.Value = val{Kind: "m", S: tag, M: [][2]string{{"tag", tag}, {"x", "y"}}}
	case 2:
		m.Value = val{Kind: "o", S: tag, O: []interface{}{tag, 17, nil}}
	default:
		m.Value = val{Kind: "s", S: tag}
	}
	h.sendChat(c, m)
}

// every top-level field of the protocol message that a chat / usermessage
// does not use, with values that decode
var extraFields = []struct {
	k string
	v []interface{}
}{
	{"privileged", []interface{}{true, true, true, false}},
	{"time", []interface{}{"1999-12-31T23:59:59Z", "2099-01-01T00:00:00+01:00", "yesterday", ""}},
	{"permissions", []interface{}{[]string{"op", "present", "record"}, []string{}}},
	{"status", []interface{}{map[string]interface{}{"name": "elsewhere", "locked": true, "clientCount": 99}}},
	{"data", []interface{}{map[string]interface{}{"k": "v"}}},
	{"error", []interface{}{"not-authorised", "boom"}},
	{"group", []interface{}{"cb", "nosuchgroup"}},
	{"version", []interface{}{[]string{"2", "1"}}},
	{"replace", []interface{}{"r1"}},
	{"password", []interface{}{"pwo"}},
	{"token", []interface{}{"tok"}},
	{"label", []interface{}{"camera"}},
	{"sdp", []interface{}{"v=0"}},
	{"request", []interface{}{map[string]interface{}{"": []string{"audio"}}}},
	{"candidate", []interface{}{map[string]interface{}{"candidate": "candidate:0"}}},
	{"rtcConfiguration", []interface{}{map[string]interface{}{"iceServers": []interface{}{}}}},
}

// extras: a random set of fields the stock client never sends in a chat;
// mode 0 = none, 1 = just privileged:true, 2 = a few, 3 = all of them
func extras(r *tr.Rand, mode int) map[string]interface{} {
	e := map[string]interface{}{}
	switch mode {
	case 0:
		return nil
	case 1:
		e["privileged"] = true
	default:
		for _, f := range extraFields {
			if mode == 3 || r.Chance(1, 4) {
				e[f.k] = f.v[r.Intn(len(f.v))]
			}
		}
		if mode == 3 || r.Bool() {
			e["privileged"] = true
		}
	}
	return e
}

func clearMsg(id, userID string) *smsg {
	var kv [][2]string
	if id != "" {
		kv = append(kv, [2]string{"id", id})
	}
	if userID != "" {
		kv = append(kv, [2]string{"userId", userID})
	}
	return &smsg{Type: "groupaction", Kind: "clearchat", Value: val{Kind: "m", M: kv}}
}

func (h *hist) finish(key string) {
	h.quiesce()
	h.drainAll()
	for _, g := range h.groups {
		h.state(g)
	}
	h.mon.checkHistories("the end of the history")
	h.t.Nontrivial(key)
	h.close()
}

// faultPhase: the websocket writer of one member of g exits (write error or
// timeout) while its reader has not noticed: the member stays in the group.
// "If broadcast, to every member" must keep holding for all the others, for
// chat, usermessage and the clearchat notification, whoever sends (also the
// dying member itself, whose reader still works).  Model/Signal.v has no
// such state, so from here on the history is monitored but no longer
// written to the trace.
func (h *hist) faultPhase(g string) {
	r, t := h.r, h.t
	h.quiesce()
	h.drainAll()
	h.silent = true
	for i, u := range []string{"oper", "plain", "mod", "capt"} {
		if len(h.cs) >= 12 {
			break
		}
		c := h.client(fmt.Sprintf("f%d", i))
		h.joinAs(c, g, u)
	}
	h.quiesce()
	h.takeAll()
	var ms []*cl
	for _, c := range h.cs {
		if !c.c.Dead && c.c.GroupName() == g {
			ms = append(ms, c)
		}
	}
	if len(ms) < 3 {
		return
	}
	x := ms[r.Intn(len(ms))]
	h.take(x)
	x.c.KillWriter()
	h.deadW[x] = true
	t.Note(fmt.Sprintf("dead-writer-phase:members=%d", len(ms)))
	n := r.Range(6, 10)
	for i := 0; i < n; i++ {
		c := ms[r.Intn(len(ms))]
		if c.c.Dead || !c.c.HasGroup() {
			continue
		}
		if i == 1 {
			c = x // the dying member's reader still works
		}
		switch {
		case c != x && has(c.c.Permissions(), "op") && r.Chance(1, 4):
			h.sendClearchat(c, clearMsg("", c.id), "", c.id, false)
		default:
			m := &smsg{Type: "chat", ID: fmt.Sprintf("w%d", tagSeq)}
			if r.Chance(1, 3) {
				m = &smsg{Type: "usermessage", Kind: "note"}
			}
			if c != x {
				m.NoEcho = r.Chance(1, 3)
				if r.Chance(1, 6) {
					m.Dest = x.id // lost, silently
				}
			}
			if r.Bool() {
				m.Source = c.id
			}
			h.chat(c, m)
		}
	}
}

// ---------------------------------------------------------------- corpus

func corpus(t *tr.Trace, r *tr.Rand) {
	// the witness of C15_privileged_replay_refuted (Proofs/SignalChatEx.v,
	// ex_hist_ops), operation by operation
	{
		h := newHist(t, r, "corpus-replay-not-privileged")
		h.mkgroup(groupSpec("g"))
		h.mkgroup(groupSpec("k"))
		a, b, z, m := h.client("a"), h.client("b"), h.client("z"), h.client("m")
		h.joinAs(a, "g", "oper")
		h.joinAs(b, "g", "plain")
		h.joinAs(z, "k", "plain")
		h.joinAs(m, "g", "mute")
		h.quiesce()
		h.drainAll()
		h.chat(a, &smsg{Type: "chat", ID: "i1", Source: "a", User: sp("oper")})
		h.chat(a, &smsg{Type: "chat", ID: "i2", Source: "a", User: sp("oper")})
		h.chat(b, &smsg{Type: "chat", ID: "i1", Source: "b"})
		h.sendClearchat(b, clearMsg("i1", "a"), "i1", "a", false) // not an operator
		h.sendClearchat(a, clearMsg("i1", ""), "i1", "", false)   // id without userId
		h.drainAll()
		h.sendClearchat(a, clearMsg("i1", "a"), "i1", "a", false)
		d := h.client("d")
		h.joinAs(d, "g", "plain")
		h.quiesce()
		// the finding, on the implementation: i2 was privileged live and is
		// not when replayed
		t.Checked("C15.replay_not_privileged_witness")
		live, replayed := false, false
		for _, mm := range b.log {
			if mm.Type == "chat" && mm.Id == "i2" && mm.Privileged {
				live = true
			}
		}
		for _, mm := range d.log {
			if mm.Type == "chathistory" && mm.Id == "i2" && !mm.Privileged {
				replayed = true
			}
		}
		if live && replayed {
			t.Fail("C15", "privileged", "replay-not-privileged: operator a's broadcast chat i2 was delivered with privileged=true; the later joiner d is replayed it (chathistory) with privileged=false")
		}
		h.finish("corpus-replay")
	}
	// spoofing in every combination of source and username
	{
		h := newHist(t, r, "corpus-spoof")
		h.mkgroup(groupSpec("g"))
		var cs []*cl
		for i := 0; i < 8; i++ {
			c := h.client(fmt.Sprintf("s%d", i))
			h.joinAs(c, "g", []string{"oper", "plain"}[i%2])
			cs = append(cs, c)
		}
		h.quiesce()
		h.drainAll()
		h.chat(cs[1], &smsg{Type: "chat", ID: "x1", User: sp("oper")})                       // no source, another's name
		h.chat(cs[3], &smsg{Type: "chat", ID: "x2", Source: "s3", User: sp("oper")})         // own id, another's name
		h.chat(cs[5], &smsg{Type: "usermessage", Kind: "note", Source: "s0"})                // another's id
		h.chat(cs[7], &smsg{Type: "chat", ID: "x3", Source: "nobody"})                       // nobody's id
		h.chat(cs[0], &smsg{Type: "usermessage", Kind: "note", Dest: "s2", User: sp("")})    // empty name
		h.chat(cs[2], &smsg{Type: "chat", ID: "x4", Source: "s2", User: sp("oper")})         // all true
		h.chat(cs[4], &smsg{Type: "chat", ID: "x5", Source: "s4", User: sp("plain")})        // an operator under another name
		h.sendClearchat(cs[6], &smsg{Type: "groupaction", Kind: "clearchat", User: sp("plain")}, "", "", false)
		h.finish("corpus-spoof")
	}
	// equal ids in two groups, destinations across groups, noecho
	{
		h := newHist(t, r, "corpus-cross-group")
		h.mkgroup(groupSpec("ga"))
		h.mkgroup(groupSpec("gb"))
		a1, a2 := h.client("x"), h.client("y")
		b1, b2 := h.client("x"), h.client("w")
		h.joinAs(a1, "ga", "oper")
		h.joinAs(a2, "ga", "plain")
		h.joinAs(b1, "gb", "plain")
		h.joinAs(b2, "gb", "mod")
		h.quiesce()
		h.drainAll()
		h.chat(a2, &smsg{Type: "chat", ID: "c1", Dest: "x"})                 // the x of ga
		h.chat(b2, &smsg{Type: "usermessage", Kind: "ring", Dest: "x"})      // the x of gb
		h.chat(a2, &smsg{Type: "chat", ID: "c2", Dest: "w"})                 // w is in gb: unknown
		h.chat(b1, &smsg{Type: "usermessage", Kind: "ring", Dest: "y"})      // y is in ga: unknown
		h.chat(a1, &smsg{Type: "usermessage", Kind: "note", NoEcho: true})   // noecho usermessage
		h.chat(b2, &smsg{Type: "chat", Kind: "me", NoEcho: true})            // noecho chat, fresh id
		h.chat(a2, &smsg{Type: "chat", ID: "c3", Dest: "y"})                 // to oneself
		h.chat(a1, &smsg{Type: "usermessage", Kind: "clearchat"})            // a member's own "clearchat" message
		h.chat(a1, &smsg{Type: "usermessage", Kind: "error", ID: "e1"})      // ... and "error"
		h.finish("corpus-cross")
	}
	// refused messages must not reach the history; captions
	{
		h := newHist(t, r, "corpus-refused")
		h.mkgroup(groupSpec("g"))
		o, mu, co, cp, out := h.client("o"), h.client("mu"), h.client("co"), h.client("cp"), h.client("out")
		h.joinAs(o, "g", "oper")
		h.joinAs(mu, "g", "mute")
		h.joinAs(co, "g", "caponly")
		h.joinAs(cp, "g", "capt")
		h.quiesce()
		h.drainAll()
		h.chat(mu, &smsg{Type: "chat", ID: "r1"})
		h.chat(co, &smsg{Type: "chat", ID: "r2"})
		h.chat(co, &smsg{Type: "chat", Kind: "caption", ID: "r3"})
		h.chat(co, &smsg{Type: "usermessage", Kind: "caption"})
		h.chat(cp, &smsg{Type: "chat", Kind: "caption", ID: "r4"})
		h.chat(out, &smsg{Type: "chat", ID: "r5"})
		h.msg(out, join("g", "plain", "wrong"))
		h.chat(out, &smsg{Type: "chat", ID: "r6", User: sp("plain")})
		h.msg(cp, leave("g"))
		h.chat(cp, &smsg{Type: "chat", ID: "r7"})
		j := h.client("j")
		h.joinAs(j, "g", "plain")
		h.finish("corpus-refused")
	}
	// every clearchat mode
	{
		h := newHist(t, r, "corpus-clearchat")
		h.mkgroup(groupSpec("g"))
		o, p, q := h.client("o"), h.client("p"), h.client("q")
		h.joinAs(o, "g", "oper")
		h.joinAs(p, "g", "plain")
		h.joinAs(q, "g", "plain")
		h.quiesce()
		h.drainAll()
		fill := func() {
			h.chat(o, &smsg{Type: "chat", ID: "m1", Source: "o"})
			h.chat(p, &smsg{Type: "chat", ID: "m1", Source: "p"})
			h.chat(p, &smsg{Type: "chat", ID: "m2", Source: "p"})
			h.chat(q, &smsg{Type: "chat", ID: "m1"}) // no source: nobody's
			h.chat(o, &smsg{Type: "chat", ID: "m3", Source: "o"})
		}
		fill()
		h.sendClearchat(o, clearMsg("m1", "p"), "m1", "p", false)
		h.sendClearchat(o, clearMsg("m9", "p"), "m9", "p", false)
		h.sendClearchat(o, clearMsg("m3", "p"), "m3", "p", false) // right id, wrong user
		h.sendClearchat(o, clearMsg("", "o"), "", "o", false)
		h.sendClearchat(o, clearMsg("m1", ""), "m1", "", false)
		h.sendClearchat(o, &smsg{Type: "groupaction", Kind: "clearchat", Value: val{Kind: "s", S: "all"}}, "", "", true)
		h.sendClearchat(p, clearMsg("", ""), "", "", false)
		h.sendClearchat(o, &smsg{Type: "groupaction", Kind: "clearchat", Value: val{Kind: "m", M: [][2]string{{"id", "~"}, {"userId", "p"}}}}, "", "p", false)
		fill()
		h.sendClearchat(o, &smsg{Type: "groupaction", Kind: "clearchat"}, "", "", false)
		fill()
		h.sendClearchat(o, clearMsg("", ""), "", "", false)
		h.finish("corpus-clearchat")
	}
	// fields only the server may set, claimed by the sender, in every sender
	// state: operator, plain member, demoted operator, promoted member
	{
		h := newHist(t, r, "corpus-claimed-fields")
		h.mkgroup(groupSpec("g"))
		o, m2, p, q := h.client("o"), h.client("m2"), h.client("p"), h.client("q")
		h.joinAs(o, "g", "oper")
		h.joinAs(m2, "g", "mod")
		h.joinAs(p, "g", "plain")
		h.joinAs(q, "g", "plain")
		h.quiesce()
		h.drainAll()
		round := func(stage string) {
			for i, c := range []*cl{o, m2, p, q} {
				for mode := 1; mode <= 3; mode++ {
					h.chat(c, &smsg{Type: "chat", ID: fmt.Sprintf("%s%d%d", stage, i, mode), Source: c.id, Extra: extras(r, mode)})
				}
				h.chat(c, &smsg{Type: "usermessage", Kind: "note", Extra: extras(r, 1)})
				h.chat(c, &smsg{Type: "chat", ID: fmt.Sprintf("%sd%d", stage, i), Dest: "q", Extra: extras(r, 3)})
				h.chat(c, &smsg{Type: "usermessage", Kind: "ring", Dest: "o", NoEcho: true, Extra: extras(r, 1)})
				h.chat(c, &smsg{Type: "chat", Kind: "me", Extra: map[string]interface{}{"privileged": false}})
				h.chatShaped(c, &smsg{Type: "chat", ID: fmt.Sprintf("%ss%d", stage, i), Extra: extras(r, 1)}, 1+i%2)
			}
			h.drainAll()
		}
		round("a")
		// m2 is demoted, p is promoted; the changes take effect when they
		// serve their queues
		h.msg(o, &smsg{Type: "useraction", Kind: "unop", Dest: "m2"})
		h.msg(o, &smsg{Type: "useraction", Kind: "op", Dest: "p"})
		round("b") // not yet served: m2 is still an operator, p is not
		h.quiesce()
		round("c")
		h.sendClearchat(q, &smsg{Type: "groupaction", Kind: "clearchat", Extra: extras(r, 3)}, "", "", false)
		j := h.client("j")
		h.joinAs(j, "g", "plain")
		h.finish("corpus-claimed-fields")
	}
	// a member whose writer has exited is still a member
	for k := 0; k < 3; k++ {
		h := newHist(t, r, "corpus-dead-writer")
		h.mkgroup(groupSpec("g"))
		o, p := h.client("o"), h.client("p")
		h.joinAs(o, "g", "oper")
		h.joinAs(p, "g", "plain")
		h.chat(o, &smsg{Type: "chat", ID: "a1", Source: "o"})
		h.faultPhase("g")
		h.finish(fmt.Sprintf("corpus-dead-writer-%d", k))
	}
	// eviction: exactly 49, 50, 51 and 64 broadcast chats, a joiner each time
	for _, n := range []int{49, 50, 51, 64} {
		h := newHist(t, r, "corpus-eviction")
		h.mkgroup(groupSpec("g"))
		o, p := h.client("o"), h.client("p")
		h.joinAs(o, "g", "mod")
		h.joinAs(p, "g", "plain")
		h.quiesce()
		h.drainAll()
		for i := 0; i < n; i++ {
			s := p
			if i%3 == 0 {
				s = o
			}
			m := &smsg{Type: "chat", ID: fmt.Sprintf("e%d", i), Source: s.id}
			if i%7 == 0 {
				m.ID = ""
			}
			h.chat(s, m)
			if i%5 == 0 {
				h.chat(s, &smsg{Type: "usermessage", Kind: "note"})
				h.chat(s, &smsg{Type: "chat", ID: fmt.Sprintf("d%d", i), Dest: "o"})
			}
			if i%16 == 15 {
				h.drainAll()
			}
		}
		j := h.client("j")
		h.joinAs(j, "g", "plain")
		h.pump(j)
		h.finish(fmt.Sprintf("corpus-eviction-%d", n))
	}
}

// ---------------------------------------------------------------- random histories

func randomHistory(t *tr.Trace, r *tr.Rand, idx int) {
	stream := "random"
	long := r.Chance(1, 6)
	if long {
		stream = "random-long"
	}
	h := newHist(t, r, stream)
	ng := r.Range(2, 3)
	groups := []string{"ca", "cb", "cc"}[:ng]
	for _, g := range groups {
		h.mkgroup(groupSpec(g))
	}
	nc := r.Range(2, 6)
	ids := []string{"c0", "c1", "c2", "c3", "c4", "c5"}
	home := map[*cl]string{}
	newClient := func() *cl {
		id := ids[len(h.cs)%len(ids)]
		if r.Chance(1, 5) {
			id = ids[r.Intn(len(ids))] // equal ids, in the same or in another group
			t.Note("maybe-equal-id")
		}
		c := h.client(id)
		home[c] = groups[r.Intn(ng)]
		return c
	}
	for i := 0; i < nc; i++ {
		newClient()
	}
	// most clients start as members of their home group
	for _, c := range h.cs {
		if r.Chance(5, 6) {
			u := cusers[r.Pick(3, 2, 4, 2, 1, 1, 1)]
			h.msg(c, join(home[c], u.name, u.pw))
		}
	}
	if r.Bool() {
		h.quiesce()
	}
	live := func() []*cl {
		var out []*cl
		for _, c := range h.cs {
			if !c.c.Dead {
				out = append(out, c)
			}
		}
		return out
	}
	anyID := func(c *cl) string {
		switch r.Pick(4, 2, 2, 1, 1) {
		case 0: // a member of the sender's group
			var ms []*cl
			for _, x := range live() {
				if x.c.GroupName() == c.c.GroupName() && x.c.GroupName() != "" && x != c {
					ms = append(ms, x)
				}
			}
			if len(ms) > 0 {
				return ms[r.Intn(len(ms))].id
			}
			return ids[r.Intn(len(ids))]
		case 1: // a member of another group
			var ms []*cl
			for _, x := range live() {
				if x.c.GroupName() != c.c.GroupName() && x.c.GroupName() != "" {
					ms = append(ms, x)
				}
			}
			if len(ms) > 0 {
				return ms[r.Intn(len(ms))].id
			}
			return ids[r.Intn(len(ids))]
		case 2:
			return c.id
		case 3:
			return "nobody"
		}
		return ids[r.Intn(len(ids))]
	}
	kinds := []string{"", "", "", "me", "caption", "k7", "error", "kicked", "clearchat"}
	idpool := []string{"m1", "m2", "m3", "m4"}
	var sources []string // sources of stored entries, for clearchat
	chatOnce := func(c *cl, broadcastChat bool) {
		m := &smsg{Type: "chat"}
		if !broadcastChat && r.Chance(1, 4) {
			m.Type = "usermessage"
		}
		m.Kind = kinds[r.Intn(len(kinds))]
		if m.Type == "chat" && m.Kind != "" && m.Kind != "me" && m.Kind != "caption" && r.Chance(1, 2) {
			m.Kind = ""
		}
		switch r.Pick(3, 2, 1) { // ids: chosen, from a small pool (duplicates across users), none
		case 0:
			m.ID = fmt.Sprintf("u%d", tagSeq)
		case 1:
			m.ID = idpool[r.Intn(len(idpool))]
		}
		switch r.Pick(10, 8, 1, 1) { // source: own, none, another member's, a non-member's
		case 0:
			m.Source = c.id
		case 2:
			m.Source = anyID(c)
		case 3:
			m.Source = "nobody"
		}
		switch r.Pick(8, 10, 1, 1) { // username: own, none, another's, empty
		case 0:
			m.User = sp(c.c.Username())
		case 2:
			m.User = sp(cusers[r.Intn(len(cusers))].name)
		case 3:
			m.User = sp("")
		}
		if !broadcastChat && r.Chance(1, 3) {
			m.Dest = anyID(c)
		}
		m.NoEcho = r.Chance(1, 4)
		if m.Type == "chat" && m.Dest == "" {
			sources = append(sources, m.Source)
		}
		m.Extra = extras(r, r.Pick(5, 3, 2, 1))
		if len(m.Extra) > 0 {
			t.Note("claimed-fields")
		}
		h.chatShaped(c, m, r.Pick(8, 1, 1))
	}
	// a burst of valid broadcast chats (more than the history holds), then
	// a joiner
	burst := func() {
		var ok []*cl
		for _, x := range live() {
			if x.c.HasGroup() && has(x.c.Permissions(), "message") {
				ok = append(ok, x)
			}
		}
		if len(ok) == 0 {
			return
		}
		g := ok[0].c.GroupName()
		n := r.Range(45, 70)
		for i := 0; i < n; i++ {
			c := ok[r.Intn(len(ok))]
			if c.c.Dead || !c.c.HasGroup() {
				continue
			}
			m := &smsg{Type: "chat", Kind: kinds[r.Intn(3)]}
			switch r.Pick(3, 2, 1) {
			case 0:
				m.ID = fmt.Sprintf("u%d", tagSeq)
			case 1:
				m.ID = idpool[r.Intn(len(idpool))]
			}
			if r.Bool() {
				m.Source = c.id
			}
			if r.Bool() {
				m.User = sp(c.c.Username())
			}
			m.NoEcho = r.Chance(1, 4)
			sources = append(sources, m.Source)
			h.chat(c, m)
			if i%12 == 11 {
				h.drainAll()
			}
		}
		if len(h.cs) < 9 {
			j := h.client("late")
			home[j] = g
			h.joinAs(j, g, "plain")
			h.pump(j)
			h.drainAll()
		}
		t.Note("burst")
	}
	joins := 0
	nsteps := r.Range(30, 90)
	if long {
		nsteps = r.Range(90, 160)
	}
	burstAt := -1
	if long || r.Chance(1, 10) {
		burstAt = r.Intn(nsteps)
	}
	for s := 0; s < nsteps; s++ {
		if s == burstAt {
			burst()
		}
		ls := live()
		if len(ls) == 0 || (len(h.cs) < 8 && r.Chance(1, 25)) {
			if len(h.cs) >= 8 {
				break
			}
			newClient()
			continue
		}
		c := ls[r.Intn(len(ls))]
		member := c.c.HasGroup()
		w := []int{14, 8, 2, 1, 30, 5, 3, 4, 3}
		if long {
			w = []int{6, 4, 1, 0, 60, 3, 1, 3, 2}
		}
		switch r.Pick(w...) {
		case 0: // serve somebody's queue
			h.pump(c)
		case 1: // join
			if member && !r.Chance(1, 8) {
				continue
			}
			g := home[c]
			if r.Chance(1, 6) {
				g = groups[r.Intn(ng)]
			}
			u := cusers[r.Intn(len(cusers))]
			m := join(g, u.name, u.pw)
			if r.Chance(1, 40) {
				m.Pw = "wrong"
				t.Note("join-refused")
			}
			h.msg(c, m)
			if c.c.HasGroup() && !member {
				joins++
			}
		case 2: // leave
			g := c.c.GroupName()
			if g == "" || r.Chance(1, 8) {
				g = groups[r.Intn(ng)]
			}
			h.msg(c, leave(g))
		case 3:
			h.disc(c)
		case 4:
			if !member && r.Chance(4, 5) {
				for _, x := range ls {
					if x.c.HasGroup() {
						c = x
						break
					}
				}
			}
			if long && r.Chance(3, 4) {
				// mostly members that may chat, so that histories grow
				var ok []*cl
				for _, x := range ls {
					if x.c.HasGroup() && has(x.c.Permissions(), "message") {
						ok = append(ok, x)
					}
				}
				if len(ok) > 0 {
					c = ok[r.Intn(len(ok))]
				}
			}
			chatOnce(c, long && r.Chance(3, 4))
		case 5: // clearchat
			id, uid := "", ""
			switch r.Pick(2, 3, 3, 1) {
			case 1:
				uid = pickS(r, sources, ids)
			case 2:
				uid = pickS(r, sources, ids)
				id = idpool[r.Intn(len(idpool))]
			case 3:
				id = idpool[r.Intn(len(idpool))]
			}
			m := clearMsg(id, uid)
			malformed := false
			switch {
			case r.Chance(1, 10):
				m.Value = val{Kind: "s", S: "all"}
				malformed = true
				id, uid = "", ""
			case id == "" && uid == "" && r.Bool():
				m.Value = val{}
			}
			if r.Chance(1, 12) {
				m.Source = anyID(c)
			}
			if r.Chance(1, 12) {
				m.User = sp(cusers[r.Intn(len(cusers))].name)
			}
			h.sendClearchat(c, m, id, uid, malformed)
		case 6: // moderation: who is an operator, who may chat
			k := []string{"op", "unop", "shutup", "unshutup"}[r.Intn(4)]
			h.msg(c, &smsg{Type: "useraction", Kind: k, Dest: anyID(c)})
		case 7:
			h.quiesce()
		case 8:
			h.drainAll()
		}
		if s%9 == 8 {
			h.drainAll()
		}
		if s%20 == 19 {
			for _, g := range groups {
				h.state(g)
			}
		}
	}
	if r.Chance(1, 3) {
		// ends the traced part of the history
		h.faultPhase(groups[r.Intn(ng)])
	}
	// a late joiner sees what is left
	if len(h.cs) < 9 {
		c := newClient()
		h.joinAs(c, home[c], "plain")
	}
	h.quiesce()
	if joins >= 2 {
		h.finish(fmt.Sprintf("%s/%d/%d/%d", stream, idx, joins, nsteps))
	} else {
		h.finish("few-joins")
	}
}

func pickS(r *tr.Rand, a, b []string) string {
	if len(a) > 0 && r.Chance(3, 4) {
		return a[r.Intn(len(a))]
	}
	return b[r.Intn(len(b))]
}

func runChat(t *tr.Trace, r *tr.Rand, n int) {
	sigdrv.Quiet()
	rtpconn.VerifWriteBuffer = 1 << 12
	corpus(t, r)
	for i := 0; i < n; i++ {
		randomHistory(t, r, i)
	}
}

func main() { tr.Main(runChat) }

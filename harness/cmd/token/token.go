// Driver `token` (property C09): runs token.Stateful.Check, token.Parse +
// JWT.Check, group.Description.GetPermission (token branch) and
// webserver.checkGlobalAdminToken of the real code on generated tokens, key
// sets and credentials, writes the projected observables for the comparison
// with the extracted Coq model (Model/Token.v), and evaluates the C09
// monitors on the implementation's behaviour alone.
//
// Encodings on op lines: a string is hex ("=" when empty), an optional string
// is "~" when absent, a list is comma separated ("-" when empty), a number
// claim is "~" (absent), "!" (wrong type) or an instant in ns.  Instants are
// printed relative to a per-history base B (the model's `now` is B): the real
// clock cannot be injected into Stateful.Check / golang-jwt, so every
// compared case keeps at least 1 s between the true clock and the decision
// boundary, and the boundaries themselves are probed by the `bwin` histories
// (monitors only) which bracket every call between two clock readings.
package main

import (
	"crypto/ecdsa"
	"crypto/elliptic"
	crand "crypto/rand"
	"crypto/rsa"
	"encoding/base64"
	"encoding/hex"
	"encoding/json"
	"errors"
	"fmt"
	"math/big"
	"net/url"
	"os"
	"path/filepath"
	"reflect"
	"sort"
	"strings"
	"time"

	"github.com/golang-jwt/jwt/v5"

	"github.com/jech/galene/group"
	"github.com/jech/galene/token"
	"github.com/jech/galene/webserver"

	"verifharness/internal/tr"
)

// ---------------------------------------------------------------- encodings

func hx(s string) string {
	if s == "" {
		return "="
	}
	return hex.EncodeToString([]byte(s))
}

func ohx(p *string) string {
	if p == nil {
		return "~"
	}
	return hx(*p)
}

func lst(l []string) string {
	if len(l) == 0 {
		return "-"
	}
	o := make([]string, len(l))
	for i, s := range l {
		o[i] = hx(s)
	}
	return strings.Join(o, ",")
}

func sp(s string) *string { return &s }

func b64(b []byte) string { return base64.RawURLEncoding.EncodeToString(b) }

// ---------------------------------------------------------------- spec used by the monitors

// comps is strings.Split(s, "/"): the path components of a group name.
func comps(s string) []string { return strings.Split(s, "/") }

func sameComps(a, b []string) bool {
	if len(a) != len(b) {
		return false
	}
	for i := range a {
		if a[i] != b[i] {
			return false
		}
	}
	return true
}

// specStateful: the property's scope rule for a stored token for group tg:
// it names g, or covers subgroups and is an ancestor of g by whole path
// components; the root scope "" needs the root token with subgroups.
func specStateful(tg string, sub bool, g string) bool {
	if g == "" {
		return sub && tg == ""
	}
	if tg == "" {
		return sub
	}
	tc, gc := comps(tg), comps(g)
	if sameComps(tc, gc) {
		return true
	}
	return sub && len(gc) > len(tc) && sameComps(tc, gc[:len(tc)])
}

// specPath: the same for an audience path.  Without subgroups the path must
// be /group/<g>/; with subgroups it must be /group/ (root) or /group/<tg>/
// with tg an ancestor of g (or g) by whole components.
func specPath(p string, incl bool, g string) bool {
	if !incl {
		return p == "/group/"+g+"/"
	}
	if !strings.HasPrefix(p, "/group/") || !strings.HasSuffix(p, "/") {
		return false
	}
	q := p[len("/group/"):]
	if q == "" {
		return true
	}
	tc, gc := comps(q[:len(q)-1]), comps(g)
	return len(gc) >= len(tc) && sameComps(tc, gc[:len(tc)])
}

func asciiLower(s string) string {
	b := []byte(s)
	for i, c := range b {
		if c >= 'A' && c <= 'Z' {
			b[i] = c + 32
		}
	}
	return string(b)
}

// names returns every string over {a,b,/,.} of length <= k, shortest first.
func names(k int) []string {
	out := []string{""}
	prev := []string{""}
	for l := 1; l <= k; l++ {
		var cur []string
		for _, p := range prev {
			for _, c := range "ab/." {
				cur = append(cur, p+string(c))
			}
		}
		out = append(out, cur...)
		prev = cur
	}
	return out
}

// ---------------------------------------------------------------- driver state

type drv struct {
	t      *tr.Trace
	r      *tr.Rand
	base   int64 // B of the current history
	nops   int   // ops in the current history
	acc    int
	rej    int
	stream string
	hseq   int
	far    time.Time
	mat    *material
	dirs   map[string]string // canonical host -> data directory
	tmp    string
	tokseq int
}

func (d *drv) hist(stream string) {
	d.flush()
	d.base = 1_000_000_000_000 + int64(d.r.Intn(1_000_000_000))
	d.stream = stream
	d.hseq++
	d.t.History("token", stream)
}

// flush closes the current history: it is non-trivial if it saw both an
// accepted and a refused request.
func (d *drv) flush() {
	if d.stream != "" && d.acc > 0 && d.rej > 0 {
		d.t.Nontrivial(fmt.Sprintf("%s/%d/%d/%d", d.stream, d.hseq, d.acc, d.rej))
	}
	d.acc, d.rej, d.nops = 0, 0, 0
}

func (d *drv) count(ok bool) {
	d.nops++
	if ok {
		d.acc++
	} else {
		d.rej++
	}
}

// ---------------------------------------------------------------- (a) scope

func (d *drv) smatch(tg string, sub bool, g string, trace bool) {
	st := &token.Stateful{Token: "t", Group: tg, IncludeSubgroups: sub, Expires: &d.far}
	_, _, err := st.Check("", g)
	ok := err == nil
	if trace {
		d.t.Op(tr.B(ok), "smatch", hx(tg), sub, hx(g))
		d.count(ok)
	}
	d.t.Checked("C09.scope_stateful")
	if want := specStateful(tg, sub, g); ok != want {
		d.t.Fail("C09", "scope_stateful", fmt.Sprintf(
			"stored token for group %q (subgroups=%v) asked for group %q: accepted=%v, the scope rule (whole path components) says %v",
			tg, sub, g, ok, want))
	}
	if m := token.VerifTokenStatefulMatch(st, g); m != ok {
		d.t.Fail("C09", "scope_stateful", fmt.Sprintf("Check and match disagree for %q %v %q", tg, sub, g))
	}
}

func (d *drv) jmatch(p string, incl bool, g string, trace bool) {
	ok := token.VerifTokenMatchGroup(p, g, incl)
	if trace {
		d.t.Op(tr.B(ok), "jmatch", hx(p), incl, hx(g))
		d.count(ok)
	}
	d.t.Checked("C09.scope_jwt")
	if want := specPath(p, incl, g); ok != want {
		d.t.Fail("C09", "scope_jwt", fmt.Sprintf(
			"audience path %q (include-subgroups=%v) asked for group %q: matched=%v, the scope rule (whole path components) says %v",
			p, incl, g, ok, want))
	}
}

func (d *drv) runScope(n int) {
	short, mid := names(2), names(4)
	// compared with the model: token groups up to length 2, groups up to 4
	for _, tg := range short {
		d.hist("scope-stateful")
		for _, g := range mid {
			d.smatch(tg, false, g, true)
			d.smatch(tg, true, g, true)
		}
	}
	paths := []string{"", "/", "/group", "/group/", "/group//", "/groupa/", "/groups/a/", "group/a/", "/group/a/b/", "/group/a//"}
	for _, tg := range short {
		if tg != "" {
			paths = append(paths, "/group/"+tg+"/", "/group/"+tg)
		}
	}
	for _, p := range paths {
		d.hist("scope-jwt")
		for _, g := range mid {
			d.jmatch(p, false, g, true)
			d.jmatch(p, true, g, true)
		}
	}
	// monitors only: token groups up to length 4 against groups up to length
	// 6 (quick: 5), both matchers, both flags
	gl := 5
	if n >= 1000 {
		gl = 6
	}
	long := names(gl)
	d.hist("scope-exhaustive")
	for _, tg := range mid {
		p := "/group/" + tg + "/"
		for _, g := range long {
			d.smatch(tg, false, g, false)
			d.smatch(tg, true, g, false)
			d.jmatch(p, false, g, false)
			d.jmatch(p, true, g, false)
		}
	}
	d.t.Op("-", "bwin", "scope-exhaustive", len(mid), len(long))
	// long names near the boundary: every token group up to length 6 against
	// itself extended by up to two characters, its prefixes, and itself with
	// the last character changed (total length up to 8)
	d.hist("scope-boundary")
	ext := names(2)
	for _, tg := range names(6) {
		p := "/group/" + tg + "/"
		var gs []string
		for _, e := range ext {
			gs = append(gs, tg+e)
		}
		for i := 0; i < len(tg); i++ {
			gs = append(gs, tg[:i])
		}
		if tg != "" {
			for _, c := range "ab/." {
				gs = append(gs, tg[:len(tg)-1]+string(c))
			}
		}
		for _, g := range gs {
			d.smatch(tg, true, g, false)
			d.smatch(tg, false, g, false)
			d.jmatch(p, true, g, false)
			d.jmatch(p, false, g, false)
		}
	}
	d.t.Op("-", "bwin", "scope-boundary", 6, 8)
	// "a" never covers "ab": single-component names through the public API
	d.hist("scope-a-ab")
	single := []string{"a", "ab", "b", "aa", "a.", ".a", "abb", "ba"}
	for _, x := range single {
		for _, y := range single {
			for _, sub := range []bool{false, true} {
				st := &token.Stateful{Token: "t", Group: x, IncludeSubgroups: sub, Expires: &d.far}
				_, _, err := st.Check("", y)
				d.t.Checked("C09.a_never_covers_ab")
				if (err == nil) != (x == y) {
					d.t.Fail("C09", "a_never_covers_ab", fmt.Sprintf("stored token for %q (subgroups=%v) asked for %q: accepted=%v", x, sub, y, err == nil))
				}
				d.smatch(x, sub, y, true)
			}
		}
	}
}

// ---------------------------------------------------------------- (b) stateful window

func optNs(base int64, off *time.Duration) string {
	if off == nil {
		return "~"
	}
	return fmt.Sprint(base + int64(*off))
}

func (d *drv) scheck(tg string, sub bool, user *string, perms []string, expOff, nbfOff *time.Duration, g string) {
	var u string
	var p []string
	var err error
	var st *token.Stateful
	var t0, t1 time.Time
	for attempt := 0; attempt < 8; attempt++ {
		t0 = time.Now()
		st = &token.Stateful{Token: "t", Group: tg, IncludeSubgroups: sub, Username: user, Permissions: perms}
		if expOff != nil {
			e := t0.Add(*expOff)
			st.Expires = &e
		}
		if nbfOff != nil {
			nb := t0.Add(*nbfOff)
			st.NotBefore = &nb
		}
		u, p, err = st.Check("", g)
		t1 = time.Now()
		if t1.Sub(t0) < 400*time.Millisecond {
			break
		}
	}
	obs := "err"
	if err == nil {
		obs = "ok " + hx(u) + " " + lst(p)
	}
	d.t.Op(obs, "scheck", d.base, hx(tg), sub, ohx(user), lst(perms), optNs(d.base, expOff), optNs(d.base, nbfOff), hx(g))
	d.count(err == nil)
	d.t.Checked("C09.window_stateful")
	if err == nil {
		if st.Expires == nil {
			d.t.Fail("C09", "no_expiry_never", fmt.Sprintf("stored token for %q without expiry accepted for %q", tg, g))
		} else if t0.After(*st.Expires) {
			d.t.Fail("C09", "window_stateful", fmt.Sprintf("accepted although the clock (%v) was already after the expiry (offset %v)", t0, *expOff))
		}
		if st.NotBefore != nil && t1.Before(*st.NotBefore) {
			d.t.Fail("C09", "window_stateful", fmt.Sprintf("accepted although the clock was still before not-before (offset %v)", *nbfOff))
		}
		d.t.Checked("C09.scope_stateful")
		if !specStateful(tg, sub, g) {
			d.t.Fail("C09", "scope_stateful", fmt.Sprintf("stored token for %q (subgroups=%v) accepted for %q", tg, sub, g))
		}
		d.t.Checked("C09.exact_perms_username")
		wu := ""
		if user != nil {
			wu = *user
		}
		if u != wu || !sameComps(p, perms) {
			d.t.Fail("C09", "exact_perms_username", fmt.Sprintf("Check returned %q %v, the token says %q %v", u, p, wu, perms))
		}
	} else if specStateful(tg, sub, g) && expOff != nil && *expOff >= time.Second && (nbfOff == nil || *nbfOff <= -time.Second) {
		d.t.Fail("C09", "window_stateful", fmt.Sprintf("token for %q inside its window (exp %v, nbf %v) refused for %q: %v", tg, *expOff, nbfOff, g, err))
	}
}

func (d *drv) runWindow() {
	offs := []time.Duration{-24 * time.Hour, -time.Hour, -2 * time.Second, -time.Second, time.Second, 2 * time.Second, time.Hour, 24 * time.Hour}
	d.hist("window-stateful")
	user := "u"
	for _, sub := range []bool{false, true} {
		for ei := -1; ei < len(offs); ei++ {
			for ni := -1; ni < len(offs); ni++ {
				var e, nb *time.Duration
				if ei >= 0 {
					e = &offs[ei]
				}
				if ni >= 0 {
					nb = &offs[ni]
				}
				g := "g"
				if sub {
					g = "g/h"
				}
				d.scheck("g", sub, &user, []string{"present", "message"}, e, nb, g)
			}
		}
	}
	// without expiry: never, whatever the rest
	d.hist("window-noexpiry")
	for _, tg := range []string{"", "g", "g/h"} {
		for _, g := range []string{"", "g", "g/h", "g/h/i"} {
			for _, sub := range []bool{false, true} {
				past := -time.Hour
				d.scheck(tg, sub, nil, []string{"admin"}, nil, nil, g)
				d.scheck(tg, sub, nil, []string{"admin"}, nil, &past, g)
			}
		}
	}
}

// bwin: the exact boundaries, with the real clock.  Every call is bracketed
// by two clock readings t0 <= now <= t1; an answer that is impossible for
// every instant of the bracket is a violation.
func (d *drv) runBoundary() {
	d.hist("window-boundary")
	keys := []map[string]any{d.mat.hs[0].m}
	for {
		// stay clear of the end of the second so that the JWT boundary
		// (a whole second) is 150..900 ms ahead
		if time.Now().Nanosecond() < 850_000_000 {
			break
		}
		time.Sleep(20 * time.Millisecond)
	}
	start := time.Now()
	baseSec := start.Unix()
	bd := time.Unix(baseSec+1, 0) // exp-4s+5s leeway == nbf+6s-5s leeway
	aud := []string{"https://h/group/g/"}
	mk := func(claims map[string]any) string {
		claims["aud"] = aud
		s, _ := d.signed(map[string]any{"alg": "HS256", "typ": "JWT"}, claims, jwt.SigningMethodHS256, d.mat.hs[0].sign)
		return s
	}
	jExp := mk(map[string]any{"exp": baseSec - 4})
	jNbf := mk(map[string]any{"exp": baseSec + 3600, "nbf": baseSec + 6})
	jIat := mk(map[string]any{"exp": baseSec + 3600, "iat": baseSec + 6})
	se := start.Add(40 * time.Millisecond)
	stExp := &token.Stateful{Token: "t", Group: "g", Expires: &se}
	stNbf := &token.Stateful{Token: "t", Group: "g", Expires: &d.far, NotBefore: &se}
	var sides [10]int
	probeStateful := func() {
		t0 := time.Now()
		_, _, err := stExp.Check("", "g")
		t1 := time.Now()
		d.t.Checked("C09.window_stateful_boundary")
		if err == nil {
			sides[0]++
			if t0.After(se) {
				d.t.Fail("C09", "window_stateful_boundary", fmt.Sprintf("accepted %v after the expiry", t0.Sub(se)))
			}
		} else {
			sides[1]++
			if !t1.After(se) {
				d.t.Fail("C09", "window_stateful_boundary", fmt.Sprintf("refused %v before the expiry: %v", se.Sub(t1), err))
			}
		}
		t0 = time.Now()
		_, _, err = stNbf.Check("", "g")
		t1 = time.Now()
		d.t.Checked("C09.window_stateful_boundary")
		if err == nil {
			sides[2]++
			if t1.Before(se) {
				d.t.Fail("C09", "window_stateful_boundary", fmt.Sprintf("accepted %v before not-before", se.Sub(t1)))
			}
		} else {
			sides[3]++
			if !t0.Before(se) {
				d.t.Fail("C09", "window_stateful_boundary", fmt.Sprintf("refused %v after not-before: %v", t0.Sub(se), err))
			}
		}
	}
	probeJWT := func(s string, which int, late bool) {
		t0 := time.Now()
		_, err := token.Parse(s, keys)
		t1 := time.Now()
		d.t.Checked("C09.window_jwt_boundary")
		ok := err == nil
		if ok {
			sides[which]++
		} else {
			sides[which+1]++
		}
		if !late {
			// exp: accepted iff now < bd
			if ok && !t0.Before(bd) {
				d.t.Fail("C09", "window_jwt_boundary", fmt.Sprintf("signed token accepted %v after expiry + 5 s", t0.Sub(bd)))
			}
			if !ok && t1.Before(bd) {
				d.t.Fail("C09", "window_jwt_boundary", fmt.Sprintf("signed token refused %v before expiry + 5 s: %v", bd.Sub(t1), err))
			}
		} else {
			// nbf / iat: accepted iff now >= bd
			if ok && t1.Before(bd) {
				d.t.Fail("C09", "window_jwt_boundary", fmt.Sprintf("signed token accepted %v before nbf/iat - 5 s", bd.Sub(t1)))
			}
			if !ok && !t0.Before(bd) {
				d.t.Fail("C09", "window_jwt_boundary", fmt.Sprintf("signed token refused %v after nbf/iat - 5 s: %v", t0.Sub(bd), err))
			}
		}
	}
	end := bd.Add(15 * time.Millisecond)
	for time.Now().Before(end) {
		now := time.Now()
		nearS := now.After(se.Add(-10*time.Millisecond)) && now.Before(se.Add(10*time.Millisecond))
		nearJ := now.After(bd.Add(-15 * time.Millisecond))
		if now.Before(se.Add(10 * time.Millisecond)) {
			probeStateful()
		}
		probeJWT(jExp, 4, false)
		probeJWT(jNbf, 6, true)
		probeJWT(jIat, 8, true)
		if !nearS && !nearJ {
			time.Sleep(2 * time.Millisecond)
		}
	}
	for i, k := range []string{"st-exp", "st-nbf", "jwt-exp", "jwt-nbf", "jwt-iat"} {
		if sides[2*i] > 0 && sides[2*i+1] > 0 {
			d.t.Note("boundary-" + k + "-seen-from-both-sides")
		} else {
			d.t.Note("boundary-" + k + "-ONE-SIDE-ONLY")
		}
	}
	d.t.Op("-", "bwin", "window")
	d.acc, d.rej = 1, 1
}

// ---------------------------------------------------------------- (c) signed tokens

// jwk is one configured key: the JWK map handed to the code, what the model
// is told about it, and how to sign with it.
type jwk struct {
	m      map[string]any
	kty    *string
	alg    *string
	kid    *string
	matOK  bool
	sign   any               // signing key
	method jwt.SigningMethod // the method that goes with the material
	name   string
}

type material struct {
	hs  []*jwk // HS256 a, HS256 b, HS384 c, HS512 d
	es  []*jwk
	rs  []*jwk
	unk *jwk // a key that is never configured
}

func strField(m map[string]any, k string) *string {
	if s, ok := m[k].(string); ok {
		return &s
	}
	return nil
}

func mkJWK(name string, m map[string]any, matOK bool, sign any, method jwt.SigningMethod) *jwk {
	return &jwk{m: m, kty: strField(m, "kty"), alg: strField(m, "alg"), kid: strField(m, "kid"),
		matOK: matOK, sign: sign, method: method, name: name}
}

// with returns a copy of the key with JWK fields overridden (nil deletes).
func (k *jwk) with(name string, matOK bool, kv ...any) *jwk {
	m := map[string]any{}
	for a, b := range k.m {
		m[a] = b
	}
	for i := 0; i+1 < len(kv); i += 2 {
		if kv[i+1] == nil {
			delete(m, kv[i].(string))
		} else {
			m[kv[i].(string)] = kv[i+1]
		}
	}
	return mkJWK(name, m, matOK, k.sign, k.method)
}

func newMaterial(r *tr.Rand) *material {
	mt := &material{}
	hm := func(name, alg string, n int, method jwt.SigningMethod) *jwk {
		sec := r.Bytes(n)
		return mkJWK(name, map[string]any{"kty": "oct", "alg": alg, "k": b64(sec)}, true, sec, method)
	}
	mt.hs = []*jwk{
		hm("hsA", "HS256", 32, jwt.SigningMethodHS256), hm("hsB", "HS256", 32, jwt.SigningMethodHS256),
		hm("hsC", "HS384", 48, jwt.SigningMethodHS384), hm("hsD", "HS512", 64, jwt.SigningMethodHS512)}
	mt.unk = hm("unknown", "HS256", 32, jwt.SigningMethodHS256)
	for i := 0; i < 2; i++ {
		k, err := ecdsa.GenerateKey(elliptic.P256(), crand.Reader)
		if err != nil {
			panic(err)
		}
		pad := func(b *big.Int) []byte { o := make([]byte, 32); b.FillBytes(o); return o }
		mt.es = append(mt.es, mkJWK(fmt.Sprintf("es%d", i), map[string]any{"kty": "EC", "alg": "ES256", "crv": "P-256",
			"x": b64(pad(k.X)), "y": b64(pad(k.Y))}, true, k, jwt.SigningMethodES256))
	}
	k, err := rsa.GenerateKey(crand.Reader, 2048)
	if err != nil {
		panic(err)
	}
	mt.rs = append(mt.rs, mkJWK("rs0", map[string]any{"kty": "RSA", "alg": "RS256",
		"n": b64(k.N.Bytes()), "e": b64(big.NewInt(int64(k.E)).Bytes())}, true, k, jwt.SigningMethodRS256))
	return mt
}

// signed builds header.claims.signature; method == nil leaves the signature empty.
func (d *drv) signed(header, claims map[string]any, method jwt.SigningMethod, key any) (string, []byte) {
	hb, _ := json.Marshal(header)
	cb, _ := json.Marshal(claims)
	ss := b64(hb) + "." + b64(cb)
	var sig []byte
	if method != nil {
		var err error
		sig, err = method.Sign(ss, key)
		if err != nil {
			panic(fmt.Sprintf("sign %s: %v", method.Alg(), err))
		}
	}
	return ss + "." + b64(sig), cb
}

func keysField(ks []*jwk) string {
	if len(ks) == 0 {
		return "-"
	}
	o := make([]string, len(ks))
	for i, k := range ks {
		o[i] = ohx(k.kty) + ":" + ohx(k.alg) + ":" + ohx(k.kid) + ":" + tr.B(k.matOK)
	}
	return strings.Join(o, ",")
}

func keyMaps(ks []*jwk) []map[string]any {
	var o []map[string]any
	for _, k := range ks {
		o = append(o, k.m)
	}
	return o
}

// jcase is one signed-token case.
type jcase struct {
	keys     []*jwk
	hdrAlg   any // header "alg" value (string, other JSON value, or nil = absent)
	hdrKid   any
	signer   *jwk              // material that signs (nil: no signature)
	method   jwt.SigningMethod // method that signs (nil: signer's own)
	exp      any               // claim values: nil = absent; int = seconds relative to the base second; other = literal
	nbf, iat any
	sub      any
	aud      any
	incl     any
	perms    any
	host     string
	group    string
}

// literal is a claim value that is written as it is (not relative to the base).
type literal struct{ v any }

func relTime(v any, baseSec int64) any {
	switch x := v.(type) {
	case literal:
		return x.v
	case int:
		return baseSec + int64(x)
	case float64:
		return float64(baseSec) + x
	}
	return v
}

type audFact struct {
	ok         bool
	host, path string
}

func (d *drv) numField(mc jwt.MapClaims, get func() (*jwt.NumericDate, error), baseSec int64) string {
	nd, err := get()
	if err != nil {
		return "!"
	}
	if nd == nil {
		return "~"
	}
	return fmt.Sprint(d.base + nd.UnixNano() - baseSec*1_000_000_000)
}

// jwtFields builds the token of a case at base second baseSec and the J
// fields of the model line.
func (d *drv) jwtFields(c *jcase, baseSec int64) (tok string, fields []any, hdrAlg *string, kid string,
	vflags []bool, auds []audFact, incl bool, permsOK bool, perms []string, mc jwt.MapClaims) {
	header := map[string]any{"typ": "JWT"}
	if c.hdrAlg != nil {
		header["alg"] = c.hdrAlg
	}
	if c.hdrKid != nil {
		header["kid"] = c.hdrKid
	}
	claims := map[string]any{}
	set := func(k string, v any) {
		if v != nil {
			claims[k] = v
		}
	}
	set("exp", relTime(c.exp, baseSec))
	set("nbf", relTime(c.nbf, baseSec))
	set("iat", relTime(c.iat, baseSec))
	set("sub", c.sub)
	set("aud", c.aud)
	set("include-subgroups", c.incl)
	if c.perms != nil {
		if c.perms == "null" {
			claims["permissions"] = nil
		} else {
			claims["permissions"] = c.perms
		}
	}
	var method jwt.SigningMethod
	var skey any
	if c.signer != nil {
		method, skey = c.signer.method, c.signer.sign
		if c.method != nil {
			method = c.method
		}
	}
	tok, cb := d.signed(header, claims, method, skey)
	parts := strings.Split(tok, ".")
	sig, _ := base64.RawURLEncoding.DecodeString(parts[2])
	ss := parts[0] + "." + parts[1]

	if s, ok := c.hdrAlg.(string); ok {
		hdrAlg = &s
	}
	if s, ok := c.hdrKid.(string); ok {
		kid = s
	}
	// which configured keys verify the signature, one by one, with the
	// header's algorithm (oracle of the model)
	vflags = make([]bool, len(c.keys))
	if hdrAlg != nil {
		if m := jwt.GetSigningMethod(*hdrAlg); m != nil {
			for i, k := range c.keys {
				pk, err := token.ParseKey(k.m)
				if err == nil && m.Verify(ss, sig, pk) == nil {
					vflags[i] = true
				}
			}
		}
	}
	// the claims as golang-jwt reads them (oracle)
	_ = json.Unmarshal(cb, &mc)
	subOK, sub := true, ""
	if s, err := mc.GetSubject(); err != nil {
		subOK = false
	} else {
		sub = s
	}
	audOK := true
	al, err := mc.GetAudience()
	if err != nil {
		audOK = false
	}
	for _, a := range al {
		u, err := url.Parse(a)
		if err != nil {
			auds = append(auds, audFact{})
		} else {
			auds = append(auds, audFact{true, u.Host, u.Path})
		}
	}
	// galene's own readings, by construction of the case
	if b, ok := c.incl.(bool); ok {
		incl = b
	}
	permsOK = true
	switch p := c.perms.(type) {
	case nil:
	case []string:
		perms = p
	case string:
		permsOK = p == "null"
	default:
		permsOK = false
	}
	vf := "-"
	if len(vflags) > 0 {
		o := make([]string, len(vflags))
		for i, v := range vflags {
			o[i] = tr.B(v)
		}
		vf = strings.Join(o, ",")
	}
	af := "-"
	if len(auds) > 0 {
		o := make([]string, len(auds))
		for i, a := range auds {
			o[i] = tr.B(a.ok) + ":" + hx(a.host) + ":" + hx(a.path)
		}
		af = strings.Join(o, ",")
	}
	fields = []any{keysField(c.keys), ohx(hdrAlg), hx(kid), vf,
		d.numField(mc, mc.GetExpirationTime, baseSec), d.numField(mc, mc.GetNotBefore, baseSec), d.numField(mc, mc.GetIssuedAt, baseSec),
		subOK, hx(sub), audOK, af, incl, permsOK, lst(perms)}
	return
}

func (d *drv) jwtOp(c *jcase) {
	var obs string
	var fields []any
	var hdrAlg *string
	var kid string
	var vflags []bool
	var auds []audFact
	var incl, permsOK bool
	var perms []string
	var mc jwt.MapClaims
	var tk token.Token
	var perr, cerr error
	var u string
	var p []string
	var t0 time.Time
	var baseSec int64
	for attempt := 0; attempt < 8; attempt++ {
		t0 = time.Now()
		baseSec = t0.Unix()
		var s string
		s, fields, hdrAlg, kid, vflags, auds, incl, permsOK, perms, mc = d.jwtFields(c, baseSec)
		tk, perr = token.Parse(s, keyMaps(c.keys))
		if perr == nil {
			u, p, cerr = tk.Check(c.host, c.group)
		}
		if time.Since(time.Unix(baseSec, 0)) < 1800*time.Millisecond {
			break
		}
	}
	switch {
	case perr != nil && errors.Is(perr, jwt.ErrTokenUnverifiable):
		obs = "parse:unverifiable"
	case perr != nil && errors.Is(perr, jwt.ErrTokenSignatureInvalid):
		obs = "parse:signature"
	case perr != nil && errors.Is(perr, jwt.ErrTokenInvalidClaims):
		obs = "parse:claims"
	case perr != nil:
		obs = "parse:other"
	case cerr != nil:
		obs = "check:err"
	default:
		obs = "ok " + hx(u) + " " + lst(p)
	}
	args := append([]any{d.base}, fields...)
	args = append(args, hx(c.host), hx(c.group))
	d.t.Op(obs, "jwt", args...)
	d.count(perr == nil && cerr == nil)

	// ---- monitors (implementation only)
	d.t.Checked("C09.jwt_key")
	if perr == nil {
		if _, isJWT := tk.(*token.JWT); !isJWT {
			d.t.Fail("C09", "jwt_key", "token.Parse returned something that is not a JWT for a signed token")
		}
		found := false
		for i, k := range c.keys {
			if hdrAlg != nil && k.alg != nil && *k.alg == *hdrAlg && (kid == "" || (k.kid != nil && *k.kid == kid)) && vflags[i] {
				found = true
			}
		}
		if !found {
			d.t.Fail("C09", "jwt_key", fmt.Sprintf(
				"signed token with header alg=%v kid=%q accepted although no configured key declares that algorithm (and kid) and verifies the signature; keys=%s",
				c.hdrAlg, kid, d.describeKeys(c.keys)))
		}
		if hdrAlg != nil && strings.EqualFold(*hdrAlg, "none") {
			d.t.Fail("C09", "jwt_key", "token with alg none accepted")
		}
		d.t.Checked("C09.jwt_expiry_required")
		exp, err := mc.GetExpirationTime()
		if err != nil || exp == nil {
			d.t.Fail("C09", "jwt_expiry_required", "signed token without a usable exp claim accepted")
		} else if !t0.Before(exp.Add(5 * time.Second)) {
			d.t.Fail("C09", "window_jwt", fmt.Sprintf("signed token accepted %v after its expiry (leeway is 5 s)", t0.Sub(exp.Time)))
		}
		d.t.Checked("C09.window_jwt")
		end := time.Now()
		if nbf, err := mc.GetNotBefore(); err != nil || (nbf != nil && end.Before(nbf.Add(-5*time.Second))) {
			d.t.Fail("C09", "window_jwt", "signed token accepted before its nbf - 5 s (or with an unreadable nbf)")
		}
	}
	if perr == nil && cerr == nil {
		d.t.Checked("C09.audience")
		named := false
		for _, a := range auds {
			if a.ok && (c.host == "" || asciiLower(a.host) == asciiLower(c.host)) && specPath(a.path, incl, c.group) {
				named = true
			}
		}
		if !named {
			d.t.Fail("C09", "audience", fmt.Sprintf(
				"signed token accepted for host %q group %q although no audience entry names them (aud=%v include-subgroups=%v)",
				c.host, c.group, c.aud, c.incl))
		}
		d.t.Checked("C09.exact_perms_username")
		ws, _ := c.sub.(string)
		if u != ws || !sameComps(p, perms) || !permsOK {
			d.t.Fail("C09", "exact_perms_username", fmt.Sprintf("JWT.Check returned %q %v, the token says sub=%v permissions=%v", u, p, c.sub, c.perms))
		}
	}
}

func (d *drv) describeKeys(ks []*jwk) string {
	var o []string
	for _, k := range ks {
		o = append(o, k.name)
	}
	return strings.Join(o, "+")
}

// goodCase: HS256 key A, right audience, far expiry.
func (d *drv) goodCase() *jcase {
	return &jcase{keys: []*jwk{d.mat.hs[0]}, hdrAlg: "HS256", signer: d.mat.hs[0],
		exp: 3600, sub: "john", aud: "https://galene.org:8443/group/a/", perms: []string{"present"},
		host: "galene.org:8443", group: "a"}
}

func (d *drv) keySets() [][]*jwk {
	m := d.mat
	a, b, c, dd := m.hs[0], m.hs[1], m.hs[2], m.hs[3]
	e0, e1, r0 := m.es[0], m.es[1], m.rs[0]
	return [][]*jwk{
		{},
		{a},
		{a.with("hsA.k1", true, "kid", "k1"), b.with("hsB.k2", true, "kid", "k2")},
		{a, c, dd},
		{e0},
		{r0},
		{a.with("hsA.k1", true, "kid", "k1"), e0.with("es0.k2", true, "kid", "k2"), r0.with("rs0.k3", true, "kid", "k3"), e1.with("es1.k4", true, "kid", "k4")},
		{a, b.with("hsB.badlen", false, "k", b64(d.r.Bytes(48)))},
		{a.with("hsA.asRS256", true, "alg", "RS256"), r0.with("rs0.asHS256", true, "alg", "HS256")},
		{a.with("hsA.noalg", true, "alg", nil), e0},
		{a.with("hsA.dup", true, "kid", "k1"), b.with("hsB.dup", true, "kid", "k1")},
		{a.with("hsA.alg5", true, "alg", 5), a.with("hsA.kid5", true, "kid", 5)},
		{e0.with("es0.offcurve", false, "y", b64(make([]byte, 32))), e1},
		{a.with("hsA.asHS384", false, "alg", "HS384"), c.with("hsC.k9", true, "kid", "k9")},
		{a.with("hsA.nokty", true, "kty", nil), b},
		{r0, a.with("hsA.none", true, "alg", "none")},
	}
}

func (d *drv) runKeys() {
	m := d.mat
	for si, ks := range d.keySets() {
		d.hist(fmt.Sprintf("jwt-keys-%d", si))
		// who signs: each configured key's material, the unknown key, nobody
		signers := []*jwk{m.unk, nil}
		signers = append(signers, ks...)
		for _, s := range signers {
			// with which method: its own, and for HMAC material the two other HMAC methods
			methods := []jwt.SigningMethod{nil}
			if s != nil && s.method != nil {
				if _, ok := s.sign.([]byte); ok {
					methods = append(methods, jwt.SigningMethodHS256, jwt.SigningMethodHS384, jwt.SigningMethodHS512)
				}
			}
			for _, meth := range methods {
				natural := ""
				if s != nil {
					natural = s.method.Alg()
					if meth != nil {
						natural = meth.Alg()
					}
				}
				algs := []any{natural, "none", "HS256", "RS256", "ES256", "HS384", "FOO", nil, 7, ""}
				if s == nil {
					algs = []any{"none", "None", "NONE", "HS256", nil}
				}
				for _, alg := range algs {
					kids := []any{nil, "k1", "k2", "zz"}
					if s != nil && s.kid != nil {
						kids = []any{nil, *s.kid, "zz"}
					}
					for _, kid := range kids {
						c := d.goodCase()
						c.keys, c.signer, c.method, c.hdrAlg, c.hdrKid = ks, s, meth, alg, kid
						d.jwtOp(c)
					}
				}
			}
		}
	}
}

func (d *drv) runAudience() {
	hosts := []string{"", "galene.org:8443", "Galene.ORG:8443", "galene.org"}
	type av struct {
		aud  any
		note string
	}
	auds := []av{
		{"https://galene.org:8443/group/a/", "right"},
		{"https://GALENE.org:8443/group/a/", "case"},
		{"https://galene.org/group/a/", "noport"},
		{"https://evil.org:8443/group/a/", "wronghost"},
		{"https://galene.org:8443/group/a", "noslash"},
		{"https://galene.org:8443/group/", "root"},
		{"https://galene.org:8443/group/ab/", "ab"},
		{"https://galene.org:8443/group/a/b/", "child"},
		{"https://galene.org:8443/group/a/?x=1#f", "query"},
		{"https://galene.org:8443/group/%61/", "escaped"},
		{"/group/a/", "nohost"},
		{"https://galene.org:8443/group/a/../b/", "dotdot"},
		{[]string{"https://evil.org/group/a/", "https://galene.org:8443/group/a/"}, "list-second"},
		{[]string{"http://[::1", "https://galene.org:8443/group/a/"}, "list-unparsable-first"},
		{[]string{"https://galene.org:8443/group/b/", "https://evil.org/group/a/"}, "list-split"},
		{[]any{"https://galene.org:8443/group/a/", 5}, "list-nonstring"},
		{"http://[::1", "unparsable"},
		{5, "number"},
		{nil, "absent"},
		{[]string{}, "empty"},
	}
	groups := []string{"a", "ab", "a/b", "a/bc", "b", "", "a/"}
	incls := []any{nil, true, false, "true"}
	for _, h := range hosts {
		for ai, a := range auds {
			d.hist("jwt-audience-" + a.note)
			_ = ai
			for _, g := range groups {
				for _, in := range incls {
					c := d.goodCase()
					c.host, c.aud, c.group, c.incl = h, a.aud, g, in
					d.jwtOp(c)
				}
			}
		}
	}
}

func (d *drv) runTimes() {
	exps := []any{nil, -3600, -6, -5, -3, -2, 2, 3600, literal{0}, "soon", 3.7, -5.5, true}
	nbfs := []any{nil, -3600, -10, 5, 7, 3600, "x", 4.5}
	iats := []any{nil, -10, 5, 7, 3600, "y"}
	d.hist("jwt-times")
	for _, e := range exps {
		for _, nb := range nbfs {
			for _, ia := range iats {
				if d.nops >= 200 {
					d.hist("jwt-times")
				}
				c := d.goodCase()
				c.exp, c.nbf, c.iat = e, nb, ia
				d.jwtOp(c)
			}
		}
	}
	// exp: 0 literally (read as absent), and claims of other shapes
	d.hist("jwt-claims")
	for _, sub := range []any{nil, "", "john", "alice", 5, []string{"x"}} {
		for _, perms := range []any{nil, "null", []string{}, []string{"present"}, []string{"op", "present", "admin"}, "present", []any{"present", 5}, 7} {
			c := d.goodCase()
			c.sub, c.perms = sub, perms
			d.jwtOp(c)
		}
	}
}

// ---------------------------------------------------------------- (d) GetPermission, (e) global admin

func (d *drv) setHost(h string) {
	dir, ok := d.dirs[h]
	if !ok {
		dir = filepath.Join(d.tmp, fmt.Sprintf("data%d", len(d.dirs)))
		os.MkdirAll(dir, 0700)
		// a config.json in every directory, also for "no canonical host":
		// GetConfiguration keeps the previous configuration when the file
		// does not exist (it never records modTime/fileSize of what it
		// loaded, so Zero() stays true); distinct sizes for good measure
		conf := map[string]any{}
		if h != "" {
			conf["canonicalHost"] = h
		}
		b, _ := json.Marshal(conf)
		b = append(b, []byte(strings.Repeat("\n", len(d.dirs)+1))...)
		os.WriteFile(filepath.Join(dir, "config.json"), b, 0600)
		d.dirs[h] = dir
	}
	group.DataDirectory = dir
}

// tokspec is a credential: a stored token, a signed token, or an unknown string.
type tokspec struct {
	kind            byte // 'S', 'J', 'N'
	tg              string
	sub             bool
	user            *string
	perms           []string
	expOff, nbfOff  *time.Duration
	jc              *jcase
	tokenUser       string // username written in the token ("" if none)
	tokenHasNoUser  bool
	insideWindow    bool
}

func (d *drv) realize(ts *tokspec, baseT time.Time) (cred string, keys []map[string]any, fields []any, jf *jcase) {
	switch ts.kind {
	case 'N':
		return "no-such-token", nil, []any{"N"}, nil
	case 'S':
		d.tokseq++
		name := fmt.Sprintf("st%d", d.tokseq)
		st := &token.Stateful{Token: name, Group: ts.tg, IncludeSubgroups: ts.sub, Username: ts.user, Permissions: ts.perms}
		if ts.expOff != nil {
			e := baseT.Add(*ts.expOff)
			st.Expires = &e
		}
		if ts.nbfOff != nil {
			nb := baseT.Add(*ts.nbfOff)
			st.NotBefore = &nb
		}
		if _, err := token.Update(st, ""); err != nil {
			panic(fmt.Sprintf("token.Update: %v", err))
		}
		return name, nil, []any{"S", hx(ts.tg), ts.sub, ohx(ts.user), lst(ts.perms), optNs(d.base, ts.expOff), optNs(d.base, ts.nbfOff)}, nil
	default:
		s, f, _, _, _, _, _, _, _, _ := d.jwtFields(ts.jc, baseT.Unix())
		return s, keyMaps(ts.jc.keys), append([]any{"J"}, f...), ts.jc
	}
}

func (d *drv) vgnTable(names ...string) string {
	seen := map[string]bool{}
	var o []string
	for _, n := range names {
		if seen[n] {
			continue
		}
		seen[n] = true
		o = append(o, hx(n)+":"+tr.B(group.VerifTokenValidGroupName(n)))
	}
	sort.Strings(o)
	if len(o) == 0 {
		return "-"
	}
	return strings.Join(o, ",")
}

func (d *drv) permOp(ts *tokspec, host, g string, users []string, cu *string) {
	var obs string
	var fields []any
	var u string
	var p []string
	var err error
	for attempt := 0; attempt < 8; attempt++ {
		t0 := time.Now()
		cred, keys, f, _ := d.realize(ts, t0)
		fields = f
		desc := &group.Description{AuthKeys: keys, Users: map[string]group.UserDescription{}}
		for _, n := range users {
			desc.Users[n] = group.UserDescription{}
		}
		d.setHost(host)
		u, p, err = desc.GetPermission(g, group.ClientCredentials{Username: cu, Token: cred})
		lim := 400 * time.Millisecond
		if ts.kind == 'J' {
			lim = 1800*time.Millisecond - time.Duration(t0.Nanosecond())
		}
		if time.Since(t0) < lim {
			break
		}
	}
	var na *group.NotAuthorisedError
	switch {
	case err == nil:
		obs = "ok " + hx(u) + " " + lst(p)
	case errors.Is(err, group.ErrUsernameRequired):
		obs = "required"
	case err == group.ErrDuplicateUsername:
		obs = "duplicate"
	case errors.As(err, &na):
		obs = "notauth"
	default:
		obs = "other"
	}
	cuName := ""
	if cu != nil {
		cuName = *cu
	}
	args := []any{d.base, hx(host), hx(g), lst(users), ohx(cu), d.vgnTable(ts.tokenUser, cuName, "")}
	args = append(args, fields...)
	d.t.Op(obs, "perm", args...)
	d.count(err == nil)

	// ---- monitors
	configured := func(n string) bool {
		for _, x := range users {
			if x == n {
				return true
			}
		}
		return false
	}
	d.t.Checked("C09.exact_perms_username")
	if err == nil {
		var wantPerms []string
		switch ts.kind {
		case 'S':
			wantPerms = ts.perms
		case 'J':
			wantPerms, _ = ts.jc.perms.([]string)
		}
		if ts.kind == 'N' || !sameComps(p, wantPerms) {
			d.t.Fail("C09", "exact_perms_username", fmt.Sprintf("GetPermission granted %v, the token says %v", p, wantPerms))
		}
		if ts.tokenUser != "" && u != ts.tokenUser {
			d.t.Fail("C09", "exact_perms_username", fmt.Sprintf("username %q granted although the token says %q (client asked for %v)", u, ts.tokenUser, ohx(cu)))
		}
		if ts.tokenUser == "" && u != cuName {
			d.t.Fail("C09", "exact_perms_username", fmt.Sprintf("username %q granted, the client asked for %q and the token has none", u, cuName))
		}
		d.t.Checked("C09.no_shadow")
		if ts.tokenUser == "" && configured(u) {
			d.t.Fail("C09", "no_shadow", fmt.Sprintf("client-chosen username %q is a configured user and was accepted with a token that carries no username", u))
		}
	}
	if cu != nil && configured(*cu) && ts.tokenUser == "" {
		d.t.Checked("C09.no_shadow")
		if err == nil {
			d.t.Fail("C09", "no_shadow", fmt.Sprintf("username %q of a configured user accepted", *cu))
		}
	}
}

func (d *drv) gadminOp(ts *tokspec, host string) {
	var fields []any
	var ok bool
	for attempt := 0; attempt < 8; attempt++ {
		t0 := time.Now()
		cred, _, f, _ := d.realize(ts, t0)
		fields = f
		d.setHost(host)
		ok, _ = webserver.VerifTokenCheckGlobalAdmin(cred)
		if time.Since(t0) < 400*time.Millisecond {
			break
		}
	}
	args := append([]any{d.base, hx(host)}, fields...)
	d.t.Op(tr.B(ok), "gadmin", args...)
	d.count(ok)
	d.t.Checked("C09.global_admin")
	if ok {
		good := ts.kind == 'S' && ts.tg == "" && ts.sub && ts.insideWindow
		has := false
		for _, p := range ts.perms {
			if p == "admin" {
				has = true
			}
		}
		if !good || !has {
			d.t.Fail("C09", "global_admin", fmt.Sprintf("token kind=%c group=%q subgroups=%v perms=%v insideWindow=%v accepted as global administrator",
				ts.kind, ts.tg, ts.sub, ts.perms, ts.insideWindow))
		}
	}
}

func (d *drv) storedSpec(tg string, sub bool, user *string, perms []string, expOff, nbfOff *time.Duration) *tokspec {
	ts := &tokspec{kind: 'S', tg: tg, sub: sub, user: user, perms: perms, expOff: expOff, nbfOff: nbfOff}
	if user != nil {
		ts.tokenUser = *user
	}
	ts.insideWindow = expOff != nil && *expOff > 0 && (nbfOff == nil || *nbfOff < 0)
	return ts
}

func (d *drv) signedSpec(c *jcase) *tokspec {
	ts := &tokspec{kind: 'J', jc: c}
	if s, ok := c.sub.(string); ok {
		ts.tokenUser = s
	}
	return ts
}

func (d *drv) runPermission() {
	hour, mhour := time.Hour, -time.Hour
	users := []string{"alice", "root"}
	cus := []*string{nil, sp("bob"), sp("alice"), sp(""), sp("../x"), sp("a\\b")}
	tusers := []*string{nil, sp(""), sp("carol"), sp("alice"), sp("c/../d")}
	d.hist("perm-stateful")
	for _, tu := range tusers {
		for _, cu := range cus {
			for _, g := range []string{"g", "g/h", "h"} {
				for _, e := range []*time.Duration{&hour, &mhour, nil} {
					d.permOp(d.storedSpec("g", true, tu, []string{"present", "op"}, e, nil), "", g, users, cu)
				}
			}
		}
	}
	d.hist("perm-signed")
	for _, sub := range []any{nil, "", "carol", "alice", "c/../d", 5} {
		for _, cu := range cus {
			for _, g := range []string{"a", "ab"} {
				for _, host := range []string{"", "GALENE.org:8443", "other.org"} {
					c := d.goodCase()
					c.sub, c.group = sub, g
					d.permOp(d.signedSpec(c), host, g, users, cu)
				}
			}
		}
	}
	d.hist("perm-unknown")
	for _, cu := range cus {
		d.permOp(&tokspec{kind: 'N'}, "", "g", users, cu)
		// signed with a key the group does not have
		c := d.goodCase()
		c.signer = d.mat.unk
		d.permOp(d.signedSpec(c), "", "a", users, cu)
		// expired signed token
		c = d.goodCase()
		c.exp = -3600
		d.permOp(d.signedSpec(c), "", "a", users, cu)
	}
}

func (d *drv) runGlobalAdmin() {
	hour, mhour := time.Hour, -time.Hour
	d.hist("global-admin")
	for _, tg := range []string{"", "a", "/"} {
		for _, sub := range []bool{false, true} {
			for _, perms := range [][]string{{"admin"}, {"op", "admin"}, {"op"}, nil, {"Admin"}} {
				type win struct{ e, n *time.Duration }
				for _, w := range []win{{&hour, nil}, {&mhour, nil}, {nil, nil}, {&hour, &hour}, {&hour, &mhour}} {
					d.gadminOp(d.storedSpec(tg, sub, nil, perms, w.e, w.n), "")
				}
			}
		}
	}
	d.gadminOp(&tokspec{kind: 'N'}, "")
	for _, aud := range []string{"https://galene.org:8443/group/", "https://galene.org:8443/group//"} {
		for _, host := range []string{"", "galene.org:8443"} {
			c := d.goodCase()
			c.aud, c.incl, c.perms, c.group = aud, true, []string{"admin"}, ""
			d.gadminOp(d.signedSpec(c), host)
		}
	}
}

// ---------------------------------------------------------------- seeded mixtures

func (d *drv) pickStr(opts ...string) string { return opts[d.r.Intn(len(opts))] }

func (d *drv) randName(maxLen int) string {
	n := d.r.Intn(maxLen + 1)
	b := make([]byte, n)
	for i := range b {
		b[i] = "aab/."[d.r.Intn(5)]
	}
	return string(b)
}

func (d *drv) runRandom(n int) {
	sets := d.keySets()
	m := d.mat
	all := []*jwk{m.hs[0], m.hs[1], m.hs[2], m.hs[3], m.es[0], m.es[1], m.rs[0], m.unk}
	for hi := 0; hi < n; hi++ {
		d.hist("mixed")
		nops := d.r.Range(6, 14)
		for i := 0; i < nops; i++ {
			switch d.r.Pick(4, 3, 2, 2, 1) {
			case 0: // signed token, everything random
				c := d.goodCase()
				c.keys = sets[d.r.Intn(len(sets))]
				if len(c.keys) > 0 && d.r.Chance(3, 4) {
					c.signer = c.keys[d.r.Intn(len(c.keys))]
				} else {
					c.signer = all[d.r.Intn(len(all))]
				}
				c.hdrAlg = c.signer.method.Alg()
				if _, ok := c.signer.sign.([]byte); ok && d.r.Chance(1, 4) {
					c.method = []jwt.SigningMethod{jwt.SigningMethodHS256, jwt.SigningMethodHS384, jwt.SigningMethodHS512}[d.r.Intn(3)]
					c.hdrAlg = c.method.Alg()
				}
				if d.r.Chance(1, 5) {
					c.hdrAlg = []any{"none", "HS256", "HS384", "HS512", "RS256", "ES256", "PS256", "EdDSA", nil}[d.r.Intn(9)]
				}
				if d.r.Chance(1, 3) {
					c.hdrKid = d.pickStr("k1", "k2", "k3", "k4", "k9", "zz")
				}
				tg := d.randName(4)
				c.group = tg
				switch d.r.Pick(3, 2, 2, 1) {
				case 1:
					c.group = tg + "/" + d.randName(2)
				case 2:
					c.group = tg + d.pickStr("a", "b", ".", "/")
				case 3:
					c.group = d.randName(4)
				}
				h := d.pickStr("galene.org:8443", "GALENE.ORG:8443", "galene.org", "x.example")
				c.aud = "https://" + h + "/group/" + tg + "/"
				if tg == "" && d.r.Bool() {
					c.aud = "https://" + h + "/group/"
				}
				c.host = d.pickStr("", "galene.org:8443", "Galene.Org:8443", "x.example")
				c.incl = []any{nil, true, false}[d.r.Intn(3)]
				c.exp = []any{3600, 3600, 3600, -3, -6, nil, 2}[d.r.Intn(7)]
				c.nbf = []any{nil, nil, -10, 5, 7}[d.r.Intn(5)]
				c.sub = []any{nil, "john", "", "alice"}[d.r.Intn(4)]
				d.jwtOp(c)
			case 1: // stored token
				tg := d.randName(5)
				g := tg
				switch d.r.Pick(3, 2, 2, 1) {
				case 1:
					g = tg + "/" + d.randName(3)
				case 2:
					g = tg + d.pickStr("a", "b", ".", "/")
				case 3:
					g = d.randName(5)
				}
				offs := []time.Duration{-time.Hour, -time.Second, time.Second, time.Hour}
				var e, nb *time.Duration
				if d.r.Chance(5, 6) {
					e = &offs[d.r.Pick(1, 1, 2, 4)]
				}
				if d.r.Chance(1, 3) {
					nb = &offs[d.r.Pick(4, 2, 1, 1)]
				}
				var user *string
				if d.r.Bool() {
					user = sp(d.pickStr("", "u", "alice"))
				}
				d.scheck(tg, d.r.Bool(), user, []string{"present"}[:d.r.Intn(2)], e, nb, g)
			case 2:
				tg, g := d.randName(6), d.randName(7)
				if d.r.Bool() {
					g = tg + d.randName(3)
				}
				d.smatch(tg, d.r.Bool(), g, true)
			case 3:
				tg, g := d.randName(6), d.randName(7)
				if d.r.Bool() {
					g = tg + d.randName(3)
				}
				p := "/group/" + tg + d.pickStr("/", "/", "/", "", "//")
				if d.r.Chance(1, 8) {
					p = d.pickStr("/group", "/group/", "/groupx/a/", "")
				}
				d.jmatch(p, d.r.Bool(), g, true)
			default:
				hour, mhour := time.Hour, -time.Hour
				var user *string
				if d.r.Bool() {
					user = sp(d.pickStr("", "carol", "alice"))
				}
				var cu *string
				if d.r.Chance(3, 4) {
					cu = sp(d.pickStr("bob", "alice", "", ".."))
				}
				e := &hour
				if d.r.Chance(1, 5) {
					e = &mhour
				}
				d.permOp(d.storedSpec("g", d.r.Bool(), user, []string{"present"}, e, nil), "", d.pickStr("g", "g/h", "gg"), []string{"alice"}, cu)
			}
		}
	}
}

// ---------------------------------------------------------------- malformed stream

func (d *drv) runMalformed() {
	d.hist("malformed")
	keys := []map[string]any{d.mat.hs[0].m}
	c := d.goodCase()
	good, _, _, _, _, _, _, _, _, _ := d.jwtFields(c, time.Now().Unix())
	parts := strings.Split(good, ".")
	bad := []string{"", ".", "..", "a.b", "a.b.c", "a.b.c.d", parts[0] + "." + parts[1], parts[0] + "." + parts[1] + ".",
		parts[0] + "." + parts[1] + ".!!!", parts[0] + ".%%%." + parts[2], "!!." + parts[1] + "." + parts[2],
		good + ".", "." + good, good[:len(good)-2], strings.ToUpper(good), parts[1] + "." + parts[0] + "." + parts[2],
		b64([]byte("{}")) + "." + parts[1] + "." + parts[2], b64([]byte(`{"alg":"HS256"}`)) + "." + b64([]byte("[]")) + "." + parts[2]}
	for _, s := range bad {
		tk, err := token.Parse(s, keys)
		d.t.Checked("C09.malformed_never_accepted")
		accepted := false
		if err == nil && tk != nil && !reflect.ValueOf(tk).IsNil() {
			if _, _, cerr := tk.Check("galene.org:8443", "a"); cerr == nil {
				accepted = true
			}
		}
		if accepted {
			d.t.Fail("C09", "malformed_never_accepted", fmt.Sprintf("malformed token %q accepted", s))
		}
		d.t.Op("-", "bwin", "malformed", len(s))
		d.count(accepted)
	}
	d.acc = 1
}

// ---------------------------------------------------------------- main

// runBrokenConfig: the audience of a signed token is compared with the
// server's canonical host, which comes from config.json.  While that file
// cannot be read the server does not know its own name: a token that names
// ANOTHER server as its audience must not be accepted in the meantime, in
// particular not right after a start (no configuration loaded before) or
// after the file was absent.  Monitors only.
func (d *drv) runBrokenConfig() {
	d.hist("broken-config")
	absent := filepath.Join(d.tmp, "data-absent")
	os.MkdirAll(absent, 0700)
	for i, content := range []string{
		`{"canonicalHost": "galene.org:8443", "writeableGroups": true}`, // a misspelt field
		`{"canonicalHost": "galene.org:8443", "users": {"root": {"password":`, // cut in mid-write
		`{"canonicalHost": "galene.org:8443"} trailing`,
	} {
		dir := filepath.Join(d.tmp, fmt.Sprintf("data-broken%d", i))
		os.MkdirAll(dir, 0700)
		os.WriteFile(filepath.Join(dir, "config.json"), []byte(content), 0600)
		for _, aud := range []string{"https://evil.org:8443/group/a/", "https://galene.org:8443/group/a/"} {
			// forget whatever was loaded: the file is absent for one read
			group.DataDirectory = absent
			group.GetConfiguration()
			group.DataDirectory = dir
			c := d.goodCase()
			c.aud = aud
			ts := d.signedSpec(c)
			cred, keys, _, _ := d.realize(ts, time.Now())
			desc := &group.Description{AuthKeys: keys, Users: map[string]group.UserDescription{}}
			_, _, err := desc.GetPermission("a", group.ClientCredentials{Token: cred})
			d.t.Checked("C09.audience_with_unreadable_config")
			if err == nil && strings.Contains(aud, "evil.org") {
				d.t.Fail("C09", "audience_with_unreadable_config", fmt.Sprintf("config.json names the canonical host galene.org:8443 but cannot be decoded (%q); a signed token whose audience is %s (another server) was accepted for group a", content, aud))
			}
		}
	}
	d.setHost("")
	group.GetConfiguration()
}

func runToken(t *tr.Trace, r *tr.Rand, n int) {
	tmp, err := os.MkdirTemp("", "verif-token-")
	if err != nil {
		panic(err)
	}
	defer os.RemoveAll(tmp)
	d := &drv{t: t, r: r, far: time.Now().Add(1000 * time.Hour), dirs: map[string]string{}, tmp: tmp}
	d.mat = newMaterial(r)
	token.SetStatefulFilename(filepath.Join(tmp, "tokens.jsonl"))
	d.setHost("")

	// the signing methods golang-jwt knows (the model's jwt_methods)
	d.hist("methods")
	algs := jwt.GetAlgorithms()
	sort.Strings(algs)
	t.Op(strings.Join(algs, ","), "methods")
	d.acc, d.rej = 1, 1

	d.runScope(n)
	d.runWindow()
	d.runKeys()
	d.runAudience()
	d.runTimes()
	d.runPermission()
	d.runGlobalAdmin()
	d.runMalformed()
	d.runBrokenConfig()
	rounds := 1 + n/1000
	if rounds > 4 {
		rounds = 4
	}
	for i := 0; i < rounds; i++ {
		d.runBoundary()
	}
	d.runRandom(n)
	d.flush()
}

func main() { tr.Main(runToken) }

package main

import (
	"fmt"

	"verifharness/internal/sigdrv"
	"verifharness/internal/tr"
)

type ruser struct {
	name, pw string
	perms    []string
}

var rusers = []ruser{
	{"oper", "pwo", []string{"op", "present", "message", "caption", "record", "token"}},
	{"mod", "pwm", []string{"op", "message"}},
	{"pres", "pwr", []string{"present", "message"}},
	{"plain", "pwp", []string{"message"}},
	{"mute", "pwu", nil},
	{"tok", "pwt", []string{"token", "present", "message"}},
	{"optok", "pwk", []string{"op", "token"}},
}

var words = []string{"hello", "bye", "x", "lunch", "later", "ok"}

func randomHistory(t *tr.Trace, r *tr.Rand, idx int) {
	h := newHist(t, r, "random")
	defer h.close()
	groups := []string{"ra", "rb"}
	for gi, g := range groups {
		var us []sigdrv.User
		for _, u := range rusers {
			if gi == 1 && (u.name == "mod" || u.name == "tok") {
				continue // rb has fewer configured users
			}
			us = append(us, sigdrv.User{Name: u.name, Password: u.pw, Permissions: u.perms})
		}
		spec := sigdrv.GroupSpec{Name: g, Users: us, AllowRecording: r.Bool()}
		if r.Chance(1, 4) {
			spec.MaxClients = r.Range(2, 4)
		}
		if r.Chance(1, 3) {
			spec.WildcardUser = &sigdrv.User{Password: "guest", Permissions: []string{"message"}}
		}
		h.mkgroup(spec)
	}
	ids := []string{"c0", "c1", "c2", "c3", "c4", "c5"}
	var toks []string // canonical token names seen
	live := func() []*cl {
		var out []*cl
		for _, c := range h.cs {
			if !c.c.Dead {
				out = append(out, c)
			}
		}
		return out
	}
	pickID := func() string {
		if r.Chance(1, 12) {
			return "nobody"
		}
		return ids[r.Intn(len(ids))]
	}
	joins := 0
	goodUp := map[int]map[string]bool{} // up ids created by an accepted offer
	nsteps := r.Range(30, 110)
	for s := 0; s < nsteps; s++ {
		ls := live()
		if len(h.cs) < 7 && (len(ls) < 2 || r.Chance(1, 12)) {
			id := ids[len(h.cs)%len(ids)]
			if r.Chance(1, 8) {
				id = ids[r.Intn(len(ids))] // possibly a duplicate id
				t.Note("maybe-duplicate-id")
			}
			h.client(id)
			continue
		}
		if len(ls) == 0 {
			break
		}
		c := ls[r.Intn(len(ls))]
		g := c.c.GroupName()
		member := c.c.HasGroup()
		switch r.Pick(30, 10, 3, 1, 10, 4, 8, 6, 3, 3, 5, 3, 3, 2, 3, 2) {
		case 0: // serve somebody's action queue
			h.pump(c)
			if len(h.pendingMods) > 0 {
				t.Note("pump-with-pending-moderation")
			}
		case 1: // join
			tg := groups[r.Intn(2)]
			u := rusers[r.Intn(len(rusers))]
			m := join(tg, u.name, u.pw)
			switch {
			case r.Chance(1, 40):
				m.Pw = "wrong"
				t.Note("join-wrong-password")
			case r.Chance(1, 10) && len(toks) > 0:
				m = &smsg{Type: "join", Kind: "join", Group: tg, Token: toks[r.Intn(len(toks))]}
				if r.Bool() {
					m.User = sp("guest" + fmt.Sprint(r.Intn(3)))
				}
				t.Note("join-with-token")
			case r.Chance(1, 15):
				m = join(tg, "visitor", "guest")
			}
			if member {
				t.Note("join-while-member")
				if !r.Chance(1, 6) {
					continue // it only closes the connection
				}
			}
			sr := h.send(c, m)
			if c.c.HasGroup() && sr.grp == "" {
				joins++
			} else if !member {
				t.Note("join-refused")
			}
		case 2: // leave
			lg := g
			if lg == "" || r.Chance(1, 10) {
				lg = groups[r.Intn(2)]
			}
			if !member && !r.Chance(1, 4) {
				continue
			}
			h.send(c, leave(lg))
		case 3:
			h.disc(c)
		case 4: // moderation
			kinds := []string{"op", "unop", "present", "unpresent", "shutup", "unshutup"}
			h.send(c, &smsg{Type: "useraction", Kind: kinds[r.Intn(len(kinds))], Dest: pickID()})
			if !member {
				t.Note("moderation-by-non-member")
			}
		case 5: // lock / unlock
			k := "lock"
			if r.Bool() {
				k = "unlock"
			}
			m := &smsg{Type: "groupaction", Kind: k}
			if r.Chance(1, 3) {
				m.Value = val{Kind: "s", S: words[r.Intn(len(words))]}
			}
			h.send(c, m)
		case 6: // chat
			m := &smsg{Type: "chat", ID: fmt.Sprintf("m%d", s), Value: val{Kind: "s", S: words[r.Intn(len(words))]}}
			if r.Chance(1, 5) {
				m.Kind = "caption"
			}
			if r.Chance(1, 3) {
				m.Dest = pickID()
			}
			if r.Chance(1, 2) {
				m.Source = c.id
			}
			if r.Chance(1, 4) {
				m.NoEcho = true
			}
			if r.Chance(1, 10) {
				m.Type = "usermessage"
				m.Kind = "note"
			}
			h.send(c, m)
		case 7: // maketoken
			var ps []string
			for _, p := range allPerms {
				if r.Chance(1, 4) {
					ps = append(ps, p)
				}
			}
			tg := g
			if tg == "" || r.Chance(1, 8) {
				tg = groups[r.Intn(2)]
			}
			ts := tokSpec{Group: tg, Perms: ps, HasPerms: true, Expires: ip(3600000)}
			if r.Chance(1, 8) {
				ts.Expires = nil
			}
			if r.Chance(1, 6) {
				ts.User = sp([]string{"oper", "bob", "plain"}[r.Intn(3)])
			}
			if r.Chance(1, 10) {
				ts.Token = "chosen"
			}
			before := len(h.tokCanon)
			h.send(c, &smsg{Type: "groupaction", Kind: "maketoken", Value: val{Kind: "t", T: ts}})
			for i := before; i < len(h.tokCanon); i++ {
				toks = append(toks, fmt.Sprintf("T%03d", i))
			}
		case 8: // edittoken
			name := "nosuch"
			if len(toks) > 0 {
				name = toks[r.Intn(len(toks))]
			}
			ts := tokSpec{Token: name}
			if r.Bool() {
				ts.Expires = ip(int64(r.Pick(1, 1)*2-1) * 3600000)
			} else {
				ts.NB = ip(-3600000)
			}
			if r.Chance(1, 8) {
				ts.Group = groups[r.Intn(2)]
			}
			h.send(c, &smsg{Type: "groupaction", Kind: "edittoken", Value: val{Kind: "t", T: ts}})
		case 9:
			h.send(c, &smsg{Type: "groupaction", Kind: "listtokens"})
		case 10: // offer / close
			if r.Chance(1, 4) {
				h.send(c, &smsg{Type: "close", ID: fmt.Sprintf("u%d", r.Intn(2))})
			} else {
				m := &smsg{Type: "offer", ID: fmt.Sprintf("u%d", r.Intn(2)), SDP: "min"}
				switch r.Pick(6, 2, 1) {
				case 1:
					m.SDP = "bad"
				case 2:
					m.SDP = "good"
				}
				if r.Chance(1, 5) {
					m.Replace = fmt.Sprintf("u%d", r.Intn(2))
				}
				// what pion answers to a further offer on a peer
				// connection that refused one before, or that was just
				// closed by replacing itself, is not modelled: such
				// offers are only sent with a description it refuses
				exists := has(c.c.UpIds(), m.ID)
				if m.SDP == "good" && ((exists && !goodUp[c.h][m.ID]) || m.Replace == m.ID) {
					m.SDP = "min"
				}
				if !exists {
					if goodUp[c.h] == nil {
						goodUp[c.h] = map[string]bool{}
					}
					goodUp[c.h][m.ID] = m.SDP == "good"
				}
				h.send(c, m)
			}
		case 11:
			h.send(c, &smsg{Type: "request", Req: reqv{Kind: "m", M: [][2]string{{"", "audio+video"}}}})
		case 12: // kick
			m := &smsg{Type: "useraction", Kind: "kick", Dest: pickID()}
			if r.Bool() {
				m.Value = val{Kind: "s", S: words[r.Intn(len(words))]}
			}
			h.send(c, m)
		case 13: // setdata / identify / clearchat / subgroups
			switch r.Intn(5) {
			case 0:
				h.send(c, &smsg{Type: "useraction", Kind: "setdata", Dest: c.id, Value: val{Kind: "m", M: [][2]string{{"k", words[r.Intn(len(words))]}}}})
			case 1:
				h.send(c, &smsg{Type: "useraction", Kind: "identify", Dest: pickID()})
			case 2:
				h.send(c, &smsg{Type: "groupaction", Kind: "clearchat"})
			case 3:
				h.send(c, &smsg{Type: "groupaction", Kind: "subgroups"})
			default:
				h.send(c, &smsg{Type: "groupaction", Kind: "setdata", Value: val{Kind: "m", M: [][2]string{{"k", words[r.Intn(len(words))]}}}})
			}
		case 14:
			h.quiesce()
		case 15:
			h.send(c, &smsg{Type: "ping"})
		}
		h.drainAll()
		if s%5 == 4 {
			for _, g := range groups {
				h.state(g)
			}
		}
	}
	h.quiesce()
	h.drainAll()
	for _, g := range groups {
		h.state(g)
	}
	for _, c := range h.cs {
		h.ups(c)
	}
	if joins >= 2 {
		t.Nontrivial(fmt.Sprintf("random/%d/%d/%d", idx, joins, nsteps))
	}
}

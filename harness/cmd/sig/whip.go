package main

// whip.go: the WHIP part of C11 on the real handlers of webserver/whip.go
// (through httptest, no network): an ingest session is created only with
// credentials granting `present`; a refusal leaves no member behind; a
// request on a session created with a bearer token is served only with
// that token.  Monitors only (the model Model/Whip.v takes the admission
// result as an argument).

import (
	"fmt"
	"net/http"
	"net/http/httptest"
	"strings"

	"github.com/jech/galene/webserver"

	"verifharness/internal/sigdrv"
	"verifharness/internal/tr"
)

func whipPost(g, bearer, sdp string) *httptest.ResponseRecorder {
	req := httptest.NewRequest("POST", "/group/"+g+"/.whip", strings.NewReader(sdp))
	req.Header.Set("Content-Type", "application/sdp")
	if bearer != "" {
		req.Header.Set("Authorization", "Bearer "+bearer)
	}
	rec := httptest.NewRecorder()
	webserver.VerifWhipEndpoint(rec, req)
	return rec
}

func whipResource(method, location, bearer string) *httptest.ResponseRecorder {
	req := httptest.NewRequest(method, location, strings.NewReader(""))
	if bearer != "" {
		req.Header.Set("Authorization", "Bearer "+bearer)
	}
	rec := httptest.NewRecorder()
	webserver.VerifWhipResource(rec, req)
	return rec
}

func whipHistory(t *tr.Trace, r *tr.Rand) {
	h := newHist(t, r, "whip")
	defer h.close()
	if err := webserver.VerifSigSetStaticRoot(h.w.Dir); err != nil {
		panic(err)
	}
	// wg: tokens only; wp: a user "whip" without password who may present;
	// wm: a user "whip" without password who may not
	h.mkgroup(sigdrv.GroupSpec{Name: "wg", Users: []sigdrv.User{opUser()}})
	h.mkgroup(sigdrv.GroupSpec{Name: "wp", Users: []sigdrv.User{{Name: "whip", Password: "", Permissions: []string{"present"}}}})
	h.mkgroup(sigdrv.GroupSpec{Name: "wm", Users: []sigdrv.User{{Name: "whip", Password: "", Permissions: []string{"message"}}}})
	o := h.client("o")
	h.send(o, join("wg", "oper", "pwo"))
	h.quiesce()
	h.send(o, &smsg{Type: "groupaction", Kind: "maketoken", Value: val{Kind: "t", T: tokSpec{Group: "wg", User: sp("ingest"), Perms: []string{"present", "message"}, HasPerms: true, Expires: ip(3600000)}}})
	h.send(o, &smsg{Type: "groupaction", Kind: "maketoken", Value: val{Kind: "t", T: tokSpec{Group: "wg", User: sp("listener"), Perms: []string{"message"}, HasPerms: true, Expires: ip(3600000)}}})
	h.drainAll()
	good, weak := h.tokReal["T000"], h.tokReal["T001"]
	sdp := sigdrv.GoodOffer()
	members := func(g string) int { return len(h.w.Members(g)) }

	type attempt struct {
		name, g, bearer, sdp string
		grantsPresent        bool
	}
	base := members("wg")
	for _, a := range []attempt{
		{"no credentials", "wg", "", sdp, false},
		{"unknown token", "wg", "nosuchtoken", sdp, false},
		{"token without present", "wg", weak, sdp, false},
		{"token of another group", "wp", good, sdp, false},
		{"passwordless whip user without present", "wm", "", sdp, false},
		{"good token, garbage offer", "wg", good, "garbage", true},
	} {
		rec := whipPost(a.g, a.bearer, a.sdp)
		t.Checked("C11.whip_needs_present")
		if rec.Code == http.StatusCreated && !a.grantsPresent {
			t.Fail("C11", "whip_needs_present", fmt.Sprintf("WHIP session created for %s (status %d)", a.name, rec.Code))
		}
		t.Checked("C11.whip_refusal_leaves_nobody")
		want := 0
		if a.g == "wg" {
			want = base
		}
		if rec.Code != http.StatusCreated && members(a.g) != want {
			t.Fail("C11", "whip_refusal_leaves_nobody", fmt.Sprintf("%s: refused with status %d but group %s has %d members", a.name, rec.Code, a.g, members(a.g)))
		}
		t.Note(fmt.Sprintf("whip:%s:%d", strings.ReplaceAll(a.name, " ", "-"), rec.Code))
	}
	// every set of permissions that does not contain `present` (op included:
	// moderation rights are not publishing rights), as a token
	others := []string{"op", "message", "caption", "record", "token"}
	for mask := 1; mask < 1<<len(others); mask++ {
		var ps []string
		for i, p := range others {
			if mask&(1<<i) != 0 {
				ps = append(ps, p)
			}
		}
		n0 := len(h.tokCanon)
		h.send(o, &smsg{Type: "groupaction", Kind: "maketoken", Value: val{Kind: "t", T: tokSpec{Group: "wg", User: sp(fmt.Sprintf("np%d", mask)), Perms: ps, HasPerms: true, Expires: ip(3600000)}}})
		h.drainAll()
		if len(h.tokCanon) == n0 {
			continue
		}
		tok := h.tokReal[fmt.Sprintf("T%03d", n0)]
		rec := whipPost("wg", tok, sdp)
		t.Checked("C11.whip_needs_present")
		if rec.Code == http.StatusCreated {
			t.Fail("C11", "whip_needs_present", fmt.Sprintf("WHIP session created for a token that grants %v, not present (status %d)", ps, rec.Code))
		}
		if rec.Code != http.StatusCreated && members("wg") != base {
			t.Fail("C11", "whip_refusal_leaves_nobody", fmt.Sprintf("token granting %v: refused with status %d but group wg has %d members", ps, rec.Code, members("wg")))
		}
	}
	// a session with a bearer token
	rec := whipPost("wg", good, sdp)
	t.Checked("C11.whip_needs_present")
	if rec.Code != http.StatusCreated {
		t.Note(fmt.Sprintf("whip:good-token-not-created:%d", rec.Code))
	} else {
		loc := rec.Header().Get("Location")
		for _, b := range []string{"", "wrong", weak} {
			for _, m := range []string{"PATCH", "DELETE", "OPTIONS"} {
				rr := whipResource(m, loc, b)
				t.Checked("C11.whip_same_token")
				if rr.Code != http.StatusForbidden {
					t.Fail("C11", "whip_same_token", fmt.Sprintf("%s on a session created with a bearer token, presenting %q: status %d", m, b, rr.Code))
				}
			}
		}
		t.Checked("C11.whip_same_token")
		if members("wg") != base+1 {
			t.Fail("C11", "whip_same_token", "the session did not survive the refused requests")
		}
		rr := whipResource("DELETE", loc, good)
		if rr.Code == http.StatusForbidden || members("wg") != base {
			t.Fail("C11", "whip_same_token", fmt.Sprintf("DELETE with the right token: status %d, members %d", rr.Code, members("wg")))
		}
		t.Note("whip:token-session")
	}
	// a session without bearer token (what the code does NOT protect)
	rec = whipPost("wp", "", sdp)
	if rec.Code == http.StatusCreated {
		loc := rec.Header().Get("Location")
		rr := whipResource("DELETE", loc, "anything")
		t.Note(fmt.Sprintf("whip:tokenless-session-delete-with-foreign-token:%d", rr.Code))
	}
	t.Nontrivial("whip")
}

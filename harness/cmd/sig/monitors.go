package main

// monitors.go: direct executable statements of C11 on the implementation's
// behaviour only.  The specification table is written by hand from the
// property text, independently of the code and of the Coq model.

import (
	"fmt"
	"sort"
	"strings"
	"time"

	"verifharness/internal/sigdrv"
)

func timeNow() time.Time { return time.Now() }

// specRequired: the permissions the PROPERTY demands for a message
// (nil, false) = not a privileged action.
//
//	publishing needs present; chat needs message; captions caption;
//	moderation (op/unop/present/unpresent/shutup/unshutup/kick/identify/
//	lock/unlock/clearchat/setdata/subgroups) needs op; recording needs
//	record; token creation needs token; token listing/editing op and token.
func specRequired(typ, kind string) ([]string, bool) {
	switch typ {
	case "offer":
		return []string{"present"}, true
	case "chat":
		if kind == "caption" {
			return []string{"caption"}, true
		}
		return []string{"message"}, true
	case "usermessage":
		return []string{"message"}, true
	case "groupaction":
		switch kind {
		case "clearchat", "lock", "unlock", "setdata", "subgroups":
			return []string{"op"}, true
		case "record", "unrecord":
			return []string{"record"}, true
		case "maketoken":
			return []string{"token"}, true
		case "edittoken", "listtokens":
			return []string{"op", "token"}, true
		}
	case "useraction":
		switch kind {
		case "op", "unop", "present", "unpresent", "shutup", "unshutup", "kick", "identify":
			return []string{"op"}, true
		}
	}
	return nil, false
}

func isPermKind(k string) bool {
	switch k {
	case "op", "unop", "present", "unpresent", "shutup", "unshutup":
		return true
	}
	return false
}

func has(l []string, p string) bool {
	for _, x := range l {
		if x == p {
			return true
		}
	}
	return false
}

func subset(a, b []string) bool {
	for _, x := range a {
		if !has(b, x) {
			return false
		}
	}
	return true
}

func sameSet(a, b []string) bool {
	x := append([]string{}, a...)
	y := append([]string{}, b...)
	sort.Strings(x)
	sort.Strings(y)
	return strings.Join(x, ",") == strings.Join(y, ",")
}

// guardMonitor: the server attempted a privileged action (no refusal was
// sent) => the sender was a member holding the required permissions at that
// moment.
func (h *hist) guardMonitor(c *cl, m *smsg, sr sendResult) {
	req, priv := specRequired(m.Type, m.Kind)
	if !priv {
		return
	}
	h.t.Checked("C11.guard")
	if sr.auth != "passed" {
		return
	}
	if sr.grp == "" {
		h.t.Fail("C11", "guard", fmt.Sprintf("client %d, not a member of any group, sent %s/%s and was not refused (permissions %v)",
			c.h, m.Type, m.Kind, sr.perms))
		return
	}
	if !subset(req, sr.perms) {
		h.t.Fail("C11", "guard", fmt.Sprintf("client %d with permissions %v sent %s/%s (needs %v) and was not refused",
			c.h, sr.perms, m.Type, m.Kind, req))
	}
}

// afterStep runs after every operation on client c.
func (h *hist) afterStep(c *cl, what string) {
	defer h.prune()
	for _, x := range h.live {
		// a client that is not currently a member holds no permission
		h.t.Checked("C11.nonmember_none")
		p := x.c.Permissions()
		if !x.c.HasGroup() && len(p) != 0 {
			h.t.Fail("C11", "nonmember_none", fmt.Sprintf("after %s by client %d: client %d is in no group but holds %v", what, c.h, x.h, p))
		}
		if x != c {
			// nobody's permissions change because of what somebody else's
			// loop did (F10: shared slices)
			h.t.Checked("C11.bystander_unchanged")
			if !sameSet(p, x.perms) || x.grp != x.c.GroupName() {
				h.t.Fail("C11", "bystander_unchanged", fmt.Sprintf("after %s by client %d: permissions/group of client %d changed from %v/%q to %v/%q",
					what, c.h, x.h, x.perms, x.grp, p, x.c.GroupName()))
			}
		}
	}
	if what == "pump" {
		p := c.c.Permissions()
		if !sameSet(p, c.perms) && c.c.HasGroup() {
			// a permission change is applied only in the group in which an
			// operator issued it
			h.t.Checked("C11.moderation_same_group")
			ok := false
			for _, g := range h.pendingMods[c.h] {
				if g == c.c.GroupName() {
					ok = true
				}
			}
			if !ok {
				h.t.Fail("C11", "moderation_same_group", fmt.Sprintf("client %d in group %q went from %v to %v although no operator of that group moderated it (pending: %v)",
					c.h, c.c.GroupName(), c.perms, p, h.pendingMods[c.h]))
			}
		}
		// the last accepted moderation of each family decides whether the
		// permission is held once the target has served its queue
		if !c.c.Dead && c.c.HasGroup() {
			last := map[string]string{}
			for i, g := range h.pendingMods[c.h] {
				if g != c.c.GroupName() {
					continue
				}
				k := h.pendingKinds[c.h][i]
				switch k {
				case "op", "unop":
					last["op"] = k
				case "present", "unpresent":
					last["present"] = k
				case "shutup", "unshutup":
					last["message"] = k
				}
			}
			for perm, k := range last {
				h.t.Checked("C11.moderation_applied")
				grant := k == "op" || k == "present" || k == "unshutup"
				if has(p, perm) != grant {
					h.t.Fail("C11", "moderation_applied", fmt.Sprintf("client %d served its queue after an operator's %s: permissions %v", c.h, k, p))
				}
			}
		}
		delete(h.pendingMods, c.h)
		delete(h.pendingKinds, c.h)
		// revocation: the notification of a permission change is the
		// joined/change written by permissionsChangedAction, which closes
		// the up streams in the same handler; it runs in the service of the
		// queue that FOLLOWS the one in which the change was applied.  So:
		// a client that held no `present` already before this service, and
		// is told so in it, has no up stream left after it.  (A joined/change
		// caused by a lock or group-data change that is served in the same
		// batch as the permission change also shows the new set, one batch
		// before the streams are closed: observed, counted as a note.)
		for _, m := range c.msgs {
			if m.Type == "joined" && m.Kind == "change" && !has(m.Permissions, "present") {
				ids := c.c.UpIds()
				if has(c.perms, "present") {
					if len(ids) > 0 && !has(c.c.Permissions(), "present") {
						h.t.Note("early-joined-change-before-streams-closed")
					}
					continue
				}
				h.t.Checked("C11.unpresent_closes_streams")
				if len(ids) > 0 && !has(c.c.Permissions(), "present") {
					h.t.Fail("C11", "unpresent_closes_streams", fmt.Sprintf("client %d was notified of permissions %v but still has up streams %v", c.h, m.Permissions, ids))
				}
			}
		}
	}
	for _, x := range h.live {
		x.perms = x.c.Permissions()
		x.grp = x.c.GroupName()
	}
}

// prune drops the clients whose connection has ended from the live list
// (after they have been checked once more by afterStep).
func (h *hist) prune() {
	n := 0
	for _, x := range h.live {
		if !x.c.Dead {
			h.live[n] = x
			n++
		}
	}
	h.live = h.live[:n]
}

// tokenSnapshot: group -> canonical rendering of its tokens.
func (h *hist) tokenSnapshot() map[string]string {
	out := map[string]string{}
	gs := h.groups
	if h.tokGroups != nil {
		gs = h.tokGroups
	}
	for _, g := range gs {
		var l []string
		for _, t := range h.w.Tokens(g) {
			e, n := "", ""
			if t.Expires != nil {
				e = t.Expires.String()
			}
			if t.NotBefore != nil {
				n = t.NotBefore.String()
			}
			l = append(l, t.Token+"|"+strings.Join(t.Permissions, "+")+"|"+e+"|"+n)
		}
		sort.Strings(l)
		out[g] = strings.Join(l, ";")
	}
	return out
}

// tokenMonitors: run around a token action of client c (group grp, perms
// before).  Token listing/editing reach only the member's own group; a new
// token delegates only what its creator holds, for its own group, with an
// expiry, under a name chosen by the server.
func (h *hist) tokenMonitors(c *cl, m *smsg, sr sendResult, before map[string]string) {
	after := h.tokenSnapshot()
	for g := range after {
		if g == sr.grp {
			continue
		}
		h.t.Checked("C11.token_scope")
		if before[g] != after[g] {
			h.t.Fail("C11", "token_scope", fmt.Sprintf("client %d, member of %q, sent groupaction/%s and the tokens of group %q changed: %s -> %s",
				c.h, sr.grp, m.Kind, g, before[g], after[g]))
		}
	}
	if sr.grp != "" && before[sr.grp] != after[sr.grp] {
		h.t.Checked("C11.token_needs_permission")
		need := []string{"token"}
		if m.Kind == "edittoken" {
			need = []string{"op", "token"}
		}
		if !subset(need, sr.perms) {
			h.t.Fail("C11", "token_needs_permission", fmt.Sprintf("client %d with %v changed the tokens of %q by %s", c.h, sr.perms, sr.grp, m.Kind))
		}
	}
	for _, msg := range sr.msgs {
		if msg.Type != "usermessage" || msg.Error != "" || !msg.Privileged {
			continue
		}
		switch msg.Kind {
		case "token":
			if m.Kind != "maketoken" {
				continue
			}
			h.t.Checked("C11.delegate")
			vm, _ := msg.Value.(map[string]interface{})
			var ps []string
			if l, ok := vm["permissions"].([]interface{}); ok {
				for _, e := range l {
					s, _ := e.(string)
					ps = append(ps, s)
				}
			}
			name, _ := vm["token"].(string)
			g, _ := vm["group"].(string)
			_, hasExp := vm["expires"]
			sub, _ := vm["includeSubgroups"].(bool)
			switch {
			case !subset(ps, sr.perms):
				h.t.Fail("C11", "delegate", fmt.Sprintf("client %d with %v created a token granting %v", c.h, sr.perms, ps))
			case g != sr.grp || sr.grp == "":
				h.t.Fail("C11", "delegate", fmt.Sprintf("client %d of group %q created a token for group %q", c.h, sr.grp, g))
			case !hasExp:
				h.t.Fail("C11", "delegate", fmt.Sprintf("client %d created a token without expiry", c.h))
			case sub:
				h.t.Fail("C11", "delegate", fmt.Sprintf("client %d created a token including subgroups", c.h))
			case m.Value.Kind == "t" && m.Value.T.Token != "" && name == m.Value.T.Token:
				h.t.Fail("C11", "delegate", fmt.Sprintf("client %d chose the token string %q", c.h, name))
			}
		case "tokenlist":
			h.t.Checked("C11.token_scope")
			if l, ok := msg.Value.([]interface{}); ok {
				for _, e := range l {
					vm, _ := e.(map[string]interface{})
					if g, _ := vm["group"].(string); g != sr.grp {
						h.t.Fail("C11", "token_scope", fmt.Sprintf("client %d of group %q was listed a token of group %q", c.h, sr.grp, g))
					}
				}
			}
			if !subset([]string{"op", "token"}, sr.perms) {
				h.t.Fail("C11", "guard", fmt.Sprintf("client %d with %v was given the token list", c.h, sr.perms))
			}
		}
	}
}

// send = msg + the monitors that apply to every message.
func (h *hist) send(c *cl, m *smsg) sendResult {
	var before map[string]string
	tokAct := m.Type == "groupaction" && (m.Kind == "maketoken" || m.Kind == "edittoken" || m.Kind == "listtokens")
	if tokAct {
		before = h.tokenSnapshot()
	}
	sr := h.msg(c, m)
	h.guardMonitor(c, m, sr)
	if tokAct {
		h.tokenMonitors(c, m, sr, before)
	}
	if m.Type == "useraction" && isPermKind(m.Kind) && sr.auth == "passed" && sr.grp != "" {
		if t := h.handleOf(m.Dest, sr.grp); t >= 0 {
			h.pendingMods[t] = append(h.pendingMods[t], sr.grp)
			h.pendingKinds[t] = append(h.pendingKinds[t], m.Kind)
		}
	}
	return sr
}

var _ = sigdrv.Quiet

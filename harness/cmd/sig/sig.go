// Driver `sig`: the REAL handleClientMessage/handleAction/leaveGroup of
// rtpconn driven through the verif hook (no websocket, no media) against
// the extracted model Model/Signal.v, with the C11 monitors of monitors.go.
//
//  1. regression corpus: F2, F7, F18, F10, F11 and the two histories X1/X2
//     (a permission change applied after the target left / in another group);
//  2. the EXHAUSTIVE finite product: every subset of {op, present, message,
//     caption, record, token} x membership state {never joined, join refused
//     (locked group, duplicate id; wrong password for two subsets), member,
//     left} x every message type/kind (with destination variants);
//  3. n seeded random histories with the harness as scheduler.
package main

import (
	"fmt"

	"github.com/jech/galene/rtpconn"

	"verifharness/internal/sigdrv"
	"verifharness/internal/tr"
)

var allPerms = []string{"op", "present", "message", "caption", "record", "token"}

func permSubset(mask int) []string {
	var out []string
	for i, p := range allPerms {
		if mask&(1<<uint(i)) != 0 {
			out = append(out, p)
		}
	}
	return out
}

func opUser() sigdrv.User {
	return sigdrv.User{Name: "oper", Password: "pwo", Permissions: []string{"op", "present", "message", "caption", "record", "token"}}
}

func join(g, user, pw string) *smsg {
	return &smsg{Type: "join", Kind: "join", Group: g, User: sp(user), Pw: pw}
}
func leave(g string) *smsg { return &smsg{Type: "join", Kind: "leave", Group: g} }

func tokenValue(g string, perms []string, expires int64) val {
	return val{Kind: "t", T: tokSpec{Group: g, Perms: perms, HasPerms: true, Expires: ip(expires)}}
}

// ---------------------------------------------------------------- corpus

func corpus(t *tr.Trace, r *tr.Rand) {
	// F2: rejected join, then offer
	{
		h := newHist(t, r, "corpus-F2")
		h.mkgroup(sigdrv.GroupSpec{Name: "g", Users: []sigdrv.User{opUser(),
			{Name: "pres", Password: "pw", Permissions: []string{"present", "message"}}}})
		o := h.client("o")
		h.send(o, join("g", "oper", "pwo"))
		h.quiesce()
		h.send(o, &smsg{Type: "groupaction", Kind: "lock"})
		h.quiesce()
		x := h.client("x")
		h.send(x, join("g", "pres", "pw"))
		h.send(x, &smsg{Type: "offer", ID: "s1", SDP: "good"})
		h.quiesce()
		h.drainAll()
		h.state("g")
		t.Nontrivial("corpus-F2")
		h.close()
	}
	// F7: join immediately followed by leave, then pump
	{
		h := newHist(t, r, "corpus-F7")
		h.mkgroup(sigdrv.GroupSpec{Name: "g", Users: []sigdrv.User{opUser()}})
		o := h.client("o")
		h.send(o, join("g", "oper", "pwo"))
		h.send(o, leave("g"))
		h.pump(o)
		h.quiesce()
		h.drainAll()
		h.state("g")
		t.Nontrivial("corpus-F7")
		h.close()
	}
	// F18: join a redirecting group, then pump, then leave
	{
		h := newHist(t, r, "corpus-F18")
		h.mkgroup(sigdrv.GroupSpec{Name: "g", Redirect: "https://example.org/group/g/", Users: []sigdrv.User{opUser()}})
		o := h.client("o")
		h.send(o, join("g", "oper", "pwo"))
		h.pump(o)
		h.quiesce()
		h.drainAll()
		h.state("g")
		h.disc(o)
		h.state("g")
		t.Nontrivial("corpus-F18")
		h.close()
	}
	// F10: unop of one operator must not change the other operator
	{
		h := newHist(t, r, "corpus-F10")
		h.mkgroup(sigdrv.GroupSpec{Name: "g", Users: []sigdrv.User{opUser(),
			{Name: "op2", Password: "pw", Permissions: []string{"op", "present", "message", "caption", "record", "token"}}}})
		a := h.client("a")
		b := h.client("b")
		h.send(a, join("g", "oper", "pwo"))
		h.send(b, join("g", "op2", "pw"))
		h.quiesce()
		h.send(a, &smsg{Type: "useraction", Kind: "unop", Dest: "b"})
		h.quiesce()
		h.drainAll()
		c := h.client("c")
		h.send(c, join("g", "op2", "pw"))
		h.quiesce()
		h.drainAll()
		t.Checked("C11.role_not_damaged")
		if !has(c.c.Permissions(), "op") || !has(a.c.Permissions(), "op") {
			t.Fail("C11", "role_not_damaged", fmt.Sprintf("after unop of b: a has %v, a fresh login of the same user has %v", a.c.Permissions(), c.c.Permissions()))
		}
		t.Nontrivial("corpus-F10")
		h.close()
	}
	// F11: edittoken on another group's token
	{
		h := newHist(t, r, "corpus-F11")
		h.mkgroup(sigdrv.GroupSpec{Name: "ga", Users: []sigdrv.User{opUser()}})
		h.mkgroup(sigdrv.GroupSpec{Name: "gb", Users: []sigdrv.User{opUser()}})
		a := h.client("a")
		b := h.client("b")
		h.send(a, join("ga", "oper", "pwo"))
		h.send(b, join("gb", "oper", "pwo"))
		h.quiesce()
		h.send(b, &smsg{Type: "groupaction", Kind: "maketoken", Value: tokenValue("gb", []string{"message"}, 3600000)})
		h.send(a, &smsg{Type: "groupaction", Kind: "edittoken", Value: val{Kind: "t", T: tokSpec{Token: "T000", Expires: ip(-3600000)}}})
		h.send(a, &smsg{Type: "groupaction", Kind: "listtokens"})
		h.drainAll()
		h.state("ga")
		h.state("gb")
		t.Nontrivial("corpus-F11")
		h.close()
	}
	// revocation: losing `present` closes the up streams of the target, be it
	// an operator or not, and later offers are refused
	{
		h := newHist(t, r, "corpus-revocation")
		h.mkgroup(sigdrv.GroupSpec{Name: "g", Users: []sigdrv.User{opUser(),
			{Name: "op2", Password: "pw", Permissions: []string{"op", "present", "message"}},
			{Name: "pres", Password: "pw", Permissions: []string{"present", "message"}}}})
		a := h.client("a")
		b := h.client("b")
		c := h.client("c")
		h.send(a, join("g", "oper", "pwo"))
		h.send(b, join("g", "op2", "pw"))
		h.send(c, join("g", "pres", "pw"))
		h.quiesce()
		for _, x := range []*cl{b, c} {
			h.send(x, &smsg{Type: "offer", ID: "s1", SDP: "good", Label: "camera"})
			h.send(x, &smsg{Type: "offer", ID: "s2", SDP: "min"})
			h.ups(x)
		}
		h.send(a, &smsg{Type: "useraction", Kind: "unpresent", Dest: "b"})
		h.send(a, &smsg{Type: "useraction", Kind: "unpresent", Dest: "c"})
		// between the two batches of its queue the target is already
		// refused, although it has not been notified yet
		h.pump(b)
		h.send(b, &smsg{Type: "offer", ID: "s3", SDP: "min"})
		h.pump(b)
		h.pump(c)
		h.pump(c)
		h.drainAll()
		for _, x := range []*cl{b, c} {
			h.ups(x)
			h.send(x, &smsg{Type: "offer", ID: "s4", SDP: "good"})
			t.Checked("C11.unpresent_closes_streams")
			if ids := x.c.UpIds(); len(ids) != 0 {
				t.Fail("C11", "unpresent_closes_streams", fmt.Sprintf("client %d lost `present` and was notified but still has up streams %v", x.h, ids))
			}
		}
		h.quiesce()
		h.drainAll()
		t.Nontrivial("corpus-revocation")
		h.close()
	}
	// X3: a token minted with duplicated permissions; one unpresent and one
	// shutup must revoke them (remove() deleted only the first occurrence)
	{
		h := newHist(t, r, "corpus-X3")
		h.mkgroup(sigdrv.GroupSpec{Name: "g", Users: []sigdrv.User{opUser(),
			{Name: "tk", Password: "pw", Permissions: []string{"present", "message", "token"}}}})
		a := h.client("a")
		b := h.client("b")
		h.send(a, join("g", "oper", "pwo"))
		h.send(b, join("g", "tk", "pw"))
		h.quiesce()
		h.send(b, &smsg{Type: "groupaction", Kind: "maketoken", Value: tokenValue("g",
			[]string{"present", "present", "message", "message"}, 3600000)})
		c := h.client("c")
		h.send(c, &smsg{Type: "join", Kind: "join", Group: "g", Token: "T000", User: sp("friend")})
		h.quiesce()
		h.drainAll()
		h.send(a, &smsg{Type: "useraction", Kind: "unpresent", Dest: "c"})
		h.send(a, &smsg{Type: "useraction", Kind: "shutup", Dest: "c"})
		h.pump(c)
		h.pump(c)
		h.pump(c)
		h.drainAll()
		offer := h.send(c, &smsg{Type: "offer", ID: "s1", SDP: "good"})
		chat := h.send(c, &smsg{Type: "chat", ID: "m1", Value: val{Kind: "s", S: "hello"}})
		h.quiesce()
		h.drainAll()
		h.ups(c)
		t.Checked("C11.revocation_effective")
		if p := c.c.Permissions(); has(p, "present") || has(p, "message") || offer.auth != "notauth" || chat.auth != "notauth" || len(c.c.UpIds()) != 0 {
			t.Fail("C11", "revocation_effective", fmt.Sprintf("a member who joined with a token granting [present present message message] was sent unpresent and shutup by an operator and served them: permissions %v, offer %s, chat %s, up streams %v (X3)",
				p, offer.auth, chat.auth, c.c.UpIds()))
		}
		t.Nontrivial("corpus-X3")
		h.close()
	}
	// X1: `present` granted, the target leaves before serving its queue,
	// serves it, then offers
	{
		h := newHist(t, r, "corpus-X1")
		h.mkgroup(sigdrv.GroupSpec{Name: "g", Users: []sigdrv.User{opUser(),
			{Name: "plain", Password: "pw", Permissions: []string{"message"}}}})
		a := h.client("a")
		b := h.client("b")
		h.send(a, join("g", "oper", "pwo"))
		h.send(b, join("g", "plain", "pw"))
		h.quiesce()
		h.send(a, &smsg{Type: "useraction", Kind: "present", Dest: "b"})
		h.send(b, leave("g"))
		h.pump(b)
		h.send(b, &smsg{Type: "offer", ID: "s1", SDP: "good"})
		h.pump(b)
		h.quiesce()
		h.drainAll()
		t.Nontrivial("corpus-X1")
		h.close()
	}
	// X2: `op` granted in g1, the target moves to g2 before serving its queue
	{
		h := newHist(t, r, "corpus-X2")
		h.mkgroup(sigdrv.GroupSpec{Name: "g1", Users: []sigdrv.User{opUser(),
			{Name: "plain", Password: "pw", Permissions: []string{"message"}}}})
		h.mkgroup(sigdrv.GroupSpec{Name: "g2", Users: []sigdrv.User{
			{Name: "plain", Password: "pw", Permissions: []string{"message"}}}})
		a := h.client("a")
		b := h.client("b")
		h.send(a, join("g1", "oper", "pwo"))
		h.send(b, join("g1", "plain", "pw"))
		h.quiesce()
		h.send(a, &smsg{Type: "useraction", Kind: "op", Dest: "b"})
		h.send(b, leave("g1"))
		h.send(b, join("g2", "plain", "pw"))
		h.pump(b)
		h.pump(b)
		h.send(b, &smsg{Type: "groupaction", Kind: "lock"})
		h.quiesce()
		h.drainAll()
		h.state("g2")
		t.Checked("C11.moderation_same_group")
		if h.w.Locked("g2") {
			t.Fail("C11", "moderation_same_group", "a plain member of g2 locked it after being made operator in g1")
		}
		t.Nontrivial("corpus-X2")
		h.close()
	}
}

// ---------------------------------------------------------------- exhaustive product

type mcase struct {
	name string
	mk   func(g, self, other string) *smsg
	// effect: did the privileged action happen?  Evaluated after quiescence.
	setup string // "", "token" (oper creates a token first), "record" (oper starts recording), "lock" (oper locks), "chat" (oper chats)
}

func cases() []mcase {
	ua := func(kind, dest string) func(g, self, other string) *smsg {
		return func(g, self, other string) *smsg {
			d := other
			if dest == "self" {
				d = self
			}
			return &smsg{Type: "useraction", Kind: kind, Dest: d}
		}
	}
	ga := func(kind string, v val) func(g, self, other string) *smsg {
		return func(g, self, other string) *smsg { return &smsg{Type: "groupaction", Kind: kind, Value: v} }
	}
	cs := []mcase{
		{name: "offer-good", mk: func(g, s, o string) *smsg { return &smsg{Type: "offer", ID: "up1", SDP: "good", Label: "camera"} }},
		{name: "offer-min", mk: func(g, s, o string) *smsg { return &smsg{Type: "offer", ID: "up1", SDP: "min"} }},
		{name: "offer-bad", mk: func(g, s, o string) *smsg { return &smsg{Type: "offer", ID: "up1", SDP: "bad", Replace: "zz"} }},
		{name: "offer-noid", mk: func(g, s, o string) *smsg { return &smsg{Type: "offer", SDP: "min"} }},
		{name: "chat", mk: func(g, s, o string) *smsg {
			return &smsg{Type: "chat", ID: "m1", Source: s, Value: val{Kind: "s", S: "hello"}}
		}},
		{name: "chat-caption", mk: func(g, s, o string) *smsg {
			return &smsg{Type: "chat", Kind: "caption", ID: "m2", Source: s, Value: val{Kind: "s", S: "subtitle"}}
		}},
		{name: "chat-me", mk: func(g, s, o string) *smsg {
			return &smsg{Type: "chat", Kind: "me", ID: "m3", Value: val{Kind: "s", S: "waves"}, NoEcho: true}
		}},
		{name: "chat-private", mk: func(g, s, o string) *smsg {
			return &smsg{Type: "chat", ID: "m4", Dest: o, Value: val{Kind: "s", S: "psst"}}
		}},
		{name: "chat-spoof", mk: func(g, s, o string) *smsg {
			return &smsg{Type: "chat", ID: "m5", Source: o, Value: val{Kind: "s", S: "fake"}}
		}},
		{name: "usermessage", mk: func(g, s, o string) *smsg {
			return &smsg{Type: "usermessage", Kind: "raisehand", Dest: o, Value: val{Kind: "s", S: "x"}}
		}},
		{name: "usermessage-all", mk: func(g, s, o string) *smsg {
			return &smsg{Type: "usermessage", Kind: "caption", Value: val{Kind: "s", S: "y"}}
		}},
		{name: "clearchat", setup: "chat", mk: ga("clearchat", val{Kind: "n"})},
		{name: "clearchat-user", setup: "chat", mk: func(g, s, o string) *smsg {
			return &smsg{Type: "groupaction", Kind: "clearchat", Value: val{Kind: "m", M: [][2]string{{"userId", o}}}}
		}},
		{name: "clearchat-bad", mk: ga("clearchat", val{Kind: "s", S: "all"})},
		{name: "lock", mk: ga("lock", val{Kind: "s", S: "closed_for_lunch"})},
		{name: "unlock", setup: "lock", mk: ga("unlock", val{Kind: "n"})},
		{name: "record", mk: ga("record", val{Kind: "n"})},
		{name: "unrecord", setup: "record", mk: ga("unrecord", val{Kind: "n"})},
		{name: "record-twice", setup: "record", mk: ga("record", val{Kind: "n"})},
		{name: "subgroups", mk: ga("subgroups", val{Kind: "n"})},
		{name: "setdata-group", mk: ga("setdata", val{Kind: "m", M: [][2]string{{"topic", "verif"}}})},
		{name: "setdata-group-bad", mk: ga("setdata", val{Kind: "s", S: "topic"})},
		{name: "maketoken-empty", mk: func(g, s, o string) *smsg {
			return &smsg{Type: "groupaction", Kind: "maketoken", Value: tokenValue(g, []string{}, 3600000)}
		}},
		{name: "maketoken-message", mk: func(g, s, o string) *smsg {
			return &smsg{Type: "groupaction", Kind: "maketoken", Value: tokenValue(g, []string{"message"}, 3600000)}
		}},
		{name: "maketoken-op", mk: func(g, s, o string) *smsg {
			return &smsg{Type: "groupaction", Kind: "maketoken", Value: tokenValue(g, []string{"op", "present"}, 3600000)}
		}},
		{name: "maketoken-othergroup", mk: func(g, s, o string) *smsg {
			return &smsg{Type: "groupaction", Kind: "maketoken", Value: tokenValue("aux", []string{}, 3600000)}
		}},
		{name: "maketoken-subgroup", mk: func(g, s, o string) *smsg {
			// a token is made for the member's own group, not for a group below it
			return &smsg{Type: "groupaction", Kind: "maketoken", Value: tokenValue(g+"/sub", []string{}, 3600000)}
		}},
		{name: "maketoken-prefix", mk: func(g, s, o string) *smsg {
			return &smsg{Type: "groupaction", Kind: "maketoken", Value: tokenValue(g+"x", []string{}, 3600000)}
		}},
		{name: "maketoken-noexpiry", mk: func(g, s, o string) *smsg {
			return &smsg{Type: "groupaction", Kind: "maketoken", Value: val{Kind: "t", T: tokSpec{Group: g, HasPerms: true}}}
		}},
		{name: "maketoken-named", mk: func(g, s, o string) *smsg {
			return &smsg{Type: "groupaction", Kind: "maketoken", Value: val{Kind: "t", T: tokSpec{Token: "mine", Group: g, HasPerms: true, Expires: ip(3600000)}}}
		}},
		{name: "maketoken-configured-user", mk: func(g, s, o string) *smsg {
			return &smsg{Type: "groupaction", Kind: "maketoken", Value: val{Kind: "t", T: tokSpec{Group: g, User: sp("oper"), HasPerms: true, Expires: ip(3600000)}}}
		}},
		{name: "maketoken-badvalue", mk: ga("maketoken", val{Kind: "s", S: "token"})},
		{name: "edittoken-own", setup: "token", mk: func(g, s, o string) *smsg {
			return &smsg{Type: "groupaction", Kind: "edittoken", Value: val{Kind: "t", T: tokSpec{Token: "@own", Expires: ip(-3600000)}}}
		}},
		{name: "edittoken-other", setup: "token", mk: func(g, s, o string) *smsg {
			return &smsg{Type: "groupaction", Kind: "edittoken", Value: val{Kind: "t", T: tokSpec{Token: "T000", NB: ip(3600000)}}}
		}},
		{name: "edittoken-perms", setup: "token", mk: func(g, s, o string) *smsg {
			return &smsg{Type: "groupaction", Kind: "edittoken", Value: val{Kind: "t", T: tokSpec{Token: "@own", Perms: []string{"op"}, HasPerms: true}}}
		}},
		{name: "edittoken-unknown", mk: func(g, s, o string) *smsg {
			return &smsg{Type: "groupaction", Kind: "edittoken", Value: val{Kind: "t", T: tokSpec{Token: "nosuchtoken", Expires: ip(1000)}}}
		}},
		{name: "listtokens", setup: "token", mk: ga("listtokens", val{Kind: "n"})},
		{name: "groupaction-unknown", mk: ga("frobnicate", val{Kind: "n"})},
	}
	for _, k := range []string{"op", "unop", "present", "unpresent", "shutup", "unshutup"} {
		cs = append(cs, mcase{name: k + "-other", mk: ua(k, "other")})
		cs = append(cs, mcase{name: k + "-self", mk: ua(k, "self")})
	}
	cs = append(cs,
		mcase{name: "op-unknown", mk: func(g, s, o string) *smsg { return &smsg{Type: "useraction", Kind: "op", Dest: "nobody"} }},
		mcase{name: "identify", mk: ua("identify", "other")},
		mcase{name: "kick-other", mk: func(g, s, o string) *smsg {
			return &smsg{Type: "useraction", Kind: "kick", Dest: o, Value: val{Kind: "s", S: "bye"}}
		}},
		mcase{name: "kick-self", mk: ua("kick", "self")},
		mcase{name: "setdata-self", mk: func(g, s, o string) *smsg {
			return &smsg{Type: "useraction", Kind: "setdata", Dest: s, Value: val{Kind: "m", M: [][2]string{{"hand", "up"}}}}
		}},
		mcase{name: "setdata-other", mk: func(g, s, o string) *smsg {
			return &smsg{Type: "useraction", Kind: "setdata", Dest: o, Value: val{Kind: "m", M: [][2]string{{"hand", "up"}}}}
		}},
		mcase{name: "useraction-unknown", mk: ua("promote", "other")},
		mcase{name: "request", mk: func(g, s, o string) *smsg {
			return &smsg{Type: "request", Req: reqv{Kind: "m", M: [][2]string{{"", "audio+video"}}}}
		}},
		mcase{name: "request-bad", mk: func(g, s, o string) *smsg { return &smsg{Type: "request", Req: reqv{Kind: "b"}} }},
		mcase{name: "requestStream", mk: func(g, s, o string) *smsg {
			return &smsg{Type: "requestStream", ID: "d1", Req: reqv{Kind: "l", L: []string{"audio"}}}
		}},
		mcase{name: "answer", mk: func(g, s, o string) *smsg { return &smsg{Type: "answer", ID: "d1", SDP: "min"} }},
		mcase{name: "renegotiate", mk: func(g, s, o string) *smsg { return &smsg{Type: "renegotiate", ID: "d1"} }},
		mcase{name: "close", mk: func(g, s, o string) *smsg { return &smsg{Type: "close", ID: "up1"} }},
		mcase{name: "abort", mk: func(g, s, o string) *smsg { return &smsg{Type: "abort", ID: "d1"} }},
		mcase{name: "ice", mk: func(g, s, o string) *smsg { return &smsg{Type: "ice", ID: "d1", Cand: true} }},
		mcase{name: "ice-null", mk: func(g, s, o string) *smsg { return &smsg{Type: "ice", ID: "d1"} }},
		mcase{name: "ping", mk: func(g, s, o string) *smsg { return &smsg{Type: "ping"} }},
		mcase{name: "pong", mk: func(g, s, o string) *smsg { return &smsg{Type: "pong"} }},
		mcase{name: "unknown-type", mk: func(g, s, o string) *smsg { return &smsg{Type: "shutdown"} }},
		mcase{name: "join-again", mk: func(g, s, o string) *smsg { return join(g, "subj", "pws") }},
		mcase{name: "leave", mk: func(g, s, o string) *smsg { return leave(g) }},
		mcase{name: "spoofed-username", mk: func(g, s, o string) *smsg {
			return &smsg{Type: "chat", ID: "m6", User: sp("oper"), Value: val{Kind: "s", S: "hi"}}
		}},
	)
	return cs
}

var memberStates = []string{"never", "refused-locked", "refused-dup", "member", "left", "refused-pw"}

// one case: fresh group, fresh clients.  Returns whether the subject was a
// member when it sent the message.
func (h *hist) runCase(gi int, perms []string, state string, mc mcase) {
	t := h.t
	g := fmt.Sprintf("g%d", gi)
	h.tokGroups = []string{"aux", g}
	h.mkgroup(sigdrv.GroupSpec{Name: g, AllowRecording: gi%2 == 0, Users: []sigdrv.User{opUser(),
		{Name: "plain", Password: "pwp", Permissions: []string{"message"}},
		{Name: "subj", Password: "pws", Permissions: perms}}})
	first := len(h.cs)
	o := h.client(fmt.Sprintf("o%d", gi))
	p := h.client(fmt.Sprintf("p%d", gi))
	xid := fmt.Sprintf("x%d", gi)
	h.send(o, join(g, "oper", "pwo"))
	h.send(p, join(g, "plain", "pwp"))
	h.quiesce()
	switch mc.setup {
	case "token":
		h.send(o, &smsg{Type: "groupaction", Kind: "maketoken", Value: tokenValue(g, []string{"message"}, 3600000)})
	case "record":
		h.send(o, &smsg{Type: "groupaction", Kind: "record"})
	case "chat":
		h.send(o, &smsg{Type: "chat", ID: fmt.Sprintf("c%d", gi), Source: o.id, Value: val{Kind: "s", S: "first"}})
		h.send(p, &smsg{Type: "chat", ID: fmt.Sprintf("d%d", gi), Source: p.id, Value: val{Kind: "s", S: "second"}})
	}
	var x *cl
	switch state {
	case "never":
		x = h.client(xid)
	case "refused-locked":
		h.send(o, &smsg{Type: "groupaction", Kind: "lock", Value: val{Kind: "n"}})
		x = h.client(xid)
		h.send(x, join(g, "subj", "pws"))
		if mc.setup != "lock" {
			h.send(o, &smsg{Type: "groupaction", Kind: "unlock", Value: val{Kind: "n"}})
		}
	case "refused-dup":
		d := h.client(xid)
		h.send(d, join(g, "plain", "pwp"))
		x = h.client(xid)
		h.send(x, join(g, "subj", "pws"))
	case "refused-pw":
		x = h.client(xid)
		h.send(x, join(g, "subj", "wrong"))
	case "member":
		x = h.client(xid)
		h.send(x, join(g, "subj", "pws"))
	case "left":
		x = h.client(xid)
		h.send(x, join(g, "subj", "pws"))
		h.quiesce()
		h.send(x, leave(g))
	}
	if mc.setup == "lock" && state != "refused-locked" {
		h.send(o, &smsg{Type: "groupaction", Kind: "lock", Value: val{Kind: "n"}})
	}
	h.quiesce()
	for i := first; i < len(h.cs); i++ {
		h.drain(h.cs[i])
	}
	h.state(g)

	// the message
	m := mc.mk(g, x.id, p.id)
	if m.Value.Kind == "t" && m.Value.T.Token == "@own" {
		// the token oper created in this group
		m.Value.T.Token = ""
		for _, tk := range h.w.Tokens(g) {
			m.Value.T.Token = h.tokCanon[tk.Token]
		}
	}
	wasMember := x.c.HasGroup()
	before := x.c.Permissions()
	lockedBefore := h.w.Locked(g)
	pBefore := p.c.Permissions()
	toksBefore := h.tokenSnapshot()[g]
	membersBefore := len(h.w.Members(g))
	dataBefore := fmt.Sprint(h.w.Group(g).Data())
	histBefore := len(h.w.Group(g).GetChatHistory())
	xm, om, pm := len(x.log), len(o.log), len(p.log)
	h.send(x, m)
	h.quiesce()
	for i := first; i < len(h.cs); i++ {
		h.take(h.cs[i])
	}
	xmsgs, omsgs, pmsgs := x.log[xm:], o.log[om:], p.log[pm:]
	for i := first; i < len(h.cs); i++ {
		h.drain(h.cs[i])
	}
	h.state(g)
	h.ups(x)

	// effect monitor: an observed privileged effect => member with the
	// required permissions (hand-written specification table)
	req, priv := specRequired(m.Type, m.Kind)
	if priv {
		effect := ""
		got := func(ms []sigdrv.Msg, typ, kind string) bool {
			for _, mm := range ms {
				if mm.Type == typ && (kind == "*" || mm.Kind == kind) && mm.Error == "" {
					return true
				}
			}
			return false
		}
		switch {
		case m.Type == "offer":
			if len(x.c.UpIds()) > 0 || got(xmsgs, "answer", "*") {
				effect = "an up stream was accepted"
			}
		case m.Type == "chat" || m.Type == "usermessage":
			for _, ms := range [][]sigdrv.Msg{omsgs, pmsgs} {
				for _, mm := range ms {
					if mm.Type == m.Type && mm.ValueString() == m.Value.S && mm.Kind == m.Kind {
						effect = "the message was delivered"
					}
				}
			}
		case m.Kind == "lock" || m.Kind == "unlock":
			if h.w.Locked(g) != lockedBefore {
				effect = "the lock flag changed"
			}
		case m.Kind == "clearchat":
			if len(h.w.Group(g).GetChatHistory()) != histBefore || got(omsgs, "usermessage", "clearchat") {
				effect = "the chat history was cleared"
			}
		case m.Kind == "setdata":
			if fmt.Sprint(h.w.Group(g).Data()) != dataBefore {
				effect = "the group data changed"
			}
		case m.Kind == "subgroups":
			for _, mm := range xmsgs {
				if mm.Type == "chat" && mm.User() == "Server" {
					effect = "the subgroup list was sent"
				}
			}
		case m.Kind == "record" || m.Kind == "unrecord":
			if len(h.w.Members(g)) != membersBefore {
				effect = "the recorder joined or left"
			}
		case m.Kind == "maketoken" || m.Kind == "edittoken":
			if h.tokenSnapshot()[g] != toksBefore {
				effect = "the token store changed"
			}
		case m.Kind == "listtokens":
			if got(xmsgs, "usermessage", "tokenlist") {
				effect = "the token list was sent"
			}
		case isPermKind(m.Kind):
			if m.Dest == p.id && !sameSet(p.c.Permissions(), pBefore) {
				effect = "the target's permissions changed"
			}
			if m.Dest == x.id && !sameSet(x.c.Permissions(), before) && wasMember && x.c.HasGroup() {
				effect = "the sender's own permissions changed"
			}
		case m.Kind == "kick":
			if (m.Dest == p.id && p.c.Dead) || (m.Dest == x.id && x.c.Dead && got(xmsgs, "usermessage", "kicked")) {
				effect = "the target was kicked"
			}
		case m.Kind == "identify":
			if got(xmsgs, "usermessage", "userinfo") {
				effect = "the target's address was disclosed"
			}
		}
		t.Checked("C11.effect_needs_permission")
		if effect != "" {
			t.Note("effect:" + m.Type + "/" + m.Kind)
			if !wasMember {
				t.Fail("C11", "effect_needs_permission", fmt.Sprintf("%s/%s by a non-member (state %s, permissions %v): %s", m.Type, m.Kind, state, before, effect))
			} else if !subset(req, before) {
				t.Fail("C11", "effect_needs_permission", fmt.Sprintf("%s/%s by a member with %v (needs %v): %s", m.Type, m.Kind, before, req, effect))
			}
		} else if wasMember && subset(req, before) {
			t.Note("allowed-no-effect:" + mc.name)
		}
	}
	t.Note("state:" + state)
	// tear down
	for i := first; i < len(h.cs); i++ {
		if !h.cs[i].c.Dead {
			h.disc(h.cs[i])
		}
	}
	h.quiesce()
	for i := first; i < len(h.cs); i++ {
		h.drain(h.cs[i])
	}
}

func exhaustive(t *tr.Trace, r *tr.Rand) {
	cs := cases()
	for mask := 0; mask < 64; mask++ {
		perms := permSubset(mask)
		for _, state := range memberStates {
			if state == "refused-pw" && mask != 63 && mask != 2 {
				continue // a refused password costs 200 ms per join
			}
			h := newHist(t, r, "product-"+state)
			// a second group with a token of its own (for the cross-group cases)
			h.mkgroup(sigdrv.GroupSpec{Name: "aux", Users: []sigdrv.User{opUser()}})
			a := h.client("aux-op")
			h.send(a, join("aux", "oper", "pwo"))
			h.send(a, &smsg{Type: "groupaction", Kind: "maketoken", Value: tokenValue("aux", []string{"message"}, 3600000)})
			h.quiesce()
			h.drain(a)
			for i, mc := range cs {
				if state == "refused-pw" && i%6 != 0 {
					continue
				}
				h.runCase(i, perms, state, mc)
			}
			h.state("aux")
			t.Nontrivial(fmt.Sprintf("product/%d/%s", mask, state))
			h.close()
		}
	}
}

func runSig(t *tr.Trace, r *tr.Rand, n int) {
	sigdrv.Quiet()
	corpus(t, r)
	whipHistory(t, r)
	rtpconn.VerifWriteBuffer = 1 << 10 // 75000 short-lived clients
	exhaustive(t, r)
	rtpconn.VerifWriteBuffer = 1 << 13
	for i := 0; i < n; i++ {
		randomHistory(t, r, i)
	}
}

func main() { tr.Main(runSig) }

package main

// connids.go: the deterministic stream `connids` of sigfuzz.  Every message
// type that carries a connection id (ice, answer, renegotiate, abort, close,
// requestStream, offer with id/replace) is sent with ids of every class
//
//	never existed / closed by the client / live (accepted offer) / registered
//	but refused by the peer connection / ANOTHER client's live stream /
//	empty / very long
//
// with non-null payloads (well-formed, empty and garbage candidates; real,
// minimal and garbage session descriptions; list, null and map requests), in
// every membership state (never joined, join refused, member with and
// without `present`, left, and after the client closed its streams).
// Monitors: C12.signalling_no_panic, signalling_isolated and
// C12.signalling_foreign_ids (a message naming a connection id never changes
// the connection tables of ANOTHER client).

import (
	"fmt"
	"strings"

	"verifharness/internal/sigdrv"
	"verifharness/internal/tr"
)

type cidState struct {
	name  string
	build func(f *fz) *sigdrv.Client // creates the subject in that state
}

func (f *fz) goodOffer(c *sigdrv.Client, id string) {
	f.send(c, sigdrv.M{"type": "offer", "id": id, "sdp": sigdrv.GoodOffer(), "label": "camera"})
}

func connIDs(t *tr.Trace, r *tr.Rand) {
	joinOp := func(g string) sigdrv.M {
		return sigdrv.M{"type": "join", "kind": "join", "group": g, "username": "oper", "password": "pwo"}
	}
	guest := func(g string) sigdrv.M {
		return sigdrv.M{"type": "join", "kind": "join", "group": g, "username": "guest", "password": ""}
	}
	withStreams := func(f *fz, c *sigdrv.Client) {
		f.goodOffer(c, "live")
		f.send(c, sigdrv.M{"type": "offer", "id": "refused", "sdp": sigdrv.MinimalSDP})
		f.goodOffer(c, "closed")
		f.send(c, sigdrv.M{"type": "close", "id": "closed"})
	}
	n := 0
	states := []cidState{
		{"never-joined", func(f *fz) *sigdrv.Client { return f.client(fmt.Sprintf("x%d", n)) }},
		{"join-refused", func(f *fz) *sigdrv.Client {
			c := f.client(fmt.Sprintf("x%d", n))
			f.send(c, guest("fl")) // locked
			return c
		}},
		{"member-present", func(f *fz) *sigdrv.Client {
			c := f.client(fmt.Sprintf("x%d", n))
			f.send(c, guest("fa"))
			f.pump(c)
			withStreams(f, c)
			return c
		}},
		{"member-observer", func(f *fz) *sigdrv.Client {
			c := f.client(fmt.Sprintf("x%d", n))
			f.send(c, guest("fb"))
			f.pump(c)
			return c
		}},
		{"left", func(f *fz) *sigdrv.Client {
			c := f.client(fmt.Sprintf("x%d", n))
			f.send(c, guest("fa"))
			f.pump(c)
			withStreams(f, c)
			f.send(c, sigdrv.M{"type": "join", "kind": "leave", "group": "fa"})
			return c
		}},
		{"unpresented", func(f *fz) *sigdrv.Client {
			// streams torn down by the server while candidates may be in flight
			c := f.client(fmt.Sprintf("x%d", n))
			f.send(c, guest("fa"))
			f.pump(c)
			withStreams(f, c)
			f.send(f.cs[0], sigdrv.M{"type": "useraction", "kind": "unpresent", "dest": c.ID})
			f.pump(c)
			f.pump(c)
			return c
		}},
	}
	ids := []string{"never", "closed", "live", "refused", "theirs", "", strings.Repeat("i", 20000)}
	cands := []interface{}{
		map[string]interface{}{"candidate": "candidate:1 1 udp 2130706431 192.0.2.1 5000 typ host", "sdpMid": "0", "sdpMLineIndex": 0},
		map[string]interface{}{"candidate": ""},
		map[string]interface{}{"candidate": "garbage", "sdpMid": "nosuchmid", "usernameFragment": "zz"},
		map[string]interface{}{},
		nil,
	}
	sdps := []string{sigdrv.GoodOffer(), sigdrv.MinimalSDP, "garbage", ""}
	reqs := []interface{}{[]interface{}{"audio", "video"}, nil, map[string]interface{}{"": []interface{}{"audio"}}}

	for _, st := range states {
		f := newFz(t, r, "connids-"+st.name)
		f.w.AddGroup(sigdrv.GroupSpec{Name: "fl", Users: []sigdrv.User{{Name: "oper", Password: "pwo", Role: "op"}},
			WildcardUser: &sigdrv.User{Wildcard: true, Role: "present"}})
		// client 0: the operator of fa, fb and fl (fl locked); client 1: another publisher in fa
		o := f.client("oper-conn")
		f.send(o, joinOp("fa"))
		ol := f.client("oper-fl")
		f.send(ol, joinOp("fl"))
		f.send(ol, sigdrv.M{"type": "groupaction", "kind": "lock"})
		p := f.client("other")
		f.send(p, guest("fa"))
		f.pump(p)
		f.goodOffer(p, "theirs")
		var x *sigdrv.Client
		subject := func() *sigdrv.Client {
			if x == nil || x.Dead {
				n++
				x = st.build(f)
				t.Note(fmt.Sprintf("connids:%s:group=%v:perms=%d:ups=%s", st.name, x.HasGroup(), len(x.Permissions()), strings.Join(x.UpIds(), "+")))
			}
			return x
		}
		try := func(m sigdrv.M) {
			c := subject()
			before := strings.Join(p.UpIds(), ",") + "/" + strings.Join(p.DownIds(), ",")
			f.send(c, m)
			if !c.Dead {
				f.pump(c)
			}
			f.pump(p)
			f.t.Checked("C12.signalling_foreign_ids")
			after := strings.Join(p.UpIds(), ",") + "/" + strings.Join(p.DownIds(), ",")
			if before != after {
				f.fail("signalling_foreign_ids", fmt.Sprintf("state %s: message %s by client %s changed the connections of client %s from %s to %s",
					st.name, abbreviate(mustJSON(m)), c.ID, p.ID, before, after))
			}
		}
		for _, id := range ids {
			for _, cand := range cands {
				try(sigdrv.M{"type": "ice", "id": id, "candidate": cand})
			}
			for _, sdp := range sdps {
				try(sigdrv.M{"type": "answer", "id": id, "sdp": sdp})
			}
			try(sigdrv.M{"type": "renegotiate", "id": id})
			try(sigdrv.M{"type": "abort", "id": id})
			try(sigdrv.M{"type": "offer", "id": "fresh", "replace": id, "sdp": sigdrv.MinimalSDP})
			try(sigdrv.M{"type": "offer", "id": id, "sdp": sigdrv.MinimalSDP})
			try(sigdrv.M{"type": "offer", "id": id, "replace": id, "sdp": "garbage"})
			try(sigdrv.M{"type": "close", "id": id})
			try(sigdrv.M{"type": "close", "id": id})                      // twice
			try(sigdrv.M{"type": "ice", "id": id, "candidate": cands[0]}) // after the close
			for _, rq := range reqs {
				try(sigdrv.M{"type": "requestStream", "id": id, "request": rq}) // ends the connection for an unknown id
			}
		}
		t.Nontrivial("connids/" + st.name)
		f.finish()
	}
}

// Driver `sigfuzz` (C12, signalling part; monitors only): arbitrary sequences
// of well- and ill-typed signalling messages, in any order relative to join,
// against the REAL handleClientMessage/handleAction/leaveGroup under
// recover(), with the harness as scheduler of the action queues.
//
// Monitors (property C12):
//
//	signalling_no_panic     a recovered panic would have killed the server
//	                        process (client goroutines are not protected)
//	signalling_isolated     handling a message of one connection never ends
//	                        another connection
//	signalling_still_serves after every history a fresh client can still join
//
// Every message is written to the trace as `raw <client> <hex of the JSON>`,
// so the replay of a failure is the message sequence itself.
package main

import (
	"encoding/json"
	"fmt"
	"strings"

	"github.com/jech/galene/rtpconn"

	"verifharness/internal/sigdrv"
	"verifharness/internal/tr"
)

type fz struct {
	t  *tr.Trace
	r  *tr.Rand
	w  *sigdrv.World
	cs []*sigdrv.Client
	// ids seen in server messages (stream ids, client ids, token names)
	ids  []string
	toks []string
	// lazy: outboxes are drained only now and then, so that messages stay
	// queued while their sender goes on (in the server they are encoded
	// later by the receiver's writer goroutine)
	lazy  bool
	seenW map[*sigdrv.Client][]string
	seenA map[*sigdrv.Client][]rtpconn.VerifQueuedAction
}

func (f *fz) fail(mon, msg string) { f.t.Fail("C12", mon, msg) }

func (f *fz) after(what string, c *sigdrv.Client, res sigdrv.Result, closedBefore []bool) {
	f.t.Checked("C12.signalling_no_panic")
	if res.Panic != nil {
		f.fail("signalling_no_panic", fmt.Sprintf("recovered panic (process exit in the server): %v; client %s, %s", res.Panic, c.ID, what))
	}
	f.t.Checked("C12.signalling_isolated")
	for i, x := range f.cs {
		if x != c && x.Closed() != closedBefore[i] {
			f.fail("signalling_isolated", fmt.Sprintf("%s by client %s ended the connection of client %s", what, c.ID, x.ID))
		}
	}
	f.checkQueued(what, c)
	// harvest ids the server mentioned, so that later messages can refer
	// to existing things
	for _, x := range f.cs {
		if f.lazy && !f.r.Chance(1, 6) {
			continue
		}
		delete(f.seenW, x)
		for _, m := range x.Out() {
			if m.Id != "" && len(f.ids) < 64 {
				f.ids = append(f.ids, m.Id)
			}
			if m.Type == "usermessage" && m.Kind == "token" && m.Error == "" {
				if vm, ok := m.Value.(map[string]interface{}); ok {
					if s, ok := vm["token"].(string); ok {
						f.toks = append(f.toks, s)
					}
				}
			}
		}
	}
}

// isSubseq: every element of old occurs in cur, in the same order.
func firstChanged(old, cur []string) int {
	j := 0
	for i, o := range old {
		for j < len(cur) && cur[j] != o {
			j++
		}
		if j == len(cur) {
			return i
		}
		j++
	}
	return -1
}

// checkQueued: what is queued for a client - in its write channel, to be
// encoded later by its writer goroutine, or in its action queue, to be
// handled later by its own loop - is a VALUE: it must read the same for as
// long as it waits, whatever the sender (or anybody else) does meanwhile.
// A queued object that still changes is shared with another goroutine of the
// server: a data race, and for a map `fatal error: concurrent map iteration
// and map write`, which ends the process.
func (f *fz) checkQueued(what string, by *sigdrv.Client) {
	if f.seenW == nil {
		f.seenW = map[*sigdrv.Client][]string{}
		f.seenA = map[*sigdrv.Client][]rtpconn.VerifQueuedAction{}
	}
	for _, x := range f.cs {
		if x.Dead {
			continue
		}
		var cur []string
		for _, b := range x.PeekWrites() {
			if strings.Contains(string(b[:min(len(b), 40)]), `"type":"ice"`) {
				continue // trickled by pion's goroutines at any time
			}
			cur = append(cur, string(b))
		}
		f.t.Checked("C12.signalling_queued_is_value")
		if i := firstChanged(f.seenW[x], cur); i >= 0 {
			f.fail("signalling_queued_is_value", fmt.Sprintf("a message waiting in the write channel of client %s changed after %s by client %s: it read %s (the receiver's writer goroutine encodes it concurrently: data race / concurrent map access)",
				x.ID, what, by.ID, abbreviate([]byte(f.seenW[x][i]))))
		}
		f.seenW[x] = cur
		acts := x.PeekActions()
		var oldCore, curCore, oldAll, curAll []string
		for _, a := range f.seenA[x] {
			oldCore = append(oldCore, a.Core)
			oldAll = append(oldAll, a.Core+" perms="+a.Perms)
		}
		for _, a := range acts {
			curCore = append(curCore, a.Core)
			curAll = append(curAll, a.Core+" perms="+a.Perms)
		}
		f.t.Checked("C12.signalling_queued_is_value")
		if i := firstChanged(oldCore, curCore); i >= 0 {
			f.fail("signalling_queued_is_value", fmt.Sprintf("an action waiting in the queue of client %s changed after %s by client %s: it read %s (it is handled later by another goroutine: data race / concurrent map access)",
				x.ID, what, by.ID, abbreviate([]byte(oldCore[i]))))
		} else if i := firstChanged(oldAll, curAll); i >= 0 {
			// the permission list of a queued pushClientAction is the
			// sender's live slice (known, reported): counted, not failed
			f.t.Note("queued-action-permission-list-changed")
		}
		f.seenA[x] = acts
	}
}

func (f *fz) closedNow() []bool {
	out := make([]bool, len(f.cs))
	for i, x := range f.cs {
		out[i] = x.Closed()
	}
	return out
}

func (f *fz) sendRaw(c *sigdrv.Client, js []byte) sigdrv.Result {
	before := f.closedNow()
	res := c.SendRaw(js)
	obs := res.Class
	if res.Panic != nil {
		obs = "PANIC"
	}
	idx := 0
	for i, x := range f.cs {
		if x == c {
			idx = i
		}
	}
	f.t.Op(obs, "raw", idx, js)
	f.after("message "+abbreviate(js), c, res, before)
	return res
}

func (f *fz) send(c *sigdrv.Client, m map[string]interface{}) sigdrv.Result {
	js, err := json.Marshal(m)
	if err != nil {
		js = []byte(`{"type":"ping"}`)
	}
	return f.sendRaw(c, js)
}

func (f *fz) pump(c *sigdrv.Client) {
	before := f.closedNow()
	delete(f.seenA, c)
	res := c.Pump()
	obs := res.Class
	if res.Panic != nil {
		obs = "PANIC"
	}
	idx := 0
	for i, x := range f.cs {
		if x == c {
			idx = i
		}
	}
	f.t.Op(obs, "pump", idx)
	f.after("serving the action queue", c, res, before)
}

func mustJSON(m map[string]interface{}) []byte {
	b, err := json.Marshal(m)
	if err != nil {
		return []byte("?")
	}
	return b
}

func abbreviate(js []byte) string {
	s := string(js)
	if len(s) > 300 {
		s = s[:300] + fmt.Sprintf("...(%d bytes)", len(js))
	}
	return s
}

var types = []string{"join", "request", "requestStream", "offer", "answer", "renegotiate", "close",
	"abort", "ice", "chat", "usermessage", "groupaction", "useraction", "ping", "pong",
	"handshake", "joined", "user", "chathistory", "", "bogus"}
var gaKinds = []string{"clearchat", "lock", "unlock", "record", "unrecord", "subgroups", "setdata",
	"maketoken", "edittoken", "listtokens", "", "bogus"}
var uaKinds = []string{"op", "unop", "present", "unpresent", "shutup", "unshutup", "identify", "kick",
	"setdata", "", "bogus"}
var chatKinds = []string{"", "me", "caption", "error", "warning", "kicked", "token", "clearchat", "bogus"}

func (f *fz) str() string {
	r := f.r
	switch r.Pick(12, 8, 6, 1, 2, 2) {
	case 0:
		return []string{"a", "b", "c0", "c1", "c2", "c3", "up1", "whip", "oper", "RECORDING", "Server"}[r.Intn(11)]
	case 1:
		// an id the server mentioned, or a live stream of some client
		if r.Bool() {
			var ups []string
			for _, c := range f.cs {
				ups = append(ups, c.UpIds()...)
			}
			if len(ups) > 0 {
				return ups[r.Intn(len(ups))]
			}
		}
		if len(f.ids) > 0 {
			return f.ids[r.Intn(len(f.ids))]
		}
		return "x"
	case 2:
		return ""
	case 3:
		return strings.Repeat("A", r.Range(1000, 70000))
	case 4:
		return "\u0000\uffff\"\\'/../..\n\r\t<script>"
	default:
		return string(r.Bytes(r.Range(1, 12)))
	}
}

// any JSON value, of any type
func (f *fz) anyVal(depth int) interface{} {
	r := f.r
	switch r.Pick(4, 3, 2, 1, 2, 2, 1) {
	case 0:
		return f.str()
	case 1:
		return []interface{}{0, -1, 1e300, 3600000, -3600000, 0.5, 1 << 53}[r.Intn(7)]
	case 2:
		return nil
	case 3:
		return r.Bool()
	case 4:
		if depth > 2 {
			return []interface{}{}
		}
		n := r.Intn(4)
		l := make([]interface{}, n)
		for i := range l {
			l[i] = f.anyVal(depth + 1)
		}
		return l
	case 5:
		if depth > 2 {
			return map[string]interface{}{}
		}
		m := map[string]interface{}{}
		keys := []string{"id", "userId", "token", "group", "username", "permissions", "expires", "not-before", "", "audio", "k", "candidate", "sdpMid"}
		for i := r.Intn(5); i > 0; i-- {
			m[keys[r.Intn(len(keys))]] = f.anyVal(depth + 1)
		}
		return m
	default:
		return map[string]interface{}{"token": f.tokName(), "expires": []interface{}{3600000, "2030-01-01T00:00:00Z", "yesterday", -1}[r.Intn(4)],
			"group": []string{"fa", "fb", "", "fa/sub"}[r.Intn(4)], "permissions": f.anyVal(depth + 1)}
	}
}

func (f *fz) tokName() string {
	if len(f.toks) > 0 && f.r.Chance(2, 3) {
		return f.toks[f.r.Intn(len(f.toks))]
	}
	return []string{"", "nosuch", "T"}[f.r.Intn(3)]
}

func (f *fz) sdp() interface{} {
	r := f.r
	good := sigdrv.GoodOffer()
	switch r.Pick(3, 3, 2, 2, 2, 1, 1) {
	case 0:
		return sigdrv.MinimalSDP
	case 1:
		return ""
	case 2:
		return "garbage"
	case 3:
		return good[:r.Intn(len(good))] // truncated
	case 4:
		// a line dropped or doubled
		ls := strings.Split(good, "\r\n")
		i := r.Intn(len(ls))
		if r.Bool() {
			ls = append(ls[:i], ls[i+1:]...)
		} else {
			ls = append(ls[:i+1], ls[i:]...)
		}
		return strings.Join(ls, "\r\n")
	case 5:
		return good
	default:
		return f.anyVal(1) // not even a string: a decoding error
	}
}

// a message that is well typed for its type/kind, with plausible content
func (f *fz) wellTyped(c *sigdrv.Client) map[string]interface{} {
	r := f.r
	g := []string{"fa", "fb", "fa/sub", "nosuch", "", "../fa"}[r.Pick(8, 4, 1, 1, 1, 1)]
	switch r.Pick(10, 4, 3, 5, 2, 2, 2, 2, 2, 6, 8, 8, 1) {
	case 0:
		m := map[string]interface{}{"type": "join", "kind": "join", "group": g,
			"username": []string{"oper", "anybody", "", "a/b"}[r.Pick(5, 4, 1, 1)], "password": ""}
		if r.Chance(1, 2) {
			m["username"] = "oper"
			m["password"] = "pwo"
		}
		if r.Chance(1, 60) {
			m["token"] = f.tokName() // a refused token costs 200 ms
		}
		if r.Chance(1, 8) {
			m["data"] = f.anyVal(1)
		}
		return m
	case 1:
		return map[string]interface{}{"type": "join", "kind": []string{"leave", "leave", "bogus", ""}[r.Intn(4)], "group": g}
	case 2:
		return map[string]interface{}{"type": "request", "request": map[string]interface{}{"": []interface{}{"audio", "video"}, "camera": []interface{}{"video-low"}}}
	case 3:
		m := map[string]interface{}{"type": "offer", "id": f.str(), "sdp": f.sdp(), "label": "camera"}
		if r.Chance(1, 3) {
			m["replace"] = f.str()
		}
		return m
	case 4:
		return map[string]interface{}{"type": "answer", "id": f.str(), "sdp": f.sdp()}
	case 5:
		return map[string]interface{}{"type": []string{"renegotiate", "close", "abort"}[r.Intn(3)], "id": f.str()}
	case 6:
		m := map[string]interface{}{"type": "ice", "id": f.str()}
		switch r.Intn(4) {
		case 0:
			m["candidate"] = nil
		case 1:
			m["candidate"] = map[string]interface{}{"candidate": "candidate:1 1 udp 2130706431 192.0.2.1 5000 typ host", "sdpMid": "0"}
		case 2:
			m["candidate"] = map[string]interface{}{"candidate": f.str(), "sdpMLineIndex": 70000}
		}
		return m
	case 7:
		return map[string]interface{}{"type": "requestStream", "id": f.str(), "request": []interface{}{"audio"}}
	case 8:
		return map[string]interface{}{"type": []string{"ping", "pong"}[r.Intn(2)]}
	case 9:
		m := map[string]interface{}{"type": []string{"chat", "usermessage"}[r.Intn(2)], "kind": chatKinds[r.Intn(len(chatKinds))],
			"value": f.anyVal(1)}
		if r.Bool() {
			m["dest"] = f.str()
		}
		if r.Chance(1, 3) {
			m["source"] = c.ID
		}
		if r.Chance(1, 10) {
			m["source"] = f.str()
		}
		if r.Chance(1, 10) {
			m["username"] = f.str()
		}
		if r.Chance(1, 4) {
			m["id"] = f.str()
		}
		if r.Chance(1, 4) {
			m["noecho"] = true
		}
		return m
	case 10:
		k := gaKinds[r.Intn(len(gaKinds))]
		m := map[string]interface{}{"type": "groupaction", "kind": k}
		switch {
		case k == "maketoken" && r.Chance(2, 3):
			m["value"] = map[string]interface{}{"group": c.GroupName(), "expires": 3600000,
				"permissions": []interface{}{"message"}}
		case k == "edittoken" && r.Chance(2, 3):
			m["value"] = map[string]interface{}{"token": f.tokName(), "expires": -1}
		case r.Chance(2, 3):
			m["value"] = f.anyVal(0)
		}
		return m
	case 11:
		k := uaKinds[r.Intn(len(uaKinds))]
		m := map[string]interface{}{"type": "useraction", "kind": k, "dest": f.str()}
		if r.Chance(1, 3) {
			m["dest"] = c.ID
		}
		if r.Chance(1, 2) {
			m["value"] = f.anyVal(0)
		}
		return m
	default:
		return map[string]interface{}{"type": types[r.Intn(len(types))], "kind": f.str()}
	}
}

// every field of clientMessage with a value of an arbitrary JSON type
func (f *fz) illTyped() map[string]interface{} {
	r := f.r
	m := map[string]interface{}{"type": types[r.Intn(len(types))]}
	switch m["type"] {
	case "groupaction":
		m["kind"] = gaKinds[r.Intn(len(gaKinds))]
	case "useraction":
		m["kind"] = uaKinds[r.Intn(len(uaKinds))]
	}
	fields := []string{"type", "version", "kind", "error", "id", "replace", "source", "dest", "username",
		"password", "token", "privileged", "permissions", "status", "data", "group", "value", "noecho",
		"time", "sdp", "candidate", "label", "request", "rtcConfiguration", "unknownField"}
	strict := r.Chance(2, 3) // keep the typed fields well typed: no decoding error
	for i := r.Range(1, 5); i > 0; i-- {
		k := fields[r.Intn(len(fields))]
		if !strict {
			m[k] = f.anyVal(0)
			continue
		}
		switch k {
		case "type":
		case "kind", "error", "id", "replace", "source", "dest", "password", "token", "group", "time", "sdp", "label":
			m[k] = f.str()
		case "username":
			if r.Bool() {
				m[k] = f.str()
			} else {
				m[k] = nil
			}
		case "privileged", "noecho":
			m[k] = r.Bool()
		case "version", "permissions":
			m[k] = []interface{}{f.str(), "2"}
		case "data":
			m[k] = map[string]interface{}{f.str(): f.anyVal(1), "k": nil}
		case "status":
			m[k] = map[string]interface{}{"name": f.str(), "locked": r.Bool(), "clientCount": 3}
		case "candidate":
			m[k] = map[string]interface{}{"candidate": f.str(), "sdpMid": f.str(), "usernameFragment": f.str()}
		case "rtcConfiguration":
			m[k] = map[string]interface{}{"iceServers": []interface{}{map[string]interface{}{"urls": []interface{}{"stun:" + f.str()}}}}
		default:
			m[k] = f.anyVal(0)
		}
	}
	// the untyped fields take anything without a decoding error
	if r.Bool() {
		m["value"] = f.anyVal(0)
	}
	if r.Bool() {
		m["request"] = f.anyVal(0)
	}
	return m
}

func groups(w *sigdrv.World) {
	all := []string{"op", "present", "message", "caption", "record", "token"}
	w.AddGroup(sigdrv.GroupSpec{Name: "fa", AllowRecording: true,
		Users:        []sigdrv.User{{Name: "oper", Password: "pwo", Permissions: all}},
		WildcardUser: &sigdrv.User{Wildcard: true, Permissions: []string{"present", "message", "token"}},
		Extra:        map[string]interface{}{"auto-subgroups": true}})
	w.AddGroup(sigdrv.GroupSpec{Name: "fb", MaxClients: 3,
		Users:        []sigdrv.User{{Name: "oper", Password: "pwo", Role: "op"}},
		WildcardUser: &sigdrv.User{Wildcard: true, Role: "observe"}})
	w.AddGroup(sigdrv.GroupSpec{Name: "fr", Redirect: "https://example.org/group/fr/",
		Users: []sigdrv.User{{Name: "oper", Password: "pwo", Role: "op"}}})
}

func newFz(t *tr.Trace, r *tr.Rand, stream string) *fz {
	w, err := sigdrv.NewWorld()
	if err != nil {
		panic(err)
	}
	t.History("sigfuzz", stream)
	f := &fz{t: t, r: r, w: w}
	groups(w)
	return f
}

func (f *fz) client(id string) *sigdrv.Client {
	c := f.w.NewClient(id)
	f.cs = append(f.cs, c)
	f.t.Op("-", "client", len(f.cs)-1, id)
	return c
}

func (f *fz) finish() {
	// liveness: the signalling layer still admits a fresh client
	f.t.Checked("C12.signalling_still_serves")
	p := f.w.NewClient("probe")
	res := p.Send(sigdrv.M{"type": "join", "kind": "join", "group": "fa", "username": "oper", "password": "pwo"})
	p.Pump()
	ok := false
	for _, m := range p.Out() {
		if m.Type == "joined" && m.Kind == "join" {
			ok = true
		}
	}
	if !ok || res.Panic != nil || len(p.Panics) > 0 {
		f.fail("signalling_still_serves", fmt.Sprintf("after the history a fresh operator could not join group fa (result %v)", res))
	}
	for _, x := range f.w.Panics() {
		_ = x
	}
	f.w.Close()
}

func corpus(t *tr.Trace, r *tr.Rand) {
	offer := func() sigdrv.M { return sigdrv.M{"type": "offer", "id": "s1", "sdp": sigdrv.GoodOffer()} }
	// F2: rejected join (locked group), then offer
	{
		f := newFz(t, r, "corpus-F2")
		o := f.client("o")
		x := f.client("x")
		f.send(o, sigdrv.M{"type": "join", "kind": "join", "group": "fa", "username": "oper", "password": "pwo"})
		f.send(o, sigdrv.M{"type": "groupaction", "kind": "lock"})
		f.send(x, sigdrv.M{"type": "join", "kind": "join", "group": "fa", "username": "guest", "password": ""})
		f.send(x, offer())
		f.pump(x)
		// the same for a duplicate id and for a full group
		y := f.client("o")
		f.send(y, sigdrv.M{"type": "join", "kind": "join", "group": "fa", "username": "oper", "password": "pwo"})
		f.send(y, offer())
		t.Nontrivial("corpus-F2")
		f.finish()
	}
	// F7: join immediately followed by leave, then the queue
	{
		f := newFz(t, r, "corpus-F7")
		o := f.client("o")
		f.send(o, sigdrv.M{"type": "join", "kind": "join", "group": "fa", "username": "oper", "password": "pwo"})
		f.send(o, sigdrv.M{"type": "join", "kind": "leave", "group": "fa"})
		f.pump(o)
		f.pump(o)
		t.Nontrivial("corpus-F7")
		f.finish()
	}
	// F18: join a redirecting group, then the queue, then an offer
	{
		f := newFz(t, r, "corpus-F18")
		o := f.client("o")
		f.send(o, sigdrv.M{"type": "join", "kind": "join", "group": "fr", "username": "oper", "password": "pwo"})
		f.pump(o)
		f.send(o, offer())
		f.pump(o)
		t.Nontrivial("corpus-F18")
		f.finish()
	}
	// X1: `present` queued, the target leaves, serves the queue, offers
	{
		f := newFz(t, r, "corpus-X1")
		a := f.client("a")
		b := f.client("b")
		f.send(a, sigdrv.M{"type": "join", "kind": "join", "group": "fb", "username": "oper", "password": "pwo"})
		f.send(b, sigdrv.M{"type": "join", "kind": "join", "group": "fb", "username": "guest", "password": ""})
		f.pump(a)
		f.pump(b)
		f.send(a, sigdrv.M{"type": "useraction", "kind": "present", "dest": "b"})
		f.send(b, sigdrv.M{"type": "join", "kind": "leave", "group": "fb"})
		f.pump(b)
		f.send(b, offer())
		f.pump(b)
		t.Nontrivial("corpus-X1")
		f.finish()
	}
	// every type and kind before any join, with and without fields
	{
		f := newFz(t, r, "corpus-before-join")
		for _, ty := range types {
			kinds := []string{""}
			switch ty {
			case "groupaction":
				kinds = gaKinds
			case "useraction":
				kinds = uaKinds
			case "chat", "usermessage":
				kinds = chatKinds
			}
			for _, k := range kinds {
				c := f.client("n")
				f.send(c, sigdrv.M{"type": ty, "kind": k})
				c = f.client("n")
				f.send(c, sigdrv.M{"type": ty, "kind": k, "id": "s1", "dest": "n", "value": map[string]interface{}{"token": "x"},
					"sdp": sigdrv.GoodOffer(), "request": map[string]interface{}{"": []interface{}{"audio"}},
					"candidate": map[string]interface{}{"candidate": ""}})
				f.pump(c)
			}
		}
		t.Nontrivial("corpus-before-join")
		f.finish()
	}
}

func runFuzz(t *tr.Trace, r *tr.Rand, n int) {
	sigdrv.Quiet()
	corpus(t, r)
	connIDs(t, r)
	queuedValues(t, r)
	for i := 0; i < n; i++ {
		f := newFz(t, r, "fuzz")
		f.lazy = i%2 == 1
		ids := []string{"c0", "c1", "c2", "c3"}
		for _, id := range ids[:r.Range(2, 4)] {
			f.client(id)
		}
		nsteps := r.Range(20, 120)
		joined := 0
		for s := 0; s < nsteps; s++ {
			var live []*sigdrv.Client
			for _, c := range f.cs {
				if !c.Dead {
					live = append(live, c)
				}
			}
			if len(live) < 3 && len(f.cs) < 60 {
				live = append(live, f.client(ids[r.Intn(len(ids))]))
			}
			if len(live) == 0 {
				break
			}
			c := live[r.Intn(len(live))]
			if !c.HasGroup() && r.Chance(1, 2) {
				// get in first: most of the state space is behind a join
				g := []string{"fa", "fb", "fa/sub"}[r.Pick(4, 3, 1)]
				m := sigdrv.M{"type": "join", "kind": "join", "group": g, "username": "oper", "password": "pwo"}
				if r.Bool() {
					m = sigdrv.M{"type": "join", "kind": "join", "group": g, "username": "guest" + fmt.Sprint(r.Intn(3)), "password": ""}
				}
				res := f.send(c, m)
				t.Note("valid-join:" + res.Class)
				continue
			}
			switch r.Pick(10, 4, 6, 1, 1) {
			case 0:
				res := f.send(c, f.wellTyped(c))
				t.Note("well-typed:" + res.Class)
			case 1:
				res := f.send(c, f.illTyped())
				t.Note("ill-typed:" + res.Class)
			case 2:
				f.pump(c)
			case 3:
				// not JSON at all / not an object / truncated
				raws := [][]byte{[]byte("{"), []byte("null"), []byte("[1,2]"), []byte(`"join"`), []byte(`{"type":`),
					[]byte(`{"type":"join","kind":"join","group":"fa","username":null}`), {0xff, 0xfe}, []byte(`{"type":"chat","value":` + strings.Repeat("[", 5000) + strings.Repeat("]", 5000) + `}`)}
				f.sendRaw(c, raws[r.Intn(len(raws))])
				t.Note("not-a-message")
			default:
				before := f.closedNow()
				c.Disconnect()
				f.t.Op("-", "disc", c.ID)
				f.after("disconnect", c, sigdrv.Result{}, before)
			}
			if c.HasGroup() {
				joined++
			}
		}
		for _, c := range f.cs {
			if !c.Dead {
				f.pump(c)
			}
		}
		if joined > 3 {
			t.Nontrivial(fmt.Sprintf("fuzz/%d/%d/%d", i, nsteps, joined))
		}
		f.finish()
	}
}

func main() { tr.Main(runFuzz) }

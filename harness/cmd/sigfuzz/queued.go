package main

// queued.go: the deterministic stream `queued` of sigfuzz.  Members whose
// loops lag behind (b never serves its action queue, c serves it but its
// writer never gets to its write channel) while the sender a goes on
// changing everything a queued event refers to: its data (set, overwrite,
// delete keys, bursts), its permissions (moderated by an operator), its
// membership (leave and rejoin with other data and another username), the
// group data and lock.  After every step C12.signalling_queued_is_value
// requires every waiting message and action to read as when it was queued.

import (
	"fmt"

	"verifharness/internal/sigdrv"
	"verifharness/internal/tr"
)

func queuedValues(t *tr.Trace, r *tr.Rand) {
	f := newFz(t, r, "queued")
	f.lazy = true
	op := f.client("op")
	a := f.client("a")
	b := f.client("b")
	c := f.client("c")
	join := func(x *sigdrv.Client, user string, data map[string]interface{}) {
		m := sigdrv.M{"type": "join", "kind": "join", "group": "fa", "username": user, "password": ""}
		if user == "oper" {
			m["password"] = "pwo"
		}
		if data != nil {
			m["data"] = data
		}
		f.send(x, m)
	}
	join(op, "oper", nil)
	join(a, "alice", map[string]interface{}{"hand": "down", "n": 0})
	join(b, "bob", nil)
	join(c, "carol", map[string]interface{}{"c": true})
	setdata := func(x *sigdrv.Client, d map[string]interface{}) {
		f.send(x, sigdrv.M{"type": "useraction", "kind": "setdata", "dest": x.ID, "value": d})
	}
	step := func(i int) {
		// c serves its queue (messages pile up in its write channel), b never
		f.pump(c)
		if i%3 == 0 {
			f.pump(op)
		}
	}
	for i := 0; i < 8; i++ {
		setdata(a, map[string]interface{}{"hand": "up", "n": i})
		step(i)
		setdata(a, map[string]interface{}{"hand": nil, fmt.Sprintf("k%d", i): []interface{}{i, "x"}})
		setdata(a, map[string]interface{}{"hand": "down", "nested": map[string]interface{}{"i": i}})
		step(i)
		// the operator moderates a; a applies it (two batches)
		kind := []string{"op", "unop", "shutup", "unshutup", "unpresent", "present"}[i%6]
		f.send(op, sigdrv.M{"type": "useraction", "kind": kind, "dest": "a"})
		f.pump(a)
		setdata(a, map[string]interface{}{"n": -i})
		f.pump(a)
		step(i)
		// group data and lock (queued joined/change events carry them)
		f.send(op, sigdrv.M{"type": "groupaction", "kind": "setdata", "value": map[string]interface{}{"topic": i}})
		f.send(op, sigdrv.M{"type": "groupaction", "kind": []string{"lock", "unlock"}[i%2], "value": fmt.Sprint("m", i)})
		step(i)
		if i%4 == 3 {
			// a leaves and comes back as somebody else with other data
			f.send(a, sigdrv.M{"type": "join", "kind": "leave", "group": "fa"})
			f.send(op, sigdrv.M{"type": "groupaction", "kind": "unlock"})
			join(a, fmt.Sprintf("alice%d", i), map[string]interface{}{"back": i})
			setdata(a, map[string]interface{}{"back": nil, "again": true})
			step(i)
		}
		// chat with a structured value, then the sender goes on
		f.send(a, sigdrv.M{"type": "chat", "id": fmt.Sprint("m", i), "value": map[string]interface{}{"text": "hello", "i": i}})
		setdata(a, map[string]interface{}{"after-chat": i})
	}
	// now the laggards catch up
	for i := 0; i < 4; i++ {
		f.pump(b)
		f.pump(c)
		f.pump(a)
		f.pump(op)
	}
	t.Nontrivial("queued")
	f.finish()
}

// recjoin: a client that joins while the group is being recorded is told about
// the recorder like about every other member (C14: "told about itself and
// about every current member"), and is told exactly once when it goes away.
// Real handlers through sigdrv; monitors only.
package main

import (
	"fmt"

	"verifharness/internal/sigdrv"
	"verifharness/internal/tr"
)

func runRecJoin(t *tr.Trace, r *tr.Rand, n int) {
	sigdrv.Quiet()
	for hi := 0; hi < n; hi++ {
		t.History("recjoin", "join-while-recording")
		w, err := sigdrv.NewWorld()
		if err != nil {
			panic(err)
		}
		w.AddGroup(sigdrv.GroupSpec{Name: "g", AllowRecording: true, Users: []sigdrv.User{
			{Name: "o", Password: "pw", Permissions: []string{"op", "record", "present", "message"}},
			{Name: "a", Password: "pw", Permissions: []string{"present", "message"}},
			{Name: "b", Password: "pw", Permissions: []string{"message"}}}})
		o, a, b := w.NewClient("co"), w.NewClient("ca"), w.NewClient("cb")
		o.Send(sigdrv.M{"type": "join", "kind": "join", "group": "g", "username": "o", "password": "pw"})
		if hi%2 == 1 {
			a.Send(sigdrv.M{"type": "join", "kind": "join", "group": "g", "username": "a", "password": "pw"})
		}
		w.Quiesce(r)
		o.Send(sigdrv.M{"type": "groupaction", "kind": "record"})
		w.Quiesce(r)
		recID := ""
		for _, m := range o.Out() {
			if m.Type == "user" && m.Kind == "add" && m.User() == "RECORDING" {
				recID = m.Id
			}
		}
		if recID == "" {
			t.Note("recording-not-started")
			w.Close()
			continue
		}
		t.Nontrivial("recording")
		a.Out()
		// the newcomer
		b.Send(sigdrv.M{"type": "join", "kind": "join", "group": "g", "username": "b", "password": "pw"})
		w.Quiesce(r)
		adds, dels := 0, 0
		for _, m := range b.Out() {
			if m.Type == "user" && m.Id == recID {
				if m.Kind == "add" {
					adds++
				}
			}
		}
		t.Checked("C14.newcomer_told_about_recorder")
		if adds != 1 {
			t.Fail("C14", "newcomer_told_about_recorder", fmt.Sprintf("b joined a group that is being recorded (recorder %s is a member): it was sent %d `user add` events for it", recID, adds))
		}
		o.Send(sigdrv.M{"type": "groupaction", "kind": "unrecord"})
		w.Quiesce(r)
		for _, m := range b.Out() {
			if m.Type == "user" && m.Id == recID && m.Kind == "delete" {
				dels++
			}
		}
		t.Checked("C14.recorder_delete_once")
		if dels != 1 {
			t.Fail("C14", "recorder_delete_once", fmt.Sprintf("the recording ended: b was sent %d `user delete` events for the recorder", dels))
		}
		t.Op(tr.B(adds == 1 && dels == 1), "recjoin", hi)
		w.Close()
	}
}

func main() { tr.Main(runRecJoin) }

// cacherace: one writer and several concurrent readers on a real
// packetcache.Cache (C05: "... and concurrent readers").  Monitors only; the
// runner builds this driver with the Go race detector, so that an
// unsynchronised access is reported even when the interleaving that would
// corrupt a packet does not happen in this run.
package main

import (
	"fmt"
	"sync"
	"sync/atomic"

	"github.com/jech/galene/packetcache"

	"verifharness/internal/tr"
)

// packet content is a function of (seqno, generation): a reader can validate
// what it gets without sharing anything with the writer.
func fill(seq uint16, gen uint8, n int) []byte {
	b := make([]byte, n)
	for i := range b {
		b[i] = byte(seq) ^ byte(seq>>8) ^ gen ^ byte(i*7)
	}
	b[0] = gen
	return b
}
func size(seq uint16, gen uint8) int { return 1 + int(seq%97)*15 + int(gen%3) }

func runCacheRace(t *tr.Trace, r *tr.Rand, n int) {
	for hi := 0; hi < n; hi++ {
		capacity := []int{1, 2, 3, 8, 64}[hi%5]
		t.History("cacherace", fmt.Sprintf("cap%d", capacity), capacity)
		c := packetcache.New(capacity)
		start := uint16(65536 - 300 + r.Intn(200))
		stores := 4000
		var last atomic.Uint32
		last.Store(uint32(start))
		var failures atomic.Int64
		var firstFail atomic.Value
		var wg sync.WaitGroup
		done := make(chan struct{})
		for rd := 0; rd < 4; rd++ {
			wg.Add(1)
			go func(rd int) {
				defer wg.Done()
				buf := make([]byte, packetcache.BufSize)
				for {
					select {
					case <-done:
						return
					default:
					}
					s := uint16(last.Load()) - uint16(rd%3)
					var got uint16
					if rd == 3 {
						got = c.GetAt(s, uint16(int(s-start)%capacity), buf)
					} else {
						got = c.Get(s, buf)
					}
					if got == 0 {
						continue
					}
					gen := buf[0]
					if int(got) != size(s, gen) || string(buf[:got]) != string(fill(s, gen, int(got))) {
						failures.Add(1)
						firstFail.CompareAndSwap(nil, fmt.Sprintf("lookup of %d returned %d bytes that are no packet stored under that number (a mixture or another packet)", s, got))
					}
				}
			}(rd)
		}
		seq := start
		for i := 0; i < stores; i++ {
			gen := uint8(i / 65536)
			c.Store(seq, uint32(i), false, i%5 == 0, fill(seq, gen, size(seq, gen)))
			last.Store(uint32(seq))
			seq++
			if i%1000 == 999 {
				c.ResizeCond(capacity + (i/1000)%3)
			}
		}
		close(done)
		wg.Wait()
		t.Op(fmt.Sprint(failures.Load()), "race", stores)
		t.Checked("C05.concurrent_readers")
		if f := firstFail.Load(); f != nil {
			t.Fail("C05", "concurrent_readers", f.(string))
		}
		t.Nontrivial(fmt.Sprintf("cacherace/%d/%d", capacity, start))
	}
}

func main() { tr.Main(runCacheRace) }

package main

import (
	"fmt"
	"sort"

	"github.com/jech/galene/packetmap"

	"verifharness/internal/tr"
)

const pmWindow = 8192

// pmRef is the C01/C03 reference monitor: unwrapped numbers, the set of
// withheld numbers, out(r) = r - |{d in D | d < r}|.
type pmRef struct {
	started bool
	next    int64
	d       []int64         // withheld, increasing
	fwd     map[int64]int64 // source number -> outgoing number (unwrapped), since last reset
	shift   int64           // accumulated VerifShift of the deltas (mod 2^16)
}

func (m *pmRef) before(r int64) int64 {
	return int64(sort.Search(len(m.d), func(i int) bool { return m.d[i] >= r }))
}
func (m *pmRef) withheld(r int64) bool {
	i := sort.Search(len(m.d), func(i int) bool { return m.d[i] >= r })
	return i < len(m.d) && m.d[i] == r
}
func (m *pmRef) out(r int64) int64 { return r - m.before(r) + m.shift }
func (m *pmRef) reset(r int64) {
	m.d = nil
	m.shift = 0
	m.fwd = map[int64]int64{}
	m.next = r + 1
	m.started = true
}

type pmHist struct {
	t   *tr.Trace
	m   packetmap.Map
	ref pmRef
}

func newPmHist(t *tr.Trace, stream string) *pmHist {
	t.History("pmap", stream)
	h := &pmHist{t: t}
	h.ref.fwd = map[int64]int64{}
	return h
}

// arrive processes one arrival with unwrapped number r as rtpDownTrack.Write
// does: try Drop if the packet is above the selected layer, else Map.
// It returns whether the packet was forwarded and under which number.
func (h *pmHist) arrive(r int64, pid uint16, wantDrop bool) (bool, uint16, uint16) {
	s := uint16(r)
	ref := &h.ref
	if ref.started {
		// the server sees 16-bit numbers only: the unwrapped ghost number of
		// an arrival is the representative closest to the running next
		r = ref.next + int64(int16(s-uint16(ref.next)))
	}
	if wantDrop {
		ok := h.m.Drop(s, pid)
		h.t.Op(tr.B(ok), "drop", s, pid)
		h.t.Checked("C01.drop_only_in_order")
		if ref.started {
			if ok != (r == ref.next) {
				h.t.Fail("C01", "drop_only_in_order", fmt.Sprintf("Drop(%d) = %v but next expected is %d", r, ok, ref.next))
			}
		} else if ok {
			h.t.Fail("C01", "drop_only_in_order", fmt.Sprintf("Drop(%d) accepted before any packet was seen", r))
		}
		if ok {
			ref.d = append(ref.d, r)
			ref.next = r + 1
			return false, 0, 0
		}
	}
	ok, o, pd := h.m.Map(s, pid)
	h.t.Op(fmt.Sprintf("%s %d %d", tr.B(ok), o, pd), "map", s, pid)
	if !ref.started || r-ref.next > pmWindow || ref.next-r > pmWindow {
		// (re)synchronisation: outside the property's quantifier, only the
		// model/implementation correspondence applies
		ref.reset(r)
		if ok {
			ref.fwd[r] = ref.out(r)
		}
		return ok, o, pd
	}
	h.t.Checked("C01.number")
	if r >= ref.next {
		if !ok {
			h.t.Fail("C01", "number", fmt.Sprintf("in-order packet %d not forwarded", r))
		} else if o != uint16(ref.out(r)) {
			h.t.Fail("C01", "number", fmt.Sprintf("packet %d forwarded as %d, expected %d", r, o, uint16(ref.out(r))))
		}
		ref.next = r + 1
	} else if ref.withheld(r) {
		h.t.Checked("C01.withheld_never_forwarded")
		if ok {
			h.t.Fail("C01", "withheld_never_forwarded", fmt.Sprintf("withheld packet %d forwarded later as %d", r, o))
		}
	} else if ok && o != uint16(ref.out(r)) {
		h.t.Fail("C01", "number", fmt.Sprintf("late/duplicate packet %d forwarded as %d, expected %d", r, o, uint16(ref.out(r))))
	}
	if ok {
		ref.fwd[r] = ref.out(r)
	}
	return ok, o, pd
}

// shift moves every delta of the map (hook VerifShift): states with deltas
// around the 16-bit wrap, which real histories reach only after tens of
// thousands of withheld packets.
func (h *pmHist) shift(dk, dpid uint16) {
	ok := h.m.VerifShift(dk, dpid)
	h.t.Op(tr.B(ok), "shift", dk, dpid)
	if ok {
		h.ref.shift += int64(dk)
		h.t.Note("state-shift")
	}
}

// dump compares the complete internal state with the L0 model.
func (h *pmHist) dump() {
	h.t.Op(h.m.VerifDump(), "dump")
}

// reverse probes Reverse(o) and checks it against the reference.
func (h *pmHist) reverse(o uint16) {
	ok, s, pd := h.m.Reverse(o)
	h.t.Op(fmt.Sprintf("%s %d %d", tr.B(ok), s, pd), "reverse", o)
	ref := &h.ref
	if !ok || !ref.started {
		return
	}
	h.t.Checked("C03.reverse_owner")
	// unwrap s near next
	S := ref.next - int64(uint16(uint16(ref.next)-s))
	if uint16(uint16(ref.next)-s) > 32768 {
		S += 65536
	}
	if ref.withheld(S) {
		h.t.Fail("C03", "reverse_owner", fmt.Sprintf("Reverse(%d) names withheld source packet %d", o, S))
		return
	}
	if S < ref.next && uint16(ref.out(S)) != o {
		h.t.Fail("C03", "reverse_owner", fmt.Sprintf("Reverse(%d) names source %d which is forwarded as %d", o, S, uint16(ref.out(S))))
	}
}

func runPmap(t *tr.Trace, r *tr.Rand, n int) {
	// regression corpus first (deterministic long histories)
	pmCorpus(t)
	for hi := 0; hi < n; hi++ {
		streamKind := r.Pick(4, 4, 2, 2, 1)
		name := []string{"steady", "lossy", "startpos", "manyintervals", "reset"}[streamKind]
		if hi%12 == 11 {
			pmLongRun(t, r)
			continue
		}
		h := newPmHist(t, name)
		var start int64 = 1 << 20
		switch r.Pick(2, 2, 2, 2) {
		case 0:
			start += 0
		case 1:
			start += int64(57344 + r.Intn(8191))
			t.Note("start-57344..65534")
		case 2:
			start += int64(65535 - r.Intn(3))
		default:
			start += int64(r.Intn(65536))
		}
		if streamKind == 2 {
			start = 1<<20 + int64(57344+r.Intn(8191))
		}
		rnext := start
		pid := uint16(r.Intn(32768))
		nops := r.Range(30, 1500)
		period := r.Range(2, 5)  // temporal pattern: packets whose frame index % period != 0 are above the layer
		dropOn := r.Chance(3, 4) // layer selection active
		frame := 0
		var sent []int64 // recently forwarded source numbers
		for i := 0; i < nops; i++ {
			if r.Chance(1, 200) {
				dropOn = !dropOn
			}
			if r.Chance(1, 300) && len(h.ref.d) > 0 {
				d := uint16(h.ref.shift - int64(len(h.ref.d))) // current delta by the reference
				var dk uint16
				switch r.Pick(3, 2, 2) {
				case 0:
					dk = -d
				case 1:
					dk = -d + uint16(r.Range(1, 3)) - 2
				default:
					dk = uint16(r.U64())
				}
				h.shift(dk, uint16(r.Intn(3)*r.Intn(65536)))
				h.dump()
			}
			if r.Chance(1, 50) {
				period = r.Range(1, 6)
			}
			var x int64
			kind := 0
			if streamKind != 0 {
				kind = r.Pick(80, 6, 5, 5, 4)
			} else {
				kind = r.Pick(95, 2, 1, 1, 1)
			}
			wantDrop := false
			switch kind {
			case 0: // in order
				x = rnext
				rnext++
			case 1: // loss
				rnext += int64(r.Range(1, 6))
				x = rnext
				rnext++
				t.Note("loss")
			case 2: // duplicate
				if len(sent) > 0 {
					x = sent[len(sent)-1-r.Intn(min(len(sent), 50))]
					t.Note("duplicate")
				} else {
					x = rnext
					rnext++
				}
			case 3: // late: any number within the window behind
				x = rnext - 1 - int64(r.Intn(min(int(rnext-start)+1, 300)))
				if r.Chance(1, 10) {
					x = rnext - int64(r.Range(1, 8191))
				}
				t.Note("late")
			default: // forward jump inside the window
				rnext += int64(r.Range(1, 8000))
				x = rnext
				rnext++
				t.Note("jump-in-window")
			}
			if streamKind == 4 && r.Chance(1, 100) {
				if r.Bool() {
					rnext += int64(r.Range(8193, 40000))
				} else {
					rnext -= int64(r.Range(8194, 20000))
				}
				x = rnext
				rnext++
				t.Note("resync")
			}
			if r.Chance(1, 4) {
				frame++
				pid = (pid + 1) & 0x7FFF
			}
			if dropOn && frame%period != 0 {
				wantDrop = true
			}
			if streamKind == 3 && i%3 == 1 {
				wantDrop = true // one drop every three packets: many intervals
			}
			ok, o, _ := h.arrive(x, pid, wantDrop)
			if i%97 == 96 {
				h.dump()
			}
			if ok {
				sent = append(sent, x)
				if r.Chance(1, 6) {
					// NACK probes: sent, neighbours, random
					switch r.Pick(5, 2, 1) {
					case 0:
						y := sent[len(sent)-1-r.Intn(min(len(sent), 100))]
						h.reverse(uint16(h.ref.out(y)))
					case 1:
						h.reverse(o + uint16(r.Range(-3, 3)))
					default:
						h.reverse(uint16(r.U64()))
					}
				}
			}
		}
		h.dump()
		t.Nontrivial(fmt.Sprintf("pmap/%s/%d/%d/%d", name, start, len(h.ref.d), len(sent)))
	}
}

// pmLongRun: intervals that live long enough for retire to fire (in Map and
// in Drop), with drop bursts, late copies and NACK probes in between.
func pmLongRun(t *tr.Trace, r *tr.Rand) {
	h := newPmHist(t, "longrun")
	x := int64(1<<20) + int64(r.Intn(65536))
	h.arrive(x, 0, false)
	x++
	h.arrive(x, 0, true)
	x++
	for seg := 0; seg < 3; seg++ {
		run := 0
		switch r.Pick(3, 2, 1) {
		case 0:
			run = 16384 + r.Range(-20, 20)
		case 1:
			run = 16384 + 8192*r.Range(0, 2) + r.Range(-20, 20)
		default:
			run = r.Range(8000, 30000)
		}
		for j := 0; j < run; j++ {
			h.arrive(x, 0, false)
			x++
			if r.Chance(1, 4000) { // an occasional loss or late packet inside the run
				h.arrive(x-int64(r.Range(2, 8000)), 0, false)
			}
		}
		first := x
		burst := r.Range(1, 12)
		for j := 0; j < burst; j++ {
			h.arrive(x, 0, true)
			x++
		}
		h.dump()
		for j := 0; j < r.Range(0, 6); j++ {
			h.arrive(x, 0, false)
			x++
		}
		for y := first - 3; y < x; y++ {
			h.arrive(y, 0, false)
			h.reverse(uint16(h.ref.out(y)))
		}
		for k := 0; k < 40; k++ {
			y := x - int64(r.Range(1, 8191))
			h.arrive(y, 0, false)
			h.reverse(uint16(h.ref.out(y)))
		}
		h.dump()
	}
	t.Nontrivial(fmt.Sprintf("pmap/longrun/%d/%d", x, len(h.ref.d)))
}

// pmCorpus: the long deterministic histories that exhibited F9 and F12 on
// the pinned tree (kept as regression histories; see DESIGN.md section 4).
func pmCorpus(t *tr.Trace) {
	// F9: start number in 57344..65534, then an in-order packet above the layer
	{
		h := newPmHist(t, "corpus-F9")
		r := int64(1<<20 + 60000)
		h.arrive(r, 10, false)
		for i := int64(1); i < 20; i++ {
			h.arrive(r+i, 10, i%2 == 1)
		}
	}
	// F12(a): >=128 drop-separated intervals, then a long drop-free run,
	// then late copies and NACKs within the window
	for _, run := range []int{40000, 50000, 70000} {
		h := newPmHist(t, fmt.Sprintf("corpus-F12a-%d", run))
		r := int64(1<<20 + 100)
		for i := 0; i < 140; i++ {
			for j := 0; j < 200; j++ {
				h.arrive(r, 0, j == 199)
				r++
			}
		}
		h.dump() // the ring of intervals is full and has been recycled: exactly maxEntries slots
		for j := 0; j < run; j++ {
			h.arrive(r, 0, false)
			r++
		}
		for back := int64(1); back < 8000; back += 13 {
			h.arrive(r-back, 0, false)
			h.reverse(uint16(h.ref.out(r - back)))
		}
		h.dump()
	}
	// retire fires inside Drop: an interval that has lived for 16384 (+ k*8192)
	// packets, then a run of withheld packets straddling the threshold, then
	// late copies of the withheld packets and of their neighbours
	for _, run := range []int{16370, 16380, 16383, 16384, 16385, 16390, 24570, 24576, 24580, 32768, 40960} {
		for _, start := range []int64{1<<20 + 60000, 1<<20 + 3} {
			h := newPmHist(t, fmt.Sprintf("corpus-retire-in-drop-%d", run))
			r := start
			// leave the pristine state first: intervals exist only after a drop
			h.arrive(r, 0, false)
			r++
			h.arrive(r, 0, true)
			r++
			for j := 0; j < run; j++ {
				h.arrive(r, 0, false)
				r++
			}
			first := r
			for j := 0; j < 6; j++ {
				h.arrive(r, 0, true)
				r++
				h.dump()
			}
			for j := 0; j < 5; j++ {
				h.arrive(r, 0, false)
				r++
			}
			for x := first - 4; x < r; x++ {
				h.arrive(x, 0, false)
				h.reverse(uint16(h.ref.out(x)))
			}
			for back := int64(1); back < 8192; back += 61 {
				h.arrive(r-back, 0, false)
			}
			h.dump()
		}
	}
	// sparse drops over more than a full cycle of sequence numbers: every
	// interval is short-lived as the newest one, so nothing is retired, and
	// after 2^16 packets the ring holds intervals a whole cycle old; late
	// copies of recently withheld packets (they fall in the GAP between two
	// intervals, where the backwards walk must stop) and of their neighbours
	for _, period := range []int{1000, 640} {
		h := newPmHist(t, fmt.Sprintf("corpus-sparse-drops-full-cycle-%d", period))
		r := int64(1<<20 + 77)
		var dropped []int64
		for j := 0; j < 72000; j++ {
			d := j%period == period-1
			if d {
				dropped = append(dropped, r)
			}
			h.arrive(r, 0, d)
			r++
			if j > 50000 && j%period == 5 {
				for k := len(dropped) - 1; k >= 0 && r-dropped[k] < 8000; k-- {
					h.arrive(dropped[k], 0, false)
					h.arrive(dropped[k]-1, 0, false)
					h.arrive(dropped[k]+1, 0, false)
					h.reverse(uint16(h.ref.out(dropped[k] + 1)))
					h.reverse(uint16(h.ref.out(dropped[k]+1) - 1))
				}
			}
		}
		h.dump()
	}
	// F12(b): a very long run of consecutive withheld packets
	for _, run := range []int{57400, 65000, 70000} {
		h := newPmHist(t, fmt.Sprintf("corpus-F12b-%d", run))
		r := int64(1<<20 + 5)
		for j := 0; j < 10; j++ {
			h.arrive(r, 0, false)
			r++
		}
		for j := 0; j < run; j++ {
			h.arrive(r, 0, true)
			r++
		}
		for back := int64(1); back < 8000; back += 17 {
			h.arrive(r-back, 0, false)
		}
		for j := 0; j < 10; j++ {
			h.arrive(r, 0, false)
			r++
		}
		for back := int64(1); back < 8000; back += 17 {
			h.arrive(r-back, 0, false)
		}
	}
}

func main() { tr.Main(runPmap) }

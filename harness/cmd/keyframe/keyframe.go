// Driver `keyframe`: the byte-level part of C12 on the REAL code.
//
// Runs codecs.Keyframe, codecs.PacketFlags and codecs.KeyframeDimensions of
// /repo under recover() on random, structured and exhaustive byte strings for
// every codec name the code knows (and some it does not), and writes one
// trace line per call:
//
//	keyframe <codec> <hexpayload> [<oracle>] => <kf> <known> | PANIC
//	flags    <codec> <hexbuf>                => T | <seqno> <marker> | PANIC
//	dims     <codec> <hexpayload> [<oracle>] => <w> <h> | PANIC
//	xdims    <codec> <hexpayload>            => <w> <h> | PANIC   (vp9: not modelled)
//
// <oracle> is what pion's depacketiser made of the payload (pion is a
// dependency and is not modelled; galene's own statements after it are):
// vp8: E | <S>,<PID>,<hex of vp8.Payload>;  vp9: E | <B>,<hex of vp9.Payload>.
// `T` is errTruncated with zero Flags.  For `flags` only the header part
// (Seqno, Marker) is an observable; the VP8/VP9 parts run under recover().
//
// Every buffer handed to the code has cap == len, so that a slice expression
// reaching beyond the packet panics instead of hiding in spare capacity.
package main

import (
	"bytes"
	"flag"
	"fmt"
	"os"
	"runtime/debug"
	"strings"
	"sync/atomic"
	"time"

	"github.com/jech/galene/codecs"
	"github.com/pion/rtp"
	pcodecs "github.com/pion/rtp/codecs"

	"verifharness/internal/tr"
)

// exact returns a copy of b with cap == len (nil stays nil).
func exact(b []byte) []byte {
	if b == nil {
		return nil
	}
	c := make([]byte, len(b))
	copy(c, b)
	return c[:len(c):len(c)]
}

// where names the first galene or pion function on the stack of a panic.
func where(stack []byte) string {
	lines := strings.Split(string(stack), "\n")
	seenPanic := false
	for _, l := range lines {
		if strings.HasPrefix(l, "panic(") {
			seenPanic = true
			continue
		}
		if !seenPanic || strings.HasPrefix(l, "\t") {
			continue
		}
		if strings.Contains(l, "github.com/pion/") {
			return "in pion (dependency): " + l
		}
		if strings.Contains(l, "github.com/jech/galene/") {
			return "in galene: " + l
		}
	}
	return "?"
}

type kfDriver struct {
	t *tr.Trace
	r *tr.Rand
}

// progress/current are read by the watchdog.
var progress atomic.Int64
var current atomic.Value // string

func codecTok(c string) string {
	if c == "" {
		return "-"
	}
	return c
}

func lower(c string) string { return strings.ToLower(c) }

// oracleVP8 runs pion's depacketiser alone.
func oracleVP8(p []byte) (tok string, panicked string) {
	defer func() {
		if e := recover(); e != nil {
			panicked = fmt.Sprintf("%v %s", e, where(debug.Stack()))
			tok = "E"
		}
	}()
	var vp8 pcodecs.VP8Packet
	_, err := vp8.Unmarshal(exact(p))
	if err != nil {
		return "E", ""
	}
	return fmt.Sprintf("%d,%d,%s", vp8.S, vp8.PID, tr.Hex(vp8.Payload)), ""
}

func oracleVP9(p []byte) (tok string, panicked string) {
	defer func() {
		if e := recover(); e != nil {
			panicked = fmt.Sprintf("%v %s", e, where(debug.Stack()))
			tok = "E"
		}
	}()
	var vp9 pcodecs.VP9Packet
	_, err := vp9.Unmarshal(exact(p))
	if err != nil {
		return "E", ""
	}
	return fmt.Sprintf("%s,%s", tr.B(vp9.B), tr.Hex(vp9.Payload)), ""
}

// keyframe runs codecs.Keyframe(codec, &rtp.Packet{Payload: p}).
func (d *kfDriver) keyframe(codec string, p []byte) {
	in := exact(p)
	current.Store("keyframe " + codecTok(codec) + " " + tr.Hex(p))
	var kf, known bool
	panicked := ""
	func() {
		defer func() {
			if e := recover(); e != nil {
				panicked = fmt.Sprintf("%v %s", e, where(debug.Stack()))
			}
		}()
		kf, known = codecs.Keyframe(codec, &rtp.Packet{Payload: in})
	}()
	progress.Add(1)
	current.Store("")
	obs := tr.B(kf) + " " + tr.B(known)
	if panicked != "" {
		obs = "PANIC"
	}
	args := []interface{}{codecTok(codec), p}
	switch lower(codec) {
	case "video/vp8":
		o, pp := oracleVP8(p)
		args = append(args, o)
		if pp != "" && panicked == "" {
			panicked = pp
		}
	case "video/vp9":
		o, pp := oracleVP9(p)
		args = append(args, o)
		if pp != "" && panicked == "" {
			panicked = pp
		}
	}
	d.t.Op(obs, "keyframe", args...)
	d.t.Checked("C12.keyframe_no_panic")
	if panicked != "" {
		d.t.Fail("C12", "keyframe_no_panic",
			fmt.Sprintf("codecs.Keyframe(%q, payload %s) panics: %s", codec, tr.Hex(p), panicked))
		return
	}
	d.t.Checked("C12.keyframe_readonly")
	if !bytes.Equal(in, p) || len(in) != len(p) {
		d.t.Fail("C12", "keyframe_readonly",
			fmt.Sprintf("codecs.Keyframe(%q, payload %s) changed the packet to %s", codec, tr.Hex(p), tr.Hex(in)))
	}
	d.t.Checked("C12.keyframe_result_wf")
	if kf && !known {
		d.t.Fail("C12", "keyframe_result_wf",
			fmt.Sprintf("codecs.Keyframe(%q, payload %s) = (true, false)", codec, tr.Hex(p)))
	}
	if kf {
		d.t.Note("kf=1")
	} else if known {
		d.t.Note("kf=0,known")
	} else {
		d.t.Note("kf=unknown")
	}
}

// flags runs codecs.PacketFlags(codec, buf).
func (d *kfDriver) flags(codec string, buf []byte) {
	in := exact(buf)
	current.Store("flags " + codecTok(codec) + " " + tr.Hex(buf))
	var f codecs.Flags
	var err error
	panicked := ""
	func() {
		defer func() {
			if e := recover(); e != nil {
				panicked = fmt.Sprintf("%v %s", e, where(debug.Stack()))
			}
		}()
		f, err = codecs.PacketFlags(codec, in)
	}()
	progress.Add(1)
	current.Store("")
	var obs string
	truncated := err != nil && err.Error() == "truncated packet" && f == (codecs.Flags{})
	switch {
	case panicked != "":
		obs = "PANIC"
	case truncated:
		obs = "T"
	default:
		obs = fmt.Sprintf("%d %s", f.Seqno, tr.B(f.Marker))
	}
	d.t.Op(obs, "flags", codecTok(codec), buf)
	d.t.Checked("C12.flags_no_panic")
	if panicked != "" {
		d.t.Fail("C12", "flags_no_panic",
			fmt.Sprintf("codecs.PacketFlags(%q, %s) panics: %s", codec, tr.Hex(buf), panicked))
		return
	}
	d.t.Checked("C12.flags_readonly")
	if !bytes.Equal(in, buf) {
		d.t.Fail("C12", "flags_readonly",
			fmt.Sprintf("codecs.PacketFlags(%q, %s) changed the packet to %s", codec, tr.Hex(buf), tr.Hex(in)))
	}
	// the header part, restated
	d.t.Checked("C12.flags_header")
	if len(buf) < 4 {
		if !truncated {
			d.t.Fail("C12", "flags_header",
				fmt.Sprintf("codecs.PacketFlags(%q, %s): a %d-byte buffer is not refused as truncated (err=%v flags=%+v)",
					codec, tr.Hex(buf), len(buf), err, f))
		}
	} else {
		seq := uint16(buf[2])<<8 | uint16(buf[3])
		mk := buf[1]&0x80 != 0
		if truncated || f.Seqno != seq || f.Marker != mk {
			d.t.Fail("C12", "flags_header",
				fmt.Sprintf("codecs.PacketFlags(%q, %s): seqno/marker %d/%v (err=%v), the header says %d/%v",
					codec, tr.Hex(buf), f.Seqno, f.Marker, err, seq, mk))
		}
	}
	switch {
	case truncated:
		d.t.Note("flags=truncated")
	case err != nil:
		d.t.Note("flags=err")
	case f.Keyframe:
		d.t.Note("flags=ok,keyframe")
	default:
		d.t.Note("flags=ok")
	}
}

// dims runs codecs.KeyframeDimensions(codec, &rtp.Packet{Payload: p}).
func (d *kfDriver) dims(codec string, p []byte) {
	in := exact(p)
	current.Store("dims " + codecTok(codec) + " " + tr.Hex(p))
	var w, h uint32
	panicked := ""
	func() {
		defer func() {
			if e := recover(); e != nil {
				panicked = fmt.Sprintf("%v %s", e, where(debug.Stack()))
			}
		}()
		w, h = codecs.KeyframeDimensions(codec, &rtp.Packet{Payload: in})
	}()
	progress.Add(1)
	current.Store("")
	obs := fmt.Sprintf("%d %d", w, h)
	if panicked != "" {
		obs = "PANIC"
	}
	op := "dims"
	args := []interface{}{codecTok(codec), p}
	switch lower(codec) {
	case "video/vp8":
		o, pp := oracleVP8(p)
		args = append(args, o)
		if pp != "" && panicked == "" {
			panicked = pp
		}
	case "video/vp9":
		op = "xdims"
	}
	d.t.Op(obs, op, args...)
	d.t.Checked("C12.dims_no_panic")
	if panicked != "" {
		d.t.Fail("C12", "dims_no_panic",
			fmt.Sprintf("codecs.KeyframeDimensions(%q, payload %s) panics: %s", codec, tr.Hex(p), panicked))
		return
	}
	d.t.Checked("C12.dims_readonly")
	if !bytes.Equal(in, p) {
		d.t.Fail("C12", "dims_readonly",
			fmt.Sprintf("codecs.KeyframeDimensions(%q, payload %s) changed the packet", codec, tr.Hex(p)))
	}
	if w != 0 || h != 0 {
		d.t.Note("dims=nonzero")
	}
}

// ------------------------------------------------------------ generators

var codecNames = []string{
	"video/vp8", "video/vp9", "video/av1", "video/h264", // the four the code knows
	"audio/opus", "video/h265", "", "video/av1x", "video/vp", // unknown to the parsers
	"Video/VP8", "VIDEO/VP9", "video/AV1", "Video/H264", "vIdEo/aV1", "VIDEO/H264", // mixed case
}

func (d *kfDriver) anyCodec() string { return codecNames[d.r.Intn(len(codecNames))] }

func (d *kfDriver) codecLike(base string) string {
	var alts []string
	for _, c := range codecNames {
		if lower(c) == base {
			alts = append(alts, c)
		}
	}
	return alts[d.r.Intn(len(alts))]
}

// randLen: lengths concentrated at 0..20, up to 1504.
func (d *kfDriver) randLen() int {
	switch d.r.Pick(80, 12, 6, 2) {
	case 0:
		return d.r.Range(0, 20)
	case 1:
		return d.r.Range(21, 200)
	case 2:
		return d.r.Range(201, 1504)
	default:
		return 1504
	}
}

// leb encodes n as LEB128; pad appends that many redundant bytes (overlong
// encoding); trunc leaves the continuation bit set on the final byte, so
// that the length runs into whatever follows (or into the end).
func leb(n int, pad int, trunc bool) []byte {
	var out []byte
	for {
		b := byte(n & 0x7f)
		n >>= 7
		if n == 0 {
			out = append(out, b)
			break
		}
		out = append(out, b|0x80)
	}
	for i := 0; i < pad; i++ {
		out[len(out)-1] |= 0x80
		out = append(out, 0x00)
	}
	if trunc {
		out[len(out)-1] |= 0x80
	}
	return out
}

// av1Obu builds one OBU of the given type and body length (total bytes
// including the header byte); second is the byte after the header.
func (d *kfDriver) av1Obu(tpe int, total int, second byte) []byte {
	if total <= 0 {
		return nil
	}
	o := make([]byte, total)
	o[0] = byte(tpe<<3) | byte(d.r.Intn(8)) | byte(d.r.Intn(2)<<7)
	if total > 1 {
		o[1] = second
	}
	for i := 2; i < total; i++ {
		o[i] = byte(d.r.U64())
	}
	return o
}

// av1Packet builds a structured AV1 RTP payload: aggregation header with
// every Z/Y/W/N combination, OBUs with LEB128 lengths that are exact,
// multi-byte, overlong, truncated, or point at / one past the end.
func (d *kfDriver) av1Packet() []byte {
	r := d.r
	z, y, w, n := r.Intn(2), r.Intn(2), r.Intn(4), r.Intn(2)
	if r.Chance(3, 4) { // the interesting case for this parser
		z, n = 0, 1
	}
	hdr := byte(z<<7 | y<<6 | w<<4 | n<<3 | r.Intn(8)*r.Intn(2))
	out := []byte{hdr}
	nobu := w
	if w == 0 {
		nobu = r.Range(0, 4)
	}
	if r.Chance(1, 8) {
		nobu = r.Range(0, 5)
	}
	for i := 0; i < nobu; i++ {
		var tpe int
		switch {
		case i == 0 && r.Chance(4, 5):
			tpe = 1 // sequence header
		case i > 0 && r.Chance(3, 5):
			tpe = []int{3, 6}[r.Intn(2)]
		default:
			tpe = r.Intn(16)
		}
		total := r.Pick(1, 3, 6, 1)
		switch total {
		case 0:
			total = 0
		case 1:
			total = 1
		case 2:
			total = r.Range(2, 12)
		default:
			total = r.Range(120, 300) // needs a two-byte length
		}
		second := byte(r.U64())
		if r.Chance(1, 2) {
			second &= 0x1f // show_existing_frame=0, frame_type=KEY
		}
		obu := d.av1Obu(tpe, total, second)
		last := w != 0 && i == w-1
		if !last || r.Chance(1, 10) {
			declared := len(obu)
			pad := 0
			trunc := false
			switch r.Pick(12, 2, 2, 1, 1, 1, 1) {
			case 1:
				declared++ // one past what follows (if this is the final OBU)
			case 2:
				declared += r.Range(2, 300)
			case 3:
				if declared > 0 {
					declared--
				}
			case 4:
				pad = r.Range(1, 4) // overlong: up to 5 bytes
			case 5:
				trunc = true
			case 6:
				declared = r.Range(0, 1<<28)
				pad = r.Intn(2)
			}
			out = append(out, leb(declared, pad, trunc)...)
		}
		out = append(out, obu...)
	}
	switch r.Pick(10, 2, 1) {
	case 1: // cut anywhere
		out = out[:r.Range(0, len(out))]
	case 2: // trailing junk
		out = append(out, r.Bytes(r.Range(1, 4))...)
	}
	return out
}

// h264Packet builds a structured H.264 RTP payload: every NALU type 0..31,
// STAP/MTAP with lengths 0, exact, one past the end, DON fields, FU with
// and without the start bit.
func (d *kfDriver) h264Packet() []byte {
	r := d.r
	var nalu int
	switch r.Pick(3, 6, 3) {
	case 0:
		nalu = r.Intn(32)
	case 1:
		nalu = r.Range(24, 27)
	default:
		nalu = r.Range(28, 29)
	}
	first := byte(nalu) | byte(r.Intn(8)<<5)
	out := []byte{first}
	switch {
	case nalu >= 24 && nalu <= 27:
		if nalu != 24 {
			switch r.Pick(8, 1, 1) {
			case 0:
				out = append(out, r.Bytes(2)...) // DON
			case 1:
				out = append(out, r.Bytes(1)...) // half a DON
			}
		}
		units := r.Range(0, 4)
		for i := 0; i < units; i++ {
			hdr := 0
			if nalu == 26 {
				hdr = 3
			} else if nalu == 27 {
				hdr = 4
			}
			body := r.Range(0, 6)
			if r.Chance(1, 12) {
				body = r.Range(100, 400)
			}
			unit := r.Bytes(hdr + body)
			if body > 0 {
				t := r.Intn(32)
				if r.Chance(1, 3) {
					t = 7
				} else if r.Chance(3, 4) {
					t = r.Range(1, 23)
				}
				unit[hdr] = byte(t) | byte(r.Intn(8)<<5)
			}
			declared := len(unit)
			switch r.Pick(12, 2, 2, 1, 1, 1) {
			case 1:
				declared++ // one past the end if this is the last unit
			case 2:
				declared = 0
			case 3:
				declared = hdr // exactly the MTAP header, no unit
			case 4:
				declared = r.Intn(65536)
			case 5:
				if declared > 0 {
					declared--
				}
			}
			out = append(out, byte(declared>>8), byte(declared))
			out = append(out, unit...)
		}
		switch r.Pick(10, 2, 1, 1) {
		case 1:
			out = out[:r.Range(0, len(out))]
		case 2:
			out = append(out, r.Bytes(1)...) // a lone byte where a length should be
		case 3:
			out = append(out, r.Bytes(2)...)
		}
	case nalu == 28 || nalu == 29:
		if r.Chance(9, 10) {
			t := r.Intn(32)
			if r.Chance(1, 3) {
				t = 7
			}
			fu := byte(t) | byte(r.Intn(2)<<6)
			if r.Chance(1, 2) {
				fu |= 0x80 // start bit
			}
			out = append(out, fu)
			out = append(out, r.Bytes(r.Range(0, 8))...)
		}
	default:
		out = append(out, r.Bytes(r.Range(0, 8))...)
	}
	return out
}

// vpxPayload: a VP8/VP9 payload descriptor-ish prefix and a few bytes.
func (d *kfDriver) vpxPayload() []byte {
	r := d.r
	if r.Chance(1, 4) {
		// the shortest descriptors that reach the frame header:
		// VP9 with B set (and E at random), VP8 with S set and PID 0
		first := byte(0x80 | r.Intn(4)<<4 | r.Intn(16))
		desc := []byte{byte(0x08 | r.Intn(2)<<2 | r.Intn(2))}
		if r.Chance(1, 2) {
			desc = []byte{0x10 | byte(r.Intn(2)<<5)}
			first = byte(r.U64())
		}
		out := append(desc, first)
		return append(out, r.Bytes(r.Range(0, 12))...)
	}
	n := r.Range(0, 24)
	b := r.Bytes(n)
	if n > 0 && r.Chance(1, 2) {
		b[0] |= 0x80 // extension / picture id present
	}
	if n > 0 && r.Chance(1, 3) {
		b[0] |= 0x10 // VP8 S bit
		b[0] &^= 0x07
	}
	if n > 0 && r.Chance(1, 3) {
		b[0] |= 0x0a // VP9 B and V
	}
	return b
}

// rtpPacket wraps a payload in an RTP header with CSRCs, extension and
// padding that are valid, truncated or inconsistent.
func (d *kfDriver) rtpPacket(payload []byte) []byte {
	r := d.r
	cc := 0
	if r.Chance(1, 4) {
		cc = r.Intn(16)
	}
	x := r.Chance(1, 3)
	p := r.Chance(1, 4)
	v := 2
	if r.Chance(1, 10) {
		v = r.Intn(4)
	}
	b0 := byte(v<<6) | byte(cc)
	if x {
		b0 |= 0x10
	}
	if p {
		b0 |= 0x20
	}
	out := []byte{b0, byte(r.U64())}
	out = append(out, r.Bytes(2)...) // seqno
	out = append(out, r.Bytes(8)...) // timestamp, ssrc
	out = append(out, r.Bytes(4*cc)...)
	if x {
		words := r.Intn(4)
		profile := []uint16{0xBEDE, 0x1000, uint16(r.U64())}[r.Intn(3)]
		declared := words
		switch r.Pick(8, 1, 1) {
		case 1:
			declared = words + 1
		case 2:
			declared = r.Intn(65536)
		}
		out = append(out, byte(profile>>8), byte(profile), byte(declared>>8), byte(declared))
		out = append(out, r.Bytes(4*words)...)
	}
	out = append(out, payload...)
	if p {
		switch r.Pick(6, 1, 1, 1) {
		case 0:
			k := r.Range(1, 6)
			pad := make([]byte, k)
			pad[k-1] = byte(k)
			out = append(out, pad...)
		case 1:
			out = append(out, 0) // padding count 0
		case 2:
			out = append(out, byte(r.Range(len(out)+1, 255)%256)) // beyond the packet
		}
	}
	if r.Chance(1, 8) {
		out = out[:r.Range(0, len(out))]
	}
	return out
}

func (d *kfDriver) structured(codec string) []byte {
	switch lower(codec) {
	case "video/av1":
		return d.av1Packet()
	case "video/h264":
		return d.h264Packet()
	case "video/vp8", "video/vp9":
		return d.vpxPayload()
	}
	return d.r.Bytes(d.randLen())
}

// regression inputs, run first in every tier
var corpusKeyframe = []struct {
	codec string
	p     []byte
}{
	{"video/av1", []byte{0x28, 0x02, 0x0a, 0x00, 0x32, 0x10}},
	{"video/av1", []byte{0x28, 0x05, 0x0a, 0x00, 0x32, 0x10}},
	{"video/av1", []byte{0x28, 0x81, 0x80, 0x80, 0x80, 0x00, 0x0a, 0x32, 0x10}},
	{"video/av1", []byte{0x08, 0x80}},
	{"video/av1", []byte{0x08, 0x00}},
	{"video/av1", []byte{0x18, 0x0a}},
	{"video/av1", []byte{0x38, 0x01, 0x0a, 0x01, 0x2a, 0x1a, 0x00}},
	{"video/av1", []byte{0x08, 0xff, 0xff, 0xff, 0x7f, 0x0a}},
	{"video/h264", []byte{0x67, 0x42, 0x00, 0x1f}},
	{"video/h264", []byte{0x18, 0x00, 0x02, 0x41, 0x09, 0x00, 0x01, 0x67}},
	{"video/h264", []byte{0x18, 0x00, 0x02, 0x41, 0x09, 0x00, 0x02, 0x41}},
	{"video/h264", []byte{0x18, 0x00}},
	{"video/h264", []byte{0x18, 0x00, 0x00}},
	{"video/h264", []byte{0x18, 0xff, 0xff}},
	{"video/h264", []byte{0x19, 0x00}},
	{"video/h264", []byte{0x1a, 0x00, 0x00, 0x00, 0x04, 0x00, 0x00, 0x00, 0x67}},
	{"video/h264", []byte{0x1a, 0x00, 0x00, 0x00, 0x03, 0x00, 0x00, 0x00}},
	{"video/h264", []byte{0x1b, 0x00, 0x00, 0x00, 0x05, 0x00, 0x00, 0x00, 0x00, 0x67}},
	{"video/h264", []byte{0x1b, 0x00, 0x00, 0x00, 0x04, 0x00, 0x00, 0x00, 0x00}},
	{"video/h264", []byte{0x7c, 0x87}},
	{"video/h264", []byte{0x7c}},
	{"video/vp8", []byte{0x10, 0x00}},
	{"video/vp8", []byte{0x90, 0x80, 0x81}},
	{"video/vp9", []byte{0x08, 0x80}},
	{"video/vp9", []byte{0x0a}},
}

func (d *kfDriver) corpus() {
	d.t.History("keyframe", "corpus")
	for _, c := range corpusKeyframe {
		d.keyframe(c.codec, c.p)
		d.dims(c.codec, c.p)
		d.flags(c.codec, c.p)
	}
	for _, c := range codecNames {
		d.keyframe(c, nil)
		d.keyframe(c, []byte{})
		d.dims(c, nil)
		d.dims(c, []byte{})
		d.flags(c, nil)
		for n := 0; n <= 5; n++ {
			d.flags(c, bytes.Repeat([]byte{0xff}, n))
		}
		// a header-only RTP packet and one with a one-byte payload
		d.flags(c, []byte{0x80, 0xe0, 0x12, 0x34, 0, 0, 0, 1, 0, 0, 0, 2})
		d.flags(c, []byte{0x80, 0x60, 0xff, 0xff, 0, 0, 0, 1, 0, 0, 0, 2, 0x0a})
	}
	d.t.Nontrivial("corpus")
}

// exhaustive: ALL byte strings of length <= 2 for the two hand-written
// parsers; one history per first byte.
func (d *kfDriver) exhaustive() {
	for _, codec := range []string{"video/av1", "video/h264"} {
		for b0 := 0; b0 < 256; b0++ {
			d.t.History("keyframe", "exhaustive-len<=2")
			if b0 == 0 {
				d.keyframe(codec, []byte{})
			}
			d.keyframe(codec, []byte{byte(b0)})
			for b1 := 0; b1 < 256; b1++ {
				d.keyframe(codec, []byte{byte(b0), byte(b1)})
			}
			d.t.Nontrivial(fmt.Sprintf("ex/%s/%d", codec, b0))
		}
	}
}

func runKeyframe(t *tr.Trace, r *tr.Rand, n int) {
	d := &kfDriver{t: t, r: r}
	current.Store("")
	startWatchdog(t)
	d.corpus()
	d.exhaustive()
	for hi := 0; hi < n; hi++ {
		switch r.Pick(5, 5, 5, 3, 2, 4, 2) {
		case 0: // (a) purely random bytes, every codec name
			codec := d.anyCodec()
			t.History("keyframe", "random")
			for i := 0; i < 24; i++ {
				p := r.Bytes(d.randLen())
				d.keyframe(codec, p)
				if i%4 == 0 {
					d.dims(codec, p)
				}
			}
			t.Nontrivial("random/" + codec + fmt.Sprint(hi))
		case 1: // (b) structured AV1
			codec := d.codecLike("video/av1")
			if r.Chance(1, 10) {
				codec = d.anyCodec()
			}
			t.History("keyframe", "av1-structured")
			for i := 0; i < 48; i++ {
				d.keyframe(codec, d.av1Packet())
			}
			t.Nontrivial("av1/" + fmt.Sprint(hi))
		case 2: // (c) structured H.264
			codec := d.codecLike("video/h264")
			if r.Chance(1, 10) {
				codec = d.anyCodec()
			}
			t.History("keyframe", "h264-structured")
			for i := 0; i < 48; i++ {
				d.keyframe(codec, d.h264Packet())
			}
			t.Nontrivial("h264/" + fmt.Sprint(hi))
		case 3: // (d) length 3: two random bytes, all third bytes
			codec := []string{"video/av1", "video/h264"}[r.Intn(2)]
			t.History("keyframe", "len3-sample")
			b0, b1 := byte(r.U64()), byte(r.U64())
			if codec == "video/av1" && r.Chance(3, 4) {
				b0 = b0&^0x88 | 0x08
			}
			if codec == "video/h264" && r.Chance(3, 4) {
				b0 = b0&^0x1f | byte(r.Range(24, 29))
			}
			for b2 := 0; b2 < 256; b2++ {
				d.keyframe(codec, []byte{b0, b1, byte(b2)})
			}
			t.Nontrivial(fmt.Sprintf("len3/%s/%d/%d", codec, b0, b1))
		case 4: // VP8/VP9 descriptors: keyframe and dimensions
			codec := d.codecLike([]string{"video/vp8", "video/vp9"}[r.Intn(2)])
			t.History("keyframe", "vpx-structured")
			for i := 0; i < 32; i++ {
				p := d.vpxPayload()
				d.keyframe(codec, p)
				d.dims(codec, p)
			}
			t.Nontrivial("vpx/" + fmt.Sprint(hi))
		case 5: // PacketFlags on RTP packets
			codec := d.anyCodec()
			t.History("keyframe", "flags-rtp")
			for i := 0; i < 32; i++ {
				d.flags(codec, d.rtpPacket(d.structured(codec)))
			}
			t.Nontrivial("flags/" + fmt.Sprint(hi))
		default: // PacketFlags on random bytes
			codec := d.anyCodec()
			t.History("keyframe", "flags-random")
			for i := 0; i < 32; i++ {
				d.flags(codec, r.Bytes(d.randLen()))
			}
			t.Nontrivial("flagsr/" + fmt.Sprint(hi))
		}
	}
}

// startWatchdog reports a parser that does not return (C12: the server keeps
// running) instead of letting the driver hang: if no call completes for 20 s
// the pending input is recorded as a failure and the run ends.
func startWatchdog(t *tr.Trace) {
	out := "trace.txt"
	if f := flag.Lookup("out"); f != nil {
		out = f.Value.String()
	}
	go func() {
		last := progress.Load()
		idle := 0
		for {
			time.Sleep(2 * time.Second)
			cur := progress.Load()
			if cur != last || current.Load().(string) == "" {
				last, idle = cur, 0
				continue
			}
			idle++
			if idle < 10 {
				continue
			}
			t.Checked("C12.keyframe_terminates")
			t.Fail("C12", "keyframe_terminates",
				"the call does not return within 20 s: "+current.Load().(string))
			t.Close(out + ".summary.json")
			os.Exit(0)
		}
	}()
}

func main() { tr.Main(runKeyframe) }

// Driver tokstore (C16): the real token package on a JSON-lines file against
// the extracted Coq model Model/TokenStore.v, with monitors, racing
// goroutines and strace kill points.  The code is in internal/tokdrv (shared
// with the HTTP-level driver tokapi); this binary deliberately does not link
// the web server, so that the traced child processes of the crash points
// start quickly.
package main

import (
	"verifharness/internal/tokdrv"
	"verifharness/internal/tr"
)

func main() {
	if tokdrv.IsChild() {
		tokdrv.Child()
		return
	}
	tr.Main(tokdrv.RunStore)
}

// Driver unbsched (C13, part A, correspondence): the deterministic scheduler.
// One goroutine calls the REAL unbounded.Channel[int] in seeded orders of
// whole Put / non-blocking receive on Ch / Get (Put is atomic from outside,
// so only interleavings of whole operations can be forced this way) and the
// extracted model Model/Unbounded.v (component "unbounded") runs the same
// operations; observables: the token in Ch after a Put, whether a receive
// found a token, the items returned by Get.
//
// Monitors (on the implementation only):
//
//	C13.exactly_once    the concatenation of the Get results is a prefix of
//	                    the Puts in order; equal after the final drain
//	C13.no_lost_wakeup  whenever items are queued and the consumer is not
//	                    between its receive and its Get, a token is in Ch
package main

import (
	"fmt"
	"strings"

	"github.com/jech/galene/unbounded"

	"verifharness/internal/tr"
)

type seqHist struct {
	t       *tr.Trace
	ch      *unbounded.Channel[int]
	puts    []int // every value put, in order
	got     []int // every value returned by Get, in order
	pending int   // values put and not yet returned
	between bool  // the consumer has received the token and not yet called Get
	next    int
}

func newSeqHist(t *tr.Trace, stream string) *seqHist {
	t.History("unbounded", stream)
	return &seqHist{t: t, ch: unbounded.New[int]()}
}

func (h *seqHist) checkWake(after string) {
	h.t.Checked("C13.no_lost_wakeup")
	if h.pending > 0 && !h.between && len(h.ch.Ch) != 1 {
		h.t.Fail("C13", "no_lost_wakeup", fmt.Sprintf(
			"after %s: %d item(s) are queued, the consumer is waiting on Ch and Ch holds no token: the consumer would sleep for ever",
			after, h.pending))
	}
}

func (h *seqHist) put(p int) {
	v := h.next
	h.next++
	h.ch.Put(v)
	h.puts = append(h.puts, v)
	h.pending++
	h.t.Op(tr.B(len(h.ch.Ch) == 1), "put", p, v)
	h.checkWake("put")
}

func (h *seqHist) recv() bool {
	if h.between {
		// the consumer loop is sequential: it does not receive again before
		// its Get
		return false
	}
	ok := false
	select {
	case <-h.ch.Ch:
		ok = true
	default:
	}
	h.t.Op(tr.B(ok), "recv")
	if ok {
		h.between = true
	}
	h.checkWake("recv")
	return ok
}

func ints(l []int) string {
	if len(l) == 0 {
		return "-"
	}
	s := make([]string, len(l))
	for i, v := range l {
		s[i] = fmt.Sprint(v)
	}
	return strings.Join(s, ",")
}

func (h *seqHist) get(final bool) {
	items := h.ch.Get()
	h.t.Op(ints(items), "get")
	h.between = false
	h.got = append(h.got, items...)
	h.pending -= len(items)
	h.t.Checked("C13.exactly_once")
	if len(h.got) > len(h.puts) {
		h.t.Fail("C13", "exactly_once", fmt.Sprintf("Get returned %d items in total, only %d were put", len(h.got), len(h.puts)))
		return
	}
	for i, v := range h.got {
		if h.puts[i] != v {
			h.t.Fail("C13", "exactly_once", fmt.Sprintf("item %d returned by Get is %d, the %d-th Put was %d (order/duplication)", i, v, i, h.puts[i]))
			return
		}
	}
	if final && len(h.got) != len(h.puts) {
		h.t.Fail("C13", "exactly_once", fmt.Sprintf("after the final drain %d of %d items were delivered", len(h.got), len(h.puts)))
	}
	h.checkWake("get")
}

func runHistory(t *tr.Trace, r *tr.Rand, stream string, nops, producers int, wPut, wRecv, wGet, wLoop int) {
	h := newSeqHist(t, stream)
	for i := 0; i < nops; i++ {
		switch r.Pick(wPut, wRecv, wGet, wLoop) {
		case 0:
			for k := r.Range(1, 3); k > 0; k-- {
				h.put(r.Intn(producers))
			}
		case 1:
			h.recv()
		case 2:
			// Get "may be called at any time"
			h.get(false)
		case 3:
			// the consumer loop: receive, then Get
			if h.recv() || h.between {
				h.get(false)
			}
		}
	}
	// final drain as the loop does it, then a direct Get
	if h.recv() || h.between {
		h.get(false)
	}
	h.get(true)
	t.Note(fmt.Sprintf("producers=%d", producers))
	if len(h.puts) > 3 {
		t.Nontrivial(fmt.Sprintf("%s/%d/%d/%d", stream, producers, len(h.puts), len(h.got)))
	}
}

func runUnbsched(t *tr.Trace, r *tr.Rand, n int) {
	// regression histories first
	{
		// a single Put on an empty queue must leave a token
		h := newSeqHist(t, "corpus-single-put")
		h.put(0)
		if h.recv() {
			h.get(false)
		}
		h.get(true)
	}
	{
		// Put, Put (second sees non-empty: no second token), loop, Put: a new
		// token is needed after the drain
		h := newSeqHist(t, "corpus-token-after-drain")
		h.put(0)
		h.put(1)
		if h.recv() {
			h.get(false)
		}
		h.put(0)
		if h.recv() {
			h.get(false)
		}
		h.get(true)
	}
	{
		// a stray Get empties the queue and leaves the token: the loop then
		// gets an empty batch, and the next Put must still signal
		h := newSeqHist(t, "corpus-stray-get")
		h.put(2)
		h.get(false)
		h.put(2)
		if h.recv() {
			h.get(false)
		}
		h.put(1)
		if h.recv() {
			h.get(false)
		}
		h.get(true)
	}
	for i := 0; i < n; i++ {
		switch i % 4 {
		case 0:
			runHistory(t, r, "loop", r.Range(5, 60), r.Range(1, 4), 4, 1, 1, 4)
		case 1:
			runHistory(t, r, "mixed", r.Range(5, 80), r.Range(1, 6), 3, 3, 3, 1)
		case 2:
			runHistory(t, r, "bursts", r.Range(10, 120), r.Range(1, 8), 8, 1, 0, 2)
		case 3:
			runHistory(t, r, "sparse", r.Range(5, 40), 1, 1, 2, 2, 3)
		}
	}
}

func main() { tr.Main(runUnbsched) }

// Driver `api` (property C17): runs the REAL administrative API handler
// (webserver.apiHandler through the verif hook, net/http/httptest) on generated
// group files, config.json and token store, over
//
//	method x endpoint shape x credential x body          (stream matrix)
//	random sequences of valid administrator updates        (stream updates)
//	random requests on randomised environments             (stream random)
//	malformed Authorization headers                        (stream malformed)
//
// Observable per request: status, canonical body digest, canonical digest of
// everything stored (compared with the extracted Coq model Model/Api.v), and
// the monitors of run.go, which state the property directly.
package main

import (
	"fmt"
	"io"
	"log"
	"os"
	"path"
	"regexp"
	"strings"

	"github.com/jech/galene/webserver"

	"verifharness/internal/tr"
)

func main() { tr.Main(runApi) }

var methods = []string{"GET", "HEAD", "OPTIONS", "PATCH", "PUT", "POST", "DELETE"}

func strp(s string) *string { return &s }

func under(scope, g string) bool {
	c := path.Clean("/" + scope)[1:]
	return c == g || strings.HasPrefix(c, g+"/")
}
func exactly(scope, g string) bool { return scope != "" && path.Clean("/" + scope)[1:] == g }

func always(string) bool { return true }

// baseEnv: the environment of the matrix.
func baseEnv(host string, writable bool) envDef {
	return envDef{
		writable: writable, host: host,
		conf: []userDef{
			{"root", pwSpec{"plain", "S3CR3T-root-pw"}, "role:admin"},
			{"rootb", pwSpec{"bcrypt", "S3CR3T-rootb-pw"}, "list:admin"},
			{"confop", pwSpec{"plain", "S3CR3T-confop-pw"}, "role:op"},
			{"confbroken", pwSpec{"broken", ""}, "role:admin"},
		},
		groups: []groupDef{
			{name: "g1", comment: "first", autosub: true,
				users: []userDef{
					{"alice", pwSpec{"plain", "S3CR3T-alice-pw"}, "role:op"},
					{"bob", pwSpec{"bcrypt", "S3CR3T-bob-pw"}, "role:admin"},
					{"carol", pwSpec{"pbkdf2", "S3CR3T-carol-pw"}, "role:present"},
					{"dan", pwSpec{"plain", "S3CR3T-dan-pw"}, "list:op+admin"},
					{"wuser", pwSpec{"wildcard", ""}, "role:present"},
					{"euser", pwSpec{"plain", ""}, "role:present"},
					{"nopw", pwSpec{"none", ""}, "role:present"},
					{"", pwSpec{"plain", "S3CR3T-empty-name-pw"}, "role:message"},
				},
				wild: &userDef{"", pwSpec{"plain", "S3CR3T-g1wild-pw"}, "role:present"},
				keys: []string{"K1"}},
			{name: "g2", comment: "second",
				users: []userDef{
					{"gadmin2", pwSpec{"plain", "S3CR3T-gadmin2-pw"}, "role:admin"},
					{"alice", pwSpec{"plain", "S3CR3T-alice-g2-pw"}, "role:admin"},
				},
				wild: &userDef{"", pwSpec{"plain", "S3CR3T-g2wild-pw"}, "role:admin"},
				keys: []string{"K2"}},
			{name: "g1/real", comment: "nested",
				users: []userDef{{"realadm", pwSpec{"plain", "S3CR3T-realadm-pw"}, "role:admin"}}},
		},
		tokens: []tokDef{
			{"tadm1", "g1", false, strp("tu"), []string{"admin"}, true},
			{"tadm1sub", "g1", true, strp("tu"), []string{"present", "admin"}, true},
			{"tnouser", "g1", false, nil, []string{"admin"}, true},
			{"texp", "g1", false, strp("tu"), []string{"admin"}, false},
			{"tpres", "g1", false, strp("tu"), []string{"present", "op"}, true},
			{"tbaduser", "g1", false, strp("a/../b"), []string{"admin"}, true},
			{"tadm2", "g2", false, strp("tu"), []string{"admin"}, true},
			{"tglob", "", true, strp("tu"), []string{"admin"}, true},
			{"tglobnouser", "", true, nil, []string{"admin"}, true},
			{"tglobnosub", "", false, strp("tu"), []string{"admin"}, true},
			{"tnoexp", "g1", false, strp("tu"), []string{"admin"}, false},
			{"tglobnoexp", "", true, strp("tu"), []string{"admin"}, false},
		},
	}
}

// baseCreds: the credentials of the matrix, with their labels.
func baseCreds(host string) []cred {
	g1admin := func(s string) bool { return under(s, "g1") && !under(s, "g1/real") }
	g2admin := func(s string) bool { return exactly(s, "g2") }
	h := host
	if h == "" {
		h = "galene.example"
	}
	jw := func(name, kind string, s jwtSpec, admin func(string) bool) cred {
		return jwtCred(name, kind, s, host, admin)
	}
	return []cred{
		{name: "none", enc: "none", admin: never, kind: "none"},
		basicCred("root-wrongpw", "wrongpw", "root", "S3CR3T-wrong", never),
		basicCred("bob-wrongpw", "wrongpw", "bob", "S3CR3T-alice-pw", never),
		basicCred("nobody", "wrongpw", "nobody", "S3CR3T-root-pw", never),
		basicCred("alice", "ordinary", "alice", "S3CR3T-alice-pw", never),
		basicCred("carol", "ordinary", "carol", "S3CR3T-carol-pw", never),
		basicCred("wuser", "ordinary", "wuser", "anything", never),
		basicCred("g1-wildcard-user", "ordinary", "visitor", "S3CR3T-g1wild-pw", never),
		basicCred("confop", "ordinary", "confop", "S3CR3T-confop-pw", never),
		basicCred("confbroken", "ordinary", "confbroken", "x", never),
		basicCred("gadmin2", "otheradmin", "gadmin2", "S3CR3T-gadmin2-pw", g2admin),
		basicCred("alice-as-g2-admin", "otheradmin", "alice", "S3CR3T-alice-g2-pw", g2admin),
		basicCred("g2-wildcard-admin", "otheradmin", "zz", "S3CR3T-g2wild-pw", g2admin),
		basicCred("g2-wildcard-badname", "otheradmin", "a/../b", "S3CR3T-g2wild-pw", never),
		basicCred("realadm", "otheradmin", "realadm", "S3CR3T-realadm-pw", func(s string) bool { return under(s, "g1/real") }),
		basicCred("bob", "groupadmin", "bob", "S3CR3T-bob-pw", g1admin),
		basicCred("dan", "groupadmin", "dan", "S3CR3T-dan-pw", g1admin),
		basicCred("root", "serveradmin", "root", "S3CR3T-root-pw", always),
		basicCred("rootb", "serveradmin", "rootb", "S3CR3T-rootb-pw", always),
		bearerCred("tadm1", "token-in", "tadm1", func(s string) bool { return exactly(s, "g1") }),
		bearerCred("tadm1sub", "token-in", "tadm1sub", func(s string) bool { return under(s, "g1") }),
		bearerCred("tglob", "token-in", "tglob", always),
		bearerCred("tglobnouser", "token-in", "tglobnouser", always),
		bearerCred("tglobnosub", "token-out", "tglobnosub", never),
		bearerCred("tnouser", "token-out", "tnouser", never),
		bearerCred("texp", "token-out", "texp", never),
		bearerCred("tnoexp", "token-out", "tnoexp", never),
		bearerCred("tglobnoexp", "token-out", "tglobnoexp", never),
		bearerCred("tpres", "token-out", "tpres", never),
		bearerCred("tbaduser", "token-out", "tbaduser", never),
		bearerCred("tadm2", "token-out", "tadm2", g2admin),
		bearerCred("tunknown", "token-out", "nosuchtoken", never),
		jw("jwt-g1", "jwt", jwtSpec{"K1", true, "jw", false, []string{"admin"}, []string{h + "|/group/g1/"}},
			func(s string) bool { return exactly(s, "g1") }),
		jw("jwt-g1-sub", "jwt", jwtSpec{"K1", true, "", true, []string{"op", "admin"}, []string{"other.example|/group/g1/", h + "|/group/"}},
			func(s string) bool { return under(s, "g1") && !under(s, "g1/real") }),
		jw("jwt-wrong-key", "jwt", jwtSpec{"K2", true, "jw", false, []string{"admin"}, []string{h + "|/group/g1/"}}, never),
		jw("jwt-wrong-aud", "jwt", jwtSpec{"K1", true, "jw", false, []string{"admin"}, []string{h + "|/group/g2/"}}, never),
		jw("jwt-wrong-host", "jwt", jwtSpec{"K1", true, "jw", false, []string{"admin"}, []string{"other.example|/group/g1/"}},
			func(s string) bool { return host == "" && exactly(s, "g1") }),
		jw("jwt-expired", "jwt", jwtSpec{"K1", false, "jw", false, []string{"admin"}, []string{h + "|/group/g1/"}}, never),
		jw("jwt-no-admin", "jwt", jwtSpec{"K1", true, "jw", false, []string{"op", "present"}, []string{h + "|/group/g1/"}}, never),
		jw("jwt-aud-root", "jwt", jwtSpec{"K1", true, "jw", true, []string{"admin"}, []string{h + "|/"}}, never),
		jw("jwt-aud-not-group-tree", "jwt", jwtSpec{"K1", true, "jw", true, []string{"admin"}, []string{h + "|/grou", h + "|/recordings/g1/"}}, never),
		jw("jwt-bad-sub", "jwt", jwtSpec{"K1", true, "x/../y", false, []string{"admin"}, []string{h + "|/group/g1/"}}, never),
	}
}

func malformedCreds() []cred {
	tok := "tadm1"
	return []cred{
		rawCred("basic-nospace", "Basic"),
		rawCred("basic-notb64", "Basic !!!notbase64!!!"),
		rawCred("basic-nocolon", "Basic "+b64std("rootS3CR3T-root-pw")),
		rawCred("bearer-alone", "Bearer"),
		rawCred("bearer-two-words", "Bearer "+tok+" extra"),
		rawCred("other-scheme", "Token "+tok),
		rawCred("digest", "Digest username=\"root\""),
		rawCred("empty-bearer", "Bearer "),
		rawCred("garbage", "\x01\x02 zzz"),
		rawCred("basic-then-junk", basicHeader("root", "S3CR3T-root-pw")+" junk"),
		// these are well-formed for the code: case-insensitive schemes, a
		// bearer token in a comma-separated list
		{name: "lowercase-basic", header: "basic " + b64std("root:S3CR3T-root-pw"), enc: "basic,root,S3CR3T-root-pw",
			admin: always, basicPw: "S3CR3T-root-pw", hasBasic: true, kind: "serveradmin"},
		{name: "lowercase-bearer", header: "bearer " + tok, enc: "name," + tok,
			admin: func(s string) bool { return exactly(s, "g1") }, kind: "token-in"},
		{name: "list-with-bearer", header: "Basic x, Bearer " + tok, enc: "name," + tok,
			admin: func(s string) bool { return exactly(s, "g1") }, kind: "token-in"},
		{name: "password-with-colon", header: basicHeader("root", "S3CR3T-root-pw:extra"), enc: "basic,root,S3CR3T-root-pw:extra",
			admin: never, basicPw: "S3CR3T-root-pw:extra", hasBasic: true, kind: "wrongpw"},
	}
}

// shapes of the matrix.  g = the group most of the credentials are about.
func baseShapes() []shape {
	G := apiPrefix
	sh := func(p, scope, kind string) shape { return shape{path: p, scope: scope, kind: kind} }
	nr := func(p string) shape { return shape{path: p, noRoute: true, kind: "none"} }
	pw := func(p, g, u string) shape { return shape{path: p, scope: g, pwUser: u, pwGroup: g, kind: "pw"} }
	shapes := []shape{
		sh("/galene-api/v0/.stats", "", "none"),
		nr("/galene-api/v0/.stats/x"),
		sh("/galene-api/v0/.groups/", "", "none"),
		sh("/galene-api/v0/.groups", "", "none"),
		sh(G+"g1", "g1", "desc"),
		sh(G+"g1/", "g1", "desc"),
		sh(G+"g2", "g2", "desc"),
		sh(G+"nosuch", "nosuch", "desc"),
		sh(G+"g1/sub", "g1/sub", "desc"),
		sh(G+"g1/real", "g1/real", "desc"),
		sh(G+"g2/sub", "g2/sub", "desc"),
		nr(G + "g1/.users"),
		sh(G+"g1/.users/", "g1", "none"),
		sh(G+"g1/sub/.users/", "g1/sub", "none"),
		sh(G+"g1/.users/alice", "g1", "user"),
		sh(G+"g1/.users/bob", "g1", "user"),
		sh(G+"g1/.users/newuser", "g1", "user"),
		sh(G+"g2/.users/alice", "g2", "user"),
		sh(G+"nosuch/.users/alice", "nosuch", "user"),
		pw(G+"g1/.users/alice/.password", "g1", "alice"),
		pw(G+"g1/.users/bob/.password", "g1", "bob"),
		pw(G+"g1/.users/carol/.password", "g1", "carol"),
		pw(G+"g1/.users/wuser/.password", "g1", "wuser"),
		pw(G+"g1/.users/euser/.password", "g1", "euser"),
		pw(G+"g1/.users/nopw/.password", "g1", "nopw"),
		pw(G+"g1/.users/nobody/.password", "g1", "nobody"),
		pw(G+"g2/.users/alice/.password", "g2", "alice"),
		sh(G+"g1/.users/alice/.password/x", "g1", "pw"),
		sh(G+"g1/.users/.password", "g1", "pw"),
		sh(G+"g1/.users/alice/.foo", "g1", "user"),
		sh(G+"g1/.empty-user", "g1", "user"),
		sh(G+"g1/.empty-user/.password", "g1", "pw"),
		sh(G+"g1/.empty-user/x", "g1", "user"),
		sh(G+"g1/.wildcard-user", "g1", "user"),
		sh(G+"g1/.wildcard-user/.password", "g1", "pw"),
		sh(G+"g1/real/.wildcard-user", "g1/real", "user"),
		sh(G+"g1/sub/.users/bob", "g1/sub", "user"),
		pw(G+"g1/sub/.users/bob/.password", "g1/sub", "bob"),
		sh(G+"g1/sub/.wildcard-user/.password", "g1/sub", "pw"),
		sh(G+"g1/sub/.keys", "g1/sub", "keys"),
		sh(G+"g1/.keys", "g1", "keys"),
		sh(G+"g2/.keys", "g2", "keys"),
		sh(G+"g1/.keys/x", "g1", "keys"),
		nr(G + "g1/.tokens"),
		sh(G+"g1/.tokens/", "g1", "tok"),
		sh(G+"g1/.tokens/tadm1", "g1", "tok"),
		sh(G+"g1/.tokens/tadm2", "g1", "tok"),
		sh(G+"g1/.tokens/newtok", "g1", "tok"),
		sh(G+"nosuch/.tokens/", "nosuch", "tok"),
		sh(G+".tokens/", "", "tok"),
		sh(G+".tokens/tglob", "", "tok"),
		sh(G+".tokens/tadm1", "", "tok"),
		sh(G+"g1/.foo", "g1", "none"),
		sh(G+"g1/.foo/bar", "g1", "none"),
		nr("/galene-api/v1/.stats"),
		nr("/galene-api/v0/.foo"),
		nr("/galene-api/v0/"),
		nr("/galene-api/v0"),
		nr("/galene-api/"),
		nr("/galene-api/v0/groups/g1"),
	}
	return append(shapes, discoveredShapes()...)
}

// discoveredShapes: endpoint kinds that webserver/api.go tests for and that
// the table above does not know (an endpoint added after this driver was
// written), so that the refusal monitor probes them with every credential.
func discoveredShapes() []shape {
	repo := os.Getenv("VERIF_REPO")
	if repo == "" {
		repo = "/repo"
	}
	src, err := os.ReadFile(repo + "/webserver/api.go")
	if err != nil {
		return nil
	}
	known := map[string]bool{".users": true, ".empty-user": true, ".wildcard-user": true, ".keys": true,
		".tokens": true, ".stats": true, ".groups": true, ".password": true}
	var out []shape
	seen := map[string]bool{}
	for _, m := range regexp.MustCompile(`(kind2? ==|case) "(\.[A-Za-z0-9_.-]+)"`).FindAllStringSubmatch(string(src), -1) {
		k := m[2]
		if known[k] || seen[m[1]+k] {
			continue
		}
		seen[m[1]+k] = true
		switch m[1] {
		case "case":
			for _, sfx := range []string{"", "/", "/g1"} {
				out = append(out, shape{path: "/galene-api/v0/" + k + sfx, scope: "", kind: "none"})
			}
		case "kind ==":
			for _, sfx := range []string{"", "/", "/alice"} {
				out = append(out, shape{path: apiPrefix + "g1/" + k + sfx, scope: "g1", kind: "none"})
			}
		default:
			for _, sfx := range []string{"", "/x"} {
				out = append(out, shape{path: apiPrefix + "g1/.users/alice/" + k + sfx, scope: "g1", kind: "none"})
			}
		}
	}
	return out
}

var fresh int

// bodiesFor: the bodies tried for a method on a shape.
func (w *world) bodiesFor(method string, sh shape, full bool) []body {
	if method != "PUT" && method != "POST" {
		return []body{noBody}
	}
	fresh++
	n := fresh
	var valid body
	var extra []body
	switch sh.kind {
	case "desc", "none":
		valid = descBody(ctJSON, fmt.Sprintf("c%d", n), n%2 == 0, n%3 == 0, n%5 == 0, false, false, false)
		extra = []body{descBody(ctJSON, "uns", false, false, false, true, false, false),
			descBody(ctJSON, "uns", false, false, false, false, true, true),
			descBodyEmptySecrets(ctJSON, "emp", true, false), descBodyEmptySecrets(ctJSON, "emp", false, true), descBodyEmptySecrets(ctJSON, "emp", true, true),
			descBody(ctText, "wt", false, false, false, false, false, false), badBody(ctJSON)}
	case "user":
		perms := []string{"role:present", "list:admin+op", "role:admin", "none", "list:"}[n%5]
		valid = userBody(ctJSON, perms, pwSpec{"none", ""})
		extra = []body{userBody(ctJSON, "role:op", pwSpec{"plain", fmt.Sprintf("S3CR3T-smuggled-%d", n)}),
			userBody("application/xml", "role:op", pwSpec{"none", ""}), badBody(ctJSON)}
	case "pw":
		if method == "PUT" {
			kinds := []string{"plain", "bcrypt", "pbkdf2", "wildcard"}
			valid = pwBody(ctJSON, pwSpec{kinds[n%4], fmt.Sprintf("S3CR3T-put-%d", n%7)})
			extra = []body{pwBody(ctText, pwSpec{"plain", "S3CR3T-wrongtype"}), badBody(ctJSON)}
		} else {
			valid = textBody(ctText, fmt.Sprintf("S3CR3T-post-%d", n%5))
			extra = []body{textBody(ctJSON, "S3CR3T-wrongtype")}
		}
	case "keys":
		valid = keysBody(ctJWK, []string{[]string{"K3", "K1", "K2"}[n%3]}, true)
		extra = []body{keysBody(ctJWK, nil, true), keysBody(ctJWK, []string{}, true), keysBody(ctJWK, []string{"K3"}, false),
			keysBody(ctJSON, []string{"K3"}, true), badBody(ctJWK)}
	case "tok":
		valid = tokBody(ctJSON, false, n%2 == 0, strp("made"), []string{"present"}, true, w.future, w.past)
		extra = []body{tokBody(ctJSON, true, false, nil, []string{"admin"}, true, w.future, w.past), badBody(ctJSON),
			tokBody(ctText, false, false, nil, nil, true, w.future, w.past)}
	}
	w.noteBodySecrets(valid)
	if !full {
		return []body{noBody, valid}
	}
	for _, e := range extra {
		w.noteBodySecrets(e)
	}
	return append([]body{noBody, valid}, extra...)
}

// noteBodySecrets: what a request may store becomes a secret marker.
func (w *world) noteBodySecrets(b body) {
	i := strings.Index(b.data, "S3CR3T-")
	for i >= 0 {
		j := i
		for j < len(b.data) && b.data[j] != '"' && b.data[j] != ',' && b.data[j] != '}' {
			j++
		}
		w.secrets[b.data[i:j]] = true
		k := strings.Index(b.data[j:], "S3CR3T-")
		if k < 0 {
			break
		}
		i = j + k
	}
}

func runApi(t *tr.Trace, r *tr.Rand, n int) {
	log.SetOutput(io.Discard)
	root, err := os.MkdirTemp("", "verif-api-")
	must(err)
	defer os.RemoveAll(root)
	static := root + "/static"
	must(os.MkdirAll(static, 0700))
	apiHandler, err = webserver.VerifAPIHandler(static)
	must(err)
	siteHandler, err = webserver.VerifSiteHandler(static)
	must(err)
	groupOnlyHandler = webserver.VerifGroupHandler()

	runMatrix(t, root, "", true)
	runMatrixSubset(t, root, "galene.example", true)
	runMatrixSubset(t, root, "", false)
	runMalformed(t, root)
	for i := 0; i < n; i++ {
		runUpdates(t, r, root, i)
	}
	for i := 0; i < (n+1)/2; i++ {
		runRandom(t, r, root, i)
	}
	// I/O faults during the store step of every updating route
	runFaults(t, r, root)
	// overlapping administrator updates, and groups loaded in memory
	runLockstep(t, r, root)
	runConcurrent(t, r, root, 30)
	runLoaded(t, r, root)
	// the HTTP part of C12 (lines that the C17 model ignores); the site
	// stream loads groups into memory and therefore comes last
	runC12Api(t, root)
	runC12Site(t, r, root)
}

// block: all methods and bodies of one (shape, credential), then a reset if
// anything was changed.
func (w *world) block(sh shape, c cred, full bool) {
	start := w.current().hash
	for _, m := range methods {
		for _, b := range w.bodiesFor(m, sh, full) {
			w.do(m, sh, c, b)
		}
	}
	if w.current().hash != start {
		w.reset()
	}
}

// runMatrix: one history per shape; every credential, method and body.
func runMatrix(t *tr.Trace, root, host string, writable bool) {
	creds := baseCreds(host)
	for _, sh := range baseShapes() {
		t.History("api", "matrix")
		w := newWorld(t, root, baseEnv(host, writable))
		w.emitSetup()
		for _, c := range creds {
			// the full set of bodies for one refused and the accepted kinds
			full := c.kind == "ordinary" && c.name == "alice" || c.kind == "groupadmin" && c.name == "bob" ||
				c.name == "root" || c.name == "tadm1" || c.name == "none"
			w.block(sh, c, full)
		}
		os.RemoveAll(w.base)
	}
}

// runMatrixSubset: the same with a canonical host (JWT audience hosts count)
// or with read-only group files, on the shapes that are sensitive to it.
func runMatrixSubset(t *tr.Trace, root, host string, writable bool) {
	creds := baseCreds(host)
	stream := "matrix-host"
	if !writable {
		stream = "matrix-readonly"
	}
	for _, sh := range baseShapes() {
		switch sh.path {
		case apiPrefix + "g1", apiPrefix + "g1/.users/alice", apiPrefix + "g1/.users/alice/.password",
			apiPrefix + "g1/.keys", apiPrefix + "g1/.wildcard-user", apiPrefix + "g1/.tokens/":
		default:
			continue
		}
		t.History("api", stream)
		w := newWorld(t, root, baseEnv(host, writable))
		w.emitSetup()
		for _, c := range creds {
			if host != "" && c.kind != "jwt" && c.name != "root" && c.name != "alice" {
				continue
			}
			w.block(sh, c, false)
		}
		os.RemoveAll(w.base)
	}
}

func runMalformed(t *tr.Trace, root string) {
	for _, sh := range baseShapes() {
		switch sh.path {
		case "/galene-api/v0/.stats", apiPrefix + "g1", apiPrefix + "g1/.users/alice/.password",
			apiPrefix + "g1/.keys", apiPrefix + "g1/.foo", apiPrefix + "g1/.tokens/tadm1":
		default:
			continue
		}
		t.History("api", "malformed")
		w := newWorld(t, root, baseEnv("", true))
		w.emitSetup()
		for _, c := range malformedCreds() {
			w.block(sh, c, false)
		}
		os.RemoveAll(w.base)
	}
}

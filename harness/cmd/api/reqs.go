package main

// Credentials, endpoint shapes and bodies of the `api` driver.  Every
// credential and every shape carries, next to its encoding for the model, a
// LABEL written from the property's point of view (for which groups the
// credential is an administrator; which group a path addresses): the monitors
// use the labels only, never the model.

import (
	"crypto/hmac"
	"crypto/sha256"
	"encoding/base64"
	"encoding/json"
	"strings"
	"time"
)

// ---------------------------------------------------------------- credentials

type cred struct {
	name   string // for notes
	header string // Authorization header ("" = none)
	enc    string // encoding for the model
	// label: is this credential an administrator for the scope ("" = server)?
	admin func(scope string) bool
	// the password it presents (Basic only), for the own-password exception
	basicPw  string
	hasBasic bool
	kind     string // none wrongpw ordinary otheradmin groupadmin serveradmin token-in token-out jwt malformed
}

func never(string) bool { return false }

func basicHeader(u, p string) string {
	return "Basic " + base64.StdEncoding.EncodeToString([]byte(u+":"+p))
}

func basicCred(name, kind, u, p string, admin func(string) bool) cred {
	return cred{name: name, header: basicHeader(u, p), enc: "basic," + undash(u) + "," + undash(p),
		admin: admin, basicPw: p, hasBasic: true, kind: kind}
}

func bearerCred(name, kind, tok string, admin func(string) bool) cred {
	return cred{name: name, header: "Bearer " + tok, enc: "name," + tok, admin: admin, kind: kind}
}

type jwtSpec struct {
	key       string // key id
	claimsOK  bool
	sub       string
	subgroups bool
	perms     []string
	aud       []string // "<host>|<path>"
}

func b64std(s string) string { return base64.StdEncoding.EncodeToString([]byte(s)) }

func b64url(b []byte) string { return base64.RawURLEncoding.EncodeToString(b) }

// makeJWT signs an HS256 token by hand (no dependency on the JWT library
// under test).
func makeJWT(s jwtSpec) string {
	hdr, _ := json.Marshal(map[string]any{"alg": "HS256", "typ": "JWT"})
	now := time.Now()
	claims := map[string]any{"iat": now.Add(-time.Minute).Unix()}
	if s.claimsOK {
		claims["exp"] = now.Add(time.Hour).Unix()
	} else {
		claims["exp"] = now.Add(-time.Hour).Unix()
	}
	if s.sub != "" {
		claims["sub"] = s.sub
	}
	var aud []string
	for _, a := range s.aud {
		hp := strings.SplitN(a, "|", 2)
		aud = append(aud, "https://"+hp[0]+hp[1])
	}
	claims["aud"] = aud
	if s.subgroups {
		claims["include-subgroups"] = true
	}
	if s.perms != nil {
		claims["permissions"] = s.perms
	}
	cl, _ := json.Marshal(claims)
	signing := b64url(hdr) + "." + b64url(cl)
	m := hmac.New(sha256.New, keyMaterial(s.key))
	m.Write([]byte(signing))
	return signing + "." + b64url(m.Sum(nil))
}

// jwtCred: host is the canonicalHost of the environment ("" = any host ok).
func jwtCred(name, kind string, s jwtSpec, host string, admin func(string) bool) cred {
	var auds []string
	for _, a := range s.aud {
		hp := strings.SplitN(a, "|", 2)
		ok := host == "" || strings.EqualFold(hp[0], host)
		auds = append(auds, b01(ok)+hp[1])
	}
	aud := "-"
	if len(auds) > 0 {
		aud = strings.Join(auds, ";")
	}
	perms := "-"
	if len(s.perms) > 0 {
		perms = strings.Join(s.perms, "+")
	}
	enc := strings.Join([]string{"jwt", s.key, b01(s.claimsOK), undash(s.sub), b01(s.subgroups), perms, aud}, ",")
	return cred{name: name, header: "Bearer " + makeJWT(s), enc: enc, admin: admin, kind: kind}
}

func rawCred(name, header string) cred {
	return cred{name: name, header: header, enc: "raw", admin: never, kind: "malformed"}
}

// ---------------------------------------------------------------- shapes

type shape struct {
	path string
	// label: the scope the path addresses ("" = server-wide), or noRoute
	scope   string
	noRoute bool   // a path that exists nowhere: 404 for everybody
	pwUser  string // the named user whose password the path sets ("" = none)
	pwGroup string
	kind    string // body kind of PUT/POST: desc user pw keys tok none
}

const apiPrefix = "/galene-api/v0/.groups/"

// ---------------------------------------------------------------- bodies

type body struct {
	ctype string // header value ("" = none)
	data  string
	enc   string
}

var noBody = body{"", "", "none"}

const (
	ctJSON = "application/json"
	ctText = "text/plain"
	ctJWK  = "application/jwk-set+json"
)

func ctCode(ct string) string {
	switch ct {
	case ctJSON:
		return "j"
	case ctText:
		return "t"
	case ctJWK:
		return "k"
	case "":
		return "n"
	}
	return "o"
}

func descBody(ct, comment string, a, r, u bool, users, wild, keys bool) body {
	m := map[string]any{}
	if comment != "" {
		m["comment"] = comment
	}
	if a {
		m["auto-subgroups"] = true
	}
	if r {
		m["allow-recording"] = true
	}
	if u {
		m["unrestricted-tokens"] = true
	}
	if users {
		m["users"] = map[string]any{"intruder": map[string]any{"password": "S3CR3T-intruder", "permissions": "admin"}}
	}
	if wild {
		m["wildcard-user"] = map[string]any{"permissions": "admin", "password": map[string]any{"type": "wildcard"}}
	}
	if keys {
		m["authKeys"] = []any{jwkOf("K4")}
	}
	b, _ := json.Marshal(m)
	return body{ct, string(b), strings.Join([]string{"desc", ctCode(ct), undash(comment), b01(a) + b01(r) + b01(u), b01(users) + b01(wild) + b01(keys)}, ",")}
}

// descBodyEmptySecrets: a definition that carries the secret-bearing fields
// PRESENT BUT EMPTY ("users": {}, "authKeys": []).  It is as unsanitised as
// one that carries users: accepting it would wipe the stored users, their
// passwords, and the keys.  (Encoded for the model as '2' = present, empty.)
func descBodyEmptySecrets(ct, comment string, users, keys bool) body {
	m := map[string]any{"comment": comment}
	if users {
		m["users"] = map[string]any{}
	}
	if keys {
		m["authKeys"] = []any{}
	}
	b, _ := json.Marshal(m)
	d := func(x bool) string {
		if x {
			return "2"
		}
		return "0"
	}
	return body{ct, string(b), strings.Join([]string{"desc", ctCode(ct), undash(comment), "000", d(users) + "0" + d(keys)}, ",")}
}

func userBody(ct, perms string, pw pwSpec) body {
	b, _ := json.Marshal(userJSON(userDef{pw: pw, perms: perms}))
	return body{ct, string(b), strings.Join([]string{"user", ctCode(ct), perms, pw.String()}, ",")}
}

func pwBody(ct string, pw pwSpec) body {
	v, ok := pwJSON(pw)
	if !ok {
		v = nil
	}
	b, _ := json.Marshal(v)
	return body{ct, string(b), strings.Join([]string{"pw", ctCode(ct), pw.String()}, ",")}
}

func textBody(ct, clear string) body {
	return body{ct, clear, strings.Join([]string{"text", ctCode(ct), undash(clear)}, ",")}
}

// keysBody: ids == nil sends {"keys": null}; valid=false sends a key of the
// wrong length.
func keysBody(ct string, ids []string, valid bool) body {
	var ks []any
	for _, id := range ids {
		ks = append(ks, jwkOf(id))
	}
	enc := "nil"
	if ids != nil {
		enc = "-"
		if len(ids) > 0 {
			enc = strings.Join(ids, "+")
		}
		if ks == nil {
			ks = []any{}
		}
	}
	if !valid {
		ks = append(ks, map[string]any{"kty": "oct", "alg": "HS256", "k": "c2hvcnQ"})
	}
	var m map[string]any
	if ids == nil && valid {
		m = map[string]any{"keys": nil}
	} else {
		m = map[string]any{"keys": ks}
	}
	b, _ := json.Marshal(m)
	return body{ct, string(b), strings.Join([]string{"keys", ctCode(ct), b01(valid), enc}, ",")}
}

func tokBody(ct string, over, sub bool, user *string, perms []string, timeok bool, future, past string) body {
	m := map[string]any{"permissions": perms}
	if perms == nil {
		m["permissions"] = []string{}
	}
	if over {
		m["group"] = "g2"
	}
	if sub {
		m["includeSubgroups"] = true
	}
	u := "~"
	if user != nil {
		m["username"] = *user
		u = undash(*user)
	}
	if timeok {
		m["expires"] = future
	} else {
		m["expires"] = past
	}
	p := "-"
	if len(perms) > 0 {
		p = strings.Join(perms, "+")
	}
	b, _ := json.Marshal(m)
	return body{ct, string(b), strings.Join([]string{"tok", ctCode(ct), b01(over), b01(sub), u, p, b01(timeok)}, ",")}
}

func badBody(ct string) body { return body{ct, "{\"comment\": ", "bad," + ctCode(ct)} }

package main

// Streams about TIME: what the property promises when administrator requests
// overlap, and when a group is loaded in memory.
//
//	lockstep    "another administrator's update is inside its locked
//	            read-modify-write": the driver holds the description lock
//	            (hook group.VerifDescriptionsLock), starts request A, rewrites
//	            the group file as that other update would, releases the lock.
//	            Post-condition (C17.preserve, with the other update's result as
//	            the state A acted on): A did not undo anything it does not
//	            address.  Deterministic.
//	concurrent  two or three administrator updates of one group started
//	            together; post-condition C17.concurrent_serializable: what is
//	            stored at the end is what SOME sequential order of the accepted
//	            updates stores (the orders are run afterwards, as ordinary
//	            model-compared requests).
//	loaded      the group is loaded in memory (GET /group/g/.status or the
//	            group page), then passwords / permissions are changed through
//	            the API by rewrites that keep the file size; the OLD credentials
//	            must be refused (C17.refused_no_effect + the model, which has no
//	            cache): credentials are checked against the current description.

import (
	"encoding/json"
	"fmt"
	"net/http"
	"net/http/httptest"
	"os"
	"path/filepath"
	"sort"
	"strings"
	"time"

	"github.com/jech/galene/group"
	"github.com/jech/galene/token"

	"verifharness/internal/tr"
)

type update struct {
	method string
	sh     shape
	b      body
	c      cred
}

func (u update) String() string {
	return fmt.Sprintf("%s %s [%s] body %s", u.method, u.sh.path, u.c.name, u.b.enc)
}

func (u update) request() *http.Request {
	req := httptest.NewRequest(u.method, "http://localhost"+u.sh.path, strings.NewReader(u.b.data))
	if u.c.header != "" {
		req.Header.Set("Authorization", u.c.header)
	}
	if u.b.ctype != "" {
		req.Header.Set("Content-Type", u.b.ctype)
	}
	return req
}

// someUpdate: a valid administrator update of group g1.  kind < 0 = random.
func (w *world) someUpdate(r *tr.Rand, c cred, kind int) update {
	G := apiPrefix + "g1"
	users := []string{"alice", "carol", "nopw", "u1", "u2"}
	u := users[r.Intn(len(users))]
	fresh++
	n := fresh
	if kind < 0 {
		kind = r.Pick(3, 2, 3, 2, 1, 3, 2, 2, 1, 1, 2)
	}
	var up update
	switch kind {
	case 0:
		up = update{"PUT", shape{path: G + "/.keys", scope: "g1", kind: "keys"}, keysBody(ctJWK, [][]string{{"K1", "K3"}, {"K3"}, {"K1", "K3", "K4"}}[r.Intn(3)], true), c}
	case 1:
		up = update{"DELETE", shape{path: G + "/.keys", scope: "g1", kind: "keys"}, noBody, c}
	case 2:
		up = update{"PUT", shape{path: G + "/.users/" + u + "/.password", scope: "g1", pwUser: u, pwGroup: "g1", kind: "pw"},
			pwBody(ctJSON, pwSpec{[]string{"plain", "bcrypt", "pbkdf2"}[r.Intn(3)], fmt.Sprintf("S3CR3T-par-%d", n%11)}), c}
	case 3:
		up = update{"POST", shape{path: G + "/.users/" + u + "/.password", scope: "g1", pwUser: u, pwGroup: "g1", kind: "pw"},
			textBody(ctText, fmt.Sprintf("S3CR3T-parpost-%d", n%5)), c}
	case 4:
		up = update{"DELETE", shape{path: G + "/.users/" + u + "/.password", scope: "g1", pwUser: u, pwGroup: "g1", kind: "pw"}, noBody, c}
	case 5:
		up = update{"PUT", shape{path: G + "/.users/" + u, scope: "g1", kind: "user"},
			userBody(ctJSON, []string{"role:present", "role:op", "list:op+present", "role:observe"}[r.Intn(4)], pwSpec{"none", ""}), c}
	case 6:
		up = update{"DELETE", shape{path: G + "/.users/" + u, scope: "g1", kind: "user"}, noBody, c}
	case 7:
		up = update{"PUT", shape{path: G + "/.wildcard-user/.password", scope: "g1", kind: "pw"},
			pwBody(ctJSON, pwSpec{"plain", fmt.Sprintf("S3CR3T-parwild-%d", n%5)}), c}
	case 8:
		up = update{"PUT", shape{path: G + "/.wildcard-user", scope: "g1", kind: "user"},
			userBody(ctJSON, []string{"role:present", "role:message"}[r.Intn(2)], pwSpec{"none", ""}), c}
	case 9:
		up = update{"PUT", shape{path: G + "/.empty-user", scope: "g1", kind: "user"},
			userBody(ctJSON, []string{"role:present", "role:message"}[r.Intn(2)], pwSpec{"none", ""}), c}
	default:
		up = update{"PUT", shape{path: G, scope: "g1", kind: "desc"},
			descBody(ctJSON, fmt.Sprintf("par%d", n), true, r.Bool(), r.Bool(), false, false, false), c}
	}
	w.noteBodySecrets(up.b)
	if strings.HasPrefix(up.b.enc, "text,") {
		clearCandidates[up.b.data] = true
		lastPosted = up.b.data
	}
	return up
}

const updateKinds = 11

// restore puts the definition back on disk without a trace line.
func (w *world) restore() {
	w.writeGroupsAndTokens()
	token.SetStatefulFilename(filepath.Join(w.data, "tokens.jsonl"))
	w.cur = nil
}

// ---------------------------------------------------------------- lockstep

// otherUpdate rewrites the file of g1 as an update by the lock holder would
// (temporary file and rename): everything request A does not address is
// changed.  It returns what it changed, for the messages.
func (w *world) otherUpdate(part string, n int) string {
	p := filepath.Join(w.dir, "g1.json")
	b, err := os.ReadFile(p)
	must(err)
	var m map[string]json.RawMessage
	must(json.Unmarshal(b, &m))
	var users map[string]map[string]json.RawMessage
	json.Unmarshal(m["users"], &users)
	var did []string
	set := func(mm map[string]json.RawMessage, k string, v any) {
		x, _ := json.Marshal(v)
		mm[k] = x
	}
	for _, u := range []string{"alice", "carol", "dan"} {
		if part == "user:"+u || part == "password:"+u {
			continue
		}
		pw := fmt.Sprintf("S3CR3T-other-%s-%d", u, n)
		w.secrets[pw] = true
		set(users[u], "password", pw)
		did = append(did, "password of "+u)
	}
	if part != "user:xnew" {
		users["xnew"] = map[string]json.RawMessage{}
		set(users["xnew"], "permissions", "present")
		did = append(did, "new user xnew")
	}
	if part != "user:nopw" && part != "password:nopw" {
		delete(users, "nopw")
		did = append(did, "user nopw deleted")
	}
	set(m, "users", users)
	if part != "keys" {
		set(m, "authKeys", []any{jwkOf("K1"), jwkOf("K2")})
		did = append(did, "keys")
	}
	if part != "wildcard" && part != "wildcard-password" {
		pw := fmt.Sprintf("S3CR3T-other-wild-%d", n)
		w.secrets[pw] = true
		set(m, "wildcard-user", map[string]any{"password": pw, "permissions": "present"})
		did = append(did, "wildcard user")
	}
	if part != "desc" {
		set(m, "comment", fmt.Sprintf("other%d", n))
		did = append(did, "comment")
	}
	out, _ := json.Marshal(m)
	tmp := p + ".other"
	must(os.WriteFile(tmp, append(out, '\n'), 0600))
	must(os.Rename(tmp, p))
	return strings.Join(did, ", ")
}

func runLockstep(t *tr.Trace, r *tr.Rand, root string) {
	t.History("api", "lockstep")
	w := newWorld(t, root, baseEnv("", true))
	w.emitSetup()
	all := baseCreds("")
	rootc := findCred(all, "root")
	for kind := 0; kind < updateKinds; kind++ {
		for rep := 0; rep < 2; rep++ {
			a := w.someUpdate(r, rootc, kind)
			_, part := addressed(a.sh)
			fresh++
			group.VerifDescriptionsLock()
			ch := make(chan result, 1)
			go func() { ch <- serveOn(apiHandler, a.request()) }()
			// A runs up to the lock (a correct update has read nothing yet)
			time.Sleep(25 * time.Millisecond)
			did := w.otherUpdate(part, fresh)
			w.cur = nil
			mid := w.snapshot()
			group.VerifDescriptionsUnlock()
			res := <-ch
			w.cur = nil
			post := w.current()
			t.Op(fmt.Sprint(res.status), "lockstep", a.method, a.sh.path, a.b.enc)
			what := fmt.Sprintf("%s -> %d, while another update (%s) held the description lock", a, res.status, did)
			t.Checked("C17.responds")
			t.Checked("C12.http_responds")
			if res.paniced {
				t.Fail("C17", "responds", "no HTTP response: "+what+": "+res.body)
				t.Fail("C12", "http_responds", "no HTTP response: "+what+": "+res.body)
			} else if res.status >= 200 && res.status < 300 {
				// the state A acted on is the other update's result
				t.Note("lockstep-accepted")
				w.learnSecrets()
				if post.hash != mid.hash {
					w.checkPreserve(a.method, a.sh, mid.groups, what)
				}
			} else {
				t.Note("lockstep-refused")
				t.Checked("C17.preserve")
				if post.hash != mid.hash {
					t.Fail("C17", "preserve", what+": a refused request changed the files")
				}
			}
			w.reset()
		}
	}
	os.RemoveAll(w.base)
}

// ---------------------------------------------------------------- concurrent

func permutations(n int) [][]int {
	if n == 0 {
		return [][]int{{}}
	}
	var out [][]int
	for _, p := range permutations(n - 1) {
		for i := 0; i <= len(p); i++ {
			q := append(append(append([]int{}, p[:i]...), n-1), p[i:]...)
			out = append(out, q)
		}
	}
	return out
}

func runConcurrent(t *tr.Trace, r *tr.Rand, root string, rounds int) {
	t.History("api", "concurrent")
	w := newWorld(t, root, baseEnv("", true))
	w.emitSetup()
	all := baseCreds("")
	admins := []cred{findCred(all, "root"), findCred(all, "rootb"), findCred(all, "bob"), findCred(all, "dan"),
		findCred(all, "tadm1"), findCred(all, "tglob")}
	for round := 0; round < rounds; round++ {
		k := 2
		if r.Chance(1, 4) {
			k = 3
		}
		ups := make([]update, k)
		for i := range ups {
			kind := -1
			if i == 0 && r.Chance(1, 2) {
				kind = r.Intn(2) // a keys update in half of the rounds
			}
			ups[i] = w.someUpdate(r, admins[r.Intn(len(admins))], kind)
		}
		// the concurrent run
		start := make(chan struct{})
		res := make([]result, k)
		done := make(chan int, k)
		for i := range ups {
			go func(i int) {
				<-start
				if i > 0 {
					time.Sleep(time.Duration(r0(round, i)) * time.Microsecond)
				}
				res[i] = serveOn(apiHandler, ups[i].request())
				done <- i
			}(i)
		}
		close(start)
		for range ups {
			<-done
		}
		w.cur = nil
		w.learnSecrets()
		final := w.stateDigest()
		var acc []int
		var desc []string
		for i, u := range ups {
			t.Checked("C17.responds")
			t.Checked("C12.http_responds")
			if res[i].paniced {
				t.Fail("C17", "responds", "no HTTP response (concurrent): "+u.String()+": "+res[i].body)
				t.Fail("C12", "http_responds", "no HTTP response (concurrent): "+u.String()+": "+res[i].body)
			}
			if res[i].status >= 200 && res[i].status < 300 {
				acc = append(acc, i)
			}
			desc = append(desc, fmt.Sprintf("%s -> %d", u, res[i].status))
			t.Op(fmt.Sprint(res[i].status), "par", u.method, u.sh.path, u.c.enc, u.b.enc)
		}
		t.Note(fmt.Sprintf("concurrent-accepted=%d/%d", len(acc), k))
		// every sequential order of the accepted updates, as ordinary requests
		var outcomes []string
		match := false
		for _, perm := range permutations(len(acc)) {
			w.reset()
			for _, j := range perm {
				u := ups[acc[j]]
				w.do(u.method, u.sh, u.c, u.b)
			}
			d := w.stateDigest()
			outcomes = append(outcomes, d)
			if d == final {
				match = true
			}
		}
		t.Checked("C17.concurrent_serializable")
		if !match {
			sort.Strings(outcomes)
			t.Fail("C17", "concurrent_serializable", fmt.Sprintf(
				"concurrent administrator updates {%s} left a state that no sequential order of the accepted ones produces (an update was undone or altered): stored %s; sequential orders give %s",
				strings.Join(desc, " || "), final, strings.Join(outcomes, " | ")))
		}
		w.reset()
	}
	os.RemoveAll(w.base)
}

// r0: a small deterministic start offset in microseconds.
func r0(round, i int) int { return (round*37 + i*101) % 300 }

// ---------------------------------------------------------------- loaded

// loadGroup makes the server load the group in memory, as a visitor does.
func (w *world) loadGroup(name string, page bool) {
	p := "/group/" + name + "/.status"
	if page {
		p = "/group/" + name + "/"
	}
	res := serveOn(siteHandler, rawRequest("GET", p, nil, nil))
	w.t.Op(fmt.Sprint(res.status), "load", name, p)
	if group.Get(name) != nil {
		w.t.Note("group-loaded")
	}
}

func fileStamp(p string) (int64, time.Time) {
	fi, err := os.Stat(p)
	if err != nil {
		return -1, time.Time{}
	}
	return fi.Size(), fi.ModTime()
}

func runLoaded(t *tr.Trace, r *tr.Rand, root string) {
	for variant := 0; variant < 2; variant++ {
		t.History("api", "loaded")
		w := newWorld(t, root, baseEnv("", true))
		w.emitSetup()
		all := baseCreds("")
		rootc := findCred(all, "root")
		g1admin := findCred(all, "bob").admin
		G := apiPrefix + "g1"
		w.loadGroup("g1", variant == 1)
		w.loadGroup("g2", variant == 0)

		// step: an administrator's change (by root) in group gname, then the
		// old and the new credentials.  The old ones are labelled "no
		// administrator" from then on.
		step := func(gname, name string, change update, oldc, newc cred) {
			GG := apiPrefix + gname
			list := shape{path: GG + "/.users/", scope: gname, kind: "none"}
			create := shape{path: GG + "/.users/intruder", scope: gname, kind: "user"}
			file := filepath.Join(w.dir, gname+".json")
			w.do("GET", list, oldc, noBody) // still valid now (label: administrator)
			time.Sleep(12 * time.Millisecond)
			s0, m0 := fileStamp(file)
			res := w.do(change.method, change.sh, change.c, change.b)
			s1, m1 := fileStamp(file)
			if res.status < 200 || res.status >= 300 {
				t.Note("loaded-change-refused")
				return
			}
			if s0 == s1 {
				t.Note("loaded-same-size-rewrite")
			} else {
				t.Note("loaded-size-changed")
			}
			if s0 == s1 && m0.Equal(m1) {
				// the hypothesis of the property (successive versions differ
				// in their stamp) does not hold on this file system right now
				t.Note("loaded-stamp-collision")
				return
			}
			revoked := oldc
			revoked.name = oldc.name + "-revoked(" + name + ")"
			revoked.admin = never
			revoked.kind = "revoked"
			w.do("GET", list, revoked, noBody)
			w.do("HEAD", shape{path: GG, scope: gname, kind: "desc"}, revoked, noBody)
			w.do("PUT", create, revoked, userBody(ctJSON, "role:admin", pwSpec{"none", ""}))
			w.do("GET", list, newc, noBody)
		}
		pwShape := func(u string) shape {
			return shape{path: G + "/.users/" + u + "/.password", scope: "g1", pwUser: u, pwGroup: "g1", kind: "pw"}
		}
		post := func(u, clear string) update {
			b := textBody(ctText, clear)
			w.noteBodySecrets(b)
			return update{"POST", pwShape(u), b, rootc}
		}
		put := func(u string, pw pwSpec) update {
			b := pwBody(ctJSON, pw)
			w.noteBodySecrets(b)
			return update{"PUT", pwShape(u), b, rootc}
		}
		bob := findCred(all, "bob")
		dan := findCred(all, "dan")
		// bob: bcrypt -> bcrypt (always 60 characters), twice
		bob1 := basicCred("bob-new1", "groupadmin", "bob", "S3CR3T-bob-new1", g1admin)
		step("g1", "bcrypt->bcrypt by POST", post("bob", "S3CR3T-bob-new1"), bob, bob1)
		bob2 := basicCred("bob-new2", "groupadmin", "bob", "S3CR3T-bob-new2", g1admin)
		step("g1", "bcrypt->bcrypt by PUT", put("bob", pwSpec{"bcrypt", "S3CR3T-bob-new2"}), bob1, bob2)
		// dan: a plain password of the same length
		dan1 := basicCred("dan-new1", "groupadmin", "dan", "S3CR3T-dan-PW", g1admin)
		step("g1", "plain->plain same length", put("dan", pwSpec{"plain", "S3CR3T-dan-PW"}), dan, dan1)
		// dan: a longer password (the size changes)
		dan2 := basicCred("dan-new2", "groupadmin", "dan", "S3CR3T-dan-longer-pw", g1admin)
		step("g1", "plain->plain longer", put("dan", pwSpec{"plain", "S3CR3T-dan-longer-pw"}), dan1, dan2)
		// bob: "admin" -> ["xyz"], the same number of bytes: permission revoked
		bobNoAdmin := bob2
		bobNoAdmin.admin = never
		step("g1", "permissions revoked, same size", update{"PUT", shape{path: G + "/.users/bob", scope: "g1", kind: "user"},
			userBody(ctJSON, "list:xyz", pwSpec{"none", ""}), rootc}, bob2, bobNoAdmin)
		// dan: ["op","admin"] -> ["op","admix"]
		danNoAdmin := dan2
		danNoAdmin.admin = never
		step("g1", "permissions revoked in a list, same size", update{"PUT", shape{path: G + "/.users/dan", scope: "g1", kind: "user"},
			userBody(ctJSON, "list:op+admix", pwSpec{"none", ""}), rootc}, dan2, danNoAdmin)
		// the wildcard administrator of g2: password replaced by one of equal length
		g2w := findCred(all, "g2-wildcard-admin")
		g2w1 := basicCred("g2-wildcard-new", "otheradmin", "zz", "S3CR3T-g2wild-PW", g2w.admin)
		b := pwBody(ctJSON, pwSpec{"plain", "S3CR3T-g2wild-PW"})
		w.noteBodySecrets(b)
		step("g2", "wildcard administrator's password, same length",
			update{"PUT", shape{path: apiPrefix + "g2/.wildcard-user/.password", scope: "g2", kind: "pw"}, b, rootc}, g2w, g2w1)
		// the SERVER configuration (config.json is edited by hand, the server
		// re-reads it when its size or modification time changes): a server
		// administrator whose password is replaced, or whose `admin`
		// permission is withdrawn, is refused from then on; whatever the
		// server remembers about earlier successful logins must not outlive
		// the file that justified it
		confStep := func(name, user string, edit func(u *userDef), oldc, newc cred) {
			list := shape{path: apiPrefix + "g1/.users/", scope: "g1", kind: "none"}
			w.do("GET", list, oldc, noBody) // valid now, and seen by the server
			w.do("GET", list, oldc, noBody)
			time.Sleep(12 * time.Millisecond)
			file := filepath.Join(w.data, "config.json")
			s0, m0 := fileStamp(file)
			for i := range w.def.conf {
				if w.def.conf[i].name == user {
					edit(&w.def.conf[i])
				}
			}
			w.writeConfig()
			w.cur = nil // the driver changed the disk itself: later requests are compared with THIS state
			w.collectSecrets()
			s1, m1 := fileStamp(file)
			if s0 == s1 && m0.Equal(m1) {
				t.Note("config-stamp-collision")
				return
			}
			t.Note("config-rotated")
			for _, u := range w.def.conf {
				if u.name == user {
					t.Op("-", "confedit", u.name, u.pw.String(), u.perms)
				}
			}
			revoked := oldc
			revoked.name = oldc.name + "-revoked(" + name + ")"
			revoked.admin = never
			revoked.kind = "revoked"
			w.do("GET", list, revoked, noBody)
			w.do("HEAD", shape{path: apiPrefix + "g1", scope: "g1", kind: "desc"}, revoked, noBody)
			w.do("PUT", shape{path: apiPrefix + "g1/.users/intruder", scope: "g1", kind: "user"}, revoked, userBody(ctJSON, "role:admin", pwSpec{"none", ""}))
			w.do("GET", list, newc, noBody)
		}
		rootb := findCred(all, "rootb")
		root1 := basicCred("root-new1", "serveradmin", "root", "S3CR3T-root-NEW", always)
		confStep("server admin, plain password replaced (same length)", "root",
			func(u *userDef) { u.pw = pwSpec{"plain", "S3CR3T-root-NEW"} }, rootc, root1)
		w.secrets["S3CR3T-root-NEW"] = true
		rootb1 := basicCred("rootb-new1", "serveradmin", "rootb", "S3CR3T-rootb-NEW", always)
		confStep("server admin, bcrypt password replaced", "rootb",
			func(u *userDef) { u.pw = pwSpec{"bcrypt", "S3CR3T-rootb-NEW"} }, rootb, rootb1)
		w.secrets["S3CR3T-rootb-NEW"] = true
		rootNoAdmin := root1
		rootNoAdmin.admin = never
		confStep("server admin, permission withdrawn", "root",
			func(u *userDef) { u.perms = "role:op" }, root1, rootNoAdmin)
		// F32 (fixed): config.json is removed altogether: nobody is a server
		// administrator any more (the configuration read earlier must not survive)
		{
			list := shape{path: apiPrefix + "g1/.users/", scope: "g1", kind: "none"}
			w.do("GET", list, rootb1, noBody)
			os.Remove(filepath.Join(w.data, "config.json"))
			w.def.conf = nil
			w.def.writable = false
			w.cur = nil
			t.Op("-", "confclear")
			t.Note("config-removed")
			gone := rootb1
			gone.name = rootb1.name + "-revoked(config.json removed)"
			gone.admin = never
			gone.kind = "revoked"
			w.do("GET", list, gone, noBody)
			w.do("GET", shape{path: "/galene-api/v0/.groups/", scope: "", kind: "none"}, gone, noBody)
			w.do("PUT", shape{path: apiPrefix + "g1/.users/intruder", scope: "g1", kind: "user"}, gone, userBody(ctJSON, "role:admin", pwSpec{"none", ""}))
		}
		_ = r
		group.Delete("g1")
		group.Delete("g2")
		os.RemoveAll(w.base)
	}
}

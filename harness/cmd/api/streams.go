package main

// The sequence streams of the `api` driver: random sequences of valid
// administrator updates (monitor C17.preserve on every step, correspondence
// of the stored state with the model's update functions), and random single
// requests on varied environments.

import (
	"fmt"
	"os"

	"verifharness/internal/tr"
)

func findCred(cs []cred, name string) cred {
	for _, c := range cs {
		if c.name == name {
			return c
		}
	}
	panic("no cred " + name)
}

// runUpdates: one history of ~40 updates without resets.  The users that
// the updates address are never used as credentials, so that the labels of
// the credentials stay true for the whole history.
func runUpdates(t *tr.Trace, r *tr.Rand, root string, i int) {
	t.History("api", "updates")
	w := newWorld(t, root, baseEnv("", true))
	w.emitSetup()
	all := baseCreds("")
	admins := []cred{findCred(all, "root"), findCred(all, "rootb"), findCred(all, "bob"), findCred(all, "dan"),
		findCred(all, "tadm1"), findCred(all, "tadm1sub"), findCred(all, "tglob"), findCred(all, "jwt-g1")}
	refused := []cred{findCred(all, "none"), findCred(all, "carol"), findCred(all, "gadmin2"), findCred(all, "tadm2"),
		findCred(all, "tpres"), findCred(all, "confop")}
	targets := []string{"alice", "wuser", "euser", "nopw", "u1", "u2", "u3"}
	G := apiPrefix + "g1"
	steps := 30 + r.Intn(20)
	ok := 0
	for s := 0; s < steps; s++ {
		c := admins[r.Intn(len(admins))]
		if r.Chance(1, 6) {
			c = refused[r.Intn(len(refused))]
		}
		u := targets[r.Intn(len(targets))]
		fresh++
		n := fresh
		var sh shape
		var m string
		var b body
		switch r.Pick(3, 4, 2, 3, 2, 1, 2, 1, 1, 2, 1, 1, 1) {
		case 0: // the description
			sh, m = shape{path: G, scope: "g1", kind: "desc"}, "PUT"
			b = descBody(ctJSON, fmt.Sprintf("d%d", n), true, r.Bool(), r.Bool(), false, false, false)
		case 1: // a user definition
			sh, m = shape{path: G + "/.users/" + u, scope: "g1", kind: "user"}, "PUT"
			b = userBody(ctJSON, []string{"role:present", "role:op", "list:op+present", "none", "role:observe"}[r.Intn(5)], pwSpec{"none", ""})
		case 2:
			sh, m, b = shape{path: G + "/.users/" + u, scope: "g1", kind: "user"}, "DELETE", noBody
		case 3: // a password
			sh, m = shape{path: G + "/.users/" + u + "/.password", scope: "g1", pwUser: u, pwGroup: "g1", kind: "pw"}, "PUT"
			b = pwBody(ctJSON, pwSpec{[]string{"plain", "bcrypt", "pbkdf2"}[r.Intn(3)], fmt.Sprintf("S3CR3T-seq-%d", n%9)})
		case 4:
			sh, m = shape{path: G + "/.users/" + u + "/.password", scope: "g1", pwUser: u, pwGroup: "g1", kind: "pw"}, "POST"
			b = textBody(ctText, fmt.Sprintf("S3CR3T-seqpost-%d", n%4))
		case 5:
			sh, m, b = shape{path: G + "/.users/" + u + "/.password", scope: "g1", pwUser: u, pwGroup: "g1", kind: "pw"}, "DELETE", noBody
		case 6: // keys (K3 only: no credential of the driver is signed with it)
			sh, m = shape{path: G + "/.keys", scope: "g1", kind: "keys"}, "PUT"
			b = keysBody(ctJWK, [][]string{{"K1", "K3"}, {"K1"}, {"K3", "K1"}}[r.Intn(3)], true)
		case 7: // the wildcard user (never an administrator here)
			sh, m = shape{path: G + "/.wildcard-user", scope: "g1", kind: "user"}, "PUT"
			b = userBody(ctJSON, []string{"role:present", "role:message", "none"}[r.Intn(3)], pwSpec{"none", ""})
		case 8:
			sh, m = shape{path: G + "/.wildcard-user/.password", scope: "g1", kind: "pw"}, "PUT"
			b = pwBody(ctJSON, pwSpec{"plain", fmt.Sprintf("S3CR3T-seqwild-%d", n%5)})
		case 9: // the user with the empty name
			sh, m = shape{path: G + "/.empty-user", scope: "g1", kind: "user"}, "PUT"
			b = userBody(ctJSON, []string{"role:present", "role:message"}[r.Intn(2)], pwSpec{"none", ""})
		case 10: // not sanitised: refused for an administrator too
			sh, m = shape{path: G, scope: "g1", kind: "desc"}, "PUT"
			b = descBody(ctJSON, "uns", false, false, false, r.Bool(), true, r.Bool())
		case 11:
			sh, m = shape{path: G + "/.users/" + u, scope: "g1", kind: "user"}, "PUT"
			b = userBody(ctJSON, "role:op", pwSpec{"plain", fmt.Sprintf("S3CR3T-smuggled-%d", n)})
		case 12: // another group, by the server administrator
			c = admins[r.Intn(2)]
			sh, m = shape{path: apiPrefix + "g2/.users/gadmin2/.password", scope: "g2", pwUser: "gadmin2", pwGroup: "g2", kind: "pw"}, "PUT"
			b = pwBody(ctJSON, pwSpec{"plain", fmt.Sprintf("S3CR3T-seqg2-%d", n%3)})
			if r.Bool() {
				// gadmin2 is used as a refused credential: keep his password
				sh = shape{path: apiPrefix + "g2/.users/other", scope: "g2", kind: "user"}
				b = userBody(ctJSON, "role:present", pwSpec{"none", ""})
			}
		}
		if sh.pwUser == "gadmin2" {
			sh = shape{path: apiPrefix + "g2/.users/alice/.password", scope: "g2", pwUser: "alice", pwGroup: "g2", kind: "pw"}
		}
		w.noteBodySecrets(b)
		res := w.do(m, sh, c, b)
		if res.status >= 200 && res.status < 300 {
			ok++
		}
	}
	t.Note(fmt.Sprintf("updates-accepted>=%d", ok/10*10))
	os.RemoveAll(w.base)
}

// runRandom: random single requests (every request followed by a reset if it
// changed anything) on a varied environment.
func runRandom(t *tr.Trace, r *tr.Rand, root string, i int) {
	host := ""
	if r.Chance(1, 3) {
		host = "galene.example"
	}
	writable := !r.Chance(1, 4)
	t.History("api", "random")
	w := newWorld(t, root, baseEnv(host, writable))
	w.emitSetup()
	creds := append(baseCreds(host), malformedCreds()...)
	shapes := baseShapes()
	for s := 0; s < 120; s++ {
		sh := shapes[r.Intn(len(shapes))]
		c := creds[r.Intn(len(creds))]
		m := methods[r.Intn(len(methods))]
		bs := w.bodiesFor(m, sh, true)
		b := bs[r.Intn(len(bs))]
		before := w.current().hash
		w.do(m, sh, c, b)
		if w.current().hash != before {
			w.reset()
		}
	}
	os.RemoveAll(w.base)
}

package main

// The HTTP part of property C12 (every HTTP request receives an HTTP
// response; no request makes a handler panic or hang).  Two families of
// histories, made of `http` lines that the Coq model of C17 ignores:
//
//	c12-api   authenticated administrator requests on missing tokens, users,
//	          groups and keys with bodies that are JSON of the wrong shape,
//	          null, numbers, huge, truncated, not UTF-8; odd content types and
//	          conditional headers
//	c12-site  the other handlers that Serve mounts (through the hook
//	          VerifSiteHandler): WHIP endpoint and resources, group status,
//	          group page, public groups, static files, recordings, /ws
//
// Monitor: C12.http_responds per request (a recovered panic or a handler
// that does not return within a minute is a failure; for API paths the same
// is reported as C17.responds).

import (
	"bytes"
	"fmt"
	"net/http"
	"net/url"
	"os"
	"strconv"
	"strings"

	"github.com/pion/webrtc/v4"

	"github.com/jech/galene/diskwriter"

	"verifharness/internal/tr"
)

var siteHandler http.Handler
var groupOnlyHandler http.Handler

type rawBody struct {
	tag  string
	data []byte
}

// rawRequest builds a request whose r.URL.Path is exactly path (no parsing,
// so that any decoded path a server could hand to the handler is reachable).
func rawRequest(method, path string, hdr map[string]string, body []byte) *http.Request {
	req, err := http.NewRequest(method, "http://localhost/", bytes.NewReader(body))
	must(err)
	req.URL = &url.URL{Scheme: "http", Host: "localhost", Path: path}
	req.RequestURI = path
	req.RemoteAddr = "192.0.2.7:4321"
	for k, v := range hdr {
		req.Header.Set(k, v)
	}
	return req
}

// raw performs one request outside the model and evaluates C12.http_responds.
func (w *world) raw(h http.Handler, api bool, method, path string, hdr map[string]string, b rawBody) result {
	t := w.t
	res := serveOn(h, rawRequest(method, path, hdr, b.data))
	w.cur = nil
	var hs []string
	for _, k := range []string{"Authorization", "Content-Type", "If-Match", "If-None-Match", "Origin"} {
		if v, ok := hdr[k]; ok {
			if k == "Authorization" && len(v) > 24 {
				v = v[:24] + "..."
			}
			hs = append(hs, k+"="+v)
		}
	}
	args := []interface{}{method, strconv.Quote(path), strconv.Quote(strings.Join(hs, ";")), b.tag}
	t.Checked("C12.http_responds")
	if api {
		t.Checked("C17.responds")
	}
	if res.paniced {
		msg := fmt.Sprintf("no HTTP response: %s %q headers %q body %s (%d bytes): %s",
			method, path, strings.Join(hs, ";"), b.tag, len(b.data), res.body)
		t.Op("panic", "http", args...)
		t.Fail("C12", "http_responds", msg)
		if api {
			t.Fail("C17", "responds", msg)
		}
		return res
	}
	t.Op(fmt.Sprint(res.status), "http", args...)
	t.Note("c12-status=" + fmt.Sprint(res.status))
	t.Nontrivial(fmt.Sprintf("c12|%s|%s|%s", method, path, b.tag))
	return res
}

func jsonBodies() []rawBody {
	big := strings.Repeat("x", 2<<20)
	mk := func(tag, s string) rawBody { return rawBody{tag, []byte(s)} }
	return []rawBody{
		mk("empty", ""), mk("null", "null"), mk("true", "true"), mk("zero", "0"), mk("bignum", "-1.5e999"),
		mk("string", `"str"`), mk("emptystring", `""`), mk("array", "[]"), mk("array1", "[1]"), mk("arraynull", "[null]"),
		mk("object", "{}"), mk("nested", `{"a":{"b":{}}}`),
		mk("deep", strings.Repeat("[", 10001)+strings.Repeat("]", 10001)),
		mk("users-num", `{"users":5}`), mk("users-usernum", `{"users":{"a":5}}`),
		mk("users-pwnum", `{"users":{"a":{"password":5}}}`), mk("users-pwtypenum", `{"users":{"a":{"password":{"type":5}}}}`),
		mk("users-permsnum", `{"users":{"a":{"permissions":5}}}`), mk("users-null", `{"users":null,"wildcard-user":null,"authKeys":null}`),
		mk("wild-num", `{"wildcard-user":5}`), mk("authkeys-num", `{"authKeys":5}`), mk("authkeys-arrnum", `{"authKeys":[5]}`),
		mk("perms-num", `{"permissions":5}`), mk("perms-unknown", `{"permissions":"nosuchrole"}`),
		mk("perms-arrnum", `{"permissions":[1]}`), mk("perms-null", `{"permissions":null}`), mk("perms-obj", `{"permissions":{"a":1}}`),
		mk("pw-null", `{"password":null}`), mk("pw-nokey", `{"password":{"type":"bcrypt"}}`),
		mk("rawpw-pbkdf2-badhex", `{"type":"pbkdf2","hash":"sha-256","key":"zz","salt":"zz","iterations":-1}`),
		mk("rawpw-unknown", `{"type":"nosuch","key":null}`), mk("rawpw-iter-huge", `{"type":"pbkdf2","hash":"sha-256","key":"00","salt":"00","iterations":1e30}`),
		mk("expires-str", `{"expires":"x"}`), mk("expires-num", `{"expires":5}`), mk("expires-null", `{"expires":null,"permissions":null}`),
		mk("expires-badtime", `{"expires":"9999-99-99T00:00:00Z","permissions":[]}`), mk("notbefore", `{"not-before":"2020","permissions":[]}`),
		mk("username-num", `{"username":5}`), mk("token-over", `{"token":"x","group":"y"}`), mk("group-num", `{"group":5}`),
		mk("tok-minimal", `{"permissions":[]}`), mk("tok-noexp-user", `{"username":"u","permissions":["present"]}`),
		mk("keys-num", `{"keys":5}`), mk("keys-arrnum", `{"keys":[5]}`), mk("keys-arrnull", `{"keys":[null]}`),
		mk("keys-emptyobj", `{"keys":[{}]}`), mk("keys-ktynum", `{"keys":[{"kty":5}]}`),
		mk("keys-knum", `{"keys":[{"kty":"oct","alg":"HS256","k":5}]}`), mk("keys-kbad64", `{"keys":[{"kty":"oct","alg":"HS256","k":"!!"}]}`),
		mk("keys-ec-offcurve", `{"keys":[{"kty":"EC","alg":"ES256","crv":"P-256","x":"AA","y":"AA"}]}`),
		mk("keys-ec-nums", `{"keys":[{"kty":"EC","alg":"ES256","crv":5,"x":5,"y":5}]}`),
		mk("keys-rsa-empty", `{"keys":[{"kty":"RSA","alg":"RS256","n":"","e":""}]}`),
		mk("keys-rsa-bige", `{"keys":[{"kty":"RSA","alg":"RS256","n":"AQAB","e":"AAAAAAAAAAAAAAAA"}]}`),
		mk("keys-alg-num", `{"keys":[{"kty":"oct","alg":5}]}`),
		mk("maxclients-str", `{"max-clients":"x"}`), mk("maxclients-huge", `{"max-clients":1e100}`), mk("maxclients-neg", `{"max-clients":-1}`),
		mk("codecs-num", `{"codecs":5}`), mk("obsolete-op", `{"op":[{"username":5}]}`), mk("obsolete-op2", `{"op":[{}],"presenter":[{"username":"a","password":{"type":"x"}}],"allow-anonymous":true}`),
		mk("redirect", `{"redirect":"\u0000://"}`), mk("unknown-field", `{"nosuchfield":1}`), mk("dup-keys", `{"comment":"a","comment":"b"}`),
		mk("truncated", `{"comment":"x`), mk("trailing", `{"comment":"x"}garbage`), mk("not-utf8", "{\"comment\":\"\xff\xfe\"}"),
		mk("bom", "\xef\xbb\xbf{}"), mk("nul", "\x00"), mk("two-values", `{} {}`),
		mk("huge-string", `{"comment":"`+big+`"}`), mk("huge-spaces", strings.Repeat(" ", 2<<20)+"{}"),
		mk("exact-limit", `"`+strings.Repeat("y", 1024*1024-2)+`"`),
	}
}

func textBodies() []rawBody {
	return []rawBody{{"t-empty", nil}, {"t-72", bytes.Repeat([]byte("p"), 72)}, {"t-73", bytes.Repeat([]byte("p"), 73)},
		{"t-nul", []byte("a\x00b")}, {"t-huge", bytes.Repeat([]byte("p"), 2<<20)}, {"t-utf8", []byte("pässwörd")}}
}

func runC12Api(t *tr.Trace, root string) {
	G := apiPrefix
	paths := []string{
		G + "nosuch", G + "nosuch/", G + "nosuch/.users/", G + "nosuch/.users/u", G + "nosuch/.users/u/.password",
		G + "nosuch/.keys", G + "nosuch/.tokens/", G + "nosuch/.tokens/t", G + "nosuch/.wildcard-user",
		G + "nosuch/.wildcard-user/.password", G + "nosuch/.empty-user", G + "nosuch/.empty-user/.password",
		G + "g1/.users/nosuchuser", G + "g1/.users/nosuchuser/.password", G + "g1/.tokens/nosuchtoken",
		G + "g1/.tokens/tadm2", G + "g1/real/.wildcard-user", G + "g1/real/.wildcard-user/.password",
		G + "g1/real/.empty-user", G + "g1/real/.keys", G + "g1/real/.users/",
		G + "g1", G + "g1/.users/alice", G + "g1/.users/alice/.password", G + "g1/.users/nopw/.password", G + "g1/.keys", G + "g1/.tokens/",
		G + "g1/.tokens/tadm1", G + ".tokens/", G + ".tokens/nosuch", G + ".tokens/tadm1",
		G + "g1/sub", G + "g1/sub/.users/alice", G + "g1/sub/.users/alice/.password", G + "g1/sub/.keys", G + "g1/sub/.tokens/x",
		G + "g1/sub/.wildcard-user", "/galene-api/v0/.stats", "/galene-api/v0/.groups/",
	}
	rootAuth := basicHeader("root", "S3CR3T-root-pw")
	bobAuth := basicHeader("bob", "S3CR3T-bob-pw")
	jb, tb := jsonBodies(), textBodies()
	ctypes := []string{"", "application/json; charset=utf-8", "APPLICATION/JSON", "application/json;;;", "text/plain; charset=utf-8",
		"application/jwk-set+json", "application/x-www-form-urlencoded", "\x00/\x00", "application/json, text/plain"}
	conds := []map[string]string{{"If-Match": "*"}, {"If-None-Match": "*"}, {"If-Match": `"x"`}, {"If-Match": `W/"x", "y`},
		{"If-None-Match": `"`}, {"If-Match": ","}, {"If-None-Match": strings.Repeat(`"a",`, 5000)}, {"If-Match": "\x00"},
		{"If-Match": "W/"}, {"If-None-Match": `"a", W/`}, {"If-Match": "W"}, {"If-None-Match": `W/"`}, {"If-Match": `"a" W/`}}
	for _, p := range paths {
		t.History("api", "c12-api")
		w := newWorld(t, root, baseEnv("", true))
		w.emitSetup()
		start := w.current().hash
		step := func(m string, hdr map[string]string, b rawBody) {
			w.raw(apiHandler, true, m, p, hdr, b)
			if w.current().hash != start {
				w.reset()
				start = w.current().hash
			}
		}
		expected := ctJSON
		if strings.HasSuffix(p, ".keys") {
			expected = ctJWK
		}
		for _, m := range methods {
			if m != "PUT" && m != "POST" {
				step(m, map[string]string{"Authorization": rootAuth}, rawBody{"none", nil})
				for _, c := range conds {
					h := map[string]string{"Authorization": rootAuth}
					for k, v := range c {
						h[k] = v
					}
					step(m, h, rawBody{"none", nil})
				}
				continue
			}
			for _, b := range jb {
				step(m, map[string]string{"Authorization": rootAuth, "Content-Type": expected}, b)
			}
			if strings.HasSuffix(p, ".password") {
				for _, b := range tb {
					step(m, map[string]string{"Authorization": rootAuth, "Content-Type": ctText}, b)
				}
			}
			for i, ct := range ctypes {
				step(m, map[string]string{"Authorization": rootAuth, "Content-Type": ct}, jb[(i*7)%len(jb)])
				step(m, map[string]string{"Authorization": rootAuth, "Content-Type": ct}, jb[10])
			}
			for i, c := range conds {
				h := map[string]string{"Authorization": rootAuth, "Content-Type": expected}
				for k, v := range c {
					h[k] = v
				}
				step(m, h, jb[(10+i)%len(jb)])
			}
			// the group administrator and nobody, on a few bodies
			for _, i := range []int{0, 1, 10, 13, 28, 42, 59} {
				step(m, map[string]string{"Authorization": bobAuth, "Content-Type": expected}, jb[i%len(jb)])
				step(m, map[string]string{"Content-Type": expected}, jb[i%len(jb)])
			}
		}
		os.RemoveAll(w.base)
	}
}

// whipOffer: a real SDP offer (one audio and one video sendonly transceiver).
func whipOffer() []byte {
	pc, err := webrtc.NewPeerConnection(webrtc.Configuration{})
	must(err)
	defer pc.Close()
	for _, k := range []webrtc.RTPCodecType{webrtc.RTPCodecTypeAudio, webrtc.RTPCodecTypeVideo} {
		_, err = pc.AddTransceiverFromKind(k, webrtc.RTPTransceiverInit{Direction: webrtc.RTPTransceiverDirectionSendonly})
		must(err)
	}
	offer, err := pc.CreateOffer(nil)
	must(err)
	return []byte(offer.SDP)
}

func runC12Site(t *tr.Trace, r *tr.Rand, root string) {
	t.History("api", "c12-site")
	w := newWorld(t, root, baseEnv("", true))
	w.emitSetup()
	rec := root + "/recordings"
	must(os.MkdirAll(rec+"/g1", 0700))
	must(os.WriteFile(rec+"/g1/r.webm", []byte("webm"), 0600))
	diskwriter.Directory = rec
	offer := whipOffer()
	sdp := "application/sdp"
	frag := "application/trickle-ice-sdpfrag"
	none := rawBody{"none", nil}
	sdpBodies := []rawBody{{"offer", offer}, {"offer-cut", offer[:len(offer)/2]}, {"offer-cut-line", offer[:bytes.Index(offer, []byte("m="))]},
		{"sdp-empty", nil}, {"sdp-v0", []byte("v=0\r\n")}, {"sdp-random", r.Bytes(300)}, {"sdp-nul", []byte("v=0\r\no=\x00\r\n")},
		{"sdp-huge", bytes.Repeat([]byte("a=x\r\n"), 300000)}, {"sdp-no-media", []byte("v=0\r\no=- 1 1 IN IP4 0.0.0.0\r\ns=-\r\nt=0 0\r\n")},
		{"sdp-many-m", append(append([]byte{}, offer...), bytes.Repeat([]byte("m=video 9 UDP/TLS/RTP/SAVPF 96\r\nc=IN IP4 0.0.0.0\r\na=mid:9\r\n"), 50)...)},
		{"sdp-json", []byte(`{"type":"offer"}`)}}
	fragBodies := []rawBody{{"frag-empty", nil}, {"frag-ok", []byte("a=ice-ufrag:abcd\r\na=ice-pwd:abcdefghijklmnopqrstuvwx\r\nm=audio 9 UDP/TLS/RTP/SAVPF 0\r\na=mid:0\r\na=candidate:1 1 udp 2130706431 192.0.2.1 5000 typ host\r\na=end-of-candidates\r\n")},
		{"frag-badcand", []byte("a=ice-ufrag:abcd\r\na=ice-pwd:p\r\nm=audio 9 x 0\r\na=mid:0\r\na=candidate:garbage\r\n")},
		{"frag-random", r.Bytes(200)}, {"frag-nomid", []byte("a=candidate:1 1 udp 1 192.0.2.1 5000 typ host\r\n")},
		{"frag-mid-first", []byte("a=mid:0\r\na=ice-ufrag:abcd\r\na=ice-pwd:abcdefghijklmnopqrstuvwx\r\nm=audio 9 UDP/TLS/RTP/SAVPF 0\r\n")}, {"frag-mid-only", []byte("a=mid:0")},
		{"frag-huge", bytes.Repeat([]byte("a=candidate:1 1 udp 1 192.0.2.1 5000 typ host\r\n"), 40000)}}
	bearers := map[string]string{"none": "", "present": "Bearer tpres", "present-sub": "Bearer tadm1sub", "admin-only": "Bearer tadm1", "unknown": "Bearer nosuchtoken",
		"expired": "Bearer texp", "other-group": "Bearer tadm2", "basic": basicHeader("alice", "S3CR3T-alice-pw"), "garbage": "Bearer \x00\xff"}
	site := func(m, p string, hdr map[string]string, b rawBody) result {
		return w.raw(siteHandler, false, m, p, hdr, b)
	}
	hd := func(auth, ct string) map[string]string {
		h := map[string]string{}
		if auth != "" {
			h["Authorization"] = auth
		}
		if ct != "" {
			h["Content-Type"] = ct
		}
		return h
	}
	allMethods := append([]string{}, methods...)
	allMethods = append(allMethods, "TRACE", "CONNECT", "BREW")

	// WHIP endpoint
	var locations []string
	for _, g := range []string{"g1", "g1/sub", "g2", "nosuch", "g1/real", "", "..", "a/../g1", "g1//", "g1/.", strings.Repeat("g", 5000)} {
		ep := "/group/" + g + "/.whip"
		for _, m := range allMethods {
			site(m, ep, hd("", ""), none)
			site(m, ep, map[string]string{"Origin": "https://evil.example"}, none)
		}
		for bn, auth := range bearers {
			_ = bn
			for _, b := range sdpBodies {
				res := site("POST", ep, hd(auth, sdp), b)
				if res.status == 201 {
					t.Note("whip-created")
					locations = append(locations, res.header.Get("Location")+"\x00"+auth)
				}
			}
			site("POST", ep, hd(auth, "text/plain"), sdpBodies[0])
			site("POST", ep, hd(auth, ""), sdpBodies[0])
			if res := site("POST", ep, hd(auth, "APPLICATION/SDP"), sdpBodies[0]); res.status == 201 {
				t.Note("whip-created")
				locations = append(locations, res.header.Get("Location")+"\x00"+auth)
			}
		}
	}
	// WHIP resources: unknown and malformed ids
	ids := []string{"", "x", "AAAAAAAAAAAAAAAAAAAAAA", "AAAAAAAAAAAAAAAAAAAAAA==", "!!!!", strings.Repeat("A", 22) + "/x", strings.Repeat("A", 4000), "AAAAAAAAAAAAAAAAAAAAA", ".whip", "../x"}
	for _, id := range ids {
		for _, g := range []string{"g1", "nosuch", ""} {
			p := "/group/" + g + "/.whip/" + id
			for _, m := range allMethods {
				site(m, p, hd("Bearer tpres", frag), fragBodies[1])
			}
			site("PATCH", p, hd("", ""), none)
		}
	}
	// WHIP resources that exist
	for i, l := range locations {
		parts := strings.SplitN(l, "\x00", 2)
		loc, auth := parts[0], parts[1]
		site("OPTIONS", loc, hd("", ""), none)
		site("GET", loc, hd(auth, ""), none)
		site("PATCH", loc, hd("", frag), fragBodies[1])
		site("PATCH", loc, hd("Bearer nosuchtoken", frag), fragBodies[1])
		site("DELETE", loc, hd("Bearer wrong", ""), none)
		for _, b := range fragBodies {
			site("PATCH", loc, hd(auth, frag), b)
		}
		site("PATCH", loc, hd(auth, "text/plain"), fragBodies[1])
		site("PATCH", loc, hd(auth, ""), fragBodies[1])
		h := hd(auth, frag)
		h["If-Match"] = `"nosuchtag"`
		site("PATCH", loc, h, fragBodies[1])
		h = hd(auth, frag)
		h["If-None-Match"] = "*"
		site("DELETE", loc, h, none)
		// a resource of another group's path
		site("PATCH", strings.Replace(loc, "/group/g1/", "/group/g2/", 1), hd(auth, frag), fragBodies[1])
		if i%2 == 0 {
			site("DELETE", loc, hd(auth, ""), none)
			site("DELETE", loc, hd(auth, ""), none)
			site("PATCH", loc, hd(auth, frag), fragBodies[1])
		}
	}
	// status, group page, public groups, static files, recordings, websocket
	var others []string
	for _, g := range []string{"g1", "g1/sub", "g1/real", "g2", "nosuch", "", ".", "..", "a/../g1", "g1//x", "g1\\x", strings.Repeat("g/", 2000)} {
		for _, sfx := range []string{"", "/", "/.status", "/.status/", "/.status/x", "/.status.json", "/.status.json/x", "/.foo", "/.foo/bar", "/.whip/"} {
			others = append(others, "/group/"+g+sfx)
		}
	}
	others = append(others, "/group", "/group/", "/public-groups.json", "/public-groups.json/x", "/", "/index.html", "/nosuch", "/nosuch/",
		"/../etc/passwd", "/%2e%2e/", "//", "/./", "/a\x00b", "/recordings", "/recordings/", "/recordings/g1", "/recordings/g1/", "/recordings/g1/r.webm",
		"/recordings/nosuch/", "/recordings/../", "/recordings/g1/../../", "/ws", "/ws/", "/galene-api", "/galene-api/", "/galene-api/v0/.stats",
		"/galene-api/v0/.groups/g1", "")
	for _, p := range others {
		for _, m := range allMethods {
			site(m, p, hd("", ""), none)
		}
		site("GET", p, map[string]string{"Origin": "null", "Host": "x"}, none)
		site("POST", p, hd(basicHeader("root", "S3CR3T-root-pw"), "application/x-www-form-urlencoded"), rawBody{"form", []byte("action=delete&filename=r.webm")})
		site("GET", p, map[string]string{"If-None-Match": `"`, "If-Modified-Since": "garbage", "Range": "bytes=9-1,x"}, none)
		site("GET", p, map[string]string{"Upgrade": "websocket", "Connection": "Upgrade", "Sec-WebSocket-Version": "13", "Sec-WebSocket-Key": "AAAA"}, none)
	}
	// the group handler without the path cleaning of the mux
	for _, p := range []string{"/group/g1/../g2/.status", "/group//.status", "/group/g1/./.whip", "/group/\x00/.status", "/group/g1/.whip/../.status", "/group"} {
		for _, m := range []string{"GET", "POST", "OPTIONS", "DELETE", "PATCH"} {
			w.raw(groupOnlyHandler, false, m, p, hd("Bearer tpres", sdp), sdpBodies[0])
		}
	}
	os.RemoveAll(w.base)
}

package main

// Stream `faults`: an update that FAILS must not damage what is stored.
// Around one request the process gets a small RLIMIT_FSIZE (SIGXFSZ ignored),
// so that the write of the temporary group file is cut short (EFBIG after
// 0, 1, 64, half, all-but-one of its bytes), or RLIMIT_NOFILE 0, so that no
// file can be opened or created.  For every updating route of a group:
//
//	C17.fault_atomic   a request that is not answered 2xx leaves the groups
//	                   and data directories byte-identical (no half-written
//	                   file, no left-over temporary file); after a request
//	                   answered 2xx every group file parses, C17.preserve
//	                   holds (everything not addressed is unchanged) and what
//	                   is stored is what the same update stores without fault
//
// Further faults, outside the model: the groups directory immutable
// (chattr +i: the temporary file cannot be created, nothing can be renamed or
// removed) and the group file itself immutable (the rename over it fails).
//
// The short-write requests are also compared with the model, whose store
// step fails (`fault` line: answer 500, state unchanged).

import (
	"encoding/json"
	"fmt"
	"os"
	"os/exec"
	"os/signal"
	"path/filepath"
	"syscall"

	"verifharness/internal/tr"
)

func init() { signal.Ignore(syscall.SIGXFSZ) }

func withRlimit(resource int, cur uint64, f func()) {
	var old syscall.Rlimit
	must(syscall.Getrlimit(resource, &old))
	must(syscall.Setrlimit(resource, &syscall.Rlimit{Cur: cur, Max: old.Max}))
	defer func() { must(syscall.Setrlimit(resource, &old)) }()
	f()
}

const rlimitFsize = 1 // RLIMIT_FSIZE on linux

// withImmutable runs f while path has the immutable attribute.  It returns
// false if the attribute cannot be set here.
func withImmutable(path string, f func()) bool {
	if exec.Command("chattr", "+i", path).Run() != nil {
		return false
	}
	defer func() { must(exec.Command("chattr", "-i", path).Run()) }()
	f()
	return true
}

func withFileSizeLimit(limit uint64, f func()) { withRlimit(rlimitFsize, limit, f) }
func withNoFiles(f func())                     { withRlimit(syscall.RLIMIT_NOFILE, 0, f) }

// faultAtomic evaluates C17.fault_atomic after a request made under a fault.
func (w *world) faultAtomic(pre *snap, u update, res result, fault string, applied string) {
	t := w.t
	t.Checked("C17.fault_atomic")
	t.Checked("C18.write_fault_atomic")
	post := w.current()
	what := fmt.Sprintf("%s -> %d under %s", u, res.status, fault)
	if res.paniced {
		return
	}
	if res.status < 200 || res.status >= 300 {
		if post.hash != pre.hash {
			t.Fail("C17", "fault_atomic", what+": the request was answered with an error but the stored files changed")
			t.Fail("C18", "write_fault_atomic", what+": the request was answered with an error but the stored files changed")
		}
		return
	}
	for n, b := range post.groups {
		var v map[string]any
		if json.Unmarshal(b, &v) != nil {
			t.Fail("C17", "fault_atomic", fmt.Sprintf("%s: answered %d but the file of group %s no longer parses (%d bytes, %d before)",
				what, res.status, n, len(b), len(pre.groups[n])))
			t.Fail("C18", "write_fault_atomic", fmt.Sprintf("%s: answered %d but the file of group %s no longer parses (%d bytes, %d before)",
				what, res.status, n, len(b), len(pre.groups[n])))
		}
	}
	if post.hash != pre.hash {
		w.checkPreserve(u.method, u.sh, pre.groups, what)
	}
	// answered 2xx: the update is stored, as without the fault
	if d := w.stateDigest(); applied != "" && d != applied {
		t.Fail("C17", "fault_atomic", fmt.Sprintf("%s: answered %d but what is stored is not the result of the update: stored %s, expected %s",
			what, res.status, d, applied))
		t.Fail("C18", "write_fault_atomic", fmt.Sprintf("%s: answered %d but what is stored is not the result of the update: stored %s, expected %s",
			what, res.status, d, applied))
	}
}

func runFaults(t *tr.Trace, r *tr.Rand, root string) {
	t.History("api", "faults")
	w := newWorld(t, root, baseEnv("", true))
	w.emitSetup()
	rootc := findCred(baseCreds(""), "root")
	var ups []update
	for kind := 0; kind < updateKinds; kind++ {
		ups = append(ups, w.someUpdate(r, rootc, kind))
	}
	fresh++
	ups = append(ups,
		update{"PUT", shape{path: apiPrefix + "brandnew", scope: "brandnew", kind: "desc"},
			descBody(ctJSON, fmt.Sprintf("new%d", fresh), false, false, false, false, false, false), rootc},
		update{"PUT", shape{path: apiPrefix + "g1/.users/fresh", scope: "g1", kind: "user"},
			userBody(ctJSON, "role:present", pwSpec{"none", ""}), rootc},
		update{"PUT", shape{path: apiPrefix + "g2/.users/gadmin2/.password", scope: "g2", pwUser: "gadmin2", pwGroup: "g2", kind: "pw"},
			pwBody(ctJSON, pwSpec{"plain", "S3CR3T-fault-g2"}), rootc},
		update{"DELETE", shape{path: apiPrefix + "g2", scope: "g2", kind: "desc"}, noBody, rootc})
	w.secrets["S3CR3T-fault-g2"] = true
	for _, u := range ups {
		file, _ := addressed(u.sh)
		// without a fault: the size of what the update stores
		res0 := w.do(u.method, u.sh, u.c, u.b)
		applied := ""
		if res0.status >= 200 && res0.status < 300 {
			applied = w.stateDigest()
		}
		size := int64(0)
		if fi, err := os.Stat(filepath.Join(w.dir, filepath.FromSlash(file)+".json")); err == nil {
			size = fi.Size()
		}
		w.reset()
		if res0.status < 200 || res0.status >= 300 {
			t.Note("fault-update-not-applicable")
		}
		var limits []int64
		for _, lim := range []int64{0, 1, 64, size / 2, size - 1} {
			// only limits that cut the write short for certain
			if lim >= 0 && lim < size && (len(limits) == 0 || lim > limits[len(limits)-1]) {
				limits = append(limits, lim)
			}
		}
		for _, lim := range limits {
			pre := w.current()
			t.Op("-", "fault", lim)
			w.faultLimit = lim
			res := w.do(u.method, u.sh, u.c, u.b)
			w.faultLimit = -1
			t.Note(fmt.Sprintf("fault-short-write-status=%d", res.status))
			w.faultAtomic(pre, u, res, fmt.Sprintf("a file size limit of %d bytes", lim), applied)
			if w.current().hash != pre.hash {
				w.reset()
			}
		}
		// the other faults (outside the model)
		gfile := filepath.Join(w.dir, filepath.FromSlash(file)+".json")
		for _, fault := range []string{"nofile", "immutable-dir", "immutable-file"} {
			pre := w.current()
			var res result
			run := func() { res = serveOn(apiHandler, u.request()) }
			ok := true
			switch fault {
			case "nofile": // no file can be opened: config.json cannot be read
				withNoFiles(run)
			case "immutable-dir": // no temporary file, no rename, no removal
				ok = withImmutable(filepath.Dir(gfile), run)
			case "immutable-file": // the rename over the group file fails
				if _, err := os.Stat(gfile); err != nil {
					continue
				}
				ok = withImmutable(gfile, run)
			}
			if !ok {
				t.Note("fault-" + fault + "-unavailable")
				continue
			}
			w.cur = nil
			t.Op(fmt.Sprint(res.status), "faulthttp", fault, u.method, u.sh.path, u.b.enc)
			t.Checked("C17.responds")
			t.Checked("C12.http_responds")
			if res.paniced {
				t.Fail("C17", "responds", "no HTTP response under fault "+fault+": "+u.String()+": "+res.body)
				t.Fail("C12", "http_responds", "no HTTP response under fault "+fault+": "+u.String()+": "+res.body)
			}
			t.Note(fmt.Sprintf("fault-%s-status=%d", fault, res.status))
			w.faultAtomic(pre, u, res, "fault "+fault, applied)
			if w.current().hash != pre.hash {
				w.reset()
			}
		}
	}
	os.RemoveAll(w.base)
}

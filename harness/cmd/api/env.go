package main

// Environment of one history of the `api` driver (property C17): the
// definition of config.json, the group files and the token store, their
// materialisation in temporary directories, and the canonical read-back of
// what is on disk (state digest, tree hash, secret markers).

import (
	"crypto/sha256"
	"encoding/base64"
	"encoding/hex"
	"encoding/json"
	"fmt"
	"os"
	"path/filepath"
	"sort"
	"strings"
	"time"

	"golang.org/x/crypto/bcrypt"
	"golang.org/x/crypto/pbkdf2"

	"github.com/jech/galene/group"
	"github.com/jech/galene/token"

	"verifharness/internal/tr"
)

type pwSpec struct{ kind, clear string } // none plain wildcard bcrypt pbkdf2 broken plainnokey

func (p pwSpec) String() string {
	switch p.kind {
	case "plain", "bcrypt", "pbkdf2":
		return p.kind + ":" + undash(p.clear)
	}
	return p.kind
}

type userDef struct {
	name  string
	pw    pwSpec
	perms string // none | role:<name> | list:<a+b>
}

type groupDef struct {
	name, comment     string
	autosub, rec, unr bool
	users             []userDef
	wild              *userDef
	keys              []string // key ids K1, K2, ...
}

type tokDef struct {
	name, group string
	sub         bool
	user        *string
	perms       []string
	timeok      bool
}

type envDef struct {
	writable bool
	host     string // canonicalHost
	conf     []userDef
	groups   []groupDef
	tokens   []tokDef
}

func undash(s string) string {
	if s == "" {
		return "-"
	}
	return s
}

func b01(b bool) string {
	if b {
		return "1"
	}
	return "0"
}

// ---------------------------------------------------------------- secrets

// hashes made by the driver (or found on disk and resolved): stored key -> "bcrypt:<clear>"
var knownHash = map[string]string{}
var bcryptCache = map[string]string{}
var pbkdfCache = map[string][2]string{}

// candidate clear texts for hashes made by the server (POST .password)
var clearCandidates = map[string]bool{}
var lastPosted string

func bcryptOf(clear string) string {
	if h, ok := bcryptCache[clear]; ok {
		return h
	}
	b, err := bcrypt.GenerateFromPassword([]byte(clear), bcrypt.MinCost)
	if err != nil {
		panic(err)
	}
	h := string(b)
	bcryptCache[clear] = h
	knownHash[h] = "bcrypt:" + undash(clear)
	return h
}

func pbkdfOf(clear string) (key, salt string) {
	if v, ok := pbkdfCache[clear]; ok {
		return v[0], v[1]
	}
	s := sha256.Sum256([]byte("salt/" + clear))
	saltb := s[:8]
	k := pbkdf2.Key([]byte(clear), saltb, 16, 32, sha256.New)
	key, salt = hex.EncodeToString(k), hex.EncodeToString(saltb)
	pbkdfCache[clear] = [2]string{key, salt}
	knownHash[key] = "pbkdf2:" + undash(clear)
	return
}

// keyMaterial returns the 32 secret bytes of key id (HS256).
func keyMaterial(id string) []byte {
	b := []byte("KEYMAT-" + id + "-0123456789abcdefghijklmnopqrstuv")
	return b[:32]
}

func keyK(id string) string { return base64.RawURLEncoding.EncodeToString(keyMaterial(id)) }

func jwkOf(id string) map[string]any {
	return map[string]any{"kty": "oct", "alg": "HS256", "k": keyK(id)}
}

var keyIDs = []string{"K1", "K2", "K3", "K4"}

func keyIDOfK(k string) string {
	for _, id := range keyIDs {
		if keyK(id) == k {
			return id
		}
	}
	return "?"
}

func pwJSON(p pwSpec) (any, bool) {
	switch p.kind {
	case "none":
		return nil, false
	case "plain":
		return p.clear, true
	case "wildcard":
		return map[string]any{"type": "wildcard"}, true
	case "bcrypt":
		return map[string]any{"type": "bcrypt", "key": bcryptOf(p.clear)}, true
	case "pbkdf2":
		k, s := pbkdfOf(p.clear)
		return map[string]any{"type": "pbkdf2", "hash": "sha-256", "key": k, "salt": s, "iterations": 16}, true
	case "broken":
		return map[string]any{"type": "weird"}, true
	case "plainnokey":
		return map[string]any{"type": "plain"}, true
	}
	panic("pwspec " + p.kind)
}

func permsJSON(s string) (any, bool) {
	switch {
	case s == "none":
		return nil, false
	case strings.HasPrefix(s, "role:"):
		return s[5:], true
	case strings.HasPrefix(s, "list:"):
		l := []string{}
		if s[5:] != "" {
			l = strings.Split(s[5:], "+")
		}
		return l, true
	}
	panic("perms " + s)
}

func userJSON(u userDef) map[string]any {
	m := map[string]any{}
	if v, ok := pwJSON(u.pw); ok {
		m["password"] = v
	}
	if v, ok := permsJSON(u.perms); ok {
		m["permissions"] = v
	}
	return m
}

func groupJSON(g groupDef) []byte {
	m := map[string]any{}
	if g.comment != "" {
		m["comment"] = g.comment
	}
	if g.autosub {
		m["auto-subgroups"] = true
	}
	if g.rec {
		m["allow-recording"] = true
	}
	if g.unr {
		m["unrestricted-tokens"] = true
	}
	if len(g.users) > 0 {
		us := map[string]any{}
		for _, u := range g.users {
			us[u.name] = userJSON(u)
		}
		m["users"] = us
	}
	if g.wild != nil {
		m["wildcard-user"] = userJSON(*g.wild)
	}
	if len(g.keys) > 0 {
		var ks []any
		for _, k := range g.keys {
			ks = append(ks, jwkOf(k))
		}
		m["authKeys"] = ks
	}
	b, err := json.Marshal(m)
	if err != nil {
		panic(err)
	}
	return append(b, '\n')
}

// ---------------------------------------------------------------- world

// world is the materialised environment of the current history.
type world struct {
	t          *tr.Trace
	def        envDef
	dir        string // groups
	data       string // config.json, tokens.jsonl
	base       string
	secrets    map[string]bool
	known      map[string]bool // token names known to the driver
	last       string          // last state digest printed
	cur        *snap           // what is on disk now, if known
	faultLimit int64           // >= 0: RLIMIT_FSIZE around the next requests (fault stream)
	future     string
	past       string
}

var worldSeq int

func newWorld(t *tr.Trace, root string, def envDef) *world {
	worldSeq++
	base := filepath.Join(root, fmt.Sprintf("w%d", worldSeq))
	w := &world{t: t, def: def, base: base, dir: filepath.Join(base, "groups"), data: filepath.Join(base, "data"),
		secrets: map[string]bool{}, known: map[string]bool{}, faultLimit: -1}
	now := time.Now()
	w.future = now.Add(24 * time.Hour).UTC().Format(time.RFC3339)
	w.past = now.Add(-24 * time.Hour).UTC().Format(time.RFC3339)
	must(os.MkdirAll(w.dir, 0700))
	must(os.MkdirAll(w.data, 0700))
	group.Directory = w.dir
	group.DataDirectory = w.data
	w.writeConfig()
	w.writeGroupsAndTokens()
	token.SetStatefulFilename(filepath.Join(w.data, "tokens.jsonl"))
	w.collectSecrets()
	return w
}

func must(err error) {
	if err != nil {
		panic(err)
	}
}

func (w *world) writeConfig() {
	m := map[string]any{}
	if w.def.writable {
		m["writableGroups"] = true
	}
	if w.def.host != "" {
		m["canonicalHost"] = w.def.host
	}
	us := map[string]any{}
	for _, u := range w.def.conf {
		us[u.name] = userJSON(u)
	}
	if len(us) > 0 {
		m["users"] = us
	}
	// a different size for every world, so that the configuration cache of
	// package group (keyed by mtime and size) never confuses two of them
	m["proxyURL"] = strings.Repeat("x", worldSeq%97)
	b, _ := json.Marshal(m)
	must(os.WriteFile(filepath.Join(w.data, "config.json"), b, 0600))
}

func (w *world) tokenLine(t tokDef) []byte {
	m := map[string]any{"token": t.name, "group": t.group, "permissions": t.perms}
	if t.perms == nil {
		m["permissions"] = []string{}
	}
	if t.sub {
		m["includeSubgroups"] = true
	}
	if t.user != nil {
		m["username"] = *t.user
	}
	if strings.Contains(t.name, "noexp") {
		// no expiry at all: such a token is never valid
	} else if t.timeok {
		m["expires"] = w.future
	} else {
		m["expires"] = w.past
	}
	b, _ := json.Marshal(m)
	return append(b, '\n')
}

// writeGroupsAndTokens (re)creates the group files and the token store from
// the definition: used at the start of a history and by `reset`.
func (w *world) writeGroupsAndTokens() {
	must(os.RemoveAll(w.dir))
	must(os.MkdirAll(w.dir, 0700))
	for _, g := range w.def.groups {
		p := filepath.Join(w.dir, filepath.FromSlash(g.name)+".json")
		must(os.MkdirAll(filepath.Dir(p), 0700))
		must(os.WriteFile(p, groupJSON(g), 0600))
	}
	tf := filepath.Join(w.data, "tokens.jsonl")
	os.Remove(tf)
	var buf []byte
	for _, t := range w.def.tokens {
		buf = append(buf, w.tokenLine(t)...)
		w.known[t.name] = true
	}
	if len(buf) > 0 {
		must(os.WriteFile(tf, buf, 0600))
	}
}

func (w *world) addSecretPw(p pwSpec) {
	switch p.kind {
	case "plain":
		if len(p.clear) >= 6 {
			w.secrets[p.clear] = true
		}
	case "bcrypt":
		w.secrets[bcryptOf(p.clear)] = true
		if len(p.clear) >= 6 {
			w.secrets[p.clear] = true
		}
	case "pbkdf2":
		k, s := pbkdfOf(p.clear)
		w.secrets[k] = true
		w.secrets[s] = true
		if len(p.clear) >= 6 {
			w.secrets[p.clear] = true
		}
	}
}

func (w *world) collectSecrets() {
	for _, u := range w.def.conf {
		w.addSecretPw(u.pw)
	}
	for _, g := range w.def.groups {
		for _, u := range g.users {
			w.addSecretPw(u.pw)
		}
		if g.wild != nil {
			w.addSecretPw(g.wild.pw)
		}
		for _, k := range g.keys {
			w.secrets[keyK(k)] = true
		}
	}
}

// emitSetup writes the setup lines of the history.
func (w *world) emitSetup() {
	t := w.t
	d := w.def
	t.Op("-", "writable", d.writable)
	for _, u := range d.conf {
		t.Op("-", "confuser", u.name, u.pw.String(), u.perms)
	}
	for _, g := range d.groups {
		t.Op("-", "group", g.name, undash(g.comment), g.autosub, g.rec, g.unr)
		for _, u := range g.users {
			t.Op("-", "user", g.name, undash(u.name), u.pw.String(), u.perms)
		}
		if g.wild != nil {
			t.Op("-", "wild", g.name, g.wild.pw.String(), g.wild.perms)
		}
		for _, k := range g.keys {
			t.Op("-", "key", g.name, k)
		}
	}
	for _, k := range d.tokens {
		u := "~"
		if k.user != nil {
			u = undash(*k.user)
		}
		p := "-"
		if len(k.perms) > 0 {
			p = strings.Join(k.perms, "+")
		}
		t.Op("-", "token", k.name, undash(k.group), k.sub, u, p, k.timeok)
	}
	t.Op("-", "start")
	w.last = w.stateDigest()
}

func (w *world) reset() {
	w.writeGroupsAndTokens()
	token.SetStatefulFilename(filepath.Join(w.data, "tokens.jsonl"))
	w.t.Op("-", "reset")
	w.cur = nil
	w.last = w.stateDigest()
}

// ---------------------------------------------------------------- read-back

// snap: everything on disk at one moment.
type snap struct {
	groups map[string][]byte // group name -> file content
	hash   string            // tree hash of the groups and the data directory
	tokens string            // content of tokens.jsonl
}

// snapshot reads the groups and data directories once.
func (w *world) snapshot() *snap {
	s := &snap{groups: map[string][]byte{}}
	h := sha256.New()
	for _, root := range []string{w.dir, w.data} {
		var paths []string
		filepath.WalkDir(root, func(p string, d os.DirEntry, err error) error {
			if err == nil && !d.IsDir() {
				paths = append(paths, p)
			}
			return nil
		})
		sort.Strings(paths)
		for _, p := range paths {
			b, _ := os.ReadFile(p)
			rel, _ := filepath.Rel(w.base, p)
			fmt.Fprintf(h, "%s\x00%d\x00", rel, len(b))
			h.Write(b)
			if root == w.dir && strings.HasSuffix(p, ".json") {
				r, _ := filepath.Rel(w.dir, p)
				s.groups[strings.TrimSuffix(filepath.ToSlash(r), ".json")] = b
			}
			if root == w.data && filepath.Base(p) == "tokens.jsonl" {
				s.tokens = string(b)
			}
		}
	}
	s.hash = hex.EncodeToString(h.Sum(nil))
	return s
}

// current returns the snapshot taken after the last request (or takes one).
func (w *world) current() *snap {
	if w.cur == nil {
		w.cur = w.snapshot()
	}
	return w.cur
}

// treeHash: a hash of every file (path and content) below the groups and the
// data directory.
func (w *world) treeHash() string {
	h := sha256.New()
	for _, root := range []string{w.dir, w.data} {
		var paths []string
		filepath.WalkDir(root, func(p string, d os.DirEntry, err error) error {
			if err == nil && !d.IsDir() {
				paths = append(paths, p)
			}
			return nil
		})
		sort.Strings(paths)
		for _, p := range paths {
			b, _ := os.ReadFile(p)
			rel, _ := filepath.Rel(w.base, p)
			fmt.Fprintf(h, "%s\x00%d\x00", rel, len(b))
			h.Write(b)
		}
	}
	return hex.EncodeToString(h.Sum(nil))
}

func digestPwRaw(raw json.RawMessage) string {
	if len(raw) == 0 || string(raw) == "null" {
		return "none"
	}
	var s string
	if json.Unmarshal(raw, &s) == nil {
		return "plain:" + undash(s)
	}
	var m struct {
		Type string  `json:"type"`
		Key  *string `json:"key"`
	}
	if json.Unmarshal(raw, &m) != nil {
		return "broken"
	}
	switch m.Type {
	case "":
		if m.Key == nil {
			return "none"
		}
		return "broken"
	case "wildcard":
		return "wildcard"
	case "plain":
		if m.Key == nil {
			return "plainnokey"
		}
		return "plain:" + undash(*m.Key)
	case "bcrypt", "pbkdf2":
		if m.Key == nil {
			return "broken"
		}
		if c, ok := knownHash[*m.Key]; ok {
			return c
		}
		if m.Type == "bcrypt" {
			// most likely the text posted last
			if bcrypt.CompareHashAndPassword([]byte(*m.Key), []byte(lastPosted)) == nil {
				knownHash[*m.Key] = "bcrypt:" + undash(lastPosted)
				return knownHash[*m.Key]
			}
			for c := range clearCandidates {
				if bcrypt.CompareHashAndPassword([]byte(*m.Key), []byte(c)) == nil {
					knownHash[*m.Key] = "bcrypt:" + undash(c)
					return knownHash[*m.Key]
				}
			}
		}
		return m.Type + ":?"
	}
	return "broken"
}

func digestPermsRaw(raw json.RawMessage) string {
	if len(raw) == 0 || string(raw) == "null" {
		return "none"
	}
	var s string
	if json.Unmarshal(raw, &s) == nil {
		return "role:" + s
	}
	var l []string
	if json.Unmarshal(raw, &l) == nil {
		return "list:" + strings.Join(l, "+")
	}
	return "?"
}

func digestUserRaw(raw json.RawMessage) string {
	var m map[string]json.RawMessage
	if json.Unmarshal(raw, &m) != nil {
		return "?"
	}
	return digestPwRaw(m["password"]) + "/" + digestPermsRaw(m["permissions"])
}

func rawBool(raw json.RawMessage) bool { return string(raw) == "true" }

func rawString(raw json.RawMessage) string {
	var s string
	json.Unmarshal(raw, &s)
	return s
}

func digestPub(m map[string]json.RawMessage) string {
	return undash(rawString(m["comment"])) + "," + b01(rawBool(m["auto-subgroups"])) +
		b01(rawBool(m["allow-recording"])) + b01(rawBool(m["unrestricted-tokens"]))
}

func digestGroupFile(name string, b []byte) string {
	var m map[string]json.RawMessage
	if json.Unmarshal(b, &m) != nil {
		return name + "[?]"
	}
	var users map[string]json.RawMessage
	json.Unmarshal(m["users"], &users)
	var us []string
	for n, u := range users {
		us = append(us, undash(n)+"="+digestUserRaw(u))
	}
	sort.Strings(us)
	wild := "-"
	if w, ok := m["wildcard-user"]; ok && string(w) != "null" {
		wild = digestUserRaw(w)
	}
	var keys []map[string]any
	json.Unmarshal(m["authKeys"], &keys)
	ks := "-"
	if len(keys) > 0 {
		var l []string
		for _, k := range keys {
			s, _ := k["k"].(string)
			l = append(l, keyIDOfK(s))
		}
		ks = strings.Join(l, "+")
	}
	return name + "[" + digestPub(m) + "|" + strings.Join(us, ",") + "|" + wild + "|" + ks + "]"
}

func (w *world) groupFiles() map[string][]byte {
	out := map[string][]byte{}
	filepath.WalkDir(w.dir, func(p string, d os.DirEntry, err error) error {
		if err != nil || d.IsDir() || !strings.HasSuffix(p, ".json") {
			return nil
		}
		rel, _ := filepath.Rel(w.dir, p)
		b, _ := os.ReadFile(p)
		out[strings.TrimSuffix(filepath.ToSlash(rel), ".json")] = b
		return nil
	})
	return out
}

func countLines(s string) int {
	n := 0
	for _, l := range strings.Split(s, "\n") {
		if strings.TrimSpace(l) != "" {
			n++
		}
	}
	return n
}

// stateDigest: the canonical rendering of what is stored, in the format of
// model/comp_api.ml (print_state).
func (w *world) stateDigest() string {
	files := w.current().groups
	var gs []string
	for n, b := range files {
		gs = append(gs, digestGroupFile(n, b))
	}
	sort.Strings(gs)
	wr := false
	if b, err := os.ReadFile(filepath.Join(w.data, "config.json")); err == nil {
		var m map[string]json.RawMessage
		json.Unmarshal(b, &m)
		wr = rawBool(m["writableGroups"])
	}
	return "W" + b01(wr) + ";" + strings.Join(gs, ";") + ";T" + fmt.Sprint(countLines(w.current().tokens))
}

// learnSecrets adds every password key, salt and key material found on disk
// to the secret markers (hashes made by the server included).
func (w *world) learnSecrets() {
	var visit func(v any)
	visit = func(v any) {
		switch x := v.(type) {
		case map[string]any:
			for k, y := range x {
				if s, ok := y.(string); ok && (k == "key" || k == "salt" || k == "k" || k == "password") && len(s) >= 6 {
					w.secrets[s] = true
				}
				visit(y)
			}
		case []any:
			for _, y := range x {
				visit(y)
			}
		}
	}
	for _, b := range w.current().groups {
		var v any
		if json.Unmarshal(b, &v) == nil {
			visit(v)
		}
	}
}

// leaked returns the secret markers contained in body.
func (w *world) leaked(body string) []string {
	var out []string
	for s := range w.secrets {
		if strings.Contains(body, s) {
			out = append(out, s)
		}
	}
	sort.Strings(out)
	return out
}

package main

// One request against the real handler, its observable, and the monitors of
// property C17.

import (
	"encoding/json"
	"fmt"
	"io"
	"net/http"
	"net/http/httptest"
	"os"
	"path/filepath"
	"sort"
	"strings"
	"time"

	"golang.org/x/crypto/bcrypt"
)

var apiHandler http.Handler

type result struct {
	status  int
	body    string
	ctype   string
	header  http.Header
	paniced bool // the handler panicked (recovered here) or never returned
}

const handlerDeadline = 60 * time.Second

// serveOn runs one request on h under recover() and a watchdog: a handler
// that panics, or does not return, gives no HTTP response.
func serveOn(h http.Handler, req *http.Request) (res result) {
	rec := httptest.NewRecorder()
	done := make(chan string, 1)
	go func() {
		defer func() {
			if r := recover(); r != nil {
				done <- fmt.Sprint("panic: ", r)
				return
			}
			done <- ""
		}()
		h.ServeHTTP(rec, req)
	}()
	select {
	case msg := <-done:
		if msg != "" {
			return result{paniced: true, body: msg}
		}
	case <-time.After(handlerDeadline):
		return result{paniced: true, body: "no return from the handler within " + handlerDeadline.String()}
	}
	r := rec.Result()
	bb, _ := io.ReadAll(r.Body)
	return result{status: r.StatusCode, body: string(bb), ctype: r.Header.Get("Content-Type"), header: r.Header}
}

func serve(method, path string, c cred, b body) result {
	req := httptest.NewRequest(method, "http://localhost"+path, strings.NewReader(b.data))
	if c.header != "" {
		req.Header.Set("Authorization", c.header)
	}
	if b.ctype != "" {
		req.Header.Set("Content-Type", b.ctype)
	}
	return serveOn(apiHandler, req)
}

// bodyDigest: the canonical rendering of a response body, in the format of
// model/comp_api.ml (print_body).
func (w *world) bodyDigest(path string, r result) string {
	if len(r.body) == 0 {
		return "e"
	}
	if !strings.HasPrefix(r.ctype, "application/json") {
		return "t"
	}
	var v any
	if json.Unmarshal([]byte(r.body), &v) != nil {
		return "json?"
	}
	switch x := v.(type) {
	case nil:
		return "names:-"
	case []any:
		var l []string
		for _, e := range x {
			s, ok := e.(string)
			if !ok {
				return "json"
			}
			if strings.Contains(path, "/.tokens/") && !w.known[s] {
				s = "?new"
			}
			l = append(l, s)
		}
		sort.Strings(l)
		if len(l) == 0 {
			return "names:-"
		}
		return "names:" + strings.Join(l, "+")
	case map[string]any:
		var m map[string]json.RawMessage
		json.Unmarshal([]byte(r.body), &m)
		switch {
		case strings.Contains(path, "/.tokens/"):
			return "tok"
		case strings.Contains(path, "/.users/") || strings.Contains(path, "-user"):
			return "user:" + digestPermsRaw(m["permissions"]) + "," + digestPwRaw(m["password"])
		default:
			_, u := m["users"]
			_, wc := m["wildcard-user"]
			_, k := m["authKeys"]
			return "desc:" + digestPub(m) + "," + b01(u) + b01(wc) + b01(k)
		}
	}
	return "json"
}

// storedPasswordMatches: does the password presented by c match what is
// stored for user u of group g right now?  (Independent of the model: plain
// equality, bcrypt/pbkdf2 by the recorded clear text, "wildcard" matches
// anything.)  Only Basic credentials present a password (F25).
func (w *world) storedPasswordMatches(g, u string, c cred) bool {
	b, err := os.ReadFile(filepath.Join(w.dir, filepath.FromSlash(g)+".json"))
	if err != nil {
		return false
	}
	var m struct {
		Users map[string]struct {
			Password json.RawMessage `json:"password"`
		} `json:"users"`
	}
	if json.Unmarshal(b, &m) != nil {
		return false
	}
	ud, ok := m.Users[u]
	if !ok {
		return false
	}
	d := digestPwRaw(ud.Password)
	pw := c.basicPw
	switch {
	case d == "wildcard":
		return true
	case strings.HasPrefix(d, "plain:"), strings.HasPrefix(d, "bcrypt:"), strings.HasPrefix(d, "pbkdf2:"):
		clear := d[strings.Index(d, ":")+1:]
		if clear == "-" {
			clear = ""
		}
		return clear == pw
	}
	return false
}

// storedPwDigest: the canonical form of the password stored for u in g.
func (w *world) storedPwDigest(s *snap, g, u string) string {
	var m struct {
		Users map[string]struct {
			Password json.RawMessage `json:"password"`
		} `json:"users"`
	}
	if json.Unmarshal(s.groups[g], &m) != nil {
		return "?"
	}
	ud, ok := m.Users[u]
	if !ok {
		return "no such user"
	}
	return digestPwRaw(ud.Password)
}

// do performs one request, writes its trace line and evaluates the monitors.
func (w *world) do(method string, sh shape, c cred, b body) result {
	t := w.t
	pre := w.current()
	before := pre.hash
	// the exception of the property: the addressed named user's own current password
	ownPw := sh.pwUser != "" && c.hasBasic && w.storedPasswordMatches(sh.pwGroup, sh.pwUser, c)
	filesBefore := pre.groups
	tokBefore := pre.tokens
	if b.enc != "none" && strings.HasPrefix(b.enc, "text,") {
		clearCandidates[b.data] = true
		lastPosted = b.data
	}

	var res result
	if w.faultLimit >= 0 {
		withFileSizeLimit(uint64(w.faultLimit), func() { res = serve(method, sh.path, c, b) })
	} else {
		res = serve(method, sh.path, c, b)
	}

	t.Checked("C17.responds")
	t.Checked("C12.http_responds")
	if res.paniced {
		msg := fmt.Sprintf("no HTTP response (handler panicked): %s %s [%s] body %s: %s", method, sh.path, c.name, b.enc, res.body)
		t.Op("panic", "req", method, sh.path, c.enc, b.enc)
		t.Fail("C17", "responds", msg)
		t.Fail("C12", "http_responds", msg)
		w.cur = nil
		return res
	}
	w.cur = nil
	post := w.current()
	changed := before != post.hash
	if changed {
		w.learnSecrets()
	}
	st := w.stateDigest()
	sts := st
	if st == w.last {
		sts = "="
	}
	w.last = st
	t.Op(fmt.Sprintf("%d %s %s", res.status, w.bodyDigest(sh.path, res), sts), "req", method, sh.path, c.enc, b.enc)
	t.Note("status=" + fmt.Sprint(res.status))
	t.Note("cred=" + c.kind)

	what := fmt.Sprintf("%s %s [%s] body %s -> %d", method, sh.path, c.name, b.enc, res.status)

	// F25 (fixed by b111378): a request with NO Authorization header never
	// changes a password, whatever is stored for the user (type "wildcard",
	// the empty password)
	if c.header == "" && sh.pwUser != "" {
		t.Checked("C17.own_password_needs_credentials")
		if changed || (method != "OPTIONS" && res.status >= 200 && res.status < 300) {
			t.Fail("C17", "own_password_needs_credentials",
				fmt.Sprintf("a request without Authorization header was accepted at the password endpoint: %s (stored password of %q: %s)",
					what, sh.pwUser, w.storedPwDigest(pre, sh.pwGroup, sh.pwUser)))
		}
	}
	// (a) a credential that is no administrator of the addressed scope (and
	// does not present the user's own current password at the password
	// endpoint) is refused: 401, or 404 for a path that does not exist (a
	// preflight gets its 200), nothing on disk changes, no secret in the body
	isAdmin := !sh.noRoute && c.admin(sh.scope)
	if !isAdmin && !ownPw {
		t.Checked("C17.refused_no_effect")
		okStatus := res.status == 401 || res.status == 404 || (method == "OPTIONS" && res.status == 200)
		if sh.noRoute {
			okStatus = res.status == 404
		}
		if !okStatus {
			t.Fail("C17", "refused_no_effect", "not refused: "+what)
		}
		if changed {
			t.Fail("C17", "refused_no_effect", "files changed by a refused request: "+what)
		}
		if d := w.bodyDigest(sh.path, res); d != "e" && d != "t" {
			t.Fail("C17", "refused_no_effect", "data in the answer to a refused request: "+what+" body "+res.body)
		}
	}
	if !isAdmin && ownPw {
		// the exception covers the password of that user and nothing else
		t.Checked("C17.own_password_only")
		t.Note("own-password")
		if changed {
			w.checkOnlyPassword(sh, filesBefore, what)
		}
	}
	// a preflight never has an effect
	if method == "OPTIONS" {
		t.Checked("C17.preflight_no_effect")
		if changed {
			t.Fail("C17", "preflight_no_effect", "files changed by OPTIONS: "+what)
		}
	}
	// (b) no response, for anybody, contains a password, hash or key
	t.Checked("C17.no_secret_in_body")
	if l := w.leaked(res.body); len(l) > 0 {
		t.Fail("C17", "no_secret_in_body", fmt.Sprintf("%s: body contains %v", what, l))
	}
	// (c) an update keeps what it does not address
	if isAdmin && changed {
		w.checkPreserve(method, sh, filesBefore, what)
	}
	// tokens of other groups are out of reach of a path through this group
	if strings.Contains(sh.path, "/.tokens/") {
		t.Checked("C17.token_scope")
		w.checkTokenScope(sh, tokBefore, post.tokens, res, what)
	}
	if isAdmin {
		t.Nontrivial(fmt.Sprintf("%s|%s|%s", method, sh.path, c.kind))
	}
	return res
}

// parsed group file: users, wildcard user, keys as raw JSON
type parsedGroup struct {
	users map[string]json.RawMessage
	wild  string
	keys  string
	rest  map[string]string
}

// canon re-marshals a JSON value (object keys sorted), "" for absent.
func canon(raw json.RawMessage) string {
	if len(raw) == 0 {
		return ""
	}
	var v any
	if json.Unmarshal(raw, &v) != nil {
		return string(raw)
	}
	b, _ := json.Marshal(v)
	return string(b)
}

func parseGroup(b []byte) parsedGroup {
	var m map[string]json.RawMessage
	json.Unmarshal(b, &m)
	p := parsedGroup{users: map[string]json.RawMessage{}, rest: map[string]string{}}
	var us map[string]json.RawMessage
	json.Unmarshal(m["users"], &us)
	for n, u := range us {
		p.users[n] = json.RawMessage(canon(u))
	}
	p.wild = canon(m["wildcard-user"])
	p.keys = canon(m["authKeys"])
	for k, v := range m {
		if k != "users" && k != "wildcard-user" && k != "authKeys" {
			p.rest[k] = canon(v)
		}
	}
	return p
}

func userPwRaw(u json.RawMessage) string {
	var m map[string]json.RawMessage
	json.Unmarshal(u, &m)
	return canon(m["password"])
}

// addressed: which group file and which part of it a path addresses.
// part: "desc" (the description without users/keys), "user:<name>",
// "password:<name>", "wildcard", "wildcard-password", "keys", "" (nothing)
func addressed(sh shape) (file string, part string) {
	p := sh.path
	if !strings.HasPrefix(p, apiPrefix) {
		return "", ""
	}
	p = p[len(apiPrefix):]
	i := strings.Index(p, "/.")
	if i < 0 {
		return strings.TrimRight(p, "/"), "desc"
	}
	g, rest := p[:i], p[i+1:]
	switch {
	case rest == ".keys":
		return g, "keys"
	case rest == ".wildcard-user":
		return g, "wildcard"
	case rest == ".wildcard-user/.password":
		return g, "wildcard-password"
	case rest == ".empty-user":
		return g, "user:"
	case rest == ".empty-user/.password":
		return g, "password:"
	case strings.HasPrefix(rest, ".users/"):
		u := rest[len(".users/"):]
		if strings.HasSuffix(u, "/.password") {
			return g, "password:" + strings.TrimSuffix(u, "/.password")
		}
		if !strings.Contains(u, "/.") && u != "" {
			return g, "user:" + u
		}
	}
	return g, ""
}

// checkPreserve: monitor (c).  After a request that changed the files, every
// other group file is byte-identical, and in the addressed file everything
// the request does not address is unchanged.
func (w *world) checkPreserve(method string, sh shape, before map[string][]byte, what string) {
	t := w.t
	t.Checked("C17.preserve")
	file, part := addressed(sh)
	after := w.current().groups
	for n, b := range before {
		if n == file {
			continue
		}
		if a, ok := after[n]; !ok || string(a) != string(b) {
			t.Fail("C17", "preserve", fmt.Sprintf("%s: the file of group %s changed", what, n))
		}
	}
	for n := range after {
		if _, ok := before[n]; !ok && n != file {
			t.Fail("C17", "preserve", fmt.Sprintf("%s: a file for group %s appeared", what, n))
		}
	}
	bb, okb := before[file]
	ab, oka := after[file]
	if !okb || !oka {
		// created or deleted: the whole group is addressed (DELETE .groups/g,
		// or PUT of a new group, which must start without users and keys)
		if oka && !okb {
			p := parseGroup(ab)
			if len(p.users) > 0 || p.wild != "" || p.keys != "" {
				t.Fail("C17", "preserve", what+": a created group has users or keys")
			}
		}
		if okb && !oka && !(method == "DELETE" && part == "desc") {
			t.Fail("C17", "preserve", what+": the group file disappeared")
		}
		return
	}
	pb, pa := parseGroup(bb), parseGroup(ab)
	for n, u := range pb.users {
		switch part {
		case "user:" + n:
			// the definition is addressed, the password is not (DELETE removes the user)
			if au, ok := pa.users[n]; ok && userPwRaw(au) != userPwRaw(u) {
				t.Fail("C17", "preserve", fmt.Sprintf("%s: the password of %q changed", what, n))
			}
		case "password:" + n:
			if au, ok := pa.users[n]; !ok {
				t.Fail("C17", "preserve", fmt.Sprintf("%s: user %q disappeared", what, n))
			} else {
				var x, y map[string]json.RawMessage
				json.Unmarshal(u, &x)
				json.Unmarshal(au, &y)
				if canon(x["permissions"]) != canon(y["permissions"]) {
					t.Fail("C17", "preserve", fmt.Sprintf("%s: the permissions of %q changed", what, n))
				}
			}
		default:
			if au, ok := pa.users[n]; !ok || string(au) != string(u) {
				t.Fail("C17", "preserve", fmt.Sprintf("%s: user %q was altered or removed", what, n))
			}
		}
	}
	for n := range pa.users {
		if _, ok := pb.users[n]; !ok && part != "user:"+n {
			t.Fail("C17", "preserve", fmt.Sprintf("%s: user %q appeared", what, n))
		}
	}
	switch part {
	case "wildcard":
		if pb.wild != "" && pa.wild != "" && userPwRaw(json.RawMessage(pb.wild)) != userPwRaw(json.RawMessage(pa.wild)) {
			t.Fail("C17", "preserve", what+": the password of the wildcard user changed")
		}
	case "wildcard-password":
		if pa.wild == "" {
			t.Fail("C17", "preserve", what+": the wildcard user disappeared")
		}
	default:
		if pa.wild != pb.wild {
			t.Fail("C17", "preserve", what+": the wildcard user was altered")
		}
	}
	if part != "keys" && pa.keys != pb.keys {
		t.Fail("C17", "preserve", what+": the keys were altered")
	}
	if part != "desc" {
		for k, v := range pb.rest {
			if pa.rest[k] != v {
				t.Fail("C17", "preserve", fmt.Sprintf("%s: field %s changed", what, k))
			}
		}
		for k := range pa.rest {
			if _, ok := pb.rest[k]; !ok {
				t.Fail("C17", "preserve", fmt.Sprintf("%s: field %s appeared", what, k))
			}
		}
	}
}

// checkOnlyPassword: a change made under the own-password exception touches
// the password of that user only.
func (w *world) checkOnlyPassword(sh shape, before map[string][]byte, what string) {
	cur := w.current().groups
	for n, b := range before {
		if n == sh.pwGroup {
			pb, pa := parseGroup(b), parseGroup(cur[n])
			for un, u := range pb.users {
				if un == sh.pwUser {
					var x, y map[string]json.RawMessage
					json.Unmarshal(u, &x)
					json.Unmarshal(pa.users[un], &y)
					if _, ok := pa.users[un]; !ok || canon(x["permissions"]) != canon(y["permissions"]) {
						w.t.Fail("C17", "own_password_only", fmt.Sprintf("%s: user %q removed or permissions changed", what, un))
					}
					continue
				}
				if string(pa.users[un]) != string(u) {
					w.t.Fail("C17", "own_password_only", fmt.Sprintf("%s: user %q altered", what, un))
				}
			}
			if pa.wild != pb.wild || pa.keys != pb.keys {
				w.t.Fail("C17", "own_password_only", what+": wildcard user or keys altered")
			}
			continue
		}
		if string(cur[n]) != string(b) {
			w.t.Fail("C17", "own_password_only", fmt.Sprintf("%s: group %s altered", what, n))
		}
	}
}

// checkTokenScope: through a path of group g, a token of another group is
// neither shown nor changed nor removed.
func (w *world) checkTokenScope(sh shape, before, after string, res result, what string) {
	_, g, ok := tokenPath(sh.path)
	if !ok {
		return
	}
	lines := func(s string) map[string]string {
		m := map[string]string{}
		for _, l := range strings.Split(s, "\n") {
			var t struct {
				Token string `json:"token"`
				Group string `json:"group"`
			}
			if json.Unmarshal([]byte(l), &t) == nil && t.Token != "" {
				m[t.Token] = t.Group + "\x00" + l
			}
		}
		return m
	}
	b, a := lines(before), lines(after)
	for tok, v := range b {
		grp := v[:strings.Index(v, "\x00")]
		if grp == g {
			continue
		}
		if av, ok := a[tok]; !ok || canonJSON(av) != canonJSON(v) {
			w.t.Fail("C17", "token_scope", fmt.Sprintf("%s: token %s of group %q changed through group %q", what, tok, grp, g))
		}
	}
	name, _, _ := tokenPath(sh.path)
	if v, ok := b[name]; ok && name != "" {
		grp := v[:strings.Index(v, "\x00")]
		if grp != g && res.status == 200 && w.bodyDigest(sh.path, res) == "tok" {
			w.t.Fail("C17", "token_scope", fmt.Sprintf("%s: token %s of group %q shown through group %q", what, name, grp, g))
		}
	}
}

func canonJSON(s string) string {
	i := strings.Index(s, "\x00")
	var v any
	if json.Unmarshal([]byte(s[i+1:]), &v) != nil {
		return s
	}
	b, _ := json.Marshal(v)
	return string(b)
}

// tokenPath: (token name, group, ok) of /galene-api/v0/.groups/<g>/.tokens/<t>
func tokenPath(p string) (string, string, bool) {
	if !strings.HasPrefix(p, apiPrefix[:len(apiPrefix)-1]) {
		return "", "", false
	}
	p = p[len(apiPrefix)-1:]
	i := strings.Index(p, "/.tokens/")
	if i < 0 {
		return "", "", false
	}
	g := strings.TrimPrefix(p[:i], "/")
	return p[i+len("/.tokens/"):], g, true
}

var _ = bcrypt.MinCost
